(* C17: djs_median(width, boundary='reflect') in one dimension.  Padding the array with its reversed ends,
   median-filtering and cutting the middle out (M) is the median over the symmetrically reflected
   window (S); the median is the middle order statistic. *)
From Coq Require Import ZArith List Bool Lia Permutation.
Import ListNotations.
From PV Require Import C17.Model.
Open Scope Z_scope.

Lemma zrange_S : forall lo n, zrange lo (S n) = lo :: zrange (lo + 1) n.
Proof.
  intros. unfold zrange. cbn [seq map]. f_equal; [lia|].
  rewrite <- seq_shift, map_map. apply map_ext. intros k. lia.
Qed.

Lemma zrange_app : forall a lo b, zrange lo (a + b) = zrange lo a ++ zrange (lo + Z.of_nat a) b.
Proof.
  induction a as [|a IH]; intros lo b.
  - cbn [plus]. replace (lo + Z.of_nat 0) with lo by lia. reflexivity.
  - change (S a + b)%nat with (S (a + b)). rewrite !zrange_S, IH. cbn [app]. do 3 f_equal. lia.
Qed.

Lemma zrange_len : forall lo n, length (zrange lo n) = n.
Proof. intros. unfold zrange. rewrite map_length, seq_length. reflexivity. Qed.

Lemma zrange_In : forall lo n j, In j (zrange lo n) <-> lo <= j < lo + Z.of_nat n.
Proof.
  intros. unfold zrange. rewrite in_map_iff. split.
  - intros (k & <- & H). apply in_seq in H. lia.
  - intros H. exists (Z.to_nat (j - lo)). split; [lia | apply in_seq; lia].
Qed.

Lemma zrange_shift : forall c lo n, zrange (c + lo) n = map (fun j => c + j) (zrange lo n).
Proof. intros. unfold zrange. rewrite map_map. apply map_ext. intros k. lia. Qed.

Lemma skipn_exact : forall {A} (a b : list A), skipn (length a) (a ++ b) = b.
Proof. induction a; intros; cbn; auto. Qed.
Lemma firstn_exact : forall {A} (a b : list A), firstn (length a) (a ++ b) = a.
Proof. induction a; intros; cbn; [reflexivity | f_equal; auto]. Qed.

Lemma cut_middle : forall {A} (a b c : list A) p n, length a = p -> length b = n ->
  firstn n (skipn p (a ++ b ++ c)) = b.
Proof. intros A a b c p n <- <-. rewrite skipn_exact, firstn_exact. reflexivity. Qed.

Lemma nth_firstn_lt : forall {A} a (l : list A) k d, (k < a)%nat -> nth k (firstn a l) d = nth k l d.
Proof.
  induction a as [|a IH]; intros l k d H; [lia|]. destruct l as [|x l]; [reflexivity|].
  destruct k as [|k]; [reflexivity|]. cbn. apply IH. lia.
Qed.
Lemma nth_skipn_add : forall {A} a (l : list A) k d, nth k (skipn a l) d = nth (a + k) l d.
Proof.
  induction a as [|a IH]; intros l k d; [reflexivity|]. destruct l as [|x l]; [destruct k; reflexivity|].
  cbn. apply IH.
Qed.

(* the periodic definition is the single reflection -1-j / 2n-1-j within one array length of the ends *)
Lemma reflect_single : forall n j, 0 < n -> - n <= j < 2 * n ->
  reflect n j = if j <? 0 then - 1 - j else if n <=? j then 2 * n - 1 - j else j.
Proof.
  intros n j Hn Hj. unfold reflect. destruct (j <? 0) eqn:E1.
  - apply Z.ltb_lt in E1. assert (E : j mod (2 * n) = j + 2 * n) by (symmetry; apply Z.mod_unique with (q := -1); lia).
    rewrite E. replace (j + 2 * n <? n) with false by (symmetry; apply Z.ltb_ge; lia). lia.
  - apply Z.ltb_ge in E1. rewrite Z.mod_small by lia. destruct (n <=? j) eqn:E2.
    + apply Z.leb_le in E2. replace (j <? n) with false by (symmetry; apply Z.ltb_ge; lia). reflexivity.
    + apply Z.leb_gt in E2. replace (j <? n) with true by (symmetry; apply Z.ltb_lt; lia). reflexivity.
Qed.

Lemma reflect_range : forall n j, 0 < n -> 0 <= reflect n j < n.
Proof.
  intros n j Hn. unfold reflect. pose proof (Z.mod_pos_bound j (2 * n) ltac:(lia)).
  destruct (j mod (2 * n) <? n) eqn:E; [apply Z.ltb_lt in E | apply Z.ltb_ge in E]; lia.
Qed.

(* the padded array holds the reflected samples *)
Lemma big_nth : forall xs pad j, (1 <= pad <= length xs)%nat ->
  - Z.of_nat pad <= j < Z.of_nat (length xs) + Z.of_nat pad ->
  nthz (rev (firstn pad xs) ++ xs ++ rev (skipn (length xs - pad) xs)) (Z.of_nat pad + j) =
  nth (Z.to_nat (reflect (Z.of_nat (length xs)) j)) xs 0.
Proof.
  intros xs pad j Hp Hj. unfold nthz.
  replace (Z.of_nat pad + j <? 0) with false by (symmetry; apply Z.ltb_ge; lia).
  rewrite reflect_single by lia.
  assert (L1 : length (rev (firstn pad xs)) = pad) by (rewrite rev_length, firstn_length; lia).
  assert (L2 : length (rev (skipn (length xs - pad) xs)) = pad) by (rewrite rev_length, skipn_length; lia).
  destruct (j <? 0) eqn:E1.
  - apply Z.ltb_lt in E1. rewrite app_nth1 by lia.
    rewrite rev_nth by (rewrite firstn_length; lia). rewrite firstn_length.
    rewrite nth_firstn_lt by lia. f_equal. lia.
  - apply Z.ltb_ge in E1. rewrite app_nth2 by lia. rewrite L1. destruct (Z.of_nat (length xs) <=? j) eqn:E2.
    + apply Z.leb_le in E2. rewrite app_nth2 by lia.
      rewrite rev_nth by (rewrite skipn_length; lia). rewrite skipn_length, nth_skipn_add. f_equal. lia.
    + apply Z.leb_gt in E2. rewrite app_nth1 by lia. f_equal. lia.
Qed.

(* M = S for odd widths 2h+1 >= 3 when the padding h+1 fits into the array *)
Theorem median_reflect_model_eq_spec : forall xs (h : nat), (1 <= h)%nat -> (h + 1 <= length xs)%nat ->
  median_reflect_model xs (2 * Z.of_nat h + 1) = MOk (median_reflect_spec xs (2 * Z.of_nat h + 1)).
Proof.
  intros xs h Hh Hn. unfold median_reflect_model.
  set (w := 2 * Z.of_nat h + 1). set (n := length xs).
  replace (w =? 1) with false by (symmetry; apply Z.eqb_neq; lia).
  assert (Ew : (w + 1) / 2 = Z.of_nat h + 1) by (symmetry; apply Z.div_unique with (r := 0); lia).
  rewrite Ew. replace (Z.to_nat (Z.of_nat h + 1)) with (h + 1)%nat by lia.
  replace (n <? h + 1)%nat with false by (symmetry; apply Nat.ltb_ge; lia). cbn [andb].
  assert (Emin : Z.min w (Z.of_nat (n + 2 * (h + 1))) = w) by lia. rewrite Emin.
  assert (Ev : Z.even w = false) by (unfold w; replace (2 * Z.of_nat h + 1) with (1 + 2 * Z.of_nat h) by lia; rewrite Z.even_add_mul_2; reflexivity).
  rewrite Ev.
  f_equal.
  set (pad := (h + 1)%nat). set (big := rev (firstn pad xs) ++ xs ++ rev (skipn (n - pad) xs)).
  assert (LB : length big = (pad + (n + pad))%nat)
    by (unfold big; rewrite !app_length, !rev_length, firstn_length, skipn_length; fold n; lia).
  unfold pydl_median1. rewrite LB.
  rewrite zrange_app, zrange_app, !map_app.
  rewrite cut_middle by (rewrite map_length, zrange_len; reflexivity).
  unfold median_reflect_spec. fold n.
  replace (0 + Z.of_nat pad) with (Z.of_nat pad + 0) by lia. rewrite zrange_shift, map_map.
  apply map_ext_in. intros k Hk. apply zrange_In in Hk.
  assert (E1 : (w - 1) / 2 = Z.of_nat h) by (symmetry; apply Z.div_unique with (r := 0); lia).
  assert (E2 : Z.min w (Z.of_nat (pad + (n + pad))) = w) by lia.
  assert (E3 : w / 2 = Z.of_nat h) by (symmetry; apply Z.div_unique with (r := 1); lia).
  rewrite E1, E2, E3, Ew.
  replace (Z.of_nat pad + k <? Z.of_nat h) with false by (symmetry; apply Z.ltb_ge; lia).
  replace (Z.of_nat (pad + (n + pad)) - (Z.of_nat h + 1) <? Z.of_nat pad + k) with false by (symmetry; apply Z.ltb_ge; lia).
  cbn [orb]. f_equal.
  replace (Z.of_nat pad + k - Z.of_nat h) with (Z.of_nat pad + (k - Z.of_nat h)) by lia.
  rewrite zrange_shift, map_map. apply map_ext_in. intros j Hj. apply zrange_In in Hj.
  apply big_nth; [unfold pad; fold n; lia | fold n; unfold pad; lia].
Qed.

(* ---------------------------------------------------------------- median_of is the middle order statistic *)

Fixpoint zsorted (l : list Z) : Prop :=
  match l with [] => True | a :: r => (forall b, In b r -> a <= b) /\ zsorted r end.

Lemma zinsert_perm : forall a l, Permutation (a :: l) (zinsert a l).
Proof.
  induction l as [|b l IH]; cbn [zinsert]; [apply Permutation_refl|].
  destruct (a <=? b); [apply Permutation_refl|].
  apply perm_trans with (b :: a :: l); [apply perm_swap | apply perm_skip, IH].
Qed.

Lemma zinsert_sorted : forall a l, zsorted l -> zsorted (zinsert a l).
Proof.
  induction l as [|b l IH]; intros Hs; cbn [zinsert]; [split; [intros ? []|exact I]|].
  destruct Hs as [S1 S2]. destruct (a <=? b) eqn:E.
  - apply Z.leb_le in E. split; [|split; assumption]. intros c [<-|Hc]; [exact E | specialize (S1 c Hc); lia].
  - apply Z.leb_gt in E. split; [|apply IH, S2].
    intros c Hc. apply (Permutation_in _ (Permutation_sym (zinsert_perm a l))) in Hc.
    destruct Hc as [<-|Hc]; [lia | apply S1, Hc].
Qed.

Lemma zsort_perm : forall l, Permutation l (zsort l).
Proof.
  induction l as [|a l IH]; [apply perm_nil|]. cbn [zsort].
  apply perm_trans with (a :: zsort l); [apply perm_skip, IH | apply zinsert_perm].
Qed.

Lemma zsort_sorted : forall l, zsorted (zsort l).
Proof. induction l as [|a l IH]; [exact I|]. cbn [zsort]. apply zinsert_sorted, IH. Qed.

Definition count (f : Z -> bool) (l : list Z) : nat := length (filter f l).

Lemma perm_count : forall f a b, Permutation a b -> count f a = count f b.
Proof.
  intros f a b H. unfold count. induction H; cbn.
  - reflexivity.
  - destruct (f x); cbn; congruence.
  - destruct (f x), (f y); reflexivity.
  - congruence.
Qed.

Lemma count_app : forall f a b, count f (a ++ b) = (count f a + count f b)%nat.
Proof. intros. unfold count. rewrite filter_app, app_length. reflexivity. Qed.

Lemma count_le_length : forall f l, (count f l <= length l)%nat.
Proof. intros. unfold count. induction l as [|a l IH]; cbn; [lia|]. destruct (f a); cbn; lia. Qed.

Lemma count_none : forall f l, (forall x, In x l -> f x = false) -> count f l = O.
Proof.
  intros f l H. unfold count. induction l as [|a l IH]; [reflexivity|]. cbn.
  rewrite (H a (or_introl eq_refl)). apply IH. intros x Hx. apply H. right. exact Hx.
Qed.

Lemma zsorted_skipn : forall k l, zsorted l -> zsorted (skipn k l).
Proof.
  induction k as [|k IH]; intros l H; [exact H|]. destruct l as [|a l]; [exact I|]. apply IH, H.
Qed.

Lemma zsorted_prefix_le : forall h s, zsorted s -> (h < length s)%nat ->
  forall x, In x (firstn (S h) s) -> x <= nth h s 0.
Proof.
  induction h as [|h IH]; intros s Hs Hl x Hx; destruct s as [|a r]; cbn in Hl; try lia.
  - cbn in Hx. destruct Hx as [<-|[]]. cbn. lia.
  - destruct Hs as [S1 S2]. cbn [firstn] in Hx. cbn [nth]. destruct Hx as [<-|Hx].
    + apply S1, nth_In. lia.
    + apply IH; [exact S2 | lia | exact Hx].
Qed.

(* for an odd number 2h+1 of samples: the median is one of them, at most h samples are smaller and at
   most h are larger *)
Theorem median_of_spec : forall l h, length l = (2 * h + 1)%nat ->
  let m := median_of l in
  In m l /\ Nat.le (count (fun x => x <? m) l) h /\ Nat.le (count (fun x => m <? x) l) h.
Proof.
  intros l h Hl m. set (s := zsort l).
  assert (P : Permutation l s) by apply zsort_perm.
  assert (Ls : length s = (2 * h + 1)%nat) by (rewrite <- (Permutation_length P); exact Hl).
  assert (Hs : zsorted s) by apply zsort_sorted.
  assert (Em : m = nth h s 0).
  { unfold m, median_of. fold s. rewrite Hl. replace (2 * h + 1)%nat with (S (2 * h)) by lia.
    rewrite Nat.div2_succ_double. reflexivity. }
  split; [|split].
  - apply (Permutation_in _ (Permutation_sym P)). rewrite Em. apply nth_In. lia.
  - rewrite (perm_count _ _ _ P). rewrite <- (firstn_skipn h s), count_app.
    assert (Z0 : count (fun x => x <? m) (skipn h s) = O).
    { apply count_none. intros x Hx. apply Z.ltb_ge.
      pose proof (zsorted_skipn h s Hs) as Hk. rewrite Em.
      replace (nth h s 0) with (nth 0 (skipn h s) 0) by (rewrite nth_skipn_add; f_equal; lia).
      destruct (skipn h s) as [|a r]; [destruct Hx|]. destruct Hk as [K1 _]. cbn [nth].
      destruct Hx as [<-|Hx]; [lia | apply K1, Hx]. }
    rewrite Z0. pose proof (count_le_length (fun x => x <? m) (firstn h s)). rewrite firstn_length in H. lia.
  - rewrite (perm_count _ _ _ P). rewrite <- (firstn_skipn (S h) s), count_app.
    assert (Z0 : count (fun x => m <? x) (firstn (S h) s) = O).
    { apply count_none. intros x Hx. apply Z.ltb_ge. rewrite Em. apply zsorted_prefix_le; [exact Hs | lia | exact Hx]. }
    rewrite Z0. pose proof (count_le_length (fun x => m <? x) (skipn (S h) s)). rewrite skipn_length in H. lia.
Qed.

Lemma count_total : forall c l, Nat.add (count (fun x => x <? c) l) (count (fun x => c <=? x) l) = length l.
Proof.
  intros c l. unfold count. induction l as [|a r IH]; [reflexivity|]. cbn.
  destruct (a <? c) eqn:E1, (c <=? a) eqn:E2; cbn; lia.
Qed.

Lemma count_mono : forall (f g : Z -> bool) l, (forall x, f x = true -> g x = true) -> Nat.le (count f l) (count g l).
Proof.
  intros f g l Hfg. unfold count. induction l as [|a r IH]; [cbn; lia|]. cbn.
  destruct (f a) eqn:E; [rewrite (Hfg a E); cbn; lia | destruct (g a); cbn; lia].
Qed.

(* ... and these three facts determine it *)
Theorem median_of_unique : forall l h m', length l = (2 * h + 1)%nat ->
  In m' l -> Nat.le (count (fun x => x <? m') l) h -> Nat.le (count (fun x => m' <? x) l) h ->
  m' = median_of l.
Proof.
  intros l h m' Hl Hin Hlo Hhi. destruct (median_of_spec l h Hl) as (Min & Mlo & Mhi).
  set (m := median_of l) in *.
  destruct (Z.lt_trichotomy m' m) as [L|[E|L]]; [|exact E|]; exfalso.
  - (* everything >= m is > m' : more than h samples above m' *)
    pose proof (count_total m l). pose proof (count_mono (fun x => m <=? x) (fun x => m' <? x) l
      ltac:(intros x Hx; apply Z.leb_le in Hx; apply Z.ltb_lt; lia)). lia.
  - pose proof (count_total m' l). pose proof (count_mono (fun x => m' <=? x) (fun x => m <? x) l
      ltac:(intros x Hx; apply Z.leb_le in Hx; apply Z.ltb_lt; lia)). lia.
Qed.

(* ---------------------------------------------------------------- the total statement: ValueError class included *)

Lemma median_const : forall l x, l <> [] -> (forall y, In y l -> y = x) -> median_of l = x.
Proof.
  intros l x Hne Hall. unfold median_of. apply Hall.
  apply (Permutation_in _ (Permutation_sym (zsort_perm l))). apply nth_In.
  rewrite <- (Permutation_length (zsort_perm l)).
  destruct l as [|a l]; [congruence|]. apply Nat.lt_div2. cbn. lia.
Qed.

Lemma median_one_sample : forall x (h : nat), (1 <= h)%nat ->
  median_reflect_model [x] (2 * Z.of_nat h + 1) = MOk (median_reflect_spec [x] (2 * Z.of_nat h + 1)).
Proof.
  intros x h Hh. unfold median_reflect_model. set (w := 2 * Z.of_nat h + 1).
  replace (w =? 1) with false by (symmetry; apply Z.eqb_neq; lia).
  assert (Ew : (w + 1) / 2 = Z.of_nat h + 1) by (symmetry; apply Z.div_unique with (r := 0); lia).
  rewrite Ew. replace (Z.to_nat (Z.of_nat h + 1)) with (h + 1)%nat by lia. cbn [length].
  replace (1 <? h + 1)%nat with true by (symmetry; apply Nat.ltb_lt; lia). cbn [Nat.eqb negb andb].
  assert (Emin : Z.min w (Z.of_nat (1 + 2 * (h + 1))) = w) by lia. rewrite Emin.
  assert (Ev : Z.even w = false) by (unfold w; replace (2 * Z.of_nat h + 1) with (1 + 2 * Z.of_nat h) by lia; rewrite Z.even_add_mul_2; reflexivity).
  rewrite Ev. f_equal. cbn [nth].
  set (pad := (h + 1)%nat). set (big := repeat x pad ++ [x] ++ repeat x pad).
  assert (LB : length big = (pad + (1 + pad))%nat) by (unfold big; rewrite !app_length, !repeat_length; reflexivity).
  assert (Hbig : forall y, In y big -> y = x).
  { intros y Hy. unfold big in Hy. apply in_app_or in Hy as [Hy|Hy]; [apply repeat_spec in Hy; exact Hy|].
    apply in_app_or in Hy as [[Hy|[]]|Hy]; [congruence | apply repeat_spec in Hy; exact Hy]. }
  unfold pydl_median1. rewrite LB, zrange_app, zrange_app, !map_app.
  rewrite cut_middle by (rewrite map_length, zrange_len; reflexivity).
  unfold median_reflect_spec. cbn [length]. rewrite !zrange_S. cbn [zrange seq map].
  assert (E1 : (w - 1) / 2 = Z.of_nat h) by (symmetry; apply Z.div_unique with (r := 0); lia).
  assert (E2 : Z.min w (Z.of_nat (pad + (1 + pad))) = w) by lia.
  assert (E3 : w / 2 = Z.of_nat h) by (symmetry; apply Z.div_unique with (r := 1); lia).
  rewrite E1, E2, E3, Ew.
  replace (0 + Z.of_nat pad <? Z.of_nat h) with false by (symmetry; apply Z.ltb_ge; lia).
  replace (Z.of_nat (pad + (1 + pad)) - (Z.of_nat h + 1) <? 0 + Z.of_nat pad) with false by (symmetry; apply Z.ltb_ge; lia).
  cbn [orb]. f_equal.
  assert (Wne : forall lo, zrange lo (Z.to_nat w) <> []) by (intros lo; replace (Z.to_nat w) with (S (2 * h)) by lia; rewrite zrange_S; discriminate).
  rewrite (median_const _ x); [rewrite (median_const _ x); [reflexivity| |]| |].
  - intros F. apply map_eq_nil in F. exact (Wne _ F).
  - intros y Hy. apply in_map_iff in Hy as (j & <- & _).
    pose proof (reflect_range (Z.of_nat 1) j ltac:(lia)) as R.
    replace (Z.to_nat (reflect (Z.of_nat 1) j)) with O by lia. reflexivity.
  - intros F. apply map_eq_nil in F. exact (Wne _ F).
  - intros y Hy. apply in_map_iff in Hy as (j & <- & Hj). apply zrange_In in Hj.
    unfold nthz. replace (j <? 0) with false by (symmetry; apply Z.ltb_ge; lia).
    apply Hbig, nth_In. rewrite LB. lia.
Qed.

(* M = S (total) for every width >= 1 and every non-empty array: the model raises ValueError exactly where the
   specification says the call is refused *)
Theorem median_reflect_model_total : forall xs w, 1 <= w -> xs <> [] ->
  median_reflect_model xs w = median_reflect_total_spec xs w.
Proof.
  intros xs w Hw Hne. destruct (Z.eq_dec w 1) as [->|N1]; [reflexivity|].
  assert (Hn : (1 <= length xs)%nat) by (destruct xs; [congruence | cbn; lia]).
  destruct (Z.even w) eqn:Ev.
  - unfold median_reflect_model, median_reflect_total_spec. rewrite Ev.
    replace (w =? 1) with false by (symmetry; apply Z.eqb_neq; exact N1).
    destruct ((length xs <? Z.to_nat ((w + 1) / 2))%nat && negb (length xs =? 1)%nat); [reflexivity|].
    assert (Emin : Z.min w (Z.of_nat (length xs + 2 * Z.to_nat ((w + 1) / 2))) = w).
    { assert (w <= 2 * ((w + 1) / 2)) by (pose proof (Z.div_mod (w + 1) 2 ltac:(lia)); pose proof (Z.mod_pos_bound (w + 1) 2 ltac:(lia)); lia). lia. }
    rewrite Emin, Ev. reflexivity.
  - (* odd w >= 3: w = 2h+1 *)
    assert (Hodd : w = 2 * ((w - 1) / 2) + 1).
    { pose proof (Zeven_odd_dec w). rewrite <- Z.negb_odd in Ev. apply negb_false_iff in Ev.
      apply Z.odd_spec in Ev as [k Hk]. subst w. replace (2 * k + 1 - 1) with (k * 2) by lia. rewrite Z.div_mul by lia. lia. }
    set (h := Z.to_nat ((w - 1) / 2)).
    assert (Hh : (1 <= h)%nat) by (unfold h; lia).
    assert (Ewh : w = 2 * Z.of_nat h + 1) by (unfold h; lia).
    assert (Epad : Z.to_nat ((w + 1) / 2) = (h + 1)%nat).
    { rewrite Ewh. replace (2 * Z.of_nat h + 1 + 1) with ((Z.of_nat h + 1) * 2) by lia. rewrite Z.div_mul by lia. lia. }
    unfold median_reflect_total_spec. rewrite Ev, Epad.
    replace (w =? 1) with false by (symmetry; apply Z.eqb_neq; exact N1).
    destruct (length xs <? h + 1)%nat eqn:Es; [destruct (length xs =? 1)%nat eqn:E1|]; cbn [negb andb].
    + apply Nat.eqb_eq in E1. destruct xs as [|x [|y r]]; try discriminate. rewrite Ewh. apply median_one_sample, Hh.
    + unfold median_reflect_model. replace (w =? 1) with false by (symmetry; apply Z.eqb_neq; exact N1).
      rewrite Epad, Es, E1. reflexivity.
    + apply Nat.ltb_ge in Es. rewrite Ewh. apply median_reflect_model_eq_spec; assumption.
Qed.
