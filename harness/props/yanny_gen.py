"""Shared by C01, C02 (and C03): generators of logical yanny documents, the Python view of the
specification (what a read must return), and builders of Coq literals for coq/Yanny/{Types,Render}.v.

A document (DOC) is a JSON-able dict, see harness/impl/c01_impl.py.  Float cells are {'f': bits} (raw bit
pattern in the column's width); their TEXT (what numpy prints) is computed here with numpy and is what the
Coq model carries -- float formatting/parsing is an oracle, validated by `oracle_check`.
"""
import math
import re
import struct

import numpy as np

from harness import common as C

# ----------------------------------------------------------------------------------------------
# floats as text (the oracle)

def bits_to_float(code, bits):
    if code == 'f4':
        return np.frombuffer(struct.pack('<I', bits), dtype='<f4')[0]
    return np.frombuffer(struct.pack('<Q', bits), dtype='<f8')[0]


def float_text(code, bits):
    return str(bits_to_float(code, bits))


def float_bits(x, width):
    if width == 4:
        return int(np.array([x], dtype='<f4').view('<u4')[0])
    return int(np.array([x], dtype='<f8').view('<u8')[0])


SPECIAL32 = [0x00000000, 0x80000000, 0x00000001, 0x80000001, 0x007fffff, 0x00800000, 0x7f7fffff, 0xff7fffff,
             0x7f800000, 0xff800000, 0x7fc00000, 0xffc00001, 0x7f800001, 0x3f800000, 0x3dcccccd, 0x4b800000,
             0x4b7fffff, 0x3f7fffff, 0x00400000, 0x501502f9, 0x60ad78ec]
SPECIAL64 = [0x0000000000000000, 0x8000000000000000, 0x0000000000000001, 0x8000000000000001, 0x000fffffffffffff,
             0x0010000000000000, 0x7fefffffffffffff, 0xffefffffffffffff, 0x7ff0000000000000, 0xfff0000000000000,
             0x7ff8000000000000, 0xfff8000000000001, 0x7ff0000000000001, 0x3ff0000000000000, 0x3fb999999999999a,
             0x4340000000000000, 0x433fffffffffffff, 0x3fefffffffffffff, 0x0008000000000000, 0x4202a05f20000000,
             0x44b52d02c7e14af6]


def rand_float_bits(rng, code):
    t = rng.random()
    if code == 'f4':
        if t < 0.3:
            return rng.choice(SPECIAL32)
        if t < 0.5:   # "ordinary" numbers
            return float_bits(np.float32(round(rng.uniform(-1000, 1000), rng.randint(0, 4))), 4)
        return rng.getrandbits(32)
    if t < 0.3:
        return rng.choice(SPECIAL64)
    if t < 0.5:
        return float_bits(round(rng.uniform(-1e6, 1e6), rng.randint(0, 6)), 8)
    return rng.getrandbits(64)


def bare_ok_py(t):
    return (len(t) > 0 and re.search(r'[\s#"}\\]', t) is None and not t.startswith('{') and 'typedef' not in t
            and all(32 <= ord(c) <= 126 for c in t))


def oracle_check(rng, n):
    """The two oracle hypotheses on numpy's float text, on n random bit patterns per width plus the specials:
    float32(float(str(x))) is x bit-for-bit (NaN stays NaN), str(x) is a bare token."""
    bad = []
    for code, specials, nb in (('f4', SPECIAL32, 32), ('f8', SPECIAL64, 64)):
        pats = list(specials) + [rng.getrandbits(nb) for _ in range(n)]
        for b in pats:
            x = bits_to_float(code, b)
            t = str(x)
            y = np.float32(float(t)) if code == 'f4' else np.float64(float(t))
            same = (np.isnan(x) and np.isnan(y)) or float_bits(y, 4 if code == 'f4' else 8) == b
            if not same or not bare_ok_py(t):
                bad.append((code, b, t))
    return bad


# ----------------------------------------------------------------------------------------------
# generators

TABLE_NAMES = ['FOO', 'FOOBAR', 'BAR', 'foo_x', 'OBJ', 'OBJECT', 'S', 'T', 'E', 'A', 'MAG', 'Status', 'mytable',
               'X1', '_t', 'Flags', 'ID', 'RA', 'NAME', 'Dec', 'char', 'INT', 'R', 'C', 'struct', 'typ', 'B', 'N_1']
COL_NAMES = ['a', 'b', 'foo', 'mag', 'flags', 'x', 'y', 'name', 'id', 's', 't', 'obj', 'bar', 'e', 'ra', 'dec',
             'r', 'c', 'foobar', 'A', 'S', 'object', 'x1', 'n_1', 'status', 'Mag', 'int', 'chars', 'mytable']
ENUM_COLS = ['new_flag', 'state', 'kind']
ENUM_TYPES = [('BOOLEAN', ['FALSE', 'TRUE']), ('STATUS', ['FAILURE', 'INCOMPLETE', 'SUCCESS']),
              ('Kind_t', ['STAR', 'GALAXY', 'QSO', 'SKY_FIBER']), ('ONE', ['ONLY']), ('abc', ['a', 'B', 'c_1', 'FOO'])]
SEAM_STRINGS = ['', ' ', '\t', '  ', '#', '#a', 'a#b', 'ab#', '# #', ';', 'a;b', 'x;', '{}', 'a{}b', 'a{b}c', 'x{{}}',
                'a{{}}b', 'a { { } } b', 'x {{}}', 'a{{{}}', 'a {{{}} b', '}{{}}', '{{}}'[1:] + 'x', ' lead', 'trail ', ' both ', '12345', '-7', '0',
                'a b', 'a\tb', "it's", 'back\\slash', '\\', 'a\\ b', '\\ ', 'x}', '}', '}{', 'a}b', 'FOO', 'S',
                'typedef'[1:], 'struct', 'enum {', 'nan', '1e5', '""'[:0] + 'q', ',', '.', '[3]', '<3>', 'a[1]',
                'null', 'True', "'q'", '$x', '~', '%s', '{0}', 'a=b', 'end\\x'[:-1] + 'y', 'tab\t', '\tt']
HDR_VALUES = ['v', 'a b', 'x ; y', 'semi;', '12', '', 'tab\there', 'a  b', '1.5e3', "it's", 'x=y', 'p/q/r.par',
              '[1,2]', 'a}b', 'back\\slash x', '(c) 2026', 'A;B;C;', '<3>', 'FOO', 'value with   many   blanks']
HDR_KEYS = ['keyword1', 'keyword2', 'mjd', 'alpha', 'name', 'k', 'K2', '_x', 'version', 'Foo_key', 'typed', 'hdr']
COMMENTS = ['c', 'This is a test', 'another # comment', 'x  y', 'Created by harness', '', 'semi; colon',
            'a "quoted" word', 'FOO 1 2 3', 'mjd 5']
PRINTABLE = [chr(c) for c in range(32, 127) if chr(c) != '"']


def rand_string(rng, maxlen, names, elt):
    t = rng.random()
    if t < 0.55:
        pool = [s for s in SEAM_STRINGS + names if len(s) <= maxlen]
        s = rng.choice(pool)
    else:
        n = rng.randint(0, maxlen)
        s = ''.join(rng.choice(PRINTABLE + ['\t', ' ', ' ', '#', '{', '}']) for _ in range(n))
    if s.startswith('{'):
        s = 'x' + s[1:]
    if elt:
        s = s.replace('}', ')')
    if 'typedef' in s:
        s = s.replace('typedef', 'typedeg')
    return s


INT_RANGE = {'i2': (-2 ** 15, 2 ** 15 - 1), 'i4': (-2 ** 31, 2 ** 31 - 1), 'i8': (-2 ** 63, 2 ** 63 - 1)}


def rand_int(rng, code):
    lo, hi = INT_RANGE[code]
    t = rng.random()
    if t < 0.35:
        return rng.choice([lo, hi, 0, -1, 1, lo + 1, hi - 1])
    if t < 0.6:
        return rng.randint(-100, 100)
    return rng.randint(lo, hi)


def rand_scalar(rng, col, names, elt, enums):
    code = col['code']
    if code in INT_RANGE:
        return rand_int(rng, code)
    if code in ('f4', 'f8'):
        return {'f': rand_float_bits(rng, code)}
    e = enums.get(col['name']) if enums else None
    if e is not None:
        return rng.choice(e[1])
    return rand_string(rng, int(code[1:]), names, elt)


def gen_doc(rng, entry='ndarray', ntables=None, allow_u=True, max_rows=6):
    """A random in-domain document (doc_ok holds by construction)."""
    if entry != 'ndarray':
        ntables = 1
    if ntables is None:
        ntables = rng.choice([1, 1, 2, 2, 3, 4])
    # table names: distinct after upper-casing; biased to substring / column-name collisions
    names = []
    while len(names) < ntables:
        n = rng.choice(TABLE_NAMES)
        if n.upper() not in [x.upper() for x in names]:
            names.append(n)
    enums = None
    if entry == 'ndarray' and rng.random() < 0.45:
        enums = {}
        tn = rng.sample(ENUM_TYPES, rng.randint(1, 2))
        for (tname, labels), col in zip(tn, rng.sample(ENUM_COLS, len(tn))):
            enums[col] = (tname, labels)
    tables = []
    for name in names:
        ncols = rng.randint(1, 6)
        cols = []
        used = set()
        for _ in range(ncols):
            t = rng.random()
            if enums and t < 0.25:
                cname = rng.choice(list(enums))
                if cname in used:
                    continue
                w = max(len(x) for x in enums[cname][1]) + rng.choice([0, 0, 3])
                code = 'S%d' % w
            else:
                cname = rng.choice(COL_NAMES + [x.lower() for x in names] + names)
                if cname in used or (enums and cname in enums):
                    continue
                t2 = rng.random()
                if t2 < 0.4:
                    code = rng.choice(['i2', 'i4', 'i8'])
                elif t2 < 0.6:
                    code = rng.choice(['f4', 'f8'])
                else:
                    kind = 'U' if (allow_u and rng.random() < (0.5 if entry != 'ndarray' else 0.12)) else 'S'
                    code = '%s%d' % (kind, rng.randint(1, 12))
            used.add(cname)
            arr = rng.randint(1, 4) if rng.random() < 0.3 else None
            cols.append({'name': cname, 'code': code, 'arr': arr})
        if not cols:
            cols.append({'name': 'a', 'code': 'i4', 'arr': None})
        nrows = rng.choice([0, 1, 2, 3, max_rows]) if rng.random() < 0.6 else rng.randint(0, max_rows)
        rows = []
        for _ in range(nrows):
            r = []
            for j, c in enumerate(cols):
                if c['arr'] is not None:
                    r.append([rand_scalar(rng, c, names + [x.upper() for x in names], True, enums) for _ in range(c['arr'])])
                else:
                    v = rand_scalar(rng, c, names + [x.upper() for x in names], False, enums)
                    if j == len(cols) - 1 and isinstance(v, str) and v.endswith('\\'):
                        v = v[:-1] + '/'
                    r.append(v)
            rows.append(r)
        tables.append({'name': name, 'cols': cols, 'rows': rows})
    hdr = None
    if rng.random() < 0.7:
        hdr = []
        upn = [x.upper() for x in names]
        for k in rng.sample(HDR_KEYS, rng.randint(0, 4)):
            if k.upper() in upn:
                continue
            v = rng.choice(HDR_VALUES)
            if rng.random() < 0.15:
                v = rng.choice([42, -7, 2.5, 10 ** 12])
            hdr.append([k, v])
        if entry != 'ndarray' and not hdr:
            hdr = None
    comments = ['Table'] if entry != 'ndarray' else rng.sample(COMMENTS, rng.randint(1, 2))
    return {'comments': comments, 'hdr': hdr,
            'enums': [[c, enums[c][0], list(enums[c][1])] for c in enums] if enums is not None else None,
            'tables': tables}


# ----------------------------------------------------------------------------------------------
# Python view of the specification (readable diffs; resolves float text for Coq literals)

CTYPE = {'i2': 'short', 'i4': 'int', 'i8': 'long', 'f4': 'float', 'f8': 'double'}
NPSTR = {'i2': '<i2', 'i4': '<i4', 'i8': '<i8', 'f4': '<f4', 'f8': '<f8'}


def enum_map(doc):
    return {e[0]: (e[1], e[2]) for e in (doc.get('enums') or [])}


def expected(doc):
    """What a read of the written document must return (Python twin of Render.sem, for diagnostics)."""
    em = enum_map(doc)
    tabs = []
    for t in doc['tables']:
        cols = []
        for c in t['cols']:
            code = c['code']
            suffix = '[%d]' % c['arr'] if c['arr'] else ''
            if code[0] in 'SU':
                if c['name'] in em:
                    typ = em[c['name']][0].upper() + suffix
                    np_ = '|S%d' % max(len(x) for x in em[c['name']][1])
                elif c.get('unsized'):
                    j = t['cols'].index(c)
                    vals = [x for r in t['rows'] for x in (r[j] if isinstance(r[j], list) else [r[j]])]
                    typ = 'char' + suffix + '[]'
                    np_ = '|S%d' % max([len(x) for x in vals] + [0])
                else:
                    typ = 'char' + suffix + '[%d]' % int(code[1:])
                    np_ = '|S%d' % int(code[1:])
            else:
                typ = CTYPE.get(code, '?') + suffix
                np_ = NPSTR.get(code, '?')
            cols.append({'name': c['name'], 'type': typ, 'np': np_, 'arr': c['arr']})
        rows = []
        for r in t['rows']:
            rr = []
            for c, v in zip(t['cols'], r):
                rr.append([exp_scalar(c, x) for x in v] if isinstance(v, list) else exp_scalar(c, v))
            rows.append(rr)
        tabs.append({'name': t['name'].upper(), 'cols': cols, 'rows': rows})
    return {'pairs': [[k, str(v)] for k, v in (doc.get('hdr') or [])], 'tables': tabs}


def exp_scalar(c, v):
    if isinstance(v, dict):
        return {'t': float_text(c['code'], v['f'])}
    if isinstance(v, str):
        return {'s': v}
    return int(v)


def impl_scalar_text(v, want):
    """Text of a float the implementation returned.  `want` is the expected cell ({'t': text}) at the same
    position, if any: when the implementation's value is what Python makes of that text (bit-identical in the
    returned width, NaN for NaN) the expected text is used, otherwise the value's own text plus a marker."""
    w = v['w']
    x = bits_to_float('f4' if w == 4 else 'f8', v['f'])
    if isinstance(want, dict) and 't' in want:
        try:
            y = float(want['t'])
            y = np.float32(y) if w == 4 else np.float64(y)
            if (np.isnan(x) and np.isnan(y)) or float_bits(y, w) == v['f']:
                return want['t']
        except (ValueError, OverflowError):
            pass
    return str(x) + '?!'


def diff_tables(exp, got, check_types=True):
    """Readable list of differences between expected() and a dump (non-raw)."""
    out = []
    if [p for p in exp['pairs']] != [[k, v] for k, v in got['pairs']]:
        out.append('pairs: expected %r got %r' % (exp['pairs'], got['pairs']))
    en = [t['name'] for t in exp['tables']]
    gn = [t['name'] for t in got['tables']]
    if en != gn:
        out.append('table names: expected %r got %r' % (en, gn))
        return out
    for te, tg in zip(exp['tables'], got['tables']):
        ce = [(c['name'], c['type'], c['np'], c['arr']) for c in te['cols']]
        cg = [(c['name'], c.get('type'), c.get('np'), c.get('arr')) for c in tg['cols']]
        if check_types and ce != cg:
            out.append('%s columns: expected %r got %r' % (te['name'], ce, cg))
        if len(te['rows']) != len(tg['rows']):
            out.append('%s row count: expected %d got %d' % (te['name'], len(te['rows']), len(tg['rows'])))
            continue
        if 'size' in tg and tg['size'] != len(te['rows']):
            out.append('%s size(): expected %d got %d' % (te['name'], len(te['rows']), tg['size']))
        if tg.get('rec_dtype_equal') is False:
            out.append('%s columns: record array dtype differs from dtype()' % te['name'])
        for i, (re_, rg) in enumerate(zip(te['rows'], tg['rows'])):
            for j, (a, b) in enumerate(zip(re_, rg)):
                if norm_cell(a, b) != norm_cell_got(b, a):
                    out.append('%s row %d col %s: expected %r got %r' % (te['name'], i, te['cols'][j]['name'], a, b))
                    if len(out) > 8:
                        return out
    return out


def norm_cell(a, b):
    if isinstance(a, list):
        return [norm_cell(x, None) for x in a]
    if isinstance(a, dict):
        return a.get('t', a.get('s'))
    return a


def norm_cell_got(b, a):
    if isinstance(b, list):
        aa = a if isinstance(a, list) else []
        return [norm_cell_got(x, aa[i] if i < len(aa) else None) for i, x in enumerate(b)]
    if isinstance(b, dict):
        if 'f' in b:
            return impl_scalar_text(b, a)
        return b.get('s', repr(b))
    return b


# ----------------------------------------------------------------------------------------------
# Coq literals

def blit(s):
    """Byte-string literal.  A Coq string literal (converted by Bytes.bs inside Coq) is used when every byte is
    printable ASCII / tab / CR / LF: numeral lists are an order of magnitude slower for coqc to read."""
    if isinstance(s, str):
        s = s.encode('latin-1')
    if len(s) > 3 and all((32 <= c <= 126) or c in (9, 10, 13) for c in s):
        return '(bs "%s"%%string)' % s.decode('latin-1').replace('"', '""')
    return C.bytes_lit(s)


def btype_term(code, unsized=False):
    if unsized:
        return 'TCharU'
    m = {'i2': 'TShort', 'i4': 'TInt', 'i8': 'TLong', 'f4': 'TFloat', 'f8': 'TDouble'}
    if code in m:
        return m[code]
    if code[0] in 'SU' and code[1:].isdigit():
        return '(TChar %d)' % int(code[1:])
    return '(TUnsup %s)' % blit(code)


def sval_term(c, v):
    if isinstance(v, dict):
        return '(STok %s)' % blit(float_text(c['code'], v['f']))
    if isinstance(v, str):
        return '(STok %s)' % blit(v)
    return '(SInt %s)' % C.zlit(v)


def cell_term(c, v):
    if isinstance(v, list):
        return '(Ar %s)' % C.coq_list([sval_term(c, x) for x in v])
    return '(Sc %s)' % sval_term(c, v)


def doc_term(doc):
    pairs = C.coq_list(['(%s, %s)' % (blit(k), blit(str(v))) for k, v in (doc.get('hdr') or [])])
    enums = C.coq_list(['(mkenum %s %s %s)' % (blit(e[0]), blit(e[1]), C.coq_list([blit(x) for x in e[2]]))
                        for e in (doc.get('enums') or [])])
    tabs = []
    for t in doc['tables']:
        cols = C.coq_list(['(mkcol %s %s %s)' % (blit(c['name']), btype_term(c['code'], c.get('unsized')),
                                                  C.optlit(c['arr'], lambda n: '%d' % n)) for c in t['cols']])
        rows = C.coq_list([C.coq_list([cell_term(c, v) for c, v in zip(t['cols'], r)]) for r in t['rows']])
        tabs.append('(mktable %s %s %s)' % (blit(t['name']), cols, rows))
    return '(mkdoc %s %s %s %s)' % (C.coq_list([blit(c) for c in doc['comments']]), pairs, enums, C.coq_list(tabs))


NPK = {'<i2': 'NI2', '<i4': 'NI4', '<i8': 'NI8', '<f4': 'NF4', '<f8': 'NF8'}


def npk_term(s):
    if s in NPK:
        return NPK[s]
    m = re.fullmatch(r'\|S(\d+)', s or '')
    if m:
        return '(NS %s)' % m.group(1)
    return '(NS 999999)'      # a kind the model never produces: guaranteed mismatch


def got_sval_term(v, want):
    if isinstance(v, dict):
        if 'f' in v:
            return '(STok %s)' % blit(impl_scalar_text(v, want))
        if 's' in v:
            return '(STok %s)' % blit(v['s'])
        return '(STok %s)' % blit('?other?')
    return '(SInt %s)' % C.zlit(v)


def got_cell_term(v, want):
    if isinstance(v, list):
        ww = want if isinstance(want, list) else []
        return '(Ar %s)' % C.coq_list([got_sval_term(x, ww[i] if i < len(ww) else None) for i, x in enumerate(v)])
    return '(Sc %s)' % got_sval_term(v, want)


def _want_rows(exp, ti):
    try:
        return exp['tables'][ti]['rows']
    except (IndexError, KeyError, TypeError):
        return []


def pair_terms(pairs):
    out = []
    for k, v in pairs:
        out.append('(%s, %s)' % (blit(k), blit(v if isinstance(v, str) else '?nonstr?')))
    return C.coq_list(out)


def pdoc_term(dump, exp):
    """Coq pdoc literal of a non-raw dump; exp (expected()) resolves float text by position."""
    tabs = []
    for ti, t in enumerate(dump['tables']):
        cols = C.coq_list(['(mkpcol %s %s %s %s)' % (blit(c['name']), blit(c['type'] or '?None?'), npk_term(c['np']),
                                                      C.optlit(c['arr'], lambda n: '%d' % n)) for c in t['cols']])
        wr = _want_rows(exp, ti)
        rows = []
        for i, r in enumerate(t['rows']):
            w = wr[i] if i < len(wr) else []
            rows.append(C.coq_list([got_cell_term(v, w[j] if j < len(w) else None) for j, v in enumerate(r)]))
        tabs.append('(mkptable %s %s %s)' % (blit(t['name']), cols, C.coq_list(rows)))
    return '(mkpdoc %s %s %s %s)' % (pair_terms(dump['pairs']), C.coq_list([blit(x) for x in dump['enums']]),
                                     C.coq_list([blit(x) for x in dump['structs']]), C.coq_list(tabs))


def rdoc_term(dump, exp):
    tabs = []
    for ti, t in enumerate(dump['tables']):
        cols = C.coq_list(['(%s, %s)' % (blit(c['name']), C.optlit(c['type'], blit)) for c in t['cols']])
        wr = _want_rows(exp, ti)
        rows = []
        for i, r in enumerate(t['rows']):
            w = wr[i] if i < len(wr) else []
            rows.append(C.coq_list([got_cell_term(v, w[j] if j < len(w) else None) for j, v in enumerate(r)]))
        tabs.append('(mkrtable %s %s %s)' % (blit(t['name']), cols, C.coq_list(rows)))
    return '(mkrdoc %s %s %s %s)' % (pair_terms(dump['pairs']), C.coq_list([blit(x) for x in dump['enums']]),
                                     C.coq_list([blit(x) for x in dump['structs']]), C.coq_list(tabs))


# ----------------------------------------------------------------------------------------------
# features of a document (for stable violation signatures)

def features(doc):
    f = set()
    names = [t['name'].upper() for t in doc['tables']]
    # text each struct definition will contain (names of columns, type words, own name)
    em = enum_map(doc)
    texts = []
    for t in doc['tables']:
        words = ['typedef struct {']
        for c in t['cols']:
            if c['code'][0] in 'SU':
                words.append((em[c['name']][0].upper() if c['name'] in em else 'char') + ' ' + c['name'])
            else:
                words.append(CTYPE.get(c['code'], '?') + ' ' + c['name'])
        words.append('} ' + t['name'].upper() + ';')
        texts.append('\n'.join(words))
    for i, n in enumerate(names):
        for j, x in enumerate(texts):
            if i != j and (x.find(n) > 0 or x.find(n.lower()) > 0):
                f.add('name-in-other-typedef')
    dbl = re.compile(r'\{\s*\{\s*\}\s*\}')
    for t in doc['tables']:
        for c in t['cols']:
            if c['code'][0] == 'U':
                f.add('U-column')
            if c['arr'] is not None and not t['rows']:
                f.add('zero-rows-array-column')
        for r in t['rows']:
            for v in r:
                for x in (v if isinstance(v, list) else [v]):
                    if isinstance(x, str) and dbl.search(x):
                        f.add('double-brace-in-string')
    return sorted(f)
