#!/bin/bash
# Build the whole Coq development from files on disk (offline). Regenerates coq/Generated from /repo first.
set -e
cd "$(dirname "$0")"
mkdir -p .work evidence replays
/venv/bin/python -m harness.setup
