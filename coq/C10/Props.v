(* C10 -- iterfit is order-independent and its mask honours weights and rejection limits.
   Property theorems only; each is closed by `exact` and followed by Print Assumptions.
   Model: BSpline/Iter.v -- iterfit_model_with sv maxiter lower upper gb k ds perm =
   sort by perm; loop (fit with w*mask through the solver sv; reject beyond lower/upper sigma); un-sort.
   sv = fit_dense (certificate-checked unique optimum) in the theorems about the curve,
   sv arbitrary in the bookkeeping theorems; fit_fast is the evaluator of the correspondence run. *)
From Coq Require Import QArith ZArith List Bool Arith.
Import ListNotations.
From PV Require Import Lib.WLS BSpline.Eval BSpline.Fit BSpline.Iter BSpline.FitProofs BSpline.PermProofs
  BSpline.IterProofs BSpline.IterGuard Generated.BSpline BSpline.GenBridge C09.Proofs C10.Model C10.Proofs C17.Base Generated.Reject C10.RejectBridge.
Open Scope Q_scope.

(* permuting (x, y, invvar) leaves the coefficients unchanged and permutes the returned mask identically;
   distinct abscissae (strictly sorted after sorting), any solver, any maxiter *)
Theorem C10_iterfit_perm_equivariant : forall sv maxiter lower upper gb k ds q p p',
  is_perm q (length ds) = true ->
  let ds' := apply_perm d0 q ds in
  is_perm p (length ds) = true -> is_perm p' (length ds') = true ->
  strictly_sorted (map dx (apply_perm d0 p ds)) = true ->
  strictly_sorted (map dx (apply_perm d0 p' ds')) = true ->
  iterfit_model_with sv maxiter lower upper gb k ds' p' =
  match iterfit_model_with sv maxiter lower upper gb k ds p with
  | Some (c, m) => Some (c, apply_perm false q m) | None => None end.
Proof. exact iterfit_perm_equivariant. Qed.
Print Assumptions C10_iterfit_perm_equivariant.

(* points with non-positive inverse variance are always flagged False (mask in the CALLER's order) *)
Theorem C10_nonpositive_weight_masked : forall sv maxiter lower upper gb k ds perm c out,
  iterfit_model_with sv maxiter lower upper gb k ds perm = Some (c, out) ->
  is_perm perm (length ds) = true ->
  forall j, (j < length ds)%nat -> dw (nth j ds d0) <= 0 -> nth j out true = false.
Proof. exact nonpositive_weight_masked. Qed.
Print Assumptions C10_nonpositive_weight_masked.

(* ... and never used: changing y wherever the weight is not positive changes neither mask nor curve *)
Theorem C10_curve_independent_of_masked_y : forall gb k lower upper ds1 ds2 fuel c1 m1 c2 m2,
  (1 <= k)%nat -> (2 * k <= length gb)%nat -> map dx ds1 = map dx ds2 -> map dw ds1 = map dw ds2 ->
  (forall i, 0 < dw (nth i ds1 d0) -> dy (nth i ds1 d0) == dy (nth i ds2 d0)) ->
  iter_loop fit_dense fuel gb k lower upper ds1 (initial_mask ds1) = Some (c1, m1) ->
  iter_loop fit_dense fuel gb k lower upper ds2 (initial_mask ds2) = Some (c2, m2) ->
  m1 = m2 /\ Forall2 Qeq c1 c2.
Proof. exact curve_independent_of_masked_y_knots. Qed.
Print Assumptions C10_curve_independent_of_masked_y.

(* maxiter = 0: the plain weighted fit to all positively weighted points, mask = one rejection pass *)
Theorem C10_maxiter0_plain_fit : forall sv lower upper gb k ds perm,
  iterfit_model_with sv 0 lower upper gb k ds perm =
  let sorted := apply_perm d0 perm ds in
  match fit_masked sv gb k sorted (initial_mask sorted) with
  | None => None
  | Some c => Some (c, unsort false perm (reject lower upper sorted (yfit_of gb k c (map dx sorted)) (initial_mask sorted)))
  end.
Proof. exact maxiter0_plain_fit. Qed.
Print Assumptions C10_maxiter0_plain_fit.

Theorem C10_masked_initial : forall i ds, nth i (masked_weights (map dw ds) (initial_mask ds)) 0 =
  if Qltb 0 (dw (nth i ds d0)) then dw (nth i ds d0) else 0.
Proof. exact masked_initial. Qed.
Print Assumptions C10_masked_initial.

(* the loop IS the documented procedure: fit, reject, refit, stop when unchanged or after maxiter refits *)
Theorem C10_rejection_loop_spec : forall sv gb k lower upper ds maxiter mask r,
  iter_loop sv (S maxiter) gb k lower upper ds mask = Some r <-> procedure sv gb k lower upper ds maxiter mask r.
Proof. exact rejection_loop_spec. Qed.
Print Assumptions C10_rejection_loop_spec.

(* rejected points stay rejected ... *)
Theorem C10_rejected_stay_rejected : forall sv fuel gb k lower upper ds mask c m',
  iter_loop sv fuel gb k lower upper ds mask = Some (c, m') -> length mask = length ds ->
  (forall i, nth i m' false = true -> nth i mask false = true) /\ length m' = length mask.
Proof. exact iter_loop_monotone. Qed.
Print Assumptions C10_rejected_stay_rejected.

(* ... hence with more rounds than good points the loop stops because nothing changed (within n+1 rounds) *)
Theorem C10_loop_ends_by_convergence : forall sv fuel gb k lower upper ds mask c m',
  length mask = length ds -> (count_true mask < fuel)%nat ->
  iter_loop sv fuel gb k lower upper ds mask = Some (c, m') ->
  fit_masked sv gb k ds m' = Some c /\ reject lower upper ds (yfit_of gb k c (map dx ds)) m' = m'.
Proof. exact iter_loop_ends_by_convergence. Qed.
Print Assumptions C10_loop_ends_by_convergence.

(* the converged curve is the weighted least-squares optimum over the points the mask keeps: rejected
   outliers (weight 0) do not influence it *)
Theorem C10_converged_curve_is_optimal_fit : forall gb k lower upper ds fuel c m',
  (1 <= k)%nat -> (2 * k <= length gb)%nat -> sortedQ (map dx ds) = true ->
  (count_true (initial_mask ds) < fuel)%nat ->
  iter_loop fit_dense fuel gb k lower upper ds (initial_mask ds) = Some (c, m') ->
  let D := fit_obs gb k (map dx ds) (map dy ds) (masked_weights (map dw ds) m') in
  reject lower upper ds (yfit_of gb k c (map dx ds)) m' = m' /\
  forall z, length z = (length gb - k)%nat -> chi2 D c <= chi2 D z.
Proof. exact converged_curve_is_optimal_fit. Qed.
Print Assumptions C10_converged_curve_is_optimal_fit.

(* the evaluator of the correspondence run computes the same masks and coefficients as the certified solver *)
Theorem C10_iterfit_model_fast_agrees : forall maxiter lower upper gb k ds perm c1 m1 c2 m2,
  (1 <= k)%nat -> (2 * k <= length gb)%nat ->
  iterfit_model maxiter lower upper gb k ds perm = Some (c1, m1) ->
  iterfit_model_fast maxiter lower upper gb k ds perm = Some (c2, m2) ->
  m1 = m2 /\ Forall2 Qeq c2 c1.
Proof. exact iterfit_model_fast_agrees. Qed.
Print Assumptions C10_iterfit_model_fast_agrees.

(* sort / un-sort bookkeeping *)
Theorem C10_unsort_apply : forall A (d : A) p l, is_perm p (length l) = true -> unsort d p (apply_perm d p l) = l.
Proof. exact unsort_apply. Qed.
Print Assumptions C10_unsort_apply.

Theorem C10_sorted_arrangement_unique : forall l1 l2 : list datum, Permutation.Permutation l1 l2 ->
  strictly_sorted (map dx l1) = true -> strictly_sorted (map dx l2) = true -> l1 = l2.
Proof. exact strictly_sorted_unique. Qed.
Print Assumptions C10_sorted_arrangement_unique.

(* ---- the reference loop is built from exactly what translate/c08.py extracts from iterfit on every run: the good-point
   test, the loop condition and its initial values (=> at most maxiter+1 passes), the weights handed to fit, the
   un-sort assignment before every return, the arguments handed to djs_reject *)
Theorem C10_generated_iterfit : forall ds iiter maxiter w m,
  initial_mask ds = map (fun d => bs_iter_good (dw d)) ds /\
  (bs_iter_init_iiter = 0%nat /\ bs_iter_init_error = 0%Z /\ bs_iter_init_qdone = false /\
   bs_iter_continue 0 false iiter maxiter = (iiter <=? maxiter)%nat /\
   bs_iter_continue 0 true iiter maxiter = false /\
   (forall e q, bs_iter_continue e q iiter maxiter = true -> (iiter <= maxiter)%nat)) /\
  bs_iter_fit_weight w m == (if m then w else 0) /\
  (bs_iter_unsort_assignments = 3%nat /\ bs_iter_returns = 3%nat /\ bs_iter_returns_unsorted_first = 2%nat) /\
  bs_iter_reject_args = expected_reject_args.
Proof.
  exact (fun ds iiter maxiter w m =>
    conj (gen_iter_initial_mask ds) (conj (gen_iter_continue iiter maxiter) (conj (gen_iter_fit_weight w m)
    (conj gen_iter_unsort gen_iter_reject_args)))).
Qed.
Print Assumptions C10_generated_iterfit.

(* ---- round 5: the guards around the loop.  iterfit returns early, without any fit, exactly when FEWER than nord points have
   positive weight; with nord or more -- in particular with exactly nord -- the result is that of the documented procedure *)
Theorem C10_exactly_nord_points_are_fitted : forall sv maxiter lower upper gb k ds perm,
  (k <= ngood (initial_mask (apply_perm d0 perm ds)))%nat ->
  iterfit_guarded_with sv maxiter lower upper gb k ds perm =
  match iterfit_model_with sv maxiter lower upper gb k ds perm with
  | Some (c, m) => Fitted c m
  | None => NoModel
  end.
Proof. exact iterfit_guarded_enough. Qed.
Print Assumptions C10_exactly_nord_points_are_fitted.

(* with fewer good points the mask is (invvar > 0) in the caller's order: non-positive weights are still flagged False *)
Theorem C10_too_few_points_mask : forall sv maxiter lower upper gb k ds perm,
  (ngood (initial_mask (apply_perm d0 perm ds)) < k)%nat -> is_perm perm (length ds) = true ->
  iterfit_guarded_with sv maxiter lower upper gb k ds perm = GaveUp (initial_mask ds) /\
  forall j, nth j (initial_mask ds) false = Qltb 0 (dw (nth j ds d0)).
Proof. exact iterfit_guarded_gave_up. Qed.
Print Assumptions C10_too_few_points_mask.

(* which branch is taken does not depend on the order of the input *)
Theorem C10_good_count_order_independent : forall ds perm, is_perm perm (length ds) = true ->
  ngood (initial_mask (apply_perm d0 perm ds)) = ngood (initial_mask ds).
Proof. exact ngood_order_independent. Qed.
Print Assumptions C10_good_count_order_independent.

(* the guard in the source IS `number of good points < nord` (generated from iterfit on every run), its branch only warns,
   un-sorts and returns, the knots come from the good points in sorted order; status -2 ends iterfit, rejection runs exactly
   after status 0, the loop gives up with at most one good point left *)
Theorem C10_generated_iterfit_guards : forall sv maxiter lower upper gb k ds perm e n anybk,
  ((forall n, bs_iter_too_few n k = (n <? k)%nat) /\
   bs_iter_knots_from = expected_knots_from /\
   iterfit_guarded_with sv maxiter lower upper gb k ds perm =
   let sorted := apply_perm d0 perm ds in
   let m0 := map (fun d => bs_iter_good (dw d)) sorted in
   if bs_iter_too_few (ngood m0) k then GaveUp (unsort false perm m0)
   else match iter_loop sv (S maxiter) gb k lower upper sorted m0 with
        | None => NoModel
        | Some (c, mw) => Fitted c (unsort false perm mw)
        end) /\
  (bs_iter_abort e = (e =? -2)%Z /\ bs_iter_reject_when e = (e =? 0)%Z /\
   bs_iter_give_up n anybk = ((n <=? 1)%nat || negb anybk)).
Proof.
  exact (fun sv maxiter lower upper gb k ds perm e n anybk =>
    conj (gen_iter_too_few sv maxiter lower upper gb k ds perm) (gen_iter_status e n anybk)).
Qed.
Print Assumptions C10_generated_iterfit_guards.

(* the rejection pass of the loop IS the threshold logic regenerated from djs_reject (Generated/Reject.v, translate/c17.py) in the
   configuration iterfit uses: invvar given, lower/upper given, inmask = outmask = working mask, sticky off, no maxdev/maxrej/grow:
   badness = lower term + upper term; badness *= inmask; newmask = (badness == 0) & inmask.  Limits >= 0. *)
Theorem C10_reject_is_generated_djs_reject : forall lower upper ds, 0 <= lower -> 0 <= upper -> forall yfit mask,
  reject lower upper ds yfit mask = generated_reject lower upper ds yfit mask.
Proof. exact reject_is_generated. Qed.
Print Assumptions C10_reject_is_generated_djs_reject.

Theorem C10_reject1_is_generated : forall lower upper d yfit m, 0 <= lower -> 0 <= upper ->
  reject1 lower upper d yfit m =
  (let diff := dy d - yfit in
   let badness := rej_lower_iv_term diff lower (dw d) (rej_lower_iv_qbad diff lower (dw d))
                  + rej_upper_iv_term diff upper (dw d) (rej_upper_iv_qbad diff upper (dw d)) in
   rej_final (rej_newmask (rej_products badness m m false)) m m false).
Proof. exact reject1_is_generated. Qed.
Print Assumptions C10_reject1_is_generated.

(* ... and djs_reject's qdone is the stop test of the loop *)
Theorem C10_qdone_is_generated : forall a b, rej_qdone a b = mask_eqb a b.
Proof. exact qdone_is_mask_eqb. Qed.
Print Assumptions C10_qdone_is_generated.

Example C10_example_generated_reject :
  generated_reject 2 3 [mkDatum 0 10 4; mkDatum 1 10 4; mkDatum 2 10 4; mkDatum 3 10 0; mkDatum 4 10 4] [10; 12; 9; 0; 10 + (1 # 2)]
                   [true; true; true; false; true] = [true; false; true; false; true].
Proof. vm_compute. reflexivity. Qed.

(* non-vacuity: exactly nord = 3 good points (and two zero-weight ones) on one interval are interpolated: 1 + x^2 on [0, 2] *)
Example C10_example_exactly_nord :
  let ds := [mkDatum 2 5 1; mkDatum 1 77 0; mkDatum 0 1 1; mkDatum (1 # 2) (-3) (-1); mkDatum 1 2 4] in
  let perm := [2; 3; 1; 4; 0]%nat in
  let gb := [-4; -2; 0; 2; 4; 6] in
  match iterfit_guarded_with fit_dense 2 5 5 gb 3 ds perm with
  | Fitted c m => all2 Qeq_bool (map (eval1 gb 3 c) [0; 1; 2; (1 # 2)]) [1; 2; 5; (5 # 4)]
                  && all2 Bool.eqb m [true; false; true; false; true]
  | _ => false
  end = true.
Proof. vm_compute. reflexivity. Qed.

(* ... and with one good point fewer nothing is fitted, the mask still honours the weights *)
Example C10_example_too_few :
  let ds := [mkDatum 2 5 1; mkDatum 1 77 0; mkDatum 0 1 1; mkDatum (1 # 2) (-3) (-1); mkDatum 1 2 0] in
  iterfit_guarded_with fit_dense 2 5 5 [-4; -2; 0; 2; 4; 6] 3 ds [2; 3; 1; 4; 0]%nat
  = GaveUp [true; false; true; false; false].
Proof. vm_compute. reflexivity. Qed.

(* non-vacuity: one outlier among nine points of a straight line is rejected and the line is recovered *)
Example C10_example :
  let ds := [mkDatum 2 2 1; mkDatum 0 0 1; mkDatum 1 1 1; mkDatum 3 3 1; mkDatum 4 14 1; mkDatum 5 5 1;
             mkDatum 6 6 0; mkDatum 7 7 1; mkDatum 8 8 1] in
  let perm := [1; 2; 0; 3; 4; 5; 6; 7; 8]%nat in
  let gb := [-8; 0; 8; 16] in
  match iterfit_model 3 2 2 gb 2 ds perm with
  | Some (c, m) => all2 Qeq_bool c [0; 8] && all2 Bool.eqb m [true; true; true; true; false; true; false; true; true]
  | None => false
  end = true.
Proof. vm_compute. reflexivity. Qed.
