(* Yanny/Parse.v -- algorithmic model M of pydl.pydlutils.yanny.yanny._parse and the helpers it calls
   (get_token, trailing_comment, type/basetype/isarray/array_length/char_length/isenum/dtype/convert).
   Every regular expression of the source is transliterated into a hand-written scanner; the
   correspondence run (harness/props/c01.py, c02.py) is what checks that the scanners are the regexes.
   The model is of the REPAIRED code (fixes/C01-*.diff): exact typedef-name lookup in type(), the
   empty-double-brace rewrite restricted to places where a value can start, zero-row tables.
   DEFINITIONS ONLY (no proofs). *)
From Coq Require Import String.
From Coq Require Import NArith ZArith List Bool.
Import ListNotations.
From PV Require Import Yanny.Bytes Yanny.Types.
(* round 5: ONE switch of the reader model follows the source -- whether isenum() removes comments from an enum block
   before splitting it into labels (fixes/C02-enum-block-comments.diff).  translate/c01.py regenerates the flag
   yanny_enum_strips_comments from yanny.py on every run (Require without Import: YannyLits opens string_scope). *)
From PV Require Generated.YannyLits.
Open Scope N_scope.

Definition KW_TYPEDEF : bytes := Eval compute in bs "typedef"%string.
Definition KW_STRUCT : bytes := Eval compute in bs "struct"%string.
Definition KW_ENUM : bytes := Eval compute in bs "enum"%string.
Definition KW_CHAR : bytes := Eval compute in bs "char"%string.
Definition KW_SHORT : bytes := Eval compute in bs "short"%string.
Definition KW_INT : bytes := Eval compute in bs "int"%string.
Definition KW_LONG : bytes := Eval compute in bs "long"%string.
Definition KW_FLOAT : bytes := Eval compute in bs "float"%string.
Definition KW_DOUBLE : bytes := Eval compute in bs "double"%string.

Definition not_c (d : N) (c : N) : bool := negb (c =? d).
Definition not_ws (c : N) : bool := negb (is_ws c).
Definition is_open (c : N) : bool := (c =? LBRACK) || (c =? LT).
Definition is_close (c : N) : bool := (c =? RBRACK) || (c =? GT).

(* ------------------------------------------------------------------ *)
(* text-mode reading: universal newlines (open(filename,'r').read())    *)
Fixpoint univ_nl (s : bytes) : bytes :=
  match s with
  | [] => []
  | c :: s' => if c =? CR then NL :: match s' with d :: s'' => if d =? NL then univ_nl s'' else univ_nl s' | [] => [] end
               else c :: univ_nl s'
  end.

(* ------------------------------------------------------------------ *)
(* 1.  re.sub(r'\\\s*\n', ' ', lines)                                   *)
(* number of characters of w up to and including its last NL *)
Fixpoint last_nl (w : bytes) : option nat :=
  match w with
  | [] => None
  | c :: w' => match last_nl w' with
               | Some n => Some (S n)
               | None => if c =? NL then Some 1%nat else None
               end
  end.
Fixpoint join_cont_aux (skip : nat) (s : bytes) : bytes :=
  match s with
  | [] => []
  | c :: s' =>
      match skip with
      | S k => join_cont_aux k s'
      | O => if c =? BSL then
               match last_nl (fst (span is_ws s')) with
               | Some n => SP :: join_cont_aux n s'
               | None => c :: join_cont_aux 0 s'
               end
             else c :: join_cont_aux 0 s'
      end
  end.
Definition join_cont (s : bytes) : bytes := join_cont_aux 0 s.

(* ------------------------------------------------------------------ *)
(* 2.  typedef\s+KW\s*\{[^}]+\}\s*\w+\s*;   (every adjacent pair of pieces has disjoint first sets, so
       greedy matching without backtracking is exact).  Returns (matched text, body, name, rest). *)
Definition match_typedef (kw s : bytes) : option (bytes * bytes * bytes * bytes) :=
  match prefix KW_TYPEDEF s with
  | None => None
  | Some s1 =>
    let '(w1, s2) := span is_ws s1 in
    match w1 with
    | [] => None
    | _ =>
      match prefix kw s2 with
      | None => None
      | Some s3 =>
        let '(w2, s4) := span is_ws s3 in
        match s4 with
        | c :: s5 =>
          if c =? LBRACE then
            let '(body, s6) := span (not_c RBRACE) s5 in
            match body, s6 with
            | _ :: _, _ :: s7 =>
              let '(w3, s8) := span is_ws s7 in
              let '(name, s9) := span is_word s8 in
              match name with
              | [] => None
              | _ =>
                let '(w4, s10) := span is_ws s9 in
                match s10 with
                | c2 :: rest =>
                  if c2 =? SEMI then
                    Some (KW_TYPEDEF ++ w1 ++ kw ++ w2 ++ [LBRACE] ++ body ++ [RBRACE] ++ w3 ++ name ++ w4 ++ [SEMI],
                          body, name, rest)
                  else None
                | [] => None
                end
              end
            | _, _ => None
            end
          else None
        | [] => None
        end
      end
    end
  end.

(* re.findall / re.sub(..., '') : leftmost, non-overlapping *)
Fixpoint findall_td (kw : bytes) (skip : nat) (s : bytes) : list bytes :=
  match s with
  | [] => []
  | _ :: s' =>
      match skip with
      | S k => findall_td kw k s'
      | O => match match_typedef kw s with
             | Some (m, _, _, _) => m :: findall_td kw (Nat.pred (length m)) s'
             | None => findall_td kw 0 s'
             end
      end
  end.
Fixpoint remove_td (kw : bytes) (skip : nat) (s : bytes) : bytes :=
  match s with
  | [] => []
  | c :: s' =>
      match skip with
      | S k => remove_td kw k s'
      | O => match match_typedef kw s with
             | Some (m, _, _, _) => remove_td kw (Nat.pred (length m)) s'
             | None => c :: remove_td kw 0 s'
             end
      end
  end.

(* ------------------------------------------------------------------ *)
(* 3.  column names of a struct body: re.findall(r'\S+\s+\S+;', definition), then
       d.replace(';',''), re.split(r'\s+', d), re.sub(r'[\[<].*[\]>]$', '', column)             *)
Fixpoint words_aux (cur : bytes) (s : bytes) : list bytes :=
  match s with
  | [] => match cur with [] => [] | _ => [rev cur] end
  | c :: s' => if is_ws c then match cur with [] => words_aux [] s' | _ => rev cur :: words_aux [] s' end
               else words_aux (c :: cur) s'
  end.
Definition words (s : bytes) : list bytes := words_aux [] s.

(* w = u ++ [SEMI] ++ v with the LAST SEMI of w at index >= 1 *)
Definition split_def_word (w : bytes) : option (bytes * bytes) :=
  match w with
  | [] => None
  | c :: w' => match rsplit_at SEMI w' with
               | Some (a, b) => Some (c :: a, tl b)
               | None => None
               end
  end.
(* (datatype word, column word without its final ';') for every match, left to right *)
Fixpoint defs (w1 : bytes) (ws : list bytes) : list (bytes * bytes) :=
  match ws with
  | [] => []
  | w2 :: ws' =>
      match split_def_word w2 with
      | Some (u, v) =>
          (w1, u) :: match v with
                     | [] => match ws' with [] => [] | w :: ws'' => defs w ws'' end
                     | _ => defs v ws'
                     end
      | None => defs w2 ws'
      end
  end.
Definition cut_array (col : bytes) : bytes :=
  match last_byte col with
  | Some c => if is_close c then
                let '(a, b) := span (fun c => negb (is_open c)) col in
                match b with _ :: _ :: _ => a | _ => col end
              else col
  | None => col
  end.
Definition struct_columns (body : bytes) : list bytes :=
  match words body with
  | [] => []
  | w :: ws => map (fun d => cut_array (remove_all SEMI (snd d))) (defs w ws)
  end.

(* ------------------------------------------------------------------ *)
(* 4.  type():  typedef selected by its own trailing name (REPAIRED lookup), then
       re.search(r'(\S+)\s+VAR([\[<].*[\]>]|);', definition)                                      *)
Fixpoint word_splits_aux (cur : bytes) (s : bytes) : list (bytes * bytes) :=
  match s with
  | [] => []
  | c :: s' => if is_ws c then
                 match cur with [] => word_splits_aux [] s' | _ => (rev cur, lstrip s') :: word_splits_aux [] s' end
               else word_splits_aux (c :: cur) s'
  end.
(* longest prefix p of line (within the line) that ends in ] or > and is followed by ';' *)
Fixpoint last_close_semi (line : bytes) : option bytes :=
  match line with
  | c :: ((d :: _) as line') =>
      match last_close_semi line' with
      | Some p => Some (c :: p)
      | None => if is_close c && (d =? SEMI) then Some [c] else None
      end
  | _ => None
  end.
Definition check_decl (var r : bytes) : option bytes :=
  match prefix var r with
  | None => None
  | Some r3 =>
    match r3 with
    | c :: _ => if c =? SEMI then Some []
                else if is_open c then last_close_semi (fst (span (not_c NL) r3))
                else None
    | [] => None
    end
  end.
Fixpoint first_some {A B} (f : A -> option B) (l : list A) : option B :=
  match l with [] => None | x :: l' => match f x with Some y => Some y | None => first_some f l' end end.
Definition normalise_array (a : bytes) : bytes :=
  map (fun c => if c =? LT then LBRACK else if c =? GT then RBRACK else c) a.
Definition find_type (var text : bytes) : option bytes :=
  first_some (fun wr => option_map (fun a => fst wr ++ normalise_array a) (check_decl var (snd wr)))
             (word_splits_aux [] text).

(* structs as (NAME upper-cased, text) in file order *)
Definition struct_entry (text : bytes) : option (bytes * bytes * bytes) :=   (* NAME, body, text *)
  match match_typedef KW_STRUCT text with
  | Some (_, body, name, _) => Some (upper name, body, text)
  | None => None
  end.
Definition lookup_def (name : bytes) (structs : list (bytes * bytes * bytes)) : option bytes :=
  match filter (fun e => beq (fst (fst e)) name) structs with
  | [e] => Some (snd e)
  | _ => None
  end.

Definition basetype (typ : bytes) : bytes := fst (span (not_c LBRACK) typ).

(* re.compile(r'char[\[<]\d*[\]>][\[<]\d*[\]>]').search(typ) *)
Definition match_char_arr (s : bytes) : bool :=
  match prefix KW_CHAR s with
  | None => false
  | Some s1 =>
    match s1 with
    | c :: s2 =>
      if is_open c then
        match snd (span is_digit s2) with
        | c2 :: c3 :: s4 =>
          if is_close c2 && is_open c3 then
            match snd (span is_digit s4) with c4 :: _ => is_close c4 | [] => false end
          else false
        | _ => false
        end
      else false
    | [] => false
    end
  end.
Fixpoint search_char_arr (s : bytes) : bool :=
  match_char_arr s || match s with [] => false | _ :: s' => search_char_arr s' end.
Definition isarray (typ : bytes) : bool :=
  search_char_arr typ || (negb (contains KW_CHAR typ) && (mem LBRACK typ || mem LT typ)).

Definition z_to_N (z : Z) : option N := if (z <? 0)%Z then None else Some (Z.to_N z).
(* int(typ[typ.index('[')+1:typ.index(']')]) *)
Definition array_length (typ : bytes) : option N :=
  if isarray typ then
    let '(pre, post) := span (not_c LBRACK) typ in
    match post with
    | _ :: post' =>
        if mem RBRACK pre then None
        else let '(dg, r) := span (not_c RBRACK) post' in
             match r with [] => None | _ => obind (parse_Z dg) z_to_N end
    | [] => None
    end
  else Some 1.

Fixpoint rfind_idx (c : N) (s : bytes) : option nat :=
  match s with
  | [] => None
  | x :: s' => match rfind_idx c s' with
               | Some i => Some (S i)
               | None => if x =? c then Some O else None
               end
  end.
(* int(typ[typ.rfind('[')+1:typ.rfind(']')]) ; None = ValueError -> width of the longest value *)
Definition char_length_decl (typ : bytes) : option N :=
  let a := match rfind_idx LBRACK typ with Some i => S i | None => O end in
  let b := match rfind_idx RBRACK typ with Some j => j | None => Nat.pred (length typ) end in
  obind (parse_Z (firstn (b - a) (skipn a typ))) z_to_N.

(* ------------------------------------------------------------------ *)
(* 5.  enum cache: typedef\s+enum\s*\{([^}]+)\}\s*(\w+)\s*; , re.split(r',\s*', body.strip())  *)
Fixpoint split_commas (skipping : bool) (cur : bytes) (s : bytes) : list bytes :=
  match s with
  | [] => [rev cur]
  | c :: s' => if skipping && is_ws c then split_commas true cur s'
               else if c =? COMMA then rev cur :: split_commas true [] s'
               else split_commas false (c :: cur) s'
  end.
(* re.sub(r'#[^\n]*', '', body): a comment runs from the hash to the end of its line (the newline stays) *)
Fixpoint drop_hash_comments (skipping : bool) (s : bytes) : bytes :=
  match s with
  | [] => []
  | c :: s' => if skipping then (if c =? NL then c :: drop_hash_comments false s' else drop_hash_comments true s')
               else if c =? HASH then drop_hash_comments true s' else c :: drop_hash_comments false s'
  end.
Definition enum_body_of (strips : bool) (body : bytes) : bytes := if strips then drop_hash_comments false body else body.
Definition enum_entry_g (strips : bool) (text : bytes) : option (bytes * list bytes) :=
  match match_typedef KW_ENUM text with
  | Some (_, body, name, _) => Some (name, split_commas false [] (strip (enum_body_of strips body)))
  | None => None
  end.
(* the reader of the CURRENT source *)
Definition enum_entry (text : bytes) : option (bytes * list bytes) :=
  enum_entry_g PV.Generated.YannyLits.yanny_enum_strips_comments text.
(* dict semantics: the last definition of a name wins *)
Fixpoint assoc_last {A} (k : bytes) (l : list (bytes * A)) : option A :=
  match l with
  | [] => None
  | (k', v) :: l' => match assoc_last k l' with
                     | Some v' => Some v'
                     | None => if beq k k' then Some v else None
                     end
  end.

(* ------------------------------------------------------------------ *)
(* 6.  tokens                                                                                   *)
Definition get_token (s : bytes) : option (bytes * bytes) :=
  match s with
  | [] => None
  | c :: s' =>
      if c =? QUOTE then
        let '(w, r) := span (not_c QUOTE) s' in
        match r with _ :: r' => Some (w, lstrip r') | [] => None end
      else if c =? LBRACE then
        let '(w, r) := span (not_c RBRACE) (lstrip s') in
        match r with _ :: r' => Some (w, lstrip r') | [] => None end
      else
        let '(w, r) := span not_ws s in
        match r with [] => Some (s, []) | _ => Some (w, lstrip r) end
  end.

Definition trailing_comment (s : bytes) : bytes :=
  match rsplit_at HASH s with
  | Some (a, b) => if Nat.even (count QUOTE b) then rstrip a else s
  | None => s
  end.

(* \{\s*\{\s*\}\s*\}  at the head of s: Some rest *)
Definition match_dbl (s : bytes) : option bytes :=
  match s with
  | c1 :: s1 =>
    if c1 =? LBRACE then
      match lstrip s1 with
      | c2 :: s2 =>
        if c2 =? LBRACE then
          match lstrip s2 with
          | c3 :: s3 =>
            if c3 =? RBRACE then
              match lstrip s3 with
              | c4 :: s4 => if c4 =? RBRACE then Some s4 else None
              | [] => None
              end
            else None
          | [] => None
          end
        else None
      | [] => None
      end
    else None
  | [] => None
  end.
(* REPAIRED rewrite, one left-to-right pass of the regex
     QUOTE [^QUOTE]* QUOTE  |  [^\s QUOTE LBRACE] \S*  |  \{\s*\{\s*\}\s*\}
   quoted segments and bare words are copied, an empty double brace standing where a value can start
   becomes two QUOTE characters *)
Fixpoint dbl_aux (copy skip : nat) (s : bytes) : bytes :=
  match s with
  | [] => []
  | c :: s' =>
      match copy, skip with
      | S k, _ => c :: dbl_aux k 0 s'
      | O, S k => dbl_aux 0 k s'
      | O, O =>
          if (c =? QUOTE) && mem QUOTE s' then
            c :: dbl_aux (S (length (fst (span (not_c QUOTE) s')))) 0 s'
          else if negb (is_ws c) && negb (c =? QUOTE) && negb (c =? LBRACE) then
            c :: dbl_aux (length (fst (span not_ws s'))) 0 s'
          else
            match match_dbl s with
            | Some rest => QUOTE :: QUOTE :: dbl_aux 0 (length s' - length rest) s'
            | None => c :: dbl_aux 0 0 s'
            end
      end
  end.
Definition double_braces (s : bytes) : bytes := dbl_aux 0 0 s.

(* ------------------------------------------------------------------ *)
(* 7.  convert() and the per-row loop                                                           *)
Inductive convk := KInt | KFloat | KOther.
Definition classify (typ : bytes) : convk :=
  let b := basetype typ in
  if beq b KW_SHORT || beq b KW_INT || beq b KW_LONG then KInt
  else if beq b KW_FLOAT || beq b KW_DOUBLE then KFloat
  else KOther.
Definition conv1 (k : convk) (t : bytes) : option sval :=
  match k with
  | KInt => option_map SInt (parse_Z t)
  | _ => Some (STok t)
  end.

Fixpoint split_array (fuel : nat) (data : bytes) : option (list bytes) :=
  match data with
  | [] => Some []
  | _ => match fuel with
         | O => None
         | S k => match get_token data with
                  | Some (t, d') => option_map (cons t) (split_array k d')
                  | None => None
                  end
         end
  end.

(* columns of one table: name and declared type text (None: type() would return None) *)
Definition tcols := list (bytes * option bytes).

Fixpoint parse_cells (cols : tcols) (value : bytes) : option (list cell) :=
  match cols with
  | [] => Some []
  | (_, otyp) :: cols' =>
      if all_ws value then Some []           (* len(value) == 0 or blank: break *)
      else
        match get_token value, otyp with
        | Some (data, value'), Some typ =>
            let k := classify typ in
            let oc := if isarray typ
                      then obind (split_array (S (length data)) data)
                                 (fun ts => option_map Ar (omap (conv1 k) ts))
                      else option_map Sc (conv1 k data) in
            match oc, parse_cells cols' value' with
            | Some c, Some r => Some (c :: r)
            | _, _ => None
            end
        | _, _ => None
        end
  end.

Definition symtab := list (bytes * tcols).
Fixpoint assoc {A} (k : bytes) (l : list (bytes * A)) : option A :=
  match l with [] => None | (k', v) :: l' => if beq k k' then Some v else assoc k l' end.
(* OrderedDict assignment: replace in place, else append *)
Fixpoint assoc_set {A} (k : bytes) (v : A) (l : list (bytes * A)) : list (bytes * A) :=
  match l with
  | [] => [(k, v)]
  | (k', v') :: l' => if beq k k' then (k, v) :: l' else (k', v') :: assoc_set k v l'
  end.
Fixpoint assoc_app {A} (k : bytes) (v : A) (l : list (bytes * list A)) : list (bytes * list A) :=
  match l with
  | [] => []
  | (k', vs) :: l' => if beq k k' then (k', vs ++ [v]) :: l' else (k', vs) :: assoc_app k v l'
  end.

(* state of the line loop: pairs (insertion order) and rows per table *)
Record pstate := mkst { st_pairs : list (bytes * bytes); st_rows : list (bytes * list (list cell)) }.

Definition skip_line (line : bytes) : bool :=
  match line with [] => true | _ => starts_with [HASH] (lstrip line) || all_ws line end.

Definition clean_line (line : bytes) : bytes := double_braces (trailing_comment (strip line)).

Definition process_line (sy : symtab) (st : pstate) (line : bytes) : option pstate :=
  if skip_line line then Some st
  else
    match get_token (clean_line line) with
    | None => None
    | Some (key, value) =>
        let uckey := upper key in
        match assoc uckey sy with
        | Some cols =>
            match parse_cells cols value with
            | Some r => Some (mkst (st_pairs st) (assoc_app uckey r (st_rows st)))
            | None => None
            end
        | None => Some (mkst (assoc_set key value (st_pairs st)) (st_rows st))
        end
    end.
Fixpoint process_lines (sy : symtab) (st : pstate) (lines : list bytes) : option pstate :=
  match lines with
  | [] => Some st
  | l :: ls => match process_line sy st l with Some st' => process_lines sy st' ls | None => None end
  end.

(* ------------------------------------------------------------------ *)
(* 8.  _parse, raw mode                                                                         *)
Definition build_symtab (structs : list (bytes * bytes * bytes)) : symtab :=
  fold_left (fun sy e => let '(name, body, _) := e in
               assoc_set name (map (fun c => (c, obind (lookup_def name structs) (find_type c))) (struct_columns body)) sy)
            structs [].

Definition parse_text_raw (s : bytes) : option rdoc :=
  let s1 := join_cont s in
  let stexts := findall_td KW_STRUCT 0 s1 in
  let etexts := findall_td KW_ENUM 0 s1 in
  let s2 := remove_td KW_ENUM 0 (remove_td KW_STRUCT 0 s1) in
  match omap struct_entry stexts with
  | None => None
  | Some structs =>
    let sy := build_symtab structs in
    let st0 := mkst [] (map (fun e => (fst e, [])) sy) in
    match (match s2 with [] => Some st0 | _ => process_lines sy st0 (split_on NL s2) end) with
    | None => None
    | Some st =>
        Some (mkrdoc (st_pairs st) etexts stexts
                (map (fun e => mkrtable (fst e) (snd e) (match assoc (fst e) (st_rows st) with Some r => r | None => [] end)) sy))
    end
  end.

(* ------------------------------------------------------------------ *)
(* 9.  dtype() and the conversion to record arrays (non-raw mode)                               *)
Definition tok_len (v : sval) : nat := match v with STok t => length t | SInt _ => O end.
Definition cell_maxlen (c : cell) : nat :=
  match c with Sc v => tok_len v | Ar l => fold_right (fun v m => Nat.max (tok_len v) m) O l end.
Definition nth_col (j : nat) (rows : list (list cell)) : option (list cell) := omap (fun r => nth_error r j) rows.

Definition in_range (k : npk) (z : Z) : bool :=
  match k with
  | NI2 => (-32768 <=? z)%Z && (z <=? 32767)%Z
  | NI4 => (-2147483648 <=? z)%Z && (z <=? 2147483647)%Z
  | NI8 => (-9223372036854775808 <=? z)%Z && (z <=? 9223372036854775807)%Z
  | _ => true
  end.
Definition conv_sval (k : npk) (v : sval) : option sval :=
  match k, v with
  | NS w, STok t => Some (STok (firstn (N.to_nat w) t))
  | NS _, SInt _ => None
  | (NF4 | NF8), STok t => Some (STok t)
  | (NF4 | NF8), SInt _ => None
  | _, SInt z => if in_range k z then Some (SInt z) else None
  | _, STok _ => None
  end.
Definition conv_cell (k : npk) (arr : option N) (c : cell) : option cell :=
  match arr, c with
  | None, Sc v => option_map Sc (conv_sval k v)
  | Some n, Ar l => if Nat.eqb (length l) (N.to_nat n) then option_map Ar (omap (conv_sval k) l) else None
  | _, _ => None
  end.

Definition col_dtype (enums : list (bytes * list bytes)) (typ : bytes) (values : list cell) : option (npk * option N) :=
  let b := basetype typ in
  let ok :=
    if beq b KW_CHAR then
      match char_length_decl typ with
      | Some w => Some (NS w)
      | None => match values with
                | [] => None                        (* max([]) raises *)
                | _ => Some (NS (N.of_nat (fold_right (fun c m => Nat.max (cell_maxlen c) m) O values)))
                end
      end
    else match assoc_last b enums with
         | Some labels => Some (NS (N.of_nat (maxlen labels)))
         | None => if beq b KW_SHORT then Some NI2 else if beq b KW_INT then Some NI4
                   else if beq b KW_LONG then Some NI8 else if beq b KW_FLOAT then Some NF4
                   else if beq b KW_DOUBLE then Some NF8 else None
         end in
  match ok with
  | None => None
  | Some k => if isarray typ then option_map (fun n => (k, Some n)) (array_length typ) else Some (k, None)
  end.

Fixpoint typed_cols (enums : list (bytes * list bytes)) (j : nat) (cols : tcols) (rows : list (list cell)) : option (list pcol) :=
  match cols with
  | [] => Some []
  | (name, otyp) :: cols' =>
      match otyp, nth_col j rows with
      | Some typ, Some vals =>
          match col_dtype enums typ vals, typed_cols enums (S j) cols' rows with
          | Some (k, arr), Some r => Some (mkpcol name typ k arr :: r)
          | _, _ => None
          end
      | _, _ => None
      end
  end.
Fixpoint conv_row (cols : list pcol) (r : list cell) : option (list cell) :=
  match cols, r with
  | [], [] => Some []
  | c :: cols', x :: r' =>
      match conv_cell (pc_np c) (pc_arr c) x, conv_row cols' r' with
      | Some y, Some rr => Some (y :: rr)
      | _, _ => None
      end
  | _, _ => None
  end.
Definition to_table (enums : list (bytes * list bytes)) (t : rtable) : option ptable :=
  match rt_cols t with
  | [] => None                                   (* size(): columns[0] raises IndexError *)
  | _ => match typed_cols enums 0 (rt_cols t) (rt_rows t) with
         | Some cols => option_map (mkptable (rt_name t) cols) (omap (conv_row cols) (rt_rows t))
         | None => None
         end
  end.
Definition to_records (r : rdoc) : option pdoc :=
  match omap enum_entry (rd_enums r) with
  | None => None
  | Some enums => option_map (mkpdoc (rd_pairs r) (rd_enums r) (rd_structs r)) (omap (to_table enums) (rd_tables r))
  end.

Definition parse_text (s : bytes) : option pdoc := obind (parse_text_raw s) to_records.

(* entry points: yanny(path) / text-mode file object  vs  binary file object *)
Definition parse (b : bytes) : option pdoc := parse_text (univ_nl b).
Definition parse_binary (b : bytes) : option pdoc := parse_text b.
Definition parse_raw (b : bytes) : option rdoc := parse_text_raw (univ_nl b).
Definition parse_binary_raw (b : bytes) : option rdoc := parse_text_raw b.
