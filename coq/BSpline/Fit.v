(* Shared B-spline model, part 2: the weighted least-squares fit (bspline.fit), its status logic
   (maskpoints), and the certified checkers for the banded Cholesky pair.
   Executable definitions ONLY (proofs: FitProofs.v). *)
From Coq Require Import QArith Qround Qabs List Bool Arith Lia.
Import ListNotations.
From PV Require Import Lib.WLS BSpline.Eval.
Open Scope Q_scope.

(* ------------------------------------------------------------------ vectors *)
Definition vred (u : list Q) : list Q := map Qred u.
Definition vsub (u v : list Q) : list Q := vadd u (vscale (-1) v).
Definition all_zero (u : list Q) : bool := forallb (fun a => Qeq_bool a 0) u.
Fixpoint unit (m j : nat) : list Q :=
  match m with O => [] | S m' => match j with O => 1 :: zeros m' | S j' => 0 :: unit m' j' end end.

(* ------------------------------------------------------------------ design matrix
   one row per datum: the nord values of bsplvn placed at column l-(k-1); m = number of coefficients *)
Definition design_row (gb : list Q) (k m : nat) (x : Q) (l : nat) : list Q :=
  let off := (l - (k - 1))%nat in
  zeros off ++ bsplvn gb k x l ++ zeros (m - off - k).

Definition design (gb : list Q) (k : nat) (xs : list Q) : list (list Q) :=
  let m := (length gb - k)%nat in
  map (fun p => design_row gb k m (fst p) (snd p)) (combine xs (intrv gb k xs)).

Fixpoint mk_obs (rows : list (list Q)) (ws ys : list Q) : list obs :=
  match rows, ws, ys with
  | r :: rows', w :: ws', y :: ys' => (r, w, y) :: mk_obs rows' ws' ys'
  | _, _, _ => []
  end.

(* gradient of chi2/2 at x: sum_i w_i * resid_i * row_i ; A*u computed from the data: sum_i w_i (row_i . u) row_i *)
Fixpoint grad (m : nat) (D : list obs) (x : list Q) : list Q :=
  match D with
  | [] => zeros m
  | o :: D' => let '(r, w, y) := o in vred (vadd (vscale (w * resid x o) r) (grad m D' x))
  end.
Fixpoint Avec (m : nat) (D : list obs) (u : list Q) : list Q :=
  match D with
  | [] => zeros m
  | o :: D' => let '(r, w, y) := o in vred (vadd (vscale (w * dot r u) r) (Avec m D' u))
  end.
Definition rhs (m : nat) (D : list obs) : list Q := vscale (-1) (grad m D (zeros m)).
Definition normal_matrix (m : nat) (D : list obs) : list (list Q) :=
  map (fun j => Avec m D (unit m j)) (seq 0 m).

(* ------------------------------------------------------------------ Gauss-Jordan over Q (unverified; its
   output is only ever used after the certificate checks below) *)
Fixpoint find_pivot (rows : list (list Q)) (c : nat) : option (list Q * list (list Q)) :=
  match rows with
  | [] => None
  | r :: rest =>
      if Qeq_bool (nthQ r c) 0 then
        match find_pivot rest c with Some (p, others) => Some (p, r :: others) | None => None end
      else Some (r, rest)
  end.

Definition row_axpy (a : Q) (p r : list Q) : list Q := vred (vadd r (vscale a p)).

(* done: finished rows (their pivot columns already cleared everywhere); todo: rows still to be pivoted *)
Fixpoint gj_loop (steps c : nat) (done todo : list (list Q)) : option (list (list Q)) :=
  match steps with
  | O => Some done
  | S s =>
      match find_pivot todo c with
      | None => None
      | Some (p, others) =>
          let p' := vred (vscale (/ nthQ p c) p) in
          let elim := fun r => row_axpy (- nthQ r c) p' r in
          gj_loop s (S c) (map elim done ++ [p']) (map elim others)
      end
  end.

(* inverse of the m x m matrix A (list of rows): rows of A^-1 *)
Definition gj_inverse (m : nat) (A : list (list Q)) : option (list (list Q)) :=
  match gj_loop m 0 [] (map (fun j => nth j A [] ++ unit m j) (seq 0 m)) with
  | Some R => Some (map (skipn m) R)
  | None => None
  end.

Definition matvec (M : list (list Q)) (v : list Q) : list Q := map (fun r => Qred (dot r v)) M.

Definition veq_bool (u v : list Q) : bool := all2 Qeq_bool u v.

(* the checked dense solver: Some x only if
   (1) every column u_j of the computed inverse satisfies  A u_j = e_j  (A from the data D, so A is
       non-singular: uniqueness certificate), and
   (2) the gradient of chi2 vanishes at x (normal equations, re-multiplied on the data).
   Soundness is by construction; nothing about gj_inverse is assumed. *)
Definition fit_dense (m : nat) (D : list obs) : option (list Q) :=
  match gj_inverse m (normal_matrix m D) with
  | None => None
  | Some Binv =>
      (* A symmetric => rows of the inverse are its columns *)
      if (length Binv =? m)%nat
         && forallb (fun j => veq_bool (Avec m D (nth j Binv [])) (unit m j)) (seq 0 m) then
        let x := matvec Binv (rhs m D) in
        if (length x =? m)%nat && all_zero (grad m D x) then Some x else None
      else None
  end.

(* no uniqueness certificate: any solver followed by the gradient check (enough for optimality) *)
Definition solve_checked (m : nat) (D : list obs) (x : list Q) : option (list Q) :=
  if (length x =? m)%nat && all_zero (grad m D x) then Some x else None.

(* the cheap variant used for evaluation: Gauss-Jordan on [A | b] only, then the gradient check.
   fit_fast_optimal: the result minimises chi2; fit_fast_agrees: it equals fit_dense's whenever both exist. *)
Definition gj_solve (m : nat) (A : list (list Q)) (b : list Q) : option (list Q) :=
  match gj_loop m 0 [] (map (fun j => nth j A [] ++ [nthQ b j]) (seq 0 m)) with
  | Some R => Some (map (fun r => nthQ r m) R)
  | None => None
  end.
Definition fit_fast (m : nat) (D : list obs) : option (list Q) :=
  match gj_solve m (normal_matrix m D) (rhs m D) with
  | Some x => solve_checked m D x
  | None => None
  end.

(* ------------------------------------------------------------------ the fit on sorted data *)
Definition masked_weights (ws : list Q) (mask : list bool) : list Q :=
  map (fun p => if (snd p : bool) then fst p else 0) (combine ws mask).

Definition fit_obs (gb : list Q) (k : nat) (xs ys ws : list Q) : list obs :=
  mk_obs (design gb k xs) ws ys.

Definition solver := nat -> list obs -> option (list Q).
Definition fit_coeff_with (sv : solver) (gb : list Q) (k : nat) (xs ys ws : list Q) : option (list Q) :=
  sv (length gb - k)%nat (fit_obs gb k xs ys ws).
Definition fit_coeff := fit_coeff_with fit_dense.

Definition yfit_of (gb : list Q) (k : nat) (coeff xs : list Q) : list Q := value_sorted gb k coeff xs.

(* ------------------------------------------------------------------ banded storage
   alpha[r][c] = A[c+r][c] (lower band, bw rows, m+bw columns, zero padded) -- what fit() hands to
   cholesky_band.  band_of is the specification; band_assemble mirrors the interval-by-interval
   scatter `alpha.T.flat[bo+itop*bw] += work.flat[bi]`. *)
Definition band_of (bw m : nat) (A : list (list Q)) : list (list Q) :=
  map (fun r => map (fun c => if (c + r <? m)%nat then nthQ (nth (c + r) A []) c else 0) (seq 0 (m + bw)))
      (seq 0 bw).

(* one datum contributes w * v[a]*v[b] to alpha[a-b][off+b] for 0 <= b <= a < k, off = l-(k-1) *)
Definition band_add (alpha : list (list Q)) (r c : nat) (v : Q) : list (list Q) :=
  set_nth r (set_nth c (Qred (nthQ (nth r alpha []) c + v)) (nth r alpha [])) alpha.

Definition band_add_point (k : nat) (alpha : list (list Q)) (off : nat) (v : list Q) (w : Q) : list (list Q) :=
  fold_left (fun al a =>
    fold_left (fun al' b => band_add al' (a - b) (off + b) (w * nthQ v a * nthQ v b)) (seq 0 (S a)) al)
    (seq 0 k) alpha.

Definition band_assemble (gb : list Q) (k : nat) (xs ws : list Q) : list (list Q) :=
  let m := (length gb - k)%nat in
  fold_left (fun al p => let '(x, l, w) := p in band_add_point k al (l - (k - 1)) (bsplvn gb k x l) w)
            (combine (combine xs (intrv gb k xs)) ws)
            (repeat (zeros (m + k)) k).

(* ------------------------------------------------------------------ status logic *)
(* bspline.maskpoints as documented (IDL bspline_maskpoints): err = bad coefficient indices (npoly = 1);
   nbkpt = number of good breakpoints.  Returns (status, positions among the GOOD breakpoints to mask). *)
Fixpoint nodup_nat (l : list nat) : list nat :=
  match l with [] => [] | a :: r => if existsb (Nat.eqb a) r then nodup_nat r else a :: nodup_nat r end.

Definition maskpoints_model (nbkpt k : nat) (err : list nat) : Z * list nat :=
  if (nbkpt <=? 2 * k)%nat then ((-2)%Z, [])
  else
    let n := (nbkpt - k)%nat in
    if existsb (fun h => (n <=? h)%nat) err then ((-2)%Z, [])
    else
      (* jj from -ceil(k/2) to k/2 - 1 ;  inside = min(max(h+jj,0)+k, n-1) *)
      let lo := ((k + 1) / 2)%nat in
      let hi := (k / 2)%nat in
      let test := flat_map (fun h => map (fun s => Nat.min ((h + s - lo) + k) (n - 1)) (seq 0 (lo + hi))) err in
      match nodup_nat test with
      | [] => ((-2)%Z, [])
      | t => ((-1)%Z, t)
      end.

Definition mask_positions (good : list nat) (targets : list nat) (bmask : list bool) : list bool :=
  fold_left (fun m t => set_nth (nth t good O) false m) targets bmask.

(* the discrete outcome of bspline.fit when the diagonal screening fires:
   diag = exact diagonal of the normal matrix; mininf the threshold *)
Definition fit_status_model (bmask : list bool) (k : nat) (diag : list Q) (mininf : Q) : Z * list bool :=
  let nn := length (filter (fun b => b) (skipn k bmask)) in
  if (nn <? k)%nat then ((-2)%Z, bmask)
  else
    let bad := filter (fun j => Qle_bool (nthQ diag j) mininf) (seq 0 (length diag)) in
    match bad with
    | [] => (0%Z, bmask)
    | _ =>
        let good := good_positions bmask 0 in
        let '(st, targets) := maskpoints_model (length good) k bad in
        (st, mask_positions good targets bmask)
    end.

(* ------------------------------------------------------------------ certified checkers for cholesky_band /
   cholesky_solve.  ab, L in scipy lower-band storage: row r, column c holds M[c+r][c]; n = matrix size. *)
Definition band_get (ab : list (list Q)) (n i j : nat) : Q :=   (* M[i][j] for the symmetric / lower matrix *)
  let (hi, lo) := if (j <=? i)%nat then (i, j) else (j, i) in
  if (hi <? n)%nat then nthQ (nth (hi - lo) ab []) lo else 0.
Definition lower_get (L : list (list Q)) (n i j : nat) : Q :=
  if (j <=? i)%nat && (i <? n)%nat then nthQ (nth (i - j) L []) j else 0.

(* (L L^T)[i][j] = sum_c L[i][c] L[j][c] *)
Definition llt_get (L : list (list Q)) (n i j : nat) : Q :=
  fold_left (fun acc c => acc + lower_get L n i c * lower_get L n j c) (seq 0 (S (Nat.min i j))) 0.

Definition chol_ok (tol : Q) (ab L : list (list Q)) (n : nat) : bool :=
  let bw := length ab in
  (length L =? bw)%nat &&
  (* positive diagonal *)
  forallb (fun i => Qltb 0 (lower_get L n i i)) (seq 0 n) &&
  (* L L^T = A within tol on the band, and (exactly, by the band shape of L) zero outside it *)
  forallb (fun i => forallb (fun d => if (d <=? i)%nat then
                      close (tol * (1 + Qabs (band_get ab n i (i - d)))) (llt_get L n i (i - d)) (band_get ab n i (i - d))
                      else true) (seq 0 bw)) (seq 0 n).

(* A x = b within tol; A from its band storage *)
Definition band_matvec (ab : list (list Q)) (n : nat) (x : list Q) : list Q :=
  let bw := length ab in
  map (fun i => fold_left (fun acc j => acc + band_get ab n i j * nthQ x j)
                          (seq (i - (bw - 1)) (Nat.min n (i + bw) - (i - (bw - 1)))) 0) (seq 0 n).
Definition solve_ok (tol : Q) (ab : list (list Q)) (n : nat) (x b : list Q) : bool :=
  all2 (fun a c => close (tol * (1 + Qabs c)) a c) (band_matvec ab n x) (firstn n b).

(* exact forward/back substitution with a lower-triangular dense L (rows), for llt_solves *)
Fixpoint forward (L : list (list Q)) (b : list Q) (acc : list Q) : list Q :=
  match L, b with
  | r :: L', bi :: b' =>
      let i := length acc in
      let yi := (bi - dot (firstn i r) acc) / nthQ r i in
      forward L' b' (acc ++ [yi])
  | _, _ => acc
  end.
