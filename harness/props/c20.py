"""C20 -- a failing pipeline call leaves the process environment as it found it."""
import itertools
import os
import time

from harness import common as C
from translate import c20 as T

ID = 'C20'
PROPS_V = 'C20/Props.v'
LEVEL = 'proof'
TRUSTED = [
    'translate/c20.py: Python ast -> environment-program skeleton (idioms: save/get/del/pop/set/restore, try/finally/except, '
    'literal-tuple loops unrolled, everything else = Call that may raise) and the call graph over pydl (names through definitions and '
    'imports, attributes of imported modules, methods by name for unknown receivers) that decides which callees may write the environment: '
    'callees that may write are inlined (any module) or listed in uninlined_writers, and C20_collaborators_do_not_write re-proves '
    'uninlined_writers = [] on every run',
    'C20.Model.accepts (trace matcher, evaluated by vm_compute) checks on every real run that the skeleton covers the observed os.environ operations; '
    'proved sound and complete for the control-flow semantics `runs` (C20_accepts_iff_runs) and complete for exec (C20_accepts_complete); '
    'it does not track the data flow between operations (C20_runs_not_exec_sound shows the gap), presence flags are checked separately by `consistent`',
    'harness/impl/c20_impl.py: sys.settrace fault injector + tracing os.environ wrapper (frame-based attribution of operations to the entry point / inlined helpers; '
    'writes by any other frame are reported), os.putenv/os.unsetenv wrapped; CPython exception/finally semantics',
    'code outside pydl (numpy, astropy, matplotlib, the standard library) does not write the environment: observed on every run through the '
    'full-environment diff and the foreign-write log, not proved',
]
ASSUMPTIONS = [
    'faults are injected at Python-level calls made directly by the entry point (and by the helpers inlined in its skeleton); C-level builtins are not fault points',
    'template_input is driven through its dump-file path (readspec/skymask/preprocess_spectra are skipped when the dump file exists) and, without a dump file, '
    'up to the failure of readspec on the missing spPlate files; fault points before and after that branch are all exercised',
    'window_score runs its real scoring stage on synthetic window_flist/fpFieldStat/psField files (sdss_name and sdss_path are executed for every field); '
    'under numpy 2 the stage then fails inside sdss_score (int32 & uint64, np.find), so the return path of window_score is explored with a stub for sdss_score',
]

DEFAULT_VARS = {'window_score': ['PHOTO_CALIB', 'PHOTO_RESOLVE'], 'template_input': ['RUN2D', 'RUN1D'],
                'window_read': ['PHOTO_RESOLVE', 'PHOTO_CALIB']}
TARGETS = ('window_score', 'template_input', 'window_read')
_meta = {}


def translate(ctx):
    text, info = T.generate(C.REPO)
    path = os.path.join(C.COQ, 'Generated', 'EnvSkeletons.v')
    if text is not None:
        info['changed'] = C.write_if_changed(path, text)
    else:
        info['restored_committed_file'] = C.restore_generated('coq/Generated/EnvSkeletons.v')
        info['note'] = 'source shape not recognised; the committed Generated/EnvSkeletons.v is kept and only the fault-injection run ties the result to the code'
    _meta.clear()
    _meta.update(info.get('functions', {}))
    _meta['<info>'] = {k: v for k, v in info.items() if k != 'functions'}
    return {'EnvSkeletons': info}


def ev_term(ev, names):
    kind, name, ok = ev
    i = names.index(name)
    if kind == 'get':
        return '(EvGet %d %s)' % (i, C.boollit(ok))
    if kind == 'del':
        return '(EvDel %d %s)' % (i, C.boollit(ok))
    return '(EvSet %d)' % i


HEADER = '''From Coq Require Import List. Import ListNotations.
From PV Require Import C20.Model Generated.EnvSkeletons.'''

FILEVAL = {'RUN2D': 'v9_9_9', 'RUN1D': 'v8_8_8'}


def touched_choices(v):
    """initial states of a touched variable: some other value / unset / the empty string / (template_input) the very
    value the parameter file is about to set -- restoration keyed on "did it change?" or on truthiness shows only there"""
    c = ['orig-value', None, '']
    if v in FILEVAL:
        c.append(FILEVAL[v])
    if v == 'PHOTO_RESOLVE':
        c = ['orig-value', None]          # must be a usable directory or absent
    return c


def extra_states(extras, rng, n_random, full):
    """initial states of the variables that reachable code READS but the entry point does not touch: a usable directory /
    unset / the empty string.  Structured part: all set, all unset, all empty, each one alone set, each one alone
    unset, each one alone empty; plus random assignments (or the full product when it is small enough)."""
    if not extras:
        return [{}]
    vals = ['@dir', None, '']
    if full and len(vals) ** len(extras) <= 729:
        return [dict(zip(extras, combo)) for combo in itertools.product(vals, repeat=len(extras))]
    out = [dict((e, v) for e in extras) for v in vals]
    for e in extras:
        out.append(dict(((x, '@dir' if x == e else None) for x in extras)))
        out.append(dict(((x, None if x == e else '@dir') for x in extras)))
        out.append(dict(((x, '' if x == e else '@dir') for x in extras)))
    for _ in range(n_random):
        out.append(dict((e, rng.choice(vals)) for e in extras))
    seen = []
    for s in out:
        if s not in seen:
            seen.append(s)
    return seen


def run_batches(target, workdir, names, inlined, runs):
    if not runs:
        return []
    nb = max(1, min(C.NPROC, len(runs)))
    outs = C.run_impl_parallel('c20_impl.py', [{'target': target, 'workdir': workdir, 'vars': names, 'inlined': inlined, 'runs': runs[i::nb]}
                                                for i in range(nb)])
    res = [None] * len(runs)
    for i, o in enumerate(outs):
        for k, r in enumerate(o['results']):
            res[i + k * nb] = r
    return res


def correspond(ctx, proof_ok=True):
    ok, log = C.coq_make(['C20/Model.vo', 'Generated/EnvSkeletons.vo'])
    if not ok:
        raise RuntimeError('C20 model does not build:\n' + log[-2000:])
    if not _meta:
        translate(ctx)
    all_runs = []      # (target, names, run, result)
    cov_states = {}
    timing = {}
    for target in TARGETS:
        meta = _meta.get(target) or {}
        names = list(meta.get('vars') or DEFAULT_VARS[target])
        for v in DEFAULT_VARS[target]:
            if v not in names:
                names.append(v)
        inlined = list(meta.get('inlined') or [])
        # variables read by code reachable from the entry point (call graph of translate/c20.py), not touched by it
        extras = [v for v in (meta.get('reads') or []) if v not in names]
        workdir = os.path.join(ctx.work, target)
        base_extra = dict((e, '@dir') for e in extras)
        states = [dict(base_extra, **dict(zip(names, combo))) for combo in itertools.product(*[touched_choices(v) for v in names])]
        if target == 'window_score':
            variants = [{'rescore': False, 'stub_score': True}, {'rescore': True, 'stub_score': True},
                        {'rescore': False, 'stub_score': False}]
            deep = [{'rescore': False, 'stub_score': False}]
        elif target == 'window_read':
            variants = [{'stub_score': True}, {'stub_score': False}]
            deep = [{'stub_score': False}]
        else:
            variants = [{'flux': False}, {'flux': False, 'method': 'hmf'}]
            if ctx.thorough:
                variants.append({'flux': True})
            deep = [{'flux': False, 'nodump': True}]
        base = []
        for st in states:
            for va in variants:
                base.append({'init': st, 'fault': None, 'args': va, 'family': 'touched-states'})
        # the read-variable family: every touched variable set, the read variables in all the states above; the real
        # collaborators run (no stub, no dump file) so that whatever they do with these variables happens
        xs = extra_states(extras, ctx.rng, ctx.n(6, 40), ctx.thorough)
        cov_states[target] = {'touched': names, 'read_by_reachable_code': extras, 'touched_states': len(states), 'read_states': len(xs),
                              'reads_with_computed_key': bool(meta.get('reads_unknown_key'))}
        for xst in xs:
            st = dict(xst, **dict((v, 'orig-value') for v in names))
            for va in deep:
                base.append({'init': st, 'fault': None, 'args': va, 'family': 'read-states'})
        # phase 1: fault-free runs (the first one alone: it creates the input files)
        t0 = time.time()
        first = C.run_impl('c20_impl.py', {'target': target, 'workdir': workdir, 'vars': names, 'inlined': inlined, 'runs': base[:1]})
        optkeys = (first.get('paths') or {}).get('optional_keywords') or []
        if target == 'template_input' and optkeys:
            # the source reads parameter-file keywords the standard file does not define: run every initial state
            # once more with a file that sets them, so that code guarded by `'key' in par` is exercised as well
            for st in states:
                base.append({'init': st, 'fault': None, 'args': {'flux': False, 'optional_keywords': True}, 'family': 'touched-states'})
        ctx.coverage.setdefault('optional_keywords', {})[target] = optkeys
        res0 = [first['results'][0]] + run_batches(target, workdir, names, inlined, base[1:])
        ctx.coverage['pydl_file'] = first['pydl_file']
        timing[target + ':fault-free'] = round(time.time() - t0, 1)
        t0 = time.time()
        # phase 2: every fault point of every (state, variant)
        fault_runs = []
        for b, r in zip(base, res0):
            all_runs.append((target, names, b, r))
            n = r['ncalls']
            both_set = all(b['init'].get(v) == 'orig-value' for v in names)
            if ctx.thorough:
                stride = 1
            elif target != 'template_input':
                # every call index, unless helpers with long call sequences are inlined: then an even sample
                stride = max(1, n // (12 if b['family'] == 'read-states' else 40))
            elif b['family'] == 'read-states':
                stride = 5
            else:
                stride = 2 if both_set else 13
            for k in range(0, n, stride):
                fault_runs.append(dict(b, fault=k))
        for b, r in zip(fault_runs, run_batches(target, workdir, names, inlined, fault_runs)):
            all_runs.append((target, names, b, r))
        timing[target + ':faults'] = round(time.time() - t0, 1)
    # Coq: does the generated skeleton accept each observed trace; restoration verdicts
    t0 = time.time()
    terms = []
    for target, names, run, r in all_runs:
        nm = list(names)
        for e in r['trace']:
            if e[1] not in nm:
                nm.append(e[1])      # a variable outside the skeleton: no skeleton accepts an operation on it
        tr = C.coq_list([ev_term(e, nm) for e in r['trace']])
        restored = not r['env_diff']
        pres = C.coq_list([C.boollit(r['presence'][v] if v in r.get('presence', {}) else run['init'].get(v) is not None) for v in nm])
        terms.append('(CRunP %s_skel %s_vars %s %s %s %s)' % (target, target, pres, tr, C.boollit(r['outcome'] == 'raised'), C.boollit(restored)))
    cc = C.CoqCases(ctx.work, HEADER, 'run_cases', shard=40)
    verdicts = cc.run(terms)
    timing['coq-evaluation'] = round(time.time() - t0, 1)
    dist = {}
    for (target, names, run, r), v in zip(all_runs, verdicts):
        k = '%s:%s:%s:%s' % (target, run['family'], 'fault' if run['fault'] is not None else 'nofault', r['outcome'])
        dist[k] = dist.get(k, 0) + 1
    fired = sum(1 for _, _, run, r in all_runs if run['fault'] is not None and r['fired_at'])
    info = _meta.get('<info>') or {}
    ctx.coverage.update({
        'evaluations': len(all_runs),
        'distinct_nontrivial': len(set((t, str(sorted(run['init'].items(), key=str)), str(run['args']), run['fault']) for t, _, run, _ in all_runs if run['fault'] is not None)),
        'rule': 'one evaluation = one real execution of window_score / template_input / window_read with an exception injected at the k-th '
                'Python-level call made by the entry point or a helper inlined in its skeleton (k = every call index of the fault-free run; in the quick tier template_input uses every 2nd index '
                'with both variables set to an unrelated value and every 13th for the other states: unset, empty string, or equal to the value the parameter file sets). '
                'Family touched-states: every combination of initial states of the touched variables (unset / other value / empty string / for RUN2D,RUN1D also the value the parameter file sets). '
                'Family read-states: the variables that code reachable from the entry point reads (derived by the call graph of translate/c20.py) in the states usable directory / unset / empty '
                '(all set, all unset, all empty, each alone set / unset / empty, random assignments; the full product in the thorough tier), with the real collaborators '
                '(sdss_score on synthetic fpFieldStat/psField files; template_input without a dump file). '
                'The full process environment is compared before/after, every write to os.environ (os.putenv, os.unsetenv) by a frame that is not the entry point or an inlined helper is logged, '
                'and the observed os.environ operations must be a trace of the generated skeleton (Coq: accepts) whose presence flags are consistent with the initial state (Coq: consistent). '
                'non-trivial = a run with an injected fault; distinct by (entry point, state, variant, k)',
        'runs_by_kind': dist,
        'seconds': timing,
        'initial_states': cov_states,
        'call_graph': {'env_writers_in_package': info.get('env_writers_in_package'), 'uninlined_writers': info.get('uninlined_writers'),
                       'reachable_units': dict((t, (_meta.get(t) or {}).get('reachable_units')) for t in TARGETS),
                       'inlined': dict((t, (_meta.get(t) or {}).get('inlined')) for t in TARGETS)},
        'faults_fired': fired,
        'not_restored': sum(1 for v in verdicts if v & 2),
        'trace_not_accepted': sum(1 for v in verdicts if v & 1),
        'foreign_writes': sum(1 for _, _, _, r in all_runs if r.get('foreign_writes')),
        'deepest_failures': sorted(set('%s: %s' % (t, (r['exc'] or '')[:60]) for t, _, run, r in all_runs
                                       if run['fault'] is None and r['outcome'] == 'raised'))[:12],
        'samples': [{'target': t, 'init': run['init'], 'fault': run['fault'], 'args': run['args'], 'outcome': r['outcome'],
                     'exc': r['exc'], 'fired_at': r['fired_at'], 'trace': r['trace'], 'env_diff': r['env_diff']}
                    for t, _, run, r in (all_runs[:2] + all_runs[-2:])],
    })
    seen = set()
    for (target, names, run, r), v, term in zip(all_runs, verdicts, terms):
        if v & 2:
            sig = 'C20:%s:not-restored:%s' % (target, ','.join(sorted(r['env_diff'])))
            if sig in seen:
                continue
            seen.add(sig)
            where = 'call #%s (%s) fails' % (run['fault'], r['fired_at']) if run['fault'] is not None else \
                'it %s (%s) from the initial state %s' % (r['outcome'], (r['exc'] or 'no exception')[:60],
                                                         dict((k, x) for k, x in run['init'].items() if k not in names or x != 'orig-value'))
            ctx.violation(sig, '%s leaves %s changed when %s%s' % (target, sorted(r['env_diff']), where,
                                                                   '; written by %s' % r['foreign_writes'][0][2] if r.get('foreign_writes') else ''),
                          {'kind': 'failing-input', 'target': target, 'init': run['init'], 'fault': run['fault'], 'args': run['args'],
                           'vars': names, 'inlined': (_meta.get(target) or {}).get('inlined') or [],
                           'observed': r, 'coq_case': term[:2000], 'verdict': v}, True)
        elif v & 1:
            sig = 'C20:%s:trace-not-in-skeleton' % target
            if r.get('foreign_writes'):
                sig = 'C20:%s:collaborator-writes-environment:%s' % (target, ','.join(sorted(set(w[1] for w in r['foreign_writes']))))
            if sig in seen:
                continue
            seen.add(sig)
            ctx.violation(sig, 'observed os.environ operations of %s are not a behaviour of the generated skeleton%s' % (
                target, ' (written by %s)' % r['foreign_writes'][0][2] if r.get('foreign_writes') else ''),
                          {'kind': 'broken-correspondence', 'item': 'C20.Model.accepts %s_skel' % target, 'init': run['init'],
                           'fault': run['fault'], 'args': run['args'], 'observed': r, 'coq_case': term[:2000]}, False)
    # the call-graph obligation, reported with its reason (Props.v: C20_collaborators_do_not_write fails on it)
    for u in info.get('uninlined_writers') or []:
        ctx.violation('C20:uninlined-environment-writer', 'a collaborator that may write the environment cannot be placed in the skeleton: %s' % u,
                      {'kind': 'broken-proof', 'item': 'C20_collaborators_do_not_write', 'detail': info.get('uninlined_writers')}, False)
        break


def replay(ctx, rep):
    if 'target' not in rep:
        print('replay file has no fault schedule (kind=%s item=%s)' % (rep.get('kind'), rep.get('item')))
        return 2
    out = C.run_impl('c20_impl.py', {'target': rep['target'], 'workdir': os.path.join(ctx.work, 'replay'), 'vars': rep['vars'],
                                     'inlined': rep.get('inlined') or [],
                                     'runs': [{'init': rep['init'], 'fault': rep['fault'], 'args': rep['args']}]})
    print('schedule:', rep['target'], rep['init'], 'fault at call', rep['fault'])
    print('now     :', out['results'][0])
    print('before  :', rep.get('observed'))
    return 0
