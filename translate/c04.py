"""Fail-closed extraction of the index arithmetic of chunks.assign() / chunks.getbounds() / chunks.get()
(pydl/pydlutils/spheregroup.py) into coq/Generated/Chunks.v.

Extracted (each from the AST, nothing is assumed about the text):
  assign()    the two  for raChunk in range(A, B)  loops (reset / fill): A and B as functions of
              lo = raChunkMin[decChunk-decChunkMin], hi = raChunkMax[decChunk-decChunkMin];
              the if / elif / else that computes currRaChunk (the RA wrap) and the validity test on currRaChunk
  getbounds() the two floor-binning expressions (declination slice, RA cell), the tests of the two declination
              while loops and of the two RA walks
  get()       its two floor-binning expressions
Anything that does not have exactly the expected shape raises Unrecognised: the previous Generated/Chunks.v is kept and
the run relies on the correspondence check alone.
"""
import ast
import os

from translate import pyexpr as P

U = P.Unrecognised


def sub_names(node, table):
    """replace sub-trees by Names: table = list of (predicate(node) -> name or None)"""
    class T(ast.NodeTransformer):
        def generic_visit(self, n):
            for pred in table:
                nm = pred(n)
                if nm is not None:
                    return ast.copy_location(ast.Name(id=nm, ctx=ast.Load()), n)
            return super().generic_visit(n)

        def visit(self, n):
            for pred in table:
                nm = pred(n)
                if nm is not None:
                    return ast.copy_location(ast.Name(id=nm, ctx=ast.Load()), n)
            return super().visit(n)
    import copy
    return T().visit(copy.deepcopy(node))


def is_sub(n, base):
    """n is  base[...]  where base is a Name or self.<attr>"""
    if not isinstance(n, ast.Subscript):
        return False
    v = n.value
    if isinstance(v, ast.Name):
        return v.id == base
    if isinstance(v, ast.Attribute) and isinstance(v.value, ast.Name) and v.value.id == 'self':
        return v.attr == base
    return False


def self_attr(n, attr):
    return isinstance(n, ast.Attribute) and isinstance(n.value, ast.Name) and n.value.id == 'self' and n.attr == attr


# ---------------------------------------------------------------- integer expressions / conditions (Z)

CMP = {ast.Lt: 'Z.ltb', ast.LtE: 'Z.leb', ast.Gt: 'Z.gtb', ast.GtE: 'Z.geb', ast.Eq: 'Z.eqb'}


def zcond(node, env):
    if isinstance(node, ast.BoolOp) and isinstance(node.op, ast.And):
        return '(' + ' && '.join(zcond(v, env) for v in node.values) + ')'
    if isinstance(node, ast.Compare) and len(node.ops) == 1 and type(node.ops[0]) in CMP:
        return '(%s %s %s)' % (CMP[type(node.ops[0])], P.to_gallina(node.left, env), P.to_gallina(node.comparators[0], env))
    raise U('integer condition %s' % ast.dump(node)[:80])


# ---------------------------------------------------------------- float expressions / conditions (Q, exact)

QBIN = {ast.Add: 'Qplus', ast.Sub: 'Qminus', ast.Mult: 'Qmult', ast.Div: 'Qdiv'}


def qexpr(node, env):
    if isinstance(node, ast.Name):
        if node.id in env:
            return env[node.id]
        raise U('free name %s' % node.id)
    if isinstance(node, ast.BinOp) and type(node.op) in QBIN:
        return '(%s %s %s)' % (QBIN[type(node.op)], qexpr(node.left, env), qexpr(node.right, env))
    if isinstance(node, ast.Call) and isinstance(node.func, ast.Name) and node.func.id == 'float' and len(node.args) == 1:
        return qexpr(node.args[0], env)
    raise U('float expression %s' % ast.dump(node)[:80])


def floor_index(node, env):
    """int(np.floor(E)) -> Qfloor E"""
    if not (isinstance(node, ast.Call) and isinstance(node.func, ast.Name) and node.func.id == 'int' and len(node.args) == 1):
        raise U('int(...) expected')
    f = node.args[0]
    if not (isinstance(f, ast.Call) and isinstance(f.func, ast.Attribute) and f.func.attr == 'floor' and len(f.args) == 1):
        raise U('np.floor(...) expected')
    return '(Qfloor %s)' % qexpr(f.args[0], env)


def qlt(node, env):
    if isinstance(node, ast.Compare) and len(node.ops) == 1 and isinstance(node.ops[0], ast.Lt):
        return '(Qlt_bool %s %s)' % (qexpr(node.left, env), qexpr(node.comparators[0], env))
    raise U('float comparison %s' % ast.dump(node)[:80])


# ---------------------------------------------------------------- assign()

def ra_loops(fn):
    """the `for raChunk in range(A, B)` loops nested in `for decChunk in range(decChunkMin, decChunkMax+1)`"""
    out = []
    for n in ast.walk(fn):
        if isinstance(n, ast.For) and isinstance(n.target, ast.Name) and n.target.id == 'decChunk':
            it = n.iter
            if not (isinstance(it, ast.Call) and isinstance(it.func, ast.Name) and it.func.id == 'range' and len(it.args) == 2):
                raise U('decChunk loop is not range(a, b)')
            if not (isinstance(it.args[0], ast.Name) and it.args[0].id == 'decChunkMin'):
                raise U('decChunk loop does not start at decChunkMin')
            b = it.args[1]
            if not (isinstance(b, ast.BinOp) and isinstance(b.op, ast.Add) and isinstance(b.left, ast.Name) and
                    b.left.id == 'decChunkMax' and P.const_value(b.right) == 1):
                raise U('decChunk loop does not end at decChunkMax+1')
            inner = [m for m in n.body if isinstance(m, ast.For)]
            if len(inner) != 1 or len(n.body) != 1:
                raise U('decChunk loop body')
            out.append(inner[0])
    if len(out) != 2:
        raise U('expected two decChunk loops in assign(), found %d' % len(out))
    return out


def lohi(n):
    if is_sub(n, 'raChunkMin'):
        return 'lo'
    if is_sub(n, 'raChunkMax'):
        return 'hi'
    if is_sub(n, 'nRa'):
        return 'nra'
    return None


def check_row_index(loop):
    """raChunkMin[decChunk-decChunkMin] / self.nRa[decChunk]: the subscripts the model assumes"""
    for n in ast.walk(loop):
        if is_sub(n, 'raChunkMin') or is_sub(n, 'raChunkMax'):
            s = n.slice
            if not (isinstance(s, ast.BinOp) and isinstance(s.op, ast.Sub) and isinstance(s.left, ast.Name) and s.left.id == 'decChunk'
                    and isinstance(s.right, ast.Name) and s.right.id == 'decChunkMin'):
                raise U('raChunkMin/Max subscript')
        if is_sub(n, 'nRa'):
            if not (isinstance(n.slice, ast.Name) and n.slice.id == 'decChunk'):
                raise U('nRa subscript')


def ra_loop(loop, tag):
    if not (isinstance(loop.target, ast.Name) and loop.target.id == 'raChunk'):
        raise U('inner loop variable')
    check_row_index(loop)
    it = loop.iter
    if not (isinstance(it, ast.Call) and isinstance(it.func, ast.Name) and it.func.id == 'range' and len(it.args) == 2):
        raise U('raChunk loop is not range(a, b)')
    env = {'lo': 'lo', 'hi': 'hi', 'nra': 'nra', 'raChunk': 'r', 'currRaChunk': 'c'}
    a = P.to_gallina(sub_names(it.args[0], [lohi]), env)
    b = P.to_gallina(sub_names(it.args[1], [lohi]), env)
    if len(loop.body) != 2 or not isinstance(loop.body[0], ast.If) or not isinstance(loop.body[1], ast.If):
        raise U('raChunk loop body (%s)' % tag)
    w = loop.body[0]

    def assigned(body):
        if len(body) == 1 and isinstance(body[0], ast.Assign) and len(body[0].targets) == 1 and \
                isinstance(body[0].targets[0], ast.Name) and body[0].targets[0].id == 'currRaChunk':
            return P.to_gallina(sub_names(body[0].value, [lohi]), env)
        raise U('currRaChunk assignment (%s)' % tag)
    if len(w.orelse) != 1 or not isinstance(w.orelse[0], ast.If):
        raise U('wrap elif (%s)' % tag)
    w2 = w.orelse[0]
    wrap = '(if %s then %s else if %s then %s else %s)' % (
        zcond(sub_names(w.test, [lohi]), env), assigned(w.body),
        zcond(sub_names(w2.test, [lohi]), env), assigned(w2.body), assigned(w2.orelse))
    valid = zcond(sub_names(loop.body[1].test, [lohi]), env)
    if loop.body[1].orelse:
        raise U('validity test has an else branch (%s)' % tag)
    return a, b, wrap, valid


# ---------------------------------------------------------------- getbounds() / get()

def bound_names(dec_or_ra):
    """self.decBounds[0] -> lo, self.decBounds[self.nDec] -> hi, float(self.nDec) -> n   (and the raBounds[i] analogues)"""
    def pred(n):
        if dec_or_ra == 'dec':
            if is_sub(n, 'decBounds'):
                s = n.slice
                if isinstance(s, ast.Constant) and s.value == 0:
                    return 'lo'
                if self_attr(s, 'nDec'):
                    return 'hi'
                raise U('decBounds subscript in binning expression')
            if self_attr(n, 'nDec'):
                return 'n'
        else:
            if isinstance(n, ast.Subscript) and is_sub(n.value, 'raBounds'):
                s = n.slice
                if isinstance(s, ast.Constant) and s.value == 0:
                    return 'lo'
                if is_sub(s, 'nRa'):
                    return 'hi'
                raise U('raBounds subscript in binning expression')
            if is_sub(n, 'nRa'):
                return 'n'
        return None
    return pred


def first_assign(fn, target_pred):
    for n in ast.walk(fn):
        if isinstance(n, ast.Assign) and len(n.targets) == 1 and target_pred(n.targets[0]):
            return n
    raise U('assignment not found')


def walk_tests(fn):
    """tests of the two declination while loops and of the keepGoing assignments"""
    whiles = [n for n in ast.walk(fn) if isinstance(n, ast.While)]
    dec = [w for w in whiles if not (isinstance(w.test, ast.BoolOp) and any(isinstance(v, ast.Name) and v.id == 'keepGoing' for v in w.test.values))]
    if len(dec) != 2:
        raise U('expected two declination while loops, found %d' % len(dec))
    out = {}

    def decpred(n):
        if is_sub(n, 'decBounds'):
            return 'b'
        return None
    for w, key, idx_ok in ((dec[0], 'dec_down', lambda s: isinstance(s, ast.Name) and s.id == 'decChunkMin'),
                           (dec[1], 'dec_up', lambda s: isinstance(s, ast.BinOp) and isinstance(s.op, ast.Add) and
                            isinstance(s.left, ast.Name) and s.left.id == 'decChunkMax' and P.const_value(s.right) == 1)):
        t = w.test
        if not (isinstance(t, ast.BoolOp) and isinstance(t.op, ast.And) and len(t.values) == 2):
            raise U('declination while test')
        for n in ast.walk(t.values[0]):
            if is_sub(n, 'decBounds') and not idx_ok(n.slice):
                raise U('declination bound index in %s' % key)
        out[key] = qlt(sub_names(t.values[0], [decpred]), {'dec': 'x', 'b': 'b', 'marginSize': 'm'})
        guard = sub_names(t.values[1], [lambda n: 'n' if self_attr(n, 'nDec') else None])
        out[key + '_guard'] = zcond(guard, {'decChunkMin': 'c', 'decChunkMax': 'c', 'n': 'n'})
    keep = [n for n in ast.walk(fn) if isinstance(n, ast.Assign) and len(n.targets) == 1 and isinstance(n.targets[0], ast.Name)
            and n.targets[0].id == 'keepGoing' and isinstance(n.value, ast.Compare)]
    if len(keep) != 2:
        raise U('expected two keepGoing comparisons, found %d' % len(keep))

    def rapred(n):
        if isinstance(n, ast.Subscript) and is_sub(n.value, 'raBounds'):
            return 'b'
        return None
    for k, key, idx_ok in ((keep[0], 'ra_down', lambda s: isinstance(s, ast.Name) and s.id == 'raCheck'),
                           (keep[1], 'ra_up', lambda s: isinstance(s, ast.BinOp) and isinstance(s.op, ast.Add) and
                            isinstance(s.left, ast.Name) and s.left.id == 'raCheck' and P.const_value(s.right) == 1)):
        for n in ast.walk(k.value):
            if isinstance(n, ast.Subscript) and is_sub(n.value, 'raBounds') and not idx_ok(n.slice):
                raise U('RA bound index in %s' % key)
        out[key] = qlt(sub_names(k.value, [rapred]), {'ra': 'x', 'b': 'b', 'raMargin': 'm', 'marginSize': 'm0', 'cosDecMin': 'cosDecMin'})
    return out


# ---------------------------------------------------------------- round 5: what decides the grid, and the pair loop
# A small exact-rational expression compiler: names (env), float/int constants (the exact value of the double), + - * /,
# unary minus, float(x), abs(x), max(a, b), int(np.floor(x)) / np.floor(x) (as inject_Z (Qfloor x)), self.<attr> (env),
# comparisons and `and` / `or`.

from fractions import Fraction


def qconst(v):
    if isinstance(v, bool) or not isinstance(v, (int, float)):
        raise U('constant %r' % (v,))
    fr = Fraction(v)
    return '(Qmake %d %d)' % (fr.numerator, fr.denominator) if fr.numerator >= 0 else '(Qopp (Qmake %d %d))' % (-fr.numerator, fr.denominator)


def qx(node, env):
    if isinstance(node, ast.Constant):
        return qconst(node.value)
    if isinstance(node, ast.Name):
        if node.id in env:
            return env[node.id]
        raise U('free name %s' % node.id)
    if isinstance(node, ast.Attribute) and isinstance(node.value, ast.Name) and node.value.id in ('self', 'chunk'):
        if node.attr in env:
            return env[node.attr]
        raise U('free attribute %s' % node.attr)
    if isinstance(node, ast.UnaryOp) and isinstance(node.op, ast.USub):
        return '(Qopp %s)' % qx(node.operand, env)
    if isinstance(node, ast.BinOp) and type(node.op) in QBIN:
        return '(%s %s %s)' % (QBIN[type(node.op)], qx(node.left, env), qx(node.right, env))
    if isinstance(node, ast.Call) and isinstance(node.func, ast.Name) and not node.keywords:
        f = node.func.id
        if f == 'float' and len(node.args) == 1:
            return qx(node.args[0], env)
        if f == 'abs' and len(node.args) == 1:
            return '(Qabs %s)' % qx(node.args[0], env)
        if f == 'max' and len(node.args) == 2:
            a, b = qx(node.args[0], env), qx(node.args[1], env)
            return '(if Qle_bool %s %s then %s else %s)' % (b, a, a, b)
        if f == 'int' and len(node.args) == 1:
            return qx(node.args[0], env)
    if isinstance(node, ast.Call) and isinstance(node.func, ast.Attribute) and isinstance(node.func.value, ast.Name) \
            and node.func.value.id == 'np' and not node.keywords:
        if node.func.attr == 'floor' and len(node.args) == 1:
            return '(inject_Z (Qfloor %s))' % qx(node.args[0], env)
        if node.func.attr == 'fmod' and len(node.args) == 2:
            return '(qfmod %s %s)' % (qx(node.args[0], env), qx(node.args[1], env))
        if node.func.attr == 'where' and len(node.args) == 3:
            return '(if %s then %s else %s)' % (qcond(node.args[0], env), qx(node.args[1], env), qx(node.args[2], env))
    if isinstance(node, ast.Call) and isinstance(node.func, ast.Attribute) and node.func.attr == 'wrapra' and len(node.args) == 1 \
            and isinstance(node.func.value, ast.Name) and node.func.value.id in ('self', 'chunk') and not node.keywords and 'wrapra' in env:
        return '(%s %s)' % (env['wrapra'], qx(node.args[0], env))
    raise U('rational expression %s' % ast.dump(node)[:90])


QCMP = {ast.Lt: ('Qlt_bool', False), ast.Gt: ('Qlt_bool', True), ast.LtE: ('Qle_bool', False), ast.GtE: ('Qle_bool', True),
        ast.Eq: ('Qeq_bool', False)}


def qcond(node, env):
    if isinstance(node, ast.BoolOp):
        op = ' && ' if isinstance(node.op, ast.And) else ' || '
        return '(' + op.join(qcond(v, env) for v in node.values) + ')'
    if isinstance(node, ast.Compare) and len(node.ops) == 1 and type(node.ops[0]) in QCMP:
        f, swap = QCMP[type(node.ops[0])]
        a, b = qx(node.left, env), qx(node.comparators[0], env)
        if swap:
            a, b = b, a
        return '(%s %s %s)' % (f, a, b)
    raise U('rational condition %s' % ast.dump(node)[:90])


def is_fmod(node):
    """np.fmod(A, M) -> (A, M)"""
    if isinstance(node, ast.Call) and isinstance(node.func, ast.Attribute) and node.func.attr == 'fmod' and \
            isinstance(node.func.value, ast.Name) and node.func.value.id == 'np' and len(node.args) == 2 and not node.keywords:
        return node.args
    raise U('np.fmod(a, m) expected: %s' % ast.dump(node)[:80])


def wrapra_call(node, env):
    """self.wrapra(E) / float(self.wrapra(E)) / float(chunk.wrapra(E)) -> gen_wrapra E"""
    if isinstance(node, ast.Call) and isinstance(node.func, ast.Name) and node.func.id == 'float' and len(node.args) == 1:
        node = node.args[0]
    if not (isinstance(node, ast.Call) and isinstance(node.func, ast.Attribute) and node.func.attr == 'wrapra'):
        raise U('wrapra(...) expected: %s' % ast.dump(node)[:80])
    return qx(node, dict(env, wrapra='gen_wrapra'))


def gen_wrapra(cls, out):
    fn = P.find_function(cls, 'wrapra')
    if [ast.dump(d) for d in fn.decorator_list] != [ast.dump(ast.parse('staticmethod').body[0].value)] or \
            [a.arg for a in fn.args.args] != ['ra']:
        raise U('wrapra: @staticmethod def wrapra(ra)')
    body = nodoc(fn.body)
    if len(body) != 3 or not isinstance(body[2], ast.Return):
        raise U('wrapra body')
    e = {'ra': 'ra', 'currRa': 'currRa'}
    t1 = qx(name_assign(body[0], 'currRa'), e)
    t2 = qx(name_assign(body[1], 'currRa'), e)
    t3 = qx(body[2].value, e)
    out.append('(* chunks.wrapra, source line %d *)' % fn.lineno)
    out.append(defn('gen_wrapra', '(ra : Q)', 'Q', '(let currRa := %s in let currRa := %s in %s)' % (t1, t2, t3)))


def name_assign(st, name):
    if isinstance(st, ast.Assign) and len(st.targets) == 1 and isinstance(st.targets[0], ast.Name) and st.targets[0].id == name:
        return st.value
    raise U('assignment to %s expected' % name)


def attr_assign(st, attr):
    if isinstance(st, ast.Assign) and len(st.targets) == 1 and self_attr(st.targets[0], attr):
        return st.value
    raise U('assignment to self.%s expected' % attr)


def nodoc(body):
    return [b for b in body if not (isinstance(b, ast.Expr) and isinstance(b.value, ast.Constant) and isinstance(b.value.value, str))]


def range_of(it, what):
    if not (isinstance(it, ast.Call) and isinstance(it.func, ast.Name) and it.func.id == 'range' and len(it.args) == 1 and not it.keywords):
        raise U('%s: range(n) expected' % what)
    return it.args[0]


def gen_rarange(cls, out):
    fn = P.find_function(cls, 'rarange')
    body = nodoc(fn.body)
    consts = {}
    k = 0
    while k < len(body) and isinstance(body[k], ast.Assign) and isinstance(body[k].value, ast.Constant):
        t = body[k].targets[0]
        if not isinstance(t, ast.Name):
            raise U('rarange constants')
        consts[t.id] = body[k].value.value
        k += 1
    for nm in ('NRA', 'raRangeMin', 'raOffset', 'EPS'):
        if nm not in consts:
            raise U('rarange: constant %s' % nm)
    if len(body) != k + 2 or not isinstance(body[k], ast.For) or not isinstance(body[k + 1], ast.Return):
        raise U('rarange: for loop followed by return expected')
    loop, ret = body[k], body[k + 1]
    if not (isinstance(loop.target, ast.Name) and loop.target.id == 'j') or loop.orelse:
        raise U('rarange loop variable')
    n = range_of(loop.iter, 'rarange loop')
    if not (isinstance(n, ast.Name) and n.id == 'NRA'):
        raise U('rarange loop bound')
    if not (isinstance(ret.value, ast.Tuple) and [getattr(e, 'id', None) for e in ret.value.elts] == ['raRangeMin', 'raOffset']):
        raise U('rarange return value')
    lb = loop.body
    if len(lb) != 3:
        raise U('rarange loop body')
    st0 = lb[0]
    if not (isinstance(st0, ast.Assign) and isinstance(st0.targets[0], ast.Tuple) and
            [getattr(e, 'id', None) for e in st0.targets[0].elts] == ['raMin', 'raMax'] and isinstance(st0.value, ast.Call) and
            self_attr(st0.value.func, 'getraminmax') and len(st0.value.args) == 2 and
            isinstance(st0.value.args[0], ast.Name) and st0.value.args[0].id == 'ra'):
        raise U('rarange: raMin, raMax = self.getraminmax(ra, offset)')
    off1 = st0.value.args[1]
    rng = name_assign(lb[1], 'raRange')
    iff = lb[2]
    if not isinstance(iff, ast.If) or iff.orelse or len(iff.body) != 2:
        raise U('rarange: if statement')
    v1 = name_assign(iff.body[0], 'raRangeMin')
    if not (isinstance(v1, ast.Name) and v1.id == 'raRange'):
        raise U('rarange: raRangeMin = raRange')
    off2 = name_assign(iff.body[1], 'raOffset')
    if ast.dump(off1) != ast.dump(off2):
        raise U('rarange: the offset tried and the offset stored differ')
    cenv = {'NRA': qconst(consts['NRA']), 'EPS': qconst(consts['EPS'])}
    out.append('(* rarange(), source line %d *)' % fn.lineno)
    out.append(defn('gen_rarange_nra', '', 'Z', P.zlit(int(consts['NRA']))))
    out.append(defn('gen_rarange_init', '', '(Q * Q)', '(%s, %s)' % (qconst(consts['raRangeMin']), qconst(consts['raOffset']))))
    out.append(defn('gen_rarange_offset', '(j : Q)', 'Q', qx(off1, dict(cenv, j='j'))))
    out.append(defn('gen_rarange_range', '(raMin raMax : Q)', 'Q', qx(rng, {'raMin': 'raMin', 'raMax': 'raMax'})))
    out.append(defn('gen_rarange_accept', '(raRange raRangeMin raMin raMax minSize : Q)', 'bool',
                    qcond(iff.test, dict(cenv, raRange='raRange', raRangeMin='raRangeMin', raMin='raMin', raMax='raMax', minSize='minSize'))))
    # getraminmax
    g = P.find_function(cls, 'getraminmax')
    gb = nodoc(g.body)
    if len(gb) != 2 or not isinstance(gb[1], ast.Return):
        raise U('getraminmax body')
    cur = name_assign(gb[0], 'currRa')
    r = gb[1].value
    ok = isinstance(r, ast.Tuple) and len(r.elts) == 2 and all(
        isinstance(e, ast.Call) and isinstance(e.func, ast.Attribute) and isinstance(e.func.value, ast.Name) and e.func.value.id == 'currRa'
        and not e.args for e in r.elts) and [e.func.attr for e in r.elts] == ['min', 'max']
    if not ok:
        raise U('getraminmax return value')
    out.append(defn('gen_currRa_init', '(ra raOffset : Q)', 'Q', wrapra_call(cur, {'ra': 'ra', 'raOffset': 'raOffset'})))


def gen_init(cls, out):
    fn = P.find_function(cls, '__init__')
    body = nodoc(fn.body)

    def find(pred, what):
        for i, st in enumerate(body):
            try:
                v = pred(st)
            except U:
                continue
            return i, v
        raise U('__init__: %s not found' % what)
    e = {'decMin': 'decMin', 'decMax': 'decMax', 'decRange': 'decRange', 'minSize': 'minSize', 'nDec': 'nDec'}
    i0, v = find(lambda st: name_assign(st, 'decRange'), 'decRange')
    if not (ast.dump(body[i0 - 2].value) == ast.dump(ast.parse('dec.min()').body[0].value) and
            ast.dump(body[i0 - 1].value) == ast.dump(ast.parse('dec.max()').body[0].value) and
            isinstance(body[i0 - 2].targets[0], ast.Name) and body[i0 - 2].targets[0].id == 'decMin' and body[i0 - 1].targets[0].id == 'decMax'):
        raise U('__init__: decMin = dec.min(); decMax = dec.max()')
    out.append('(* chunks.__init__, declination, source line %d *)' % body[i0].lineno)
    out.append(defn('gen_init_decRange0', '(decMin decMax : Q)', 'Q', qx(v, e)))
    seq = body[i0 + 1:i0 + 7]
    nd = attr_assign(seq[0], 'nDec')
    out.append(defn('gen_init_nDec', '(decRange minSize : Q)', 'Q', qx(nd, e)))
    out.append(defn('gen_init_decRange', '(minSize nDec : Q)', 'Q', qx(name_assign(seq[1], 'decRange'), e)))
    out.append(defn('gen_init_decMin', '(decMin decMax decRange : Q)', 'Q', qx(name_assign(seq[2], 'decMin'), e)))
    out.append(defn('gen_init_decMax', '(decMin decRange : Q)', 'Q', qx(name_assign(seq[3], 'decMax'), e)))
    for st, nm in ((seq[4], 'decMin'), (seq[5], 'decMax')):
        if not isinstance(st, ast.If) or st.orelse or len(st.body) != 1:
            raise U('__init__: clamp of %s' % nm)
        out.append(defn('gen_init_clamp_%s_test' % nm, '(%s minSize : Q)' % nm, 'bool', qcond(st.test, e)))
        out.append(defn('gen_init_clamp_%s_val' % nm, '', 'Q', qx(name_assign(st.body[0], nm), e)))
    # decBounds = decMin + ((decMax - decMin) * np.arange(nDec + 1, dtype='d'))/float(nDec);  the two ends pinned
    db = attr_assign(body[i0 + 7], 'decBounds')

    def arange(n):
        if isinstance(n, ast.Call) and isinstance(n.func, ast.Attribute) and n.func.attr == 'arange' and len(n.args) == 1:
            a = n.args[0]
            if isinstance(a, ast.BinOp) and isinstance(a.op, ast.Add) and P.const_value(a.right) == 1:
                return 'k'
            raise U('np.arange argument')
        return None
    out.append(defn('gen_init_decBound', '(decMin decMax k nDec : Q)', 'Q', qx(sub_names(db, [arange]), dict(e, k='k'))))
    pins = body[i0 + 8:i0 + 10]
    want = ['self.decBounds[0] = decMin', 'self.decBounds[self.nDec] = decMax']
    for st, w in zip(pins, want):
        if ast.dump(st) != ast.dump(ast.parse(w).body[0]):
            raise U('__init__: end bounds are not pinned (%s)' % w)
    # rarange call and raMin/raMax
    i1, v = find(lambda st: (lambda t: t)(st) if (isinstance(st, ast.Assign) and isinstance(st.targets[0], ast.Tuple) and
                                                  self_attr(st.targets[0].elts[0], 'raRange')) else (_ for _ in ()).throw(U('x')), 'rarange call')
    call = body[i1].value
    if not (isinstance(call, ast.Call) and self_attr(call.func, 'rarange') and len(call.args) == 2 and
            self_attr(body[i1].targets[0].elts[1], 'raOffset')):
        raise U('__init__: self.raRange, self.raOffset = self.rarange(ra, ...)')
    out.append(defn('gen_init_rarange_arg', '(minSize cosDecMin : Q)', 'Q', qx(call.args[1], {'minSize': 'minSize', 'cosDecMin': 'cosDecMin'})))
    if ast.dump(body[i1 + 1]) != ast.dump(ast.parse('self.raMin, self.raMax = self.getraminmax(ra, self.raOffset)').body[0]):
        raise U('__init__: raMin, raMax')
    out.append(defn('gen_init_raRange', '(raMin raMax : Q)', 'Q', qx(attr_assign(body[i1 + 2], 'raRange'), {'raMin': 'raMin', 'raMax': 'raMax'})))
    # the slice loop
    loops = [st for st in body if isinstance(st, ast.For)]
    if len(loops) != 1:
        raise U('__init__: one slice loop expected')
    lp = loops[0]
    n = range_of(lp.iter, 'slice loop')
    if not self_attr(n, 'nDec') or not (isinstance(lp.target, ast.Name) and lp.target.id == 'i'):
        raise U('__init__: for i in range(self.nDec)')
    lb = nodoc(lp.body)
    if len(lb) != 9:
        raise U('__init__: slice loop body has %d statements' % len(lb))

    def sl(nn):
        if is_sub(nn, 'nRa'):
            return 'nRa'
        if is_sub(nn, 'decBounds'):
            s_ = nn.slice
            if isinstance(s_, ast.Name) and s_.id == 'i':
                return 'declo'
            if isinstance(s_, ast.BinOp) and isinstance(s_.op, ast.Add) and isinstance(s_.left, ast.Name) and s_.left.id == 'i' and P.const_value(s_.right) == 1:
                return 'dechi'
            raise U('decBounds subscript in the slice loop')
        return None
    se = {'cosDecMin': 'cosDecMin', 'raRange': 'raRange', 'minSize': 'minSize', 'nRa': 'nRa', 'raMin': 'raMin', 'raMax': 'raMax',
          'raRangeTmp': 'raRangeTmp', 'raMinTmp': 'raMinTmp', 'raMaxTmp': 'raMaxTmp', 'declo': 'declo', 'dechi': 'dechi', 'k': 'k'}
    # lb[0]: cosDecMin selection; lb[1]: cosDecMin <= 0 raise
    c0 = lb[0]
    if not (isinstance(c0, ast.If) and len(c0.body) == 1 and len(c0.orelse) == 1):
        raise U('__init__: cosDecMin selection')
    out.append('(* chunks.__init__, slice loop, source line %d *)' % lp.lineno)
    out.append(defn('gen_init_cos_of_lo', '(declo dechi : Q)', 'bool', qcond(sub_names(c0.test, [sl]), se)))
    for br, nm in ((c0.body[0], 'declo'), (c0.orelse[0], 'dechi')):
        v = name_assign(br, 'cosDecMin')
        if ast.dump(sub_names(v, [sl])) != ast.dump(ast.parse('np.cos(np.deg2rad(%s))' % nm).body[0].value):
            raise U('__init__: cosDecMin = cos(deg2rad(bound))')
    if not (isinstance(lb[1], ast.If) and isinstance(lb[1].body[0], ast.Raise)):
        raise U('__init__: cosDecMin <= 0 raise')
    out.append(defn('gen_init_cos_bad', '(cosDecMin : Q)', 'bool', qcond(lb[1].test, se)))
    ap = lb[2]
    if not (isinstance(ap, ast.Expr) and isinstance(ap.value, ast.Call) and isinstance(ap.value.func, ast.Attribute) and
            ap.value.func.attr == 'append' and self_attr(ap.value.func.value, 'nRa') and len(ap.value.args) == 1):
        raise U('__init__: self.nRa.append(...)')
    out.append(defn('gen_init_nRa', '(cosDecMin raRange minSize : Q)', 'Q', qx(ap.value.args[0], se)))
    out.append(defn('gen_init_raRangeTmp', '(minSize nRa cosDecMin : Q)', 'Q', qx(sub_names(name_assign(lb[3], 'raRangeTmp'), [sl]), se)))
    out.append(defn('gen_init_raMinTmp', '(raMin raMax raRangeTmp : Q)', 'Q', qx(name_assign(lb[4], 'raMinTmp'), se)))
    out.append(defn('gen_init_raMaxTmp', '(raMinTmp raRangeTmp : Q)', 'Q', qx(name_assign(lb[5], 'raMaxTmp'), se)))
    em = lb[6]
    if not isinstance(em, ast.If) or em.orelse or len(em.body) != 3:
        raise U('__init__: embrace clause')
    out.append(defn('gen_init_embrace', '(raRangeTmp raMinTmp raMaxTmp minSize cosDecMin declo : Q)', 'bool', qcond(sub_names(em.test, [sl]), se)))
    vals = {}
    for st in em.body:
        if not (isinstance(st, ast.Assign) and isinstance(st.targets[0], ast.Name) and isinstance(st.value, ast.Constant)):
            raise U('__init__: embrace assignments')
        vals[st.targets[0].id] = st.value.value
    if sorted(vals) != ['raMaxTmp', 'raMinTmp', 'raRangeTmp']:
        raise U('__init__: embrace assignments')
    out.append(defn('gen_init_embrace_lo', '', 'Q', qconst(vals['raMinTmp'])))
    out.append(defn('gen_init_embrace_hi', '', 'Q', qconst(vals['raMaxTmp'])))
    po = lb[7]
    if not isinstance(po, ast.If) or po.orelse or len(po.body) != 1 or not is_sub(po.body[0].targets[0], 'nRa'):
        raise U('__init__: polar clause')
    out.append(defn('gen_init_polar', '(declo dechi : Q)', 'bool', qcond(sub_names(po.test, [sl]), se)))
    out.append(defn('gen_init_polar_nRa', '', 'Q', qx(po.body[0].value, se)))
    rb = lb[8]
    if not (isinstance(rb, ast.Expr) and isinstance(rb.value, ast.Call) and isinstance(rb.value.func, ast.Attribute) and
            rb.value.func.attr == 'append' and self_attr(rb.value.func.value, 'raBounds') and len(rb.value.args) == 1):
        raise U('__init__: self.raBounds.append(...)')
    out.append(defn('gen_init_raBound', '(raMinTmp raMaxTmp k nRa : Q)', 'Q', qx(sub_names(rb.value.args[0], [arange, sl]), se)))


def gen_match_head(tree, cls, out):
    fns = {n.name: n for n in tree.body if isinstance(n, ast.FunctionDef)}
    fn = fns['spherematch']
    body = nodoc(fn.body)
    c0 = body[0]
    if not (isinstance(c0, ast.If) and len(c0.body) == 1 and len(c0.orelse) == 1 and isinstance(c0.orelse[0], ast.If) and
            ast.dump(c0.test) == ast.dump(ast.parse('chunksize is None').body[0].value)):
        raise U('spherematch: chunksize default')
    e = {'matchlength': 'L', 'chunksize': 'chunksize'}
    out.append('(* spherematch(), head, source line %d *)' % c0.lineno)
    out.append(defn('gen_chunksize_default', '(L : Q)', 'Q', qx(name_assign(c0.body[0], 'chunksize'), e)))
    c1 = c0.orelse[0]
    if c1.orelse:
        raise U('spherematch: chunksize elif has an else')
    out.append(defn('gen_chunksize_small', '(chunksize L : Q)', 'bool', qcond(c1.test, e)))
    out.append(defn('gen_chunksize_floor', '(L : Q)', 'Q', qx(name_assign(c1.body[0], 'chunksize'), e)))
    # chunk = chunks(ra1, dec1, chunksize); chunk.assign(ra2, dec2, matchlength)
    want = ['chunk = chunks(ra1, dec1, chunksize)', 'chunk.assign(ra2, dec2, matchlength)']
    idx = [k for k, st in enumerate(body) if ast.dump(st) == ast.dump(ast.parse(want[0]).body[0])]
    if len(idx) != 1 or ast.dump(body[idx[0] + 1]) != ast.dump(ast.parse(want[1]).body[0]):
        raise U('spherematch: chunks(ra1, dec1, chunksize) / assign(ra2, dec2, matchlength)')
    # the pair loop
    loops = [st for st in body if isinstance(st, ast.For) and isinstance(st.target, ast.Name) and st.target.id == 'i'
             and any(isinstance(x, ast.For) for x in ast.walk(st) if x is not st)]
    if len(loops) != 1:
        raise U('spherematch: pair loop')
    lp = loops[0]
    n = range_of(lp.iter, 'pair loop')
    if ast.dump(n) != ast.dump(ast.parse('ra1.size').body[0].value):
        raise U('spherematch: for i in range(ra1.size)')
    lb = lp.body
    if len(lb) != 4:
        raise U('spherematch: pair loop body')
    cur = name_assign(lb[0], 'currra')
    out.append(defn('gen_currRa_match', '(ra raOffset : Q)', 'Q',
                    wrapra_call(sub_names(cur, [lambda x: 'ra' if is_sub(x, 'ra1') else None]), {'ra': 'ra', 'raOffset': 'raOffset'})))
    if ast.dump(lb[1]) != ast.dump(ast.parse('rachunk, decchunk = chunk.get(currra, dec1[i])').body[0]):
        raise U('spherematch: rachunk, decchunk = chunk.get(currra, dec1[i])')
    if ast.dump(lb[2]) != ast.dump(ast.parse('jmax = len(chunk.chunkList[decchunk][rachunk])').body[0]):
        raise U('spherematch: jmax')
    g = lb[3]
    if not (isinstance(g, ast.If) and not g.orelse and len(g.body) == 1 and isinstance(g.body[0], ast.For) and
            ast.dump(g.test) == ast.dump(ast.parse('jmax > 0').body[0].value)):
        raise U('spherematch: if jmax > 0')
    inner = g.body[0]
    if not (isinstance(inner.target, ast.Name) and inner.target.id == 'j' and
            ast.dump(range_of(inner.iter, 'inner loop')) == ast.dump(ast.parse('jmax').body[0].value)) or len(inner.body) != 3:
        raise U('spherematch: for j in range(jmax)')
    if ast.dump(inner.body[0]) != ast.dump(ast.parse('k = chunk.chunkList[decchunk][rachunk][j]').body[0]):
        raise U('spherematch: k = chunkList[...][j]')
    sp = name_assign(inner.body[1], 'sep')
    if not (isinstance(sp, ast.BinOp) and isinstance(sp.op, ast.Div) and isinstance(sp.left, ast.Call) and
            isinstance(sp.left.func, ast.Name) and sp.left.func.id == 'gcirc' and
            [ast.dump(x) for x in sp.left.args] == [ast.dump(ast.parse(t).body[0].value) for t in ('ra1[i]', 'dec1[i]', 'ra2[k]', 'dec2[k]')] and
            len(sp.left.keywords) == 1 and sp.left.keywords[0].arg == 'units'):
        raise U('spherematch: sep = gcirc(ra1[i], dec1[i], ra2[k], dec2[k], units=...)/scale')
    out.append(defn('gen_pair_units', '', 'Z', P.zlit(P.const_value(sp.left.keywords[0].value))))
    out.append(defn('gen_pair_scale', '', 'Q', qx(sp.right, {})))
    t = inner.body[2]
    if not isinstance(t, ast.If) or t.orelse or len(t.body) != 3:
        raise U('spherematch: filter')
    out.append(defn('gen_pair_test', '(sep L : Q)', 'bool', qcond(t.test, {'sep': 'sep', 'matchlength': 'L'})))
    for st, w in zip(t.body, ('match1.append(i)', 'match2.append(k)', 'distance12.append(sep)')):
        if ast.dump(st) != ast.dump(ast.parse(w).body[0]):
            raise U('spherematch: %s' % w)
    # the sort and the unlimited branch
    for w in ('omatch1 = np.array(match1)', 'omatch2 = np.array(match2)', 'odistance12 = np.array(distance12)', 's = odistance12.argsort()'):
        if not any(ast.dump(st) == ast.dump(ast.parse(w).body[0]) for st in body):
            raise U('spherematch: %s' % w)
    sel = [st for st in body if isinstance(st, ast.If) and ast.dump(st.test) == ast.dump(ast.parse('maxmatch > 0').body[0].value)]
    if len(sel) != 1 or [ast.dump(x) for x in sel[0].orelse] != [ast.dump(ast.parse(w).body[0]) for w in
                                                                  ('match1 = omatch1[s]', 'match2 = omatch2[s]', 'distance12 = odistance12[s]')]:
        raise U('spherematch: unlimited branch omatch[s]')
    if ast.dump(body[-1]) != ast.dump(ast.parse('return (match1, match2, distance12)').body[0]):
        raise U('spherematch: return value')
    # assign(): the guard and the rotation
    fa = P.find_function(cls, 'assign')
    ab = nodoc(fa.body)
    if not (isinstance(ab[0], ast.If) and isinstance(ab[0].body[0], ast.Raise)):
        raise U('assign: guard')
    out.append(defn('gen_assign_guard', '(marginSize minSize : Q)', 'bool', qcond(ab[0].test, {'marginSize': 'marginSize', 'minSize': 'minSize'})))
    curs = [x for x in ast.walk(fa) if isinstance(x, ast.Assign) and isinstance(x.targets[0], ast.Name) and x.targets[0].id == 'currRa']
    if len(curs) != 1:
        raise U('assign: currRa')
    out.append(defn('gen_currRa_assign', '(ra raOffset : Q)', 'Q',
                    wrapra_call(sub_names(curs[0].value, [lambda x: 'ra' if is_sub(x, 'ra') else None]), {'ra': 'ra', 'raOffset': 'raOffset'})))
    calls = [x for x in ast.walk(fa) if isinstance(x, ast.Call) and self_attr(x.func, 'getbounds')]
    if len(calls) != 1 or ast.dump(calls[0]) != ast.dump(ast.parse('self.getbounds(currRa, dec[i], marginSize)').body[0].value):
        raise U('assign: self.getbounds(currRa, dec[i], marginSize)')
    # get(): the return order (raChunk, decChunk) that spherematch unpacks as rachunk, decchunk
    fg = P.find_function(cls, 'get')
    if ast.dump(nodoc(fg.body)[-1]) != ast.dump(ast.parse('return (raChunk, decChunk)').body[0]):
        raise U('get: return (raChunk, decChunk)')
    # getbounds(): raMargin
    fgb = P.find_function(cls, 'getbounds')
    me = {'marginSize': 'marginSize', 'dec': 'dec', 'sinMargin': 'sinMargin', 'cosDec': 'cosDec'}
    sm = [x for x in ast.walk(fgb) if isinstance(x, ast.Assign) and isinstance(x.targets[0], ast.Name) and x.targets[0].id == 'sinMargin']
    cd = [x for x in ast.walk(fgb) if isinstance(x, ast.Assign) and isinstance(x.targets[0], ast.Name) and x.targets[0].id == 'cosDec']
    if len(sm) != 1 or len(cd) != 1 or ast.dump(sm[0].value) != ast.dump(ast.parse('np.sin(np.deg2rad(marginSize))').body[0].value) or \
            ast.dump(cd[0].value) != ast.dump(ast.parse('np.cos(np.deg2rad(dec))').body[0].value):
        raise U('getbounds: sinMargin / cosDec')
    rm = [x for x in ast.walk(fgb) if isinstance(x, ast.If) and any(isinstance(y, ast.Assign) and isinstance(y.targets[0], ast.Name) and
                                                                 y.targets[0].id == 'raMargin' for y in x.body)]
    if len(rm) != 1 or len(rm[0].body) != 1 or len(rm[0].orelse) != 1:
        raise U('getbounds: raMargin')
    if ast.dump(rm[0].body[0].value) != ast.dump(ast.parse('np.rad2deg(np.arcsin(sinMargin/cosDec))').body[0].value):
        raise U('getbounds: raMargin = rad2deg(arcsin(sinMargin/cosDec))')
    out.append(defn('gen_ramargin_cap_clear', '(marginSize sinMargin cosDec : Q)', 'bool', qcond(rm[0].test, me)))
    out.append(defn('gen_ramargin_full', '', 'Q', qx(name_assign(rm[0].orelse[0], 'raMargin'), me)))


def defn(name, args, typ, body):
    return 'Definition %s%s : %s :=\n  %s.\n' % (name, (' ' + args) if args else '', typ, body)


def generate(repo):
    info = {'recognised': True, 'detail': []}
    src = open(os.path.join(repo, 'pydl/pydlutils/spheregroup.py')).read()
    out = ['(* GENERATED by translate/c04.py from pydl/pydlutils/spheregroup.py (chunks.assign, getbounds, get) -- do not edit *)',
           'From Coq Require Import ZArith QArith Qround Bool.', 'From PV Require Import C04.Model.',
           'Close Scope Q_scope. Open Scope Z_scope.', '']
    try:
        tree = ast.parse(src)
        cls = [n for n in tree.body if isinstance(n, ast.ClassDef) and n.name == 'chunks']
        if len(cls) != 1:
            raise U('class chunks')
        f_assign = P.find_function(cls[0], 'assign')
        f_gb = P.find_function(cls[0], 'getbounds')
        f_get = P.find_function(cls[0], 'get')
        reset, fill = ra_loops(f_assign)
        for loop, tag in ((reset, 'reset'), (fill, 'fill')):
            a, b, wrap, valid = ra_loop(loop, tag)
            out.append('(* assign(), %s loop, source line %d *)' % (tag, loop.lineno))
            out.append(defn('gen_%s_from' % tag, '(lo hi : Z)', 'Z', a))
            out.append(defn('gen_%s_to' % tag, '(lo hi : Z)', 'Z', b))
            out.append(defn('gen_%s_wrap' % tag, '(nra r : Z)', 'Z', wrap))
            out.append(defn('gen_%s_valid' % tag, '(nra c : Z)', 'bool', valid))
        # the fill loop must append under `if not chunkDone[...]` and set it; the reset loop must clear it
        srcfill = ast.dump(fill)
        if 'append' not in srcfill or 'chunkDone' not in srcfill:
            raise U('fill loop does not append under chunkDone')
        qenv = {'dec': 'x', 'ra': 'x', 'lo': 'lo', 'hi': 'hi', 'n': 'n'}
        a1 = first_assign(f_gb, lambda t: isinstance(t, ast.Name) and t.id == 'decChunkMin')
        out.append('(* getbounds(), declination slice, source line %d *)' % a1.lineno)
        out.append(defn('gen_gb_dec_index', '(x lo hi n : Q)', 'Z', floor_index(sub_names(a1.value, [bound_names('dec')]), qenv)))
        a2 = first_assign(f_gb, lambda t: is_sub(t, 'raChunkMin'))
        out.append('(* getbounds(), RA cell, source line %d *)' % a2.lineno)
        out.append(defn('gen_gb_ra_index', '(x lo hi n : Q)', 'Z', floor_index(sub_names(a2.value, [bound_names('ra')]), qenv)))
        a3 = first_assign(f_get, lambda t: isinstance(t, ast.Name) and t.id == 'decChunk')
        out.append(defn('gen_get_dec_index', '(x lo hi n : Q)', 'Z', floor_index(sub_names(a3.value, [bound_names('dec')]), qenv)))
        a4 = first_assign(f_get, lambda t: isinstance(t, ast.Name) and t.id == 'raChunk')

        def get_ra(n):
            # self.raBounds[decChunk][0], self.raBounds[decChunk][self.nRa[decChunk]], float(self.nRa[decChunk])
            return bound_names('ra')(n)
        out.append(defn('gen_get_ra_index', '(x lo hi n : Q)', 'Z', floor_index(sub_names(a4.value, [get_ra]), qenv)))
        wt = walk_tests(f_gb)
        out.append('(* getbounds(), walk tests: x = dec or ra of the point, b = the bound compared with, m = marginSize resp. raMargin *)')
        for key in ('dec_down', 'dec_up', 'ra_down', 'ra_up'):
            if 'cosDecMin' in wt[key] or 'm0' in wt[key]:
                raise U('%s test is not of the form (difference) < margin' % key)
            out.append(defn('gen_%s_test' % key, '(x b m : Q)', 'bool', wt[key]))
        out.append(defn('gen_dec_down_guard', '(c n : Z)', 'bool', wt['dec_down_guard']))
        out.append(defn('gen_dec_up_guard', '(c n : Z)', 'bool', wt['dec_up_guard']))
        # the two maxmatch passes of spherematch(), compiled by the generic statement compiler of translate/c05.py
        from translate import c05 as T5
        out.append('(* spherematch(): the two maxmatch passes as statements of C05/Imp.v *)')
        out.append('From Coq Require Import String.')
        out.append('From PV Require Import C05.Imp.')
        out.append('Open Scope string_scope.')
        out += T5.generate_greedy(repo)
        out.append('(* round 5: what decides the grid (rarange, getraminmax, chunks.__init__) and the head / pair loop of spherematch() *)')
        out.append('From Coq Require Import Qabs.')
        out.append('From PV Require Import C04.SceneModel.')
        out.append('Close Scope string_scope. Close Scope Z_scope.')
        gen_wrapra(cls[0], out)
        gen_rarange(cls[0], out)
        gen_init(cls[0], out)
        gen_match_head(tree, cls[0], out)
        out.append('Definition chunks_recognised : bool := true.')
    except (U, SyntaxError, KeyError, IndexError, AttributeError, TypeError) as e:
        info['recognised'] = False
        info['detail'].append('%s: %s' % (type(e).__name__, e))
        return None, info
    return '\n'.join(out) + '\n', info


if __name__ == '__main__':
    import sys
    text, info = generate(sys.argv[1] if len(sys.argv) > 1 else '/repo')
    print(info)
    print(text)
