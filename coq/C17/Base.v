(* C17: helper definitions shared by the GENERATED pieces (Generated/Reject.v, SkyMask.v, MaskInterp.v)
   and the hand-written models.  Definitions only. *)
From Coq Require Import ZArith QArith Qabs List Bool.
Import ListNotations.
Open Scope Q_scope.

Definition Qltb (a b : Q) : bool := negb (Qle_bool b a).
Definition b2q (b : bool) : Q := if b then 1 else 0.
Definition qnat (n : nat) : Q := inject_Z (Z.of_nat n).

(* d * sqrt(iv) < c, for iv >= 0, without the square root *)
Definition sqrtmul_lt (d iv c : Q) : bool :=
  if Qltb 0 c then Qle_bool d 0 || Qltb (d * d * iv) (c * c)
  else Qltb d 0 && Qltb (c * c) (d * d * iv).

(* numpy.all(a == b) / numpy.any(a == b) for equal shapes *)
Definition list_beq (a b : list bool) : bool :=
  Nat.eqb (length a) (length b) && forallb (fun p => Bool.eqb (fst p) (snd p)) (combine a b).
Definition list_any_eq (a b : list bool) : bool :=
  existsb (fun p => Bool.eqb (fst p) (snd p)) (combine a b).
