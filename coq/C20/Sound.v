(* C20: what an accepted trace means.

   `runs p tr o` is the control-flow semantics of a skeleton: the sequences of os.environ operations (with their
   success flags) and the outcome class that p can produce when the success of every single operation is left
   open (a Read may find the variable or not, a Restore may fail silently, a Call may raise or not ...).
     exec_runs            every execution (any schedule, any state) is a run;
     mrun_sound           every configuration the matcher reaches is reached by a run of the consumed prefix;
     runs_complete        every run is found by the matcher;
     accepts_iff_runs     accepts p tr raised = true  <->  some run of p has exactly the trace tr and the outcome
                          class `raised`.
   So the matcher accepts exactly the control-flow language of the skeleton -- no more.  It does not track the
   data flow between operations (whether a variable is present after a Del, what a slot holds):
   runs_not_exec_sound exhibits a run that no execution produces.  The presence part of that data flow is checked
   on observed traces by `consistent`, proved to hold of every execution (exec_ev_consistent). *)
From Coq Require Import List Bool Arith Lia.
Import ListNotations.
From PV Require Import C20.Model C20.Accepts.

Definition ialts (i : instr) : list (list ev * outcome) :=
  match i with
  | SaveStrict v _ | ReadReq v => [([EvGet v true], N); ([EvGet v false], E)]
  | SaveOpt v _ => [([EvGet v true], N); ([EvGet v false], N)]
  | Del v => [([EvDel v true], N); ([EvDel v false], E)]
  | Pop v => [([EvDel v true], N); ([EvDel v false], N)]
  | SetC v _ => [([EvSet v], N)]
  | Restore v _ => [([], E); ([EvSet v], N)]
  | RestoreOpt v _ => [([], E); ([EvSet v], N); ([EvDel v true], N); ([EvDel v false], E)]
  | RestoreOptPop v _ => [([], E); ([EvSet v], N); ([EvDel v true], N); ([EvDel v false], N)]
  | Call _ => [([], N); ([], E)]
  end.

Inductive runs : prog -> list ev -> outcome -> Prop :=
| r_skip : runs Skip [] N
| r_instr i tr o : In (tr, o) (ialts i) -> runs (I i) tr o
| r_seq_n p q t1 t2 o : runs p t1 N -> runs q t2 o -> runs (Seq p q) (t1 ++ t2) o
| r_seq_stop p q t1 o : runs p t1 o -> o <> N -> runs (Seq p q) t1 o
| r_choice_l p q t o : runs p t o -> runs (Choice p q) t o
| r_choice_r p q t o : runs q t o -> runs (Choice p q) t o
| r_finally p q t1 t2 o o2 : runs p t1 o -> runs q t2 o2 ->
    runs (TryFinally p q) (t1 ++ t2) (match o2 with N => o | _ => o2 end)
| r_except_pass p q t o : runs p t o -> runs (TryExcept p q) t o
| r_except_caught p q t1 t2 o : runs p t1 E -> runs q t2 o -> runs (TryExcept p q) (t1 ++ t2) o
| r_scope p t o : runs p t o -> runs (Scope p) t (match o with R => N | _ => o end)
| r_raise : runs Raise [] E
| r_ret : runs Ret [] R.

(* ---------- every execution is a run ---------- *)

Lemma step_ialts i sc st st' o sc' : step i sc st = (st', o, sc') -> In (step_ev i st, o) (ialts i).
Proof.
  destruct st as [e sl]. intros H.
  destruct i; simpl in H |- *;
    repeat match type of H with
           | context[match ?x with _ => _ end] => destruct x eqn:?
           end;
    inversion H; subst; simpl; auto 6;
    repeat match goal with |- context[is_some ?x] => destruct (is_some x) end; auto 6.
Qed.

Theorem exec_runs p : forall sc st st' o sc', exec p sc st = (st', o, sc') -> runs p (exec_ev p sc st) o.
Proof.
  induction p; intros sc st st' o sc' H; simpl in H |- *.
  - inversion H; subst. constructor.
  - constructor. eapply step_ialts; eauto.
  - destruct (exec p1 sc st) as [[st1 o1] sc1] eqn:E1.
    pose proof (IHp1 _ _ _ _ _ E1) as R1.
    destruct o1.
    + eapply r_seq_n; eauto.
    + inversion H; subst. rewrite app_nil_r. apply r_seq_stop; [exact R1 | discriminate].
    + inversion H; subst. rewrite app_nil_r. apply r_seq_stop; [exact R1 | discriminate].
  - destruct (pop sc) as [b sc1]. destruct b; [apply r_choice_l | apply r_choice_r]; eauto.
  - destruct (exec p1 sc st) as [[st1 o1] sc1] eqn:E1.
    destruct (exec p2 sc1 st1) as [[st2 o2] sc2] eqn:E2.
    pose proof (r_finally _ _ _ _ _ _ (IHp1 _ _ _ _ _ E1) (IHp2 _ _ _ _ _ E2)) as Rf.
    destruct o2; inversion H; subst; exact Rf.
  - destruct (exec p1 sc st) as [[st1 o1] sc1] eqn:E1.
    pose proof (IHp1 _ _ _ _ _ E1) as R1.
    destruct o1.
    + inversion H; subst. rewrite app_nil_r. apply r_except_pass; exact R1.
    + destruct (pop sc1) as [b sc2]. destruct b.
      * eapply r_except_caught; eauto.
      * inversion H; subst. rewrite app_nil_r. apply r_except_pass; exact R1.
    + inversion H; subst. rewrite app_nil_r. apply r_except_pass; exact R1.
  - destruct (exec p sc st) as [[st1 o1] sc1] eqn:E1. inversion H; subst.
    apply r_scope. eauto.
  - inversion H; subst. constructor.
  - inversion H; subst. constructor.
Qed.

(* ---------- soundness of the matcher ---------- *)

Lemma ev_eqb_eq a b : ev_eqb a b = true -> a = b.
Proof.
  destruct a, b; simpl; try discriminate; intros H.
  - apply andb_true_iff in H as [H1 H2]. apply Nat.eqb_eq in H1. apply eqb_prop in H2. congruence.
  - apply andb_true_iff in H as [H1 H2]. apply Nat.eqb_eq in H1. apply eqb_prop in H2. congruence.
  - apply Nat.eqb_eq in H. congruence.
Qed.

Lemma expect_sound tr alts r o : In (r, o) (expect tr alts) -> exists e, tr = e :: r /\ In (e, o) alts.
Proof.
  destruct tr as [|e tr]; simpl; [contradiction|]. intros H. apply in_flat_map in H.
  destruct H as [[e' o'] [Hin H]]. simpl in H. destruct (ev_eqb e e') eqn:Q; [|contradiction].
  destruct H as [H|[]]. inversion H; subst. apply ev_eqb_eq in Q. subst. exists e'. auto.
Qed.

Lemma mstep_sound i tr r o : In (r, o) (mstep i tr) -> exists pre, tr = pre ++ r /\ In (pre, o) (ialts i).
Proof.
  assert (X : forall alts, In (r, o) (expect tr alts) ->
              (forall e, In (e, o) alts -> In ([e], o) (ialts i)) -> exists pre, tr = pre ++ r /\ In (pre, o) (ialts i)).
  { intros alts H K. apply expect_sound in H. destruct H as [e [-> He]]. exists [e]. split; [reflexivity | auto]. }
  destruct i; simpl; intros H;
    try (eapply X; [exact H|]; simpl; intros e He;
         repeat (destruct He as [He|He]; [inversion He; subst; simpl; auto 8|]); contradiction);
    try (destruct H as [H|H];
         [inversion H; subst; exists []; simpl; auto
         | eapply X; [exact H|]; simpl; intros e He;
           repeat (destruct He as [He|He]; [inversion He; subst; simpl; auto 8|]); contradiction]).
  destruct H as [H|[H|[]]]; inversion H; subst; exists []; simpl; auto.
Qed.

Theorem mrun_sound p : forall tr r o, In (r, o) (mrun p tr) -> exists pre, tr = pre ++ r /\ runs p pre o.
Proof.
  induction p; intros tr r o H; simpl in H.
  - destruct H as [H|[]]. inversion H; subst. exists []. split; [reflexivity | constructor].
  - apply mstep_sound in H. destruct H as [pre [-> Hi]]. exists pre. split; [reflexivity | constructor; exact Hi].
  - unfold mbind in H. apply dedup_incl in H. apply in_flat_map in H. destruct H as [[r1 o1] [H1 H2]].
    simpl in H2. destruct (IHp1 _ _ _ H1) as [pre1 [-> R1]].
    destruct (oc_eqb o1 N) eqn:Q.
    + apply oc_eqb_eq in Q. subst o1. destruct (IHp2 _ _ _ H2) as [pre2 [-> R2]].
      exists (pre1 ++ pre2). split; [apply app_assoc | eapply r_seq_n; eauto].
    + destruct H2 as [H2|[]]. inversion H2; subst. exists pre1. split; [reflexivity|].
      apply r_seq_stop; [exact R1 | intro; subst; discriminate].
  - apply dedup_incl in H. apply in_app_or in H. destruct H as [H|H].
    + destruct (IHp1 _ _ _ H) as [pre [-> R1]]. exists pre. split; [reflexivity | apply r_choice_l; exact R1].
    + destruct (IHp2 _ _ _ H) as [pre [-> R1]]. exists pre. split; [reflexivity | apply r_choice_r; exact R1].
  - apply dedup_incl in H. apply in_flat_map in H. destruct H as [[r1 o1] [H1 H2]].
    apply in_map_iff in H2. destruct H2 as [[r2 o2] [Q H2]]. simpl in Q, H2. inversion Q; subst.
    destruct (IHp1 _ _ _ H1) as [pre1 [-> R1]]. destruct (IHp2 _ _ _ H2) as [pre2 [-> R2]].
    exists (pre1 ++ pre2). split; [apply app_assoc |].
    pose proof (r_finally _ _ _ _ _ _ R1 R2) as Rf. destruct o2; exact Rf.
  - apply dedup_incl in H. apply in_app_or in H. destruct H as [H|H].
    + destruct (IHp1 _ _ _ H) as [pre [-> R1]]. exists pre. split; [reflexivity | apply r_except_pass; exact R1].
    + apply in_flat_map in H. destruct H as [[r1 o1] [H1 H2]]. simpl in H2.
      destruct o1; try contradiction.
      destruct (IHp1 _ _ _ H1) as [pre1 [-> R1]]. destruct (IHp2 _ _ _ H2) as [pre2 [-> R2]].
      exists (pre1 ++ pre2). split; [apply app_assoc | eapply r_except_caught; eauto].
  - apply dedup_incl in H. apply in_map_iff in H. destruct H as [[r1 o1] [Q H]]. simpl in Q. inversion Q; subst.
    destruct (IHp _ _ _ H) as [pre [-> R1]]. exists pre. split; [reflexivity |]. pose proof (r_scope _ _ _ R1) as Rs. destruct o1; exact Rs.
  - destruct H as [H|[]]. inversion H; subst. exists []. split; [reflexivity | constructor].
  - destruct H as [H|[]]. inversion H; subst. exists []. split; [reflexivity | constructor].
Qed.

(* ---------- completeness of the matcher for runs ---------- *)

Lemma mstep_complete_runs i pre o k : In (pre, o) (ialts i) -> cmem (k, o) (mstep i (pre ++ k)).
Proof.
  destruct i; simpl; intros H;
    repeat (destruct H as [H|H]; [inversion H; subst; clear H|]); try contradiction; simpl;
    unfold cmem; simpl; rewrite ?Nat.eqb_refl; simpl; rewrite ?conf_eqb_refl; simpl; rewrite ?orb_true_r; reflexivity.
Qed.

Theorem runs_complete p pre o : runs p pre o -> forall k, cmem (k, o) (mrun p (pre ++ k)).
Proof.
  induction 1; intros k; simpl.
  - apply cmem_here.
  - apply mstep_complete_runs; assumption.
  - unfold mbind. apply dedup_cmem. rewrite <- app_assoc.
    pose proof (IHruns1 (t2 ++ k)) as C1. apply cmem_exact in C1; [|eexists; reflexivity].
    pose proof (IHruns2 k) as C2. apply cmem_iff in C2. destruct C2 as [y [Hy1 Hy2]].
    apply cmem_iff. exists y. split; [|exact Hy2].
    apply in_flat_map. eexists. split; [exact C1|]. simpl. exact Hy1.
  - unfold mbind. apply dedup_cmem.
    pose proof (IHruns k) as C1. apply cmem_exact in C1; [|eexists; reflexivity].
    apply cmem_iff. exists (k, o). split; [|apply conf_eqb_refl].
    apply in_flat_map. eexists. split; [exact C1|]. simpl.
    destruct o; [contradiction | left; reflexivity | left; reflexivity].
  - apply dedup_cmem. apply cmem_app_l. apply IHruns.
  - apply dedup_cmem. apply cmem_app_r. apply IHruns.
  - apply dedup_cmem. rewrite <- app_assoc.
    pose proof (IHruns1 (t2 ++ k)) as C1. apply cmem_exact in C1; [|eexists; reflexivity].
    pose proof (IHruns2 k) as C2. apply cmem_exact in C2; [|eexists; reflexivity].
    apply cmem_iff. eexists. split; [|apply conf_eqb_refl].
    apply in_flat_map. eexists. split; [exact C1|]. simpl.
    apply in_map_iff. exists (k, o2). split; [|exact C2]. simpl. destruct o2; reflexivity.
  - apply dedup_cmem. apply cmem_app_l. apply IHruns.
  - apply dedup_cmem. apply cmem_app_r. rewrite <- app_assoc.
    pose proof (IHruns1 (t2 ++ k)) as C1. apply cmem_exact in C1; [|eexists; reflexivity].
    pose proof (IHruns2 k) as C2. apply cmem_iff in C2. destruct C2 as [y [Hy1 Hy2]].
    apply cmem_iff. exists y. split; [|exact Hy2].
    apply in_flat_map. eexists. split; [exact C1|]. simpl. exact Hy1.
  - apply dedup_cmem. pose proof (IHruns k) as C1.
    apply cmem_iff in C1. destruct C1 as [[r o2] [Hin Heq]].
    apply conf_eqb_spec in Heq. simpl in Heq. destruct Heq as [L <-].
    apply cmem_iff. exists (r, match o with R => N | o' => o' end). split.
    + apply in_map_iff. exists (r, o). split; [destruct o; reflexivity | exact Hin].
    + apply conf_eqb_spec. simpl. split; [exact L | destruct o; reflexivity].
  - apply cmem_here.
  - apply cmem_here.
Qed.

Definition raised_of (o : outcome) : bool := match o with E => true | _ => false end.

(* the matcher decides membership in the control-flow language of the skeleton *)
Theorem accepts_iff_runs p tr raised :
  accepts p tr raised = true <-> exists o, runs p tr o /\ raised = raised_of o.
Proof.
  unfold accepts. split.
  - intros H. apply existsb_exists in H. destruct H as [[r o] [Hin Hc]]. simpl in Hc.
    destruct r; [|discriminate].
    destruct (mrun_sound _ _ _ _ Hin) as [pre [Q Rn]]. rewrite app_nil_r in Q. subst pre.
    exists o. split; [exact Rn|]. destruct raised, o; simpl in *; congruence.
  - intros [o [Rn Q]]. pose proof (runs_complete _ _ _ Rn []) as C. rewrite app_nil_r in C.
    apply cmem_iff in C. destruct C as [[r o'] [Hin Heq]].
    apply conf_eqb_spec in Heq. simpl in Heq. destruct Heq as [L <-].
    apply existsb_exists. exists (r, o). split; [exact Hin|]. simpl.
    destruct r; [|simpl in L; discriminate]. subst raised. destruct o; reflexivity.
Qed.

(* what the matcher does not see: the data flow between operations *)
Theorem runs_not_exec_sound :
  let p := Seq (I (ReadReq 0)) (I (ReadReq 0)) in
  let tr := [EvGet 0 true; EvGet 0 false] in
  accepts p tr true = true /\ forall sc st, exec_ev p sc st <> tr.
Proof.
  intros p tr. split; [reflexivity|]. intros sc [e sl]. subst p tr. simpl.
  destruct (e 0) eqn:Q; simpl; rewrite ?Q; simpl; intro Hc; discriminate Hc.
Qed.

(* ---------- presence consistency of execution traces ---------- *)

Lemma consistent_ext tr : forall p1 p2, (forall v, p1 v = p2 v) -> consistent p1 tr = consistent p2 tr.
Proof.
  induction tr as [|e tr IH]; intros p1 p2 H; simpl; [reflexivity|].
  f_equal.
  - destruct e; rewrite ?H; reflexivity.
  - apply IH. intros v. destruct e; simpl; unfold upd; try apply H; destruct (Nat.eqb v v0); auto.
Qed.

Lemma fold_apply_ext tr : forall p1 p2, (forall v, p1 v = p2 v) ->
  forall v, fold_left apply_ev tr p1 v = fold_left apply_ev tr p2 v.
Proof.
  induction tr as [|e tr IH]; intros p1 p2 H v; simpl; [apply H|].
  apply IH. intros w. destruct e; simpl; unfold upd; try apply H; destruct (Nat.eqb w v0); auto.
Qed.

Lemma consistent_app a : forall pres b,
  consistent pres (a ++ b) = consistent pres a && consistent (fold_left apply_ev a pres) b.
Proof.
  induction a as [|e a IH]; intros pres b; simpl; [reflexivity|].
  rewrite IH. rewrite andb_assoc. reflexivity.
Qed.

Definition agrees (pres : var -> bool) (e : env) : Prop := forall v, pres v = is_some (e v).

Lemma agrees_upd pres e v x : agrees pres e -> agrees (upd pres v (is_some x)) (upd e v x).
Proof. intros H w. unfold upd. destruct (Nat.eqb w v); [reflexivity | apply H]. Qed.

Lemma step_consistent i sc st st' o sc' pres :
  step i sc st = (st', o, sc') -> agrees pres (fst st) ->
  consistent pres (step_ev i st) = true /\ agrees (fold_left apply_ev (step_ev i st) pres) (fst st').
Proof.
  destruct st as [e sl]. simpl. intros H A.
  assert (Ok : forall v, Bool.eqb (pres v) (is_some (e v)) = true) by (intros v; rewrite A; apply eqb_reflx).
  assert (Adel : forall v, agrees (upd pres v false) (upd e v None))
    by (intros v; apply (agrees_upd pres e v None A)).
  assert (Aset : forall v x, agrees (upd pres v true) (upd e v (Some x)))
    by (intros v x; apply (agrees_upd pres e v (Some x) A)).
  destruct i; simpl in H |- *;
    repeat match type of H with
           | context[match ?x with _ => _ end] => destruct x eqn:?
           end;
    inversion H; subst; simpl; rewrite ?Ok; simpl; split; auto;
    try (rewrite A; match goal with Hq : e _ = _ |- _ => rewrite Hq end; reflexivity);
    match goal with
    | |- agrees (upd pres ?v false) e =>
        intros w; unfold upd; destruct (Nat.eqb w v) eqn:Q;
        [apply Nat.eqb_eq in Q; subst w; match goal with Hq : e v = None |- _ => rewrite Hq end; reflexivity | apply A]
    end.
Qed.

Theorem exec_consistent p : forall sc st st' o sc' pres,
  exec p sc st = (st', o, sc') -> agrees pres (fst st) ->
  consistent pres (exec_ev p sc st) = true /\ agrees (fold_left apply_ev (exec_ev p sc st) pres) (fst st').
Proof.
  induction p; intros sc st st' o sc' pres H A; simpl in H |- *.
  - inversion H; subst. split; [reflexivity | exact A].
  - eapply step_consistent; eauto.
  - destruct (exec p1 sc st) as [[st1 o1] sc1] eqn:E1.
    destruct (IHp1 _ _ _ _ _ _ E1 A) as [C1 A1].
    rewrite consistent_app, fold_left_app, C1. simpl.
    destruct o1; [eapply IHp2; eauto | inversion H; subst; simpl; auto | inversion H; subst; simpl; auto].
  - destruct (pop sc) as [b sc1]. destruct b; [eapply IHp1 | eapply IHp2]; eauto.
  - destruct (exec p1 sc st) as [[st1 o1] sc1] eqn:E1.
    destruct (exec p2 sc1 st1) as [[st2 o2] sc2] eqn:E2.
    destruct (IHp1 _ _ _ _ _ _ E1 A) as [C1 A1].
    destruct (IHp2 _ _ _ _ _ _ E2 A1) as [C2 A2].
    rewrite consistent_app, fold_left_app, C1, C2. simpl.
    destruct o2; inversion H; subst; auto.
  - destruct (exec p1 sc st) as [[st1 o1] sc1] eqn:E1.
    destruct (IHp1 _ _ _ _ _ _ E1 A) as [C1 A1].
    rewrite consistent_app, fold_left_app, C1. simpl.
    destruct o1; [inversion H; subst; simpl; auto | | inversion H; subst; simpl; auto].
    destruct (pop sc1) as [b sc2]. destruct b; [eapply IHp2; eauto | inversion H; subst; simpl; auto].
  - destruct (exec p sc st) as [[st1 o1] sc1] eqn:E1. inversion H; subst. eapply IHp; eauto.
  - inversion H; subst. split; [reflexivity | exact A].
  - inversion H; subst. split; [reflexivity | exact A].
Qed.

(* the check the harness applies to observed traces holds of every execution *)
Theorem exec_ev_consistent p sc env0 sl st' o sc' :
  exec p sc (env0, sl) = (st', o, sc') ->
  consistent (fun v => is_some (env0 v)) (exec_ev p sc (env0, sl)) = true.
Proof.
  intros H. eapply (exec_consistent p sc (env0, sl) st' o sc' (fun v => is_some (env0 v))); eauto.
  intros v; reflexivity.
Qed.
