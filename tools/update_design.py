#!/usr/bin/env python3
"""Refresh the generated tables (findings, seeded changes) inside DESIGN.md."""
import os, re, subprocess
HERE = os.path.dirname(os.path.dirname(os.path.abspath(__file__)))
p = os.path.join(HERE, 'DESIGN.md')
s = open(p).read()
for tag, tool in (('FINDINGS', 'findings_table.py'), ('SEEDED', 'seeded_table.py'), ('STATUS', 'status_table.py')):
    out = subprocess.run(['python3', os.path.join(HERE, 'tools', tool)], stdout=subprocess.PIPE, text=True).stdout
    s = re.sub(r'<!-- %s-BEGIN -->.*?<!-- %s-END -->' % (tag, tag),
               lambda m: '<!-- %s-BEGIN -->\n%s<!-- %s-END -->' % (tag, out, tag), s, flags=re.S)
open(p, 'w').write(s)
