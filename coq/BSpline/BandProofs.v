(* The banded assembly of bspline.fit stores exactly the lower band of the normal matrix A^T W A.

   band_assemble (Fit.v) mirrors the interval-by-interval scatter of bspline.fit
   (`alpha.T.flat[bo+itop*bw] += work.flat[bi]`): every datum (x, l, w) adds w * v[a] * v[b] to
   alpha[a-b][off+b] for 0 <= b <= a < k, v = bsplvn gb k x l, off = l-(k-1).
   band_of k m (normal_matrix m D) is the specification: alpha[r][c] = A[c+r][c] (zero padded), A = A^T W A
   computed densely from the design rows.  Main result: band_assemble_is_normal_matrix (entrywise ==),
   with NO sortedness hypothesis on xs (the interval walk never leaves [k-1, m-1]). *)
From Coq Require Import QArith Qround Qabs List Bool Arith Lia Lqa Setoid Morphisms.
Import ListNotations.
From PV Require Import Lib.WLS BSpline.Eval BSpline.Fit BSpline.FitProofs BSpline.CoxDeBoor.
Open Scope Q_scope.

Local Notation Veq := (Forall2 Qeq).

(* ------------------------------------------------------------------ 0. small list facts *)
Lemma length_set_nth {A} (v : A) : forall l i, length (set_nth i v l) = length l.
Proof. induction l as [|a l IH]; intros [|i]; cbn [set_nth length]; auto. Qed.

Lemma nth_set_nth_eq {A} (v d : A) : forall l i, (i < length l)%nat -> nth i (set_nth i v l) d = v.
Proof.
  induction l as [|a l IH]; intros [|i] H; cbn [set_nth length nth] in *; try lia; auto.
  apply IH. lia.
Qed.

Lemma nth_set_nth_neq {A} (v d : A) : forall l i j, j <> i -> nth j (set_nth i v l) d = nth j l d.
Proof.
  induction l as [|a l IH]; intros [|i] [|j] H; cbn [set_nth nth]; try reflexivity; try congruence.
  apply IH. congruence.
Qed.

Lemma nth_map_seq {A} (f : nat -> A) (d : A) : forall n s i, (i < n)%nat -> nth i (map f (seq s n)) d = f (s + i)%nat.
Proof.
  induction n as [|n IH]; intros s i H; [lia |]. cbn [seq map]. destruct i as [|i]; cbn [nth].
  - f_equal. lia.
  - rewrite IH by lia. f_equal. lia.
Qed.

Lemma nth_zeros_eq n i : nth i (zeros n) 0 = 0.
Proof. unfold zeros. apply nth_repeat. Qed.

Lemma nth_repeat_lt {A} (a d : A) : forall n i, (i < n)%nat -> nth i (repeat a n) d = a.
Proof. induction n as [|n IH]; intros [|i] H; cbn [repeat nth]; try lia; auto. apply IH. lia. Qed.

(* ------------------------------------------------------------------ 1. sums over lists *)
Fixpoint sumL {A} (f : A -> Q) (l : list A) : Q :=
  match l with [] => 0 | a :: l' => f a + sumL f l' end.

Lemma sumL_ext_in {A} (f g : A -> Q) : forall l, (forall a, In a l -> f a == g a) -> sumL f l == sumL g l.
Proof.
  induction l as [|a l IH]; intro H; cbn [sumL]; [reflexivity |].
  rewrite (H a) by (left; reflexivity). rewrite IH by (intros; apply H; right; assumption). reflexivity.
Qed.

Lemma sumL_zero {A} (f : A -> Q) : forall l, (forall a, In a l -> f a == 0) -> sumL f l == 0.
Proof.
  induction l as [|a l IH]; intro H; cbn [sumL]; [reflexivity |].
  rewrite (H a) by (left; reflexivity). rewrite IH by (intros; apply H; right; assumption). ring.
Qed.

(* a sum over a range with at most one non-zero term *)
Lemma sumL_seq_single (f : nat -> Q) (a0 : nat) : forall n s,
  (forall a, (s <= a < s + n)%nat -> a <> a0 -> f a == 0) ->
  sumL f (seq s n) == if (s <=? a0)%nat && (a0 <? s + n)%nat then f a0 else 0.
Proof.
  induction n as [|n IH]; intros s H; cbn [seq sumL].
  - destruct (Nat.leb_spec s a0), (Nat.ltb_spec a0 (s + 0)); cbn [andb]; try reflexivity; lia.
  - rewrite IH by (intros a Ha Hne; apply H; [lia | exact Hne]).
    destruct (Nat.eq_dec s a0) as [E|E].
    + subst s.
      destruct (Nat.leb_spec (S a0) a0); [lia |].
      destruct (Nat.leb_spec a0 a0); [| lia].
      destruct (Nat.ltb_spec a0 (a0 + S n)); [| lia]. cbn [andb]. ring.
    + rewrite (H s) by (try lia; exact E).
      destruct (Nat.leb_spec (S s) a0), (Nat.leb_spec s a0), (Nat.ltb_spec a0 (S s + n)),
               (Nat.ltb_spec a0 (s + S n)); cbn [andb]; try lia; ring.
Qed.

(* ------------------------------------------------------------------ 2. band_add *)
Definition entry (al : list (list Q)) (r c : nat) : Q := nthQ (nth r al []) c.

Definition shape (R C : nat) (al : list (list Q)) : Prop :=
  length al = R /\ forall r, (r < R)%nat -> length (nth r al []) = C.

Lemma band_add_shape R C al r c v : shape R C al -> shape R C (band_add al r c v).
Proof.
  intros [HL HR]. unfold band_add. split.
  - rewrite length_set_nth. exact HL.
  - intros r' Hr'. destruct (Nat.eq_dec r' r) as [->|Hne].
    + rewrite nth_set_nth_eq by lia. rewrite length_set_nth. apply HR. exact Hr'.
    + rewrite nth_set_nth_neq by exact Hne. apply HR. exact Hr'.
Qed.

Lemma band_add_entry R C al r c v : shape R C al -> (r < R)%nat -> (c < C)%nat ->
  forall r' c', entry (band_add al r c v) r' c' ==
                entry al r' c' + (if (r' =? r)%nat && (c' =? c)%nat then v else 0).
Proof.
  intros [HL HR] Hr Hc r' c'. unfold entry, band_add, nthQ.
  destruct (Nat.eqb_spec r' r) as [->|Hne]; cbn [andb].
  - rewrite nth_set_nth_eq by lia.
    destruct (Nat.eqb_spec c' c) as [->|Hnc].
    + rewrite nth_set_nth_eq by (rewrite HR; lia). rewrite Qred_correct. unfold nthQ. reflexivity.
    + rewrite nth_set_nth_neq by exact Hnc. ring.
  - rewrite nth_set_nth_neq by exact Hne. ring.
Qed.

(* a fold of additive updates adds the sum of the contributions *)
Lemma fold_additive {A} (step : list (list Q) -> A -> list (list Q)) (contrib : A -> nat -> nat -> Q)
      (P : A -> Prop) R C :
  (forall al a, shape R C al -> P a ->
     shape R C (step al a) /\ forall r c, entry (step al a) r c == entry al r c + contrib a r c) ->
  forall l al, shape R C al -> (forall a, In a l -> P a) ->
  shape R C (fold_left step l al) /\
  forall r c, entry (fold_left step l al) r c == entry al r c + sumL (fun a => contrib a r c) l.
Proof.
  intros Hstep. induction l as [|a l IH]; intros al Hs HP; cbn [fold_left sumL].
  - split; [exact Hs | intros; ring].
  - destruct (Hstep al a Hs (HP a (or_introl eq_refl))) as [Hs' He].
    destruct (IH (step al a) Hs' (fun b Hb => HP b (or_intror Hb))) as [Hs'' He'].
    split; [exact Hs'' |]. intros r c. rewrite He', He. ring.
Qed.

(* ------------------------------------------------------------------ 3. one datum *)
(* what the inner loop over b (fixed a) adds to entry (r, c) *)
Definition contribA (off : nat) (v : list Q) (w : Q) (a r c : nat) : Q :=
  if (off <=? c)%nat && (c - off <=? a)%nat && (a - (c - off) =? r)%nat
  then w * nthQ v a * nthQ v (c - off) else 0.

(* what one datum adds to entry (r, c) *)
Definition contribP (k off : nat) (v : list Q) (w : Q) (r c : nat) : Q :=
  if (off <=? c)%nat && (c - off + r <? k)%nat
  then w * nthQ v (c - off + r) * nthQ v (c - off) else 0.

Lemma band_add_row_spec R C al off v w a :
  shape R C al -> (a < R)%nat -> (off + a < C)%nat ->
  let al' := fold_left (fun al' b => band_add al' (a - b) (off + b) (w * nthQ v a * nthQ v b)) (seq 0 (S a)) al in
  shape R C al' /\ forall r c, entry al' r c == entry al r c + contribA off v w a r c.
Proof.
  intros Hs Ha Hoff al'.
  destruct (fold_additive
              (fun al' b => band_add al' (a - b) (off + b) (w * nthQ v a * nthQ v b))
              (fun b r c => if (r =? a - b)%nat && (c =? off + b)%nat then w * nthQ v a * nthQ v b else 0)
              (fun b => (b <= a)%nat) R C) with (l := seq 0 (S a)) (al := al) as [Hs' He].
  - intros al0 b Hs0 Hb. split; [apply band_add_shape; exact Hs0 |].
    intros r c. apply (band_add_entry R C); [exact Hs0 | lia | lia].
  - exact Hs.
  - intros b Hb. apply in_seq in Hb. lia.
  - split; [exact Hs' |]. intros r c. subst al'. rewrite He. apply Qplus_inj_l.
    rewrite (sumL_seq_single _ (c - off)%nat).
    + unfold contribA.
      destruct (Nat.leb_spec 0 (c - off)); [| lia].
      destruct (Nat.ltb_spec (c - off) (0 + S a)), (Nat.leb_spec (c - off) a); try lia; cbn [andb].
      * destruct (Nat.leb_spec off c).
        -- destruct (Nat.eqb_spec c (off + (c - off))); [| lia].
           destruct (Nat.eqb_spec r (a - (c - off))), (Nat.eqb_spec (a - (c - off)) r); cbn [andb];
             try lia; reflexivity.
        -- destruct (Nat.eqb_spec c (off + (c - off))); [lia |].
           rewrite andb_false_r. cbn [andb]. reflexivity.
      * rewrite andb_false_r. cbn [andb]. reflexivity.
    + intros b Hb Hne. cbv beta.
      destruct (Nat.eqb_spec c (off + b)); [lia |]. rewrite andb_false_r. reflexivity.
Qed.

Lemma band_add_point_spec R C k al off v w :
  shape R C al -> (k <= R)%nat -> (off + k <= C)%nat ->
  shape R C (band_add_point k al off v w) /\
  forall r c, entry (band_add_point k al off v w) r c == entry al r c + contribP k off v w r c.
Proof.
  intros Hs Hk Hoff. unfold band_add_point.
  destruct (fold_additive
              (fun al a => fold_left (fun al' b => band_add al' (a - b) (off + b) (w * nthQ v a * nthQ v b))
                                     (seq 0 (S a)) al)
              (contribA off v w) (fun a => (a < k)%nat) R C) with (l := seq 0 k) (al := al) as [Hs' He].
  - intros al0 a Hs0 Ha. apply band_add_row_spec; [exact Hs0 | lia | lia].
  - exact Hs.
  - intros a Ha. apply in_seq in Ha. lia.
  - split; [exact Hs' |]. intros r c. rewrite He. apply Qplus_inj_l.
    rewrite (sumL_seq_single _ (c - off + r)%nat).
    + unfold contribP, contribA.
      destruct (Nat.leb_spec 0 (c - off + r)); [| lia].
      destruct (Nat.ltb_spec (c - off + r) (0 + k)), (Nat.ltb_spec (c - off + r) k); try lia; cbn [andb].
      * destruct (Nat.leb_spec off c); cbn [andb]; [| reflexivity].
        destruct (Nat.leb_spec (c - off) (c - off + r)); [| lia].
        destruct (Nat.eqb_spec (c - off + r - (c - off)) r); [| lia]. cbn [andb]. reflexivity.
      * rewrite andb_false_r. reflexivity.
    + intros a Ha Hne. unfold contribA.
      destruct (Nat.leb_spec off c), (Nat.leb_spec (c - off) a), (Nat.eqb_spec (a - (c - off)) r);
        cbn [andb]; try reflexivity. lia.
Qed.

(* ------------------------------------------------------------------ 4. the interval walk stays in range *)
Lemma advance_in_range gb n x fuel : forall i, (i < n)%nat ->
  (i <= advance fuel gb n x i < n)%nat.
Proof.
  induction fuel as [|f IH]; intros i Hi; cbn [advance]; [lia |].
  destruct (Qltb (nthQ gb (S i)) x && (S i <? n)%nat) eqn:E; [| lia].
  apply andb_true_iff in E. destruct E as [_ E]. apply Nat.ltb_lt in E.
  specialize (IH (S i) E). lia.
Qed.

Lemma intrv_walk_in_range gb n xs : forall i, (i < n)%nat ->
  Forall (fun l => i <= l < n)%nat (intrv_walk gb n xs i).
Proof.
  induction xs as [|x xs IH]; intros i Hi; cbn [intrv_walk]; constructor.
  - now apply advance_in_range.
  - pose proof (advance_in_range gb n x (length gb) i Hi) as B.
    eapply Forall_impl; [| apply IH; lia]. cbv beta. intros l Hl. lia.
Qed.

Lemma intrv_in_range gb k xs : (1 <= k)%nat -> (2 * k <= length gb)%nat ->
  Forall (fun l => k - 1 <= l < length gb - k)%nat (intrv gb k xs).
Proof. intros Hk Hg. unfold intrv. apply intrv_walk_in_range. lia. Qed.

Lemma intrv_walk_length_local gb n : forall xs i, length (intrv_walk gb n xs i) = length xs.
Proof. induction xs as [|x xs IH]; intro i; cbn [intrv_walk length]; [reflexivity | now rewrite IH]. Qed.

Lemma intrv_length_local gb k xs : length (intrv gb k xs) = length xs.
Proof. apply intrv_walk_length_local. Qed.

(* ------------------------------------------------------------------ 5. the whole assembly *)
Definition datum_contrib (gb : list Q) (k : nat) (p : Q * nat * Q) (r c : nat) : Q :=
  let '(x, l, w) := p in contribP k (l - (k - 1)) (bsplvn gb k x l) w r c.

Lemma shape_init R C : shape R C (repeat (zeros C) R).
Proof.
  split; [apply repeat_length |]. intros r Hr. rewrite nth_repeat_lt by exact Hr. apply length_zeros.
Qed.

Lemma entry_init R C r c : entry (repeat (zeros C) R) r c = 0.
Proof.
  unfold entry, nthQ. destruct (Nat.lt_ge_cases r R) as [H|H].
  - rewrite nth_repeat_lt by exact H. apply nth_zeros_eq.
  - rewrite (nth_overflow (repeat (zeros C) R) []) by (rewrite repeat_length; exact H).
    destruct c; reflexivity.
Qed.

Lemma band_assemble_spec gb k xs ws : (1 <= k)%nat -> (2 * k <= length gb)%nat ->
  let m := (length gb - k)%nat in
  shape k (m + k) (band_assemble gb k xs ws) /\
  forall r c, entry (band_assemble gb k xs ws) r c ==
              sumL (fun p => datum_contrib gb k p r c) (combine (combine xs (intrv gb k xs)) ws).
Proof.
  intros Hk Hg m. unfold band_assemble. fold m.
  destruct (fold_additive
              (fun al (p : Q * nat * Q) => let '(x, l, w) := p in
                                           band_add_point k al (l - (k - 1)) (bsplvn gb k x l) w)
              (datum_contrib gb k)
              (fun p => (k - 1 <= snd (fst p) < m)%nat) k (m + k))
    with (l := combine (combine xs (intrv gb k xs)) ws) (al := repeat (zeros (m + k)) k) as [Hs He].
  - intros al [[x l] w] Hs0 Hl. cbn [fst snd] in Hl. unfold datum_contrib.
    apply band_add_point_spec; [exact Hs0 | lia | lia].
  - apply shape_init.
  - intros [[x l] w] Hin. cbn [fst snd]. apply in_combine_l in Hin. apply in_combine_r in Hin.
    pose proof (intrv_in_range gb k xs Hk Hg) as B. rewrite Forall_forall in B. exact (B l Hin).
  - split; [exact Hs |]. intros r c. rewrite He, entry_init. ring.
Qed.

(* ------------------------------------------------------------------ 6. the normal-matrix side *)
Lemma nth_design_row gb k m x l i : (1 <= k)%nat ->
  nth i (design_row gb k m x l) 0 =
  let off := (l - (k - 1))%nat in
  if (off <=? i)%nat && (i <? off + k)%nat then nthQ (bsplvn gb k x l) (i - off) else 0.
Proof.
  intros Hk. cbv zeta. unfold design_row. set (off := (l - (k - 1))%nat).
  destruct (Nat.leb_spec off i) as [H1|H1]; cbn [andb].
  - rewrite app_nth2 by (rewrite length_zeros; lia). rewrite length_zeros.
    destruct (Nat.ltb_spec i (off + k)) as [H2|H2].
    + rewrite app_nth1 by (rewrite bsplvn_length by exact Hk; lia). reflexivity.
    + rewrite app_nth2 by (rewrite bsplvn_length by exact Hk; lia). apply nth_zeros_eq.
  - rewrite app_nth1 by (rewrite length_zeros; lia). apply nth_zeros_eq.
Qed.

Lemma design_row_len gb k m x l : (1 <= k)%nat -> (k - 1 <= l < m)%nat ->
  length (design_row gb k m x l) = m.
Proof.
  intros Hk Hl. unfold design_row. rewrite !app_length, !length_zeros, bsplvn_length by exact Hk. lia.
Qed.

(* unconditional (no sortedness): every design row has length m *)
Lemma design_rows_len_gen gb k xs : (1 <= k)%nat -> (2 * k <= length gb)%nat ->
  Forall (fun r : list Q => length r = (length gb - k)%nat) (design gb k xs).
Proof.
  intros Hk Hg. unfold design. apply Forall_forall. intros r Hr.
  apply in_map_iff in Hr. destruct Hr as [[x l] [E Hin]]. subst r. cbn [fst snd].
  apply in_combine_r in Hin.
  pose proof (intrv_in_range gb k xs Hk Hg) as B. rewrite Forall_forall in B.
  apply design_row_len; [exact Hk | exact (B l Hin)].
Qed.

Lemma acomp_mk_obs {A} (rowf : A -> list Q) (i : nat) (u : list Q) : forall (ps : list A) ws ys,
  length ws = length ps -> length ys = length ps ->
  acomp i (mk_obs (map rowf ps) ws ys) u ==
  sumL (fun q => snd q * dot (rowf (fst q)) u * nth i (rowf (fst q)) 0) (combine ps ws).
Proof.
  induction ps as [|p ps IH]; intros [|w ws] [|y ys] Hw Hy; cbn [length] in *; try discriminate;
    cbn [map mk_obs acomp combine sumL fst snd]; [reflexivity |].
  rewrite IH by congruence. reflexivity.
Qed.

Lemma datum_matches gb k m x l w r c :
  (1 <= k)%nat -> (k - 1 <= l < m)%nat -> (r < k)%nat -> (c + r < m)%nat ->
  w * dot (design_row gb k m x l) (unit m (c + r)) * nth c (design_row gb k m x l) 0 ==
  datum_contrib gb k (x, l, w) r c.
Proof.
  intros Hk Hl Hr Hc. rewrite dot_comm, dot_unit by (apply design_row_len; assumption).
  rewrite !nth_design_row by exact Hk. cbv zeta. unfold datum_contrib, contribP.
  set (off := (l - (k - 1))%nat). set (v := bsplvn gb k x l).
  destruct (Nat.leb_spec off c) as [H1|H1]; cbn [andb].
  - destruct (Nat.leb_spec off (c + r)) as [_|H2]; [| lia]. cbn [andb].
    destruct (Nat.ltb_spec (c - off + r) k) as [H3|H3].
    + destruct (Nat.ltb_spec (c + r) (off + k)) as [_|H4]; [| lia].
      destruct (Nat.ltb_spec c (off + k)) as [_|H5]; [| lia].
      replace (c + r - off)%nat with (c - off + r)%nat by lia. reflexivity.
    + destruct (Nat.ltb_spec (c + r) (off + k)) as [H4|_]; [lia |]. ring.
  - ring.
Qed.

(* a datum contributes nothing to the zero padding c + r >= m *)
Lemma datum_padding gb k m x l w r c :
  (k - 1 <= l < m)%nat -> (m <= c + r)%nat -> datum_contrib gb k (x, l, w) r c == 0.
Proof.
  intros Hl Hc. unfold datum_contrib, contribP.
  destruct (Nat.leb_spec (l - (k - 1)) c), (Nat.ltb_spec (c - (l - (k - 1)) + r) k); cbn [andb];
    try reflexivity. lia.
Qed.

(* ------------------------------------------------------------------ 7. main theorem *)
Theorem band_assemble_is_normal_matrix : forall gb k xs ys ws,
  (1 <= k)%nat -> (2 * k <= length gb)%nat -> length ws = length xs -> length ys = length xs ->
  let m := (length gb - k)%nat in
  forall r c, (r < k)%nat -> (c < m + k)%nat ->
  nthQ (nth r (band_assemble gb k xs ws) []) c ==
  nthQ (nth r (band_of k m (normal_matrix m (fit_obs gb k xs ys ws))) []) c.
Proof.
  intros gb k xs ys ws Hk Hg Lw Ly m r c Hr Hc.
  destruct (band_assemble_spec gb k xs ws Hk Hg) as [_ He]. fold m in He.
  change (nthQ (nth r (band_assemble gb k xs ws) []) c) with (entry (band_assemble gb k xs ws) r c).
  rewrite He. clear He.
  assert (HB : forall q, In q (combine (combine xs (intrv gb k xs)) ws) -> (k - 1 <= snd (fst q) < m)%nat).
  { intros [[x l] w] Hin. cbn [fst snd]. apply in_combine_l in Hin. apply in_combine_r in Hin.
    pose proof (intrv_in_range gb k xs Hk Hg) as B. rewrite Forall_forall in B. exact (B l Hin). }
  unfold band_of. rewrite (nth_map_seq _ []) by exact Hr. cbn [Nat.add].
  unfold nthQ at 1. rewrite (nth_map_seq _ 0) by exact Hc. cbn [Nat.add].
  destruct (Nat.ltb_spec (c + r) m) as [Hm|Hm].
  - unfold normal_matrix. rewrite (nth_map_seq _ []) by exact Hm. cbn [Nat.add].
    unfold nthQ. rewrite nth_Avec
      by (unfold fit_obs; apply rows_len_mk_obs; apply design_rows_len_gen; assumption).
    unfold fit_obs, design.
    rewrite acomp_mk_obs
      by (rewrite combine_length, intrv_length_local; try rewrite Nat.min_id; assumption).
    apply sumL_ext_in. intros [[x l] w] Hin. cbn [fst snd]. symmetry.
    apply datum_matches; try assumption. exact (HB _ Hin).
  - apply sumL_zero. intros [[x l] w] Hin. apply (datum_padding gb k m); [exact (HB _ Hin) | exact Hm].
Qed.

(* ------------------------------------------------------------------ 8. shape and list form *)
Lemma band_assemble_length gb k xs ws : (1 <= k)%nat -> (2 * k <= length gb)%nat ->
  length (band_assemble gb k xs ws) = k.
Proof. intros Hk Hg. exact (proj1 (proj1 (band_assemble_spec gb k xs ws Hk Hg))). Qed.

Lemma band_assemble_row_length gb k xs ws : (1 <= k)%nat -> (2 * k <= length gb)%nat ->
  forall r, (r < k)%nat -> length (nth r (band_assemble gb k xs ws) []) = (length gb - k + k)%nat.
Proof. intros Hk Hg. exact (proj2 (proj1 (band_assemble_spec gb k xs ws Hk Hg))). Qed.

Lemma band_assemble_rows_length gb k xs ws : (1 <= k)%nat -> (2 * k <= length gb)%nat ->
  Forall (fun row : list Q => length row = (length gb - k + k)%nat) (band_assemble gb k xs ws).
Proof.
  intros Hk Hg. apply Forall_forall. intros row Hin.
  destruct (In_nth _ _ [] Hin) as [r [Hr E]]. subst row.
  rewrite band_assemble_length in Hr by assumption. now apply band_assemble_row_length.
Qed.

Lemma band_of_length bw m A : length (band_of bw m A) = bw.
Proof. unfold band_of. now rewrite map_length, seq_length. Qed.

Lemma band_of_row_length bw m A r : (r < bw)%nat -> length (nth r (band_of bw m A) []) = (m + bw)%nat.
Proof.
  intro Hr. unfold band_of. rewrite (nth_map_seq _ []) by exact Hr. now rewrite map_length, seq_length.
Qed.

Lemma Forall2_nth_intro {A} (R : A -> A -> Prop) (d : A) : forall u v, length u = length v ->
  (forall i, (i < length u)%nat -> R (nth i u d) (nth i v d)) -> Forall2 R u v.
Proof.
  induction u as [|a u IH]; intros [|b v] L H; cbn [length] in *; try discriminate; constructor.
  - apply (H O). lia.
  - apply IH; [congruence |]. intros i Hi. apply (H (S i)). lia.
Qed.

Corollary band_assemble_is_band_of : forall gb k xs ys ws,
  (1 <= k)%nat -> (2 * k <= length gb)%nat -> length ws = length xs -> length ys = length xs ->
  let m := (length gb - k)%nat in
  Forall2 (Forall2 Qeq) (band_assemble gb k xs ws) (band_of k m (normal_matrix m (fit_obs gb k xs ys ws))).
Proof.
  intros gb k xs ys ws Hk Hg Lw Ly m.
  apply (Forall2_nth_intro _ []).
  - rewrite band_assemble_length, band_of_length by assumption. reflexivity.
  - intros r Hr. rewrite band_assemble_length in Hr by assumption.
    apply (Forall2_nth_intro _ 0).
    + rewrite band_assemble_row_length, band_of_row_length by assumption. reflexivity.
    + intros c Hc. rewrite band_assemble_row_length in Hc by assumption.
      apply (band_assemble_is_normal_matrix gb k xs ys ws Hk Hg Lw Ly r c Hr Hc).
Qed.

Print Assumptions band_assemble_is_normal_matrix.
Print Assumptions band_assemble_is_band_of.
