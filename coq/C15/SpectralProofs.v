(* C15: the algebra behind pcomp's claims.  If the columns v_k are eigenvectors of C with eigenvalues l_k and form a
   complete orthonormal system (V V^T = I, in vector form: x = sum_k (v_k . x) v_k), then C = sum_k l_k v_k v_k^T
   (as operators: C x = sum_k l_k (v_k . x) v_k for every x).  LAPACK's eigh is an oracle: the hypotheses are what
   the checker eig_ok verifies (up to tolerance) on each returned decomposition. *)
From Coq Require Import QArith Qabs Lqa List Bool Lia ZArith.
From PV Require Import Lib.WLS C13.LinAlg C13.LinAlgProofs C15.Model.
Import ListNotations.
Open Scope Q_scope.

Definition vsumv (n : nat) (L : list vec) : vec := fold_right vadd (zeros n) L.

Lemma mat_vec_veq_r C x x' : veq x x' -> veq (mat_vec C x) (mat_vec C x').
Proof.
  intros H. unfold mat_vec. induction C as [|r C IH]; simpl; constructor; [|exact IH].
  apply dot_veq; [apply veq_refl | exact H].
Qed.

Lemma dot_vadd_r r u v : length u = length v -> dot r (vadd u v) == dot r u + dot r v.
Proof. intros H. rewrite dot_comm, dot_vadd_l by exact H. rewrite (dot_comm u r), (dot_comm v r). reflexivity. Qed.
Lemma dot_vscale_r r c u : dot r (vscale c u) == c * dot r u.
Proof. rewrite dot_comm, dot_vscale_l, (dot_comm u r). reflexivity. Qed.

Lemma mat_vec_vadd C u v : length u = length v -> veq (mat_vec C (vadd u v)) (vadd (mat_vec C u) (mat_vec C v)).
Proof.
  intros H. unfold mat_vec. induction C as [|r C IH]; simpl; constructor; [|exact IH]. apply dot_vadd_r; exact H.
Qed.
Lemma mat_vec_vscale C c u : veq (mat_vec C (vscale c u)) (vscale c (mat_vec C u)).
Proof. unfold mat_vec, vscale. induction C as [|r C IH]; simpl; constructor; [|exact IH]. apply dot_vscale_r. Qed.
Lemma mat_vec_zeros C n : veq (mat_vec C (zeros n)) (zeros (length C)).
Proof.
  unfold mat_vec. induction C as [|r C IH]; simpl; constructor; [|exact IH]. rewrite dot_comm. apply dot_zeros_l.
Qed.
Lemma mat_vec_length C x : length (mat_vec C x) = length C.
Proof. apply map_length. Qed.

Lemma vsumv_length n L : Forall (fun v => length v = n) L -> length (vsumv n L) = n.
Proof.
  induction 1 as [|v L Hv HL IH]; simpl; [apply zeros_length|]. rewrite vadd_length; congruence.
Qed.

Lemma vadd_veq a a' b b' : veq a a' -> veq b b' -> veq (vadd a b) (vadd a' b').
Proof.
  intros H; revert b b'; induction H as [|x x' a a' Hx Ha IH]; intros b b' Hb.
  - constructor.
  - destruct Hb as [|z z' b b' Hz Hb]; simpl; constructor; [rewrite Hx, Hz; reflexivity | apply IH; exact Hb].
Qed.
Lemma vscale_veq c c' r r' : c == c' -> veq r r' -> veq (vscale c r) (vscale c' r').
Proof. intros Hc H. induction H; simpl; constructor; [rewrite Hc, H; reflexivity | assumption]. Qed.
Lemma vscale_vscale a b v : veq (vscale a (vscale b v)) (vscale (b * a) v).
Proof. unfold vscale. induction v; simpl; constructor; [ring | assumption]. Qed.

(* C applied to a linear combination of eigenvectors *)
Lemma mat_vec_combination n C : length C = n -> forall vs ls (cs : vec),
  Forall (fun v => length v = n) vs ->
  Forall2 (fun v l => veq (mat_vec C v) (vscale l v)) vs ls ->
  length cs = length vs ->
  veq (mat_vec C (vsumv n (map2 (fun c v => vscale c v) cs vs)))
      (vsumv n (map2 (fun cl v => vscale cl v) (map2 Qmult ls cs) vs)).
Proof.
  intros LC vs ls cs Hlen He. revert cs. induction He as [|v l vs ls Hv He IH]; intros cs Lcs.
  - destruct cs; simpl; rewrite <- LC; apply mat_vec_zeros.
  - destruct cs as [|c cs]; [discriminate|]. simpl. inversion Hlen as [|? ? Lv Hrest]; subst.
    eapply veq_trans.
    + apply mat_vec_vadd. rewrite vscale_length.
      rewrite vsumv_length; [exact Lv|].
      clear -Hrest. revert cs; induction Hrest as [|u us Hu Hus IHr]; intros [|c cs]; simpl; constructor;
        [rewrite vscale_length; exact Hu | apply IHr].
    + apply vadd_veq.
      * eapply veq_trans; [apply mat_vec_vscale|].
        eapply veq_trans; [apply vscale_veq; [reflexivity | exact Hv]|]. apply vscale_vscale.
      * apply IH; [exact Hrest | simpl in Lcs; lia].
Qed.

(* spectral_reconstruction *)
Theorem spectral_reconstruction n C vs ls :
  length C = n -> Forall (fun v => length v = n) vs -> length ls = length vs ->
  (* C v_k = l_k v_k *)
  Forall2 (fun v l => veq (mat_vec C v) (vscale l v)) vs ls ->
  (* completeness of the orthonormal system: V V^T = I *)
  (forall x, length x = n -> veq (vsumv n (map2 (fun c v => vscale c v) (map (fun v => dot v x) vs) vs)) x) ->
  (* C = sum_k l_k v_k v_k^T *)
  forall x, length x = n ->
    veq (mat_vec C x) (vsumv n (map2 (fun cl v => vscale cl v) (map2 Qmult ls (map (fun v => dot v x) vs)) vs)).
Proof.
  intros LC Hlen Lls He Hcomp x Lx.
  eapply veq_trans; [apply mat_vec_veq_r, veq_sym, (Hcomp x Lx)|].
  apply mat_vec_combination; auto. rewrite map_length. reflexivity.
Qed.

(* variance fractions l_k / sum l sum to one *)
Lemma vsum_div ls t : vsum (map (fun l => l / t) ls) == vsum ls / t.
Proof.
  unfold vsum. induction ls as [|l ls IH]; simpl; [unfold Qdiv; ring|]. rewrite IH. unfold Qdiv. ring.
Qed.
Theorem variance_fractions_sum_one ls : ~ vsum ls == 0 -> vsum (map (fun l => l / vsum ls) ls) == 1.
Proof. intros H. rewrite vsum_div. field. exact H. Qed.

(* descending checker is sound: adjacent entries are ordered *)
Lemma descending_sound v : descending v = true -> forall i a b, nth_error v i = Some a -> nth_error v (S i) = Some b -> b <= a.
Proof.
  induction v as [|x v IH]; intros H i a b Ha Hb; [destruct i; discriminate|].
  destruct v as [|y v]; [destruct i; simpl in Hb; [discriminate | destruct i; discriminate]|].
  simpl in H. apply andb_prop in H. destruct H as [H1 H2].
  destruct i as [|i]; simpl in *.
  - inversion Ha; inversion Hb; subst. apply Qle_bool_iff. exact H1.
  - apply (IH H2 i a b Ha Hb).
Qed.
