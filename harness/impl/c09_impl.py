"""Runs bspline.fit / cholesky_band / cholesky_solve / iterfit of the repository under test.

stdin: JSON list of calls; stdout: JSON {'pydl_file':..., 'results': [...]}.
Floats are exchanged as Python floats (exact doubles); 'nan'/'inf'/'-inf' strings stand for non-finite input.
"""
import json
import sys
import warnings

import os
import numpy as np


def _globals_snapshot():
    return {'geterr': dict(np.geterr()), 'printoptions': {k: repr(v) for k, v in np.get_printoptions().items()},
            'warnings.filters': len(warnings.filters), 'environ': hash(tuple(sorted(os.environ.items())))}


# the third-party packages pydl builds on are imported first: what is measured is what importing pydl itself changes
import scipy.linalg, scipy.special, scipy.interpolate, scipy.optimize                                        # noqa: E401,E402
import astropy, astropy.io.fits, astropy.units, astropy.table, astropy.utils.data, astropy.wcs, astropy.time  # noqa: E401,E402
try:
    with warnings.catch_warnings():
        warnings.simplefilter('ignore')
        import astropy.tests.runner                                                                          # noqa: F401
except Exception:  # noqa: BLE001
    pass

_G0 = _globals_snapshot()          # before pydl is imported (the import must not change process-global settings)

import pydl                                                    # noqa: E402
import pydl.pydlutils.bspline as B                             # noqa: E402

_G1 = _globals_snapshot()


def err(e, stage):
    return {'err': type(e).__name__, 'msg': str(e)[:200], 'stage': stage}


def _f(v):
    v = float(v)
    if v != v:
        return 'nan'
    if v in (float('inf'), float('-inf')):
        return 'inf' if v > 0 else '-inf'
    return v


def fl(a):
    return [_f(v) for v in np.asarray(a, dtype='d').ravel()]


def num(v):
    return float(v) if not isinstance(v, str) else float(v)


def capture_fit(sset, xs, ys, ws):
    """sset.fit(...) with the matrix handed to cholesky_band recorded."""
    seen = {}
    orig = B.cholesky_band

    def spy(l, mininf=0.0):
        seen['alpha'] = np.array(l, dtype='d', copy=True)
        seen['mininf'] = _f(mininf)
        return orig(l, mininf=mininf)
    B.cholesky_band = spy
    try:
        with warnings.catch_warnings():
            warnings.simplefilter('ignore')
            status, yfit = sset.fit(xs, ys, ws)
    finally:
        B.cholesky_band = orig
    return status, yfit, seen


def same(a, b):
    return a.dtype == b.dtype and a.shape == b.shape and bool(np.array_equal(a, b, equal_nan=True))


def do_fit(c):
    k = int(c['nord'])
    dt = c.get('dtypes') or {}
    xs = np.array([float(v) for v in c['xs']], dtype='d').astype(dt.get('x', 'd'))      # 'nan' / 'inf' / '-inf' strings allowed
    ys = np.array([float(v) for v in c['ys']], dtype='d').astype(dt.get('y', 'd'))     # float32 / integer data (values exactly representable)
    ws = np.array([float(v) for v in c['ws']], dtype='d').astype(dt.get('w', 'd'))
    try:
        with warnings.catch_warnings():
            warnings.simplefilter('ignore')
            sset = B.bspline(xs, nord=k, bkpt=np.array(c['bkpt'], dtype='d'))
    except Exception as e:  # noqa: BLE001
        return err(e, 'init')
    out = {'bk': fl(sset.breakpoints), 'mask_before': [bool(v) for v in sset.mask]}
    snap = (xs.copy(), ys.copy(), ws.copy())
    try:
        status, yfit, seen = capture_fit(sset, xs, ys, ws)
    except Exception as e:  # noqa: BLE001
        r = err(e, 'fit')
        r.update(out)
        return r
    out['args_mutated'] = [nm for nm, a, b_ in (('xdata', xs, snap[0]), ('ydata', ys, snap[1]), ('invvar', ws, snap[2])) if not same(a, b_)]
    try:
        out['status'] = int(status)
    except Exception:  # noqa: BLE001
        out['status'] = repr(status)[:60]
    out['status_type'] = type(status).__name__
    out['yfit'] = fl(yfit)
    out['coeff'] = fl(sset.coeff)
    out['mask_after'] = [bool(v) for v in sset.mask]
    out['finite'] = bool(np.all(np.isfinite(sset.coeff)) and np.all(np.isfinite(yfit)))
    out['coeff_finite'] = bool(np.all(np.isfinite(np.asarray(sset.coeff, dtype='d'))))
    if 'alpha' in seen:
        out['alpha'] = [fl(row) for row in seen['alpha']]
        out['mininf'] = seen['mininf']
    # what iterfit does after a status -1: fit again on the same object (must end in a status code too)
    if c.get('refit'):
        seq = [int(status)]
        try:
            st = status
            for _ in range(2 * int(sset.mask.size) + 4):     # every -1 masks at least one more breakpoint
                if st != -1:
                    break
                with warnings.catch_warnings():
                    warnings.simplefilter('ignore')
                    st, _yf = sset.fit(xs, ys, ws)
                seq.append(int(st))
            out['refit'] = {'statuses': seq, 'finite': bool(np.all(np.isfinite(np.asarray(sset.coeff, dtype='d'))))}
        except Exception as e:  # noqa: BLE001
            out['refit'] = err(e, 'refit')
            out['refit']['statuses'] = seq
    # algebraic laws on the real code (each one a fresh bspline on the same breakpoints)
    laws = {}
    for name, y in (c.get('extra') or {}).items():
        try:
            with warnings.catch_warnings():
                warnings.simplefilter('ignore')
                s2 = B.bspline(xs, nord=k, bkpt=np.array(c['bkpt'], dtype='d'))
                st2, yf2 = s2.fit(xs, np.array(y, dtype='d'), ws)
            laws[name] = {'status': int(st2), 'coeff': fl(s2.coeff)}
        except Exception as e:  # noqa: BLE001
            laws[name] = err(e, 'fit')
    if laws:
        out['laws'] = laws
    # the same problem through iterfit (refit after masking breakpoints)
    if c.get('iterfit'):
        try:
            with warnings.catch_warnings():
                warnings.simplefilter('ignore')
                s3, om = B.iterfit(xs, ys, invvar=ws, nord=k, bkpt=np.array(c['bkpt'], dtype='d'),
                                   maxiter=int(c['iterfit'].get('maxiter', 2)), upper=50, lower=50)
            cf = np.atleast_1d(np.asarray(s3.coeff, dtype='d'))
            out['iterfit'] = {'ok': True, 'finite': bool(np.all(np.isfinite(cf))),
                              'mask': [bool(v) for v in np.atleast_1d(s3.mask)], 'coeff': fl(cf)}
        except Exception as e:  # noqa: BLE001
            out['iterfit'] = err(e, 'iterfit')
    return out


def do_chol(c):
    ab = np.array([[num(v) for v in row] for row in c['ab']], dtype='d')
    b = np.array([num(v) for v in c['b']], dtype='d')
    larg = ab.copy()
    try:
        with warnings.catch_warnings():
            warnings.simplefilter('ignore')
            r0, L = B.cholesky_band(larg, mininf=float(c.get('mininf', 0.0)))
    except Exception as e:  # noqa: BLE001
        return err(e, 'cholesky_band')
    mutated = [] if same(larg, ab) else ['cholesky_band.l']
    if isinstance(r0, (int, np.integer)) and int(r0) == -1:
        out = {'ret': -1, 'L': [fl(row) for row in L], 'L_shape': list(L.shape),
               'L_finite': bool(np.all(np.isfinite(L)))}
        try:
            with warnings.catch_warnings():
                warnings.simplefilter('ignore')
                Lc, barg = L.copy(), b.copy()
                x = B.cholesky_solve(L, barg)
                if not same(L, Lc):
                    mutated.append('cholesky_solve.a')
                if not same(barg, b):
                    mutated.append('cholesky_solve.bb')
                x2 = B.cholesky_solve(L, barg)          # the same right-hand side object again
            out['x'] = fl(x)
            out['x_finite'] = bool(np.all(np.isfinite(x)))
            out['second_solve_same'] = bool(np.array_equal(x, x2, equal_nan=True))
            out['result_aliases_arg'] = bool(np.shares_memory(x, barg) or np.shares_memory(L, larg))
            out['args_mutated'] = mutated
        except Exception as e:  # noqa: BLE001
            out['solve'] = err(e, 'cholesky_solve')
        return out
    idx = [int(v) for v in np.atleast_1d(r0)]
    return {'ret': idx, 'ret_type': type(r0).__name__, 'same_matrix': bool(np.array_equal(L, ab, equal_nan=True))}


def main():
    calls = json.load(sys.stdin)
    res = []
    for c in calls:
        if c['f'] == 'fit':
            res.append(do_fit(c))
        elif c['f'] == 'chol':
            res.append(do_chol(c))
        else:
            res.append({'err': 'BadCall', 'stage': 'harness'})
    g2 = _globals_snapshot()
    sys.stdout.write(json.dumps({'pydl_file': pydl.__file__, 'results': res,
                                 'globals_changed': {'by_import': [k for k in _G0 if _G0[k] != _G1[k]],
                                                     'by_calls': [k for k in _G1 if _G1[k] != g2[k]]}}, allow_nan=False))


if __name__ == '__main__':
    main()
