(* C08 proofs: assembled from BSpline/EvalProofs.v and BSpline/CoxDeBoor.v *)
From Coq Require Import QArith List Bool Arith Lia.
Import ListNotations.
From PV Require Import Lib.WLS BSpline.Eval BSpline.EvalProofs.
Open Scope Q_scope.
