"""C10 -- iterfit is order-independent and its mask honours weights and rejection limits."""
import math

from harness import common as C
from translate import c08 as T08

ID = 'C10'
PROPS_V = 'C10/Props.v'
LEVEL = 'proof'
TRUSTED = [
    'translate/c08.py: ast extraction of the index / comparison / constant arithmetic of bspline.py (77 expressions of '
    '__init__, intrv, bsplvn, action, value, fit, maskpoints, cholesky_band, iterfit) into coq/Generated/BSpline.v; '
    'BSpline/GenBridge.v + the Cxx_generated_* obligations prove that the hand-written reference models are built from exactly these',
    'hand-written models coq/BSpline/Eval.v, Fit.v, Iter.v (iter_loop = fit with w*mask; reject beyond lower/upper '
    'sigma in square-root-free form; un-sort) -- tied to iterfit/djs_reject by the correspondence run',
    'the knot vector is taken from the implementation (sset.breakpoints); its construction is C08\'s subject',
    'numpy argsort (observed permutation passed to the model); float64 vs exact arithmetic to 1e-6 relative, '
    'rejection decisions kept 2e-6 away from their thresholds (borderline cases are skipped and counted)',
    'Coq stdlib QArith, Lqa (theorems closed under the global context)',
]
ASSUMPTIONS = [
    'distinct abscissae (the sort is then unique); npoly = 1; groupbadpix/requiren/oldset unused',
    'every fit of the loop is uniquely solvable (each segment keeps >= nord good points); problems that become '
    'ill-posed after rejection follow C09\'s status path and are skipped (counted in the evidence)',
    'lower, upper >= 0; inputs on which iterfit gives up early (fewer good points than nord, first fit -2) are judged by '
    'the direct checks only (the mask must still flag non-positive weights False)',
]

def translate(ctx):
    return {'BSpline': T08.regenerate(C)}


HEADER = '''From Coq Require Import QArith ZArith List. Import ListNotations.
From PV Require Import BSpline.Eval BSpline.Fit BSpline.Iter C10.Model. Open Scope Q_scope.'''


def ql(v):
    return C.coq_list([C.qlit(x) for x in v])


def gen_call(rng, idx):
    k = [2, 3, 4, 1, 3, 4, 2, 5][idx % 8]
    nseg = rng.randint(1, 3) if k >= 4 else rng.randint(2, 4)
    maxiter = [0, 1, 3, 10][(idx // 2) % 4]
    sigma = 0.25
    if k >= 4:
        nseg = rng.randint(1, 2)
        gridx = [i / 16.0 for i in range(0, 16 * nseg + 1)]
        cnt = rng.randint(10 * nseg, 13 * nseg)
    else:
        gridx = [i / 8.0 for i in range(0, 8 * nseg + 1)]
        cnt = rng.randint(6 * nseg, 7 * nseg)
    inner = rng.sample(gridx[1:-1], min(len(gridx) - 2, cnt))
    xs = sorted(set(inner) | {0.0, float(nseg)})
    n = len(xs)
    a0, a1, a2 = C.dyadic(rng, -2, 2, 2), C.dyadic(rng, -1, 1, 2), C.dyadic(rng, -0.5, 0.5, 2)
    shape = rng.choice(['quad', 'sin'])

    amp_ = 2.0 if k >= 3 else (0.5 if k == 2 else 0.125)

    def f(x):
        v = a0 + amp_ / 2 * (a1 * x + a2 * x * x) if shape == 'quad' else a0 + amp_ * math.sin(a1 * 2 * x + a2)
        return round(v * 16) / 16.0
    ws = [rng.choice([16.0, 16.0, 16.0, 4.0, 64.0]) for _ in xs]
    sig = [1.0 / math.sqrt(w) for w in ws]
    ys = [f(x) + rng.randint(-6, 6) * s / 4.0 for x, s in zip(xs, sig)]
    interior = list(range(1, n - 1))
    nout = min(n // 8, rng.choice([0, 1, 2, 3, 5]) if maxiter else rng.choice([0, 1, 2]))
    outl = sorted(rng.sample(interior, min(nout, len(interior))))
    clear = idx % 3 != 2
    amps = []
    for i in outl:
        amp = rng.choice([12, 20, 40]) if clear else rng.choice([3, 5, 8, 12])
        amps.append(amp)
        ys[i] += rng.choice([-1, 1]) * amp * sig[i]
    rest = [i for i in interior if i not in outl]
    zw = sorted(rng.sample(rest, min(len(rest), rng.randint(0, 4), max(0, n - (nseg + k - 1) - 2 * len(outl) - 4))))
    for i in zw:
        ws[i] = rng.choice([0.0, 0.0, -1.0])
        if rng.random() < 0.5:
            ys[i] += 100.0
    lower = float(rng.choice([2, 3, 4, 5, 8]))
    upper = float(rng.choice([2, 3, 4, 5, 8])) if rng.random() < 0.5 else lower
    opts = {'nord': k}
    ngood = sum(1 for w in ws if w > 0)
    which = ['bkpt', 'nbkpts', 'bkspace', 'everyn', 'placed'][(idx // 8 + idx) % 5]   # all five breakpoint options
    if which == 'everyn' and ngood // max(2, ngood // (nseg + 1)) < 2:
        which = 'nbkpts'
    if which == 'bkpt':
        opts['bkpt'] = [float(i) for i in range(nseg + 1)]
    elif which == 'nbkpts':
        opts['nbkpts'] = nseg + 1
    elif which == 'bkspace':
        opts['bkspace'] = 1.0
    elif which == 'everyn':
        opts['everyn'] = max(2, ngood // (nseg + 1))          # breakpoints picked from the SORTED good abscissae
    else:
        opts['placed'] = [0.0] + [i + rng.choice([0.0, 0.25, -0.25]) for i in range(1, nseg)] + [float(nseg), nseg + 3.0]
    # one-sided rejection: a limit of exactly zero
    if idx % 10 == 7:
        lower, maxiter = 0.0, 0
    elif idx % 10 == 9:
        upper, maxiter = 0.0, 0
    perms = [list(range(n))]
    p = list(range(n))
    rng.shuffle(p)
    perms.append(p)
    p = list(range(n))
    if rng.random() < 0.5:
        p.reverse()
    else:
        rng.shuffle(p)
    perms.append(p)
    grid = [i / 4.0 for i in range(0, 4 * nseg + 1)]
    call = {'x': xs, 'y': ys, 'w': ws, 'perms': perms, 'opts': opts, 'maxiter': maxiter, 'lower': lower, 'upper': upper,
            'grid': grid, 'refit': maxiter >= 3, 'outliers': outl, 'zero_weight': zw, 'clear': clear, 'sigma': sigma,
            # outliers that MUST be rejected: >= 20 sigma, not more heavily weighted than the bulk, low leverage
            'must_reject': [i for i, a in zip(outl, amps) if a >= 20 and ws[i] <= 16.0 and n >= 3 * (nseg + k - 1)]}
    # input classes: integer-typed / float32 ydata (exactly representable: y*16 is an integer, weights / 256 keep the
    # residuals in sigma units), float32 weights; the same data in other units (y * s, invvar / s^2)
    t = idx % 9
    if t in (2, 5) and shape == 'quad':
        call['y'] = [float(round(16 * y)) for y in ys]
        call['w'] = [w / 256.0 for w in ws]
        call['ydtype'] = 'int32' if t == 2 else 'int64'
    elif t == 7 and shape == 'quad':
        call['ydtype'] = 'float32'
        call['wdtype'] = 'float32'
    if idx % 4 == 1:
        call['scale'] = [2.0 ** -56, 2.0 ** 56, 2.0 ** -20, 2.0 ** 30][(idx // 4) % 4]
    return call


def gen_ties(rng, idx):
    """>= 30 points with tied abscissae in unsorted order; tied points differ in weight (zero / negative weights) and carry
    outliers.  The sort is then not unique: the mask must still be in the caller's order (direct checks only)."""
    k = rng.choice([2, 3, 4])
    nseg = rng.randint(2, 3)
    base = [i / 4.0 for i in range(0, 4 * nseg + 1)]
    xs = []
    for b in base:
        xs += [b] * rng.randint(2, 4)
    n = len(xs)
    a0, a1 = C.dyadic(rng, -2, 2, 2), C.dyadic(rng, -1, 1, 2)
    ys = [a0 + a1 * x + rng.randint(-4, 4) / 16.0 for x in xs]
    ws = [16.0] * n
    idxs = list(range(n))
    rng.shuffle(idxs)
    zw = sorted(idxs[:rng.randint(3, 6)])
    for i in zw:
        ws[i] = rng.choice([0.0, -1.0])
        ys[i] += 50.0
    outl = sorted(idxs[6:6 + rng.randint(1, 3)])
    for i in outl:
        ys[i] += rng.choice([-1, 1]) * 10.0
    order = list(range(n))
    rng.shuffle(order)                              # the FIRST permutation is already unsorted
    xs, ys, ws = [xs[i] for i in order], [ys[i] for i in order], [ws[i] for i in order]
    inv = {old: new for new, old in enumerate(order)}
    zw, outl = sorted(inv[i] for i in zw), sorted(inv[i] for i in outl)
    perms = [list(range(n))]
    for _ in range(2):
        p = list(range(n))
        rng.shuffle(p)
        perms.append(p)
    return {'x': xs, 'y': ys, 'w': ws, 'perms': perms, 'opts': {'nord': k, 'nbkpts': nseg + 1}, 'maxiter': rng.choice([1, 3, 10]),
            'lower': 5.0, 'upper': 5.0, 'grid': [i / 4.0 for i in range(0, 4 * nseg + 1)], 'refit': False, 'outliers': outl,
            'zero_weight': zw, 'clear': True, 'sigma': 0.25, 'must_reject': [], 'ties': True}


def gen_degenerate(rng, idx):
    """Inputs on which iterfit gives up early (fewer good points than nord; first fit impossible): judged by the
    direct checks only -- non-positive inverse variance must still be flagged False, in the caller's order."""
    k = rng.choice([3, 4, 5])
    if idx % 2 == 0:
        ngood = rng.randint(1, k - 1)                       # fewer good points than the order
        xs = sorted(rng.sample([i / 8.0 for i in range(0, 33)], ngood + rng.randint(1, 3)))
        ws = [16.0] * len(xs)
        for i in rng.sample(range(len(xs)), len(xs) - ngood):
            ws[i] = rng.choice([0.0, -1.0])
        opts = {'nord': k, 'nbkpts': 2}
    else:
        # enough good points but only two distinct good abscissae on a single interval: the first fit returns -2
        xs = [0.0, 0.0, 0.0, 1.0, 1.0, 1.0][:rng.choice([5, 6])] + [0.5, 0.25][:rng.randint(1, 2)]
        ws = [4.0] * (len(xs) - 2) + [0.0, 0.0]
        ws = ws[:len(xs)]
        for j in range(len(xs)):
            if xs[j] in (0.5, 0.25):
                ws[j] = rng.choice([0.0, -1.0])
            else:
                ws[j] = 4.0
        k = rng.choice([3, 4])
        opts = {'nord': k, 'nbkpts': 2}
    n = len(xs)
    ys = [C.dyadic(rng, -2, 2, 4) for _ in xs]
    perms = [list(range(n))]
    for _ in range(2):
        p = list(range(n))
        rng.shuffle(p)
        perms.append(p)
    return {'x': xs, 'y': ys, 'w': ws, 'perms': perms, 'opts': opts, 'maxiter': rng.choice([0, 3]), 'lower': 5.0, 'upper': 5.0,
            'grid': [0.0, 0.5, 1.0], 'refit': False, 'outliers': [], 'zero_weight': [i for i, w in enumerate(ws) if w <= 0],
            'clear': False, 'sigma': 0.25, 'must_reject': [], 'direct_only': True}


def case_term(c, r):
    runs = []
    for p, run in zip(c['perms'], r['runs']):
        ds = C.coq_list(['(mkDatum %s %s %s)' % (C.qlit(c['x'][i]), C.qlit(c['y'][i]), C.qlit(c['w'][i])) for i in p])
        runs.append('(mkRun %s %s %s %s %s)' % (
            ds, C.coq_list(['%d%%nat' % i for i in run['argsort']]), ql(run['bk']),
            C.coq_list([C.boollit(b) for b in run['mask']]), ql(run['curve'])))
    return '(CIter %d%%nat %s %s %d%%nat %s %s)' % (c['maxiter'], C.qlit(c['lower']), C.qlit(c['upper']), c['opts']['nord'],
                                                   ql(c['grid']), C.coq_list(runs))


def close_vec(a, b, rtol):
    return len(a) == len(b) and all(abs(x - y) <= rtol * (1 + abs(y)) for x, y in zip(a, b))


def correspond(ctx, proof_ok=True):
    ok, log = C.coq_make(['C10/Model.vo'])
    if not ok:
        raise RuntimeError('C10/Model.v does not build:\n' + log[-2000:])
    rng = ctx.rng
    ncalls = ctx.n(80, 500)
    calls = [gen_call(rng, i) for i in range(ncalls)] + [gen_degenerate(rng, i) for i in range(ctx.n(8, 40))] + \
        [gen_ties(rng, i) for i in range(ctx.n(8, 40))]
    ncalls = len(calls)
    nb = 8
    outs = C.run_impl_parallel('c10_impl.py', [calls[i::nb] for i in range(nb)])
    results = [None] * ncalls
    for bi, o in enumerate(outs):
        for j, r in enumerate(o['results']):
            results[bi + j * nb] = r
    ctx.coverage['pydl_file'] = outs[0]['pydl_file']
    seen = set()
    stats = {'runs': 0, 'rejecting': 0, 'refit_checks': 0, 'refit_not_converged': 0}

    def viol(sig, summary, c, r, failing=True, extra=None):
        if sig in seen:
            return
        seen.add(sig)
        rep = {'kind': 'failing-input' if failing else 'broken-correspondence', 'call': c, 'impl_result': r}
        if not failing:
            rep['item'] = 'C10.Model.run_case'
        rep.update(extra or {})
        ctx.violation(sig, summary, rep, failing)

    terms, owners = [], []
    for i, (c, r) in enumerate(zip(calls, results)):
        runs = r['runs']
        bad = [x for x in runs if 'err' in x]
        if bad:
            viol('C10:iterfit:impl=%s' % bad[0]['err'], 'iterfit raised %s: %s' % (bad[0]['err'], bad[0].get('msg', '')), c, r)
            continue
        mut = [x for x in runs if x.get('args_mutated') or x.get('result_aliases_arg')]
        if mut:
            viol('C10:iterfit:argument-modified', 'iterfit modified a caller-owned array (%s) or returned a mask sharing memory with an argument'
                 % mut[0].get('args_mutated'), c, r)
        if c.get('ties'):
            # tied abscissae: judged on the real code alone (the sort is not unique; the model assumes distinct x)
            stats['tie_inputs'] = stats.get('tie_inputs', 0) + 1
            if any('degenerate' in x for x in runs):
                continue
            n = len(c['x'])
            om = []
            for p, run in zip(c['perms'], runs):
                m = [None] * n
                for pos, src in enumerate(p):
                    m[src] = run['mask'][pos]
                om.append(m)
            hist = ['iterfit(x[p0], y[p0], w[p0])', 'refill the same arrays in place with permutation p1', 'iterfit(...)', 'refill with p2', 'iterfit(...)']
            if any(m != om[0] for m in om[1:]):
                viol('C10:iterfit:ties:mask-not-permuted', 'tied abscissae: permuting the input does not permute the returned mask identically', c, r, extra={'history': hist})
            if any(not close_vec(run['curve'], runs[0]['curve'], 1e-9) for run in runs[1:]):
                viol('C10:iterfit:ties:curve-depends-on-order', 'tied abscissae: the fitted curve depends on the order of the input', c, r, extra={'history': hist})
            if any(any(m[j] for j in c['zero_weight']) for m in om):
                viol('C10:iterfit:ties:zero-weight-not-flagged', 'tied abscissae: a point with non-positive inverse variance is flagged True '
                     '(mask entries swapped among points of equal x)', c, r)
            continue
        if c.get('direct_only'):
            # iterfit gives up early on these inputs; the mask must still honour the weights, in the caller's order
            stats['early_exit_inputs'] = stats.get('early_exit_inputs', 0) + 1
            n = len(c['x'])
            for p, run in zip(c['perms'], runs):
                m = [None] * n
                for pos, src in enumerate(p):
                    m[src] = run['mask'][pos] if pos < len(run['mask']) else None
                if any(m[j] for j in c['zero_weight']):
                    viol('C10:iterfit:early-exit:zero-weight-not-flagged',
                         'iterfit gave up early (%d good points, nord=%d) and returned a mask that flags points with non-positive '
                         'inverse variance True' % (sum(1 for w in c['w'] if w > 0), c['opts']['nord']), c, r,
                         extra={'meaning': 'points with non-positive inverse variance are always flagged False'})
            continue
        if any('degenerate' in x for x in runs):
            stats['degenerate'] = stats.get('degenerate', 0) + 1     # <= 1 good point left: outside the quantifier
            continue
        terms.append(case_term(c, r))
        owners.append(i)
    cc = C.CoqCases(ctx.work, HEADER, 'run_cases', shard=1)
    verdicts = cc.run(terms) if terms else []

    for i, v in zip(owners, verdicts):
        c, r = calls[i], results[i]
        runs = r['runs']
        stats['runs'] += len(runs)
        n = len(c['x'])
        # --- direct behaviour of the real code
        orig_masks = []
        for p, run in zip(c['perms'], runs):
            m = [None] * n
            for pos, src in enumerate(p):
                m[src] = run['mask'][pos]
            orig_masks.append(m)
        if any(not run['mask_shape_ok'] or not run['finite'] for run in runs):
            viol('C10:iterfit:bad-output', 'mask shape / non-finite curve', c, r)
        if any(m != orig_masks[0] for m in orig_masks[1:]):
            viol('C10:iterfit:mask-not-permuted', 'permuting the input does not permute the returned mask identically', c, r)
        if any(not close_vec(run['curve'], runs[0]['curve'], 1e-9) for run in runs[1:]):
            viol('C10:iterfit:curve-depends-on-order', 'the fitted curve depends on the order of the input', c, r)
        if v == 4:
            continue    # a fit of the loop is not uniquely solvable (ill-posed after rejection): C09's status path
        if any(orig_masks[0][j] for j in c['zero_weight']):
            viol('C10:iterfit:zero-weight-not-flagged', 'a point with non-positive inverse variance is flagged True', c, r)
        if any(not m for m in orig_masks[0]):
            stats['rejecting'] += 1
        if c['clear'] and c['maxiter'] >= 1 and max(c['lower'], c['upper']) <= 5 and len(c['outliers']) <= 2:
            if any(orig_masks[0][j] for j in c['must_reject']):
                viol('C10:iterfit:outlier-kept', 'a clear outlier (>= 20 sigma, limits <= 5 sigma, ordinary weight) is still flagged True', c, r)
        sc = r.get('scaled')
        if sc is not None:
            stats['scale_checks'] = stats.get('scale_checks', 0) + 1
            s_ = c['scale']
            if 'err' in sc:
                viol('C10:iterfit:scaled:impl=%s' % sc['err'], 'iterfit on y*%g, invvar/%g^2 raised %s' % (s_, s_, sc['err']), c, r)
            elif sc['curve'] is None or sc['mask'] != runs[0]['mask'] or \
                    not all(abs(a - s_ * b) <= 1e-9 * abs(s_) * (1 + max(abs(v) for v in runs[0]['curve'])) for a, b in zip(sc['curve'], runs[0]['curve'])):
                viol('C10:iterfit:scaling', 'the same data in other units (y*%g, invvar/%g^2) give a different mask or a curve that is not %g times the original'
                     % (s_, s_, s_), c, r)
        rf = r.get('refit')
        if rf is not None:
            if 'err' in rf and sum(1 for m in runs[0]['mask'] if m) <= c['opts']['nord']:
                stats['refit_not_converged'] += 1      # (almost) everything was rejected: nothing to refit
            elif 'err' in rf:
                viol('C10:iterfit:refit:impl=%s' % rf['err'], 'refit check raised %s' % rf['err'], c, r)
            elif rf['mask_longer'] != runs[0]['mask']:
                stats['refit_not_converged'] += 1
            else:
                stats['refit_checks'] += 1
                if not close_vec(runs[0]['curve'], rf['curve_kept_only'], 1e-6):
                    dev = max(abs(a - b) for a, b in zip(runs[0]['curve'], rf['curve_kept_only']))
                    viol('C10:iterfit:curve-not-refit-after-rejection',
                         'after rejection has converged (%d points rejected) the returned curve is not the fit to the kept '
                         'points: max deviation %.3g on the test grid' % (sum(1 for m in runs[0]['mask'] if not m), dev), c, r,
                         extra={'meaning': 'documented procedure: fit, reject, REFIT until nothing changes; the real code\'s own '
                                           'plain fit (maxiter=0) to the points its mask keeps differs from the returned curve'})

    ctx.coverage.update({
        'evaluations': stats['runs'],
        'distinct_nontrivial': len(set(terms)),
        'rule': 'one evaluation = one iterfit call (3 permutations per generated input); every input is compared in Coq with '
                'the documented procedure (mask exactly, curve on a grid at 1e-6) and by direct behavioural checks on the real '
                'code; distinct = distinct inputs',
        'inputs': ncalls, 'stats': stats, 'coq_eval_s': round(cc.coq_seconds, 1),
        'model_skipped_illposed': sum(1 for v in verdicts if v == 4),
        'borderline_skipped': sum(1 for v in verdicts if v == 8),
        'spec_violations': sum(1 for v in verdicts if v == 2),
        'by_maxiter': {str(mi): sum(1 for c in calls if c['maxiter'] == mi) for mi in (0, 1, 3, 10)},
        'samples': [{'call': {k: v for k, v in calls[i].items() if k != 'perms'},
                     'impl': {'mask': results[i]['runs'][0].get('mask'), 'bk': results[i]['runs'][0].get('bk')}} for i in range(2)],
    })
    if verdicts and sum(1 for v in verdicts if v in (4, 8)) > len(verdicts) // 3:
        viol('C10:harness:too-many-skipped', 'more than a third of the inputs were skipped as ill-posed/borderline', {}, {}, failing=False)
    for t, i, v in zip(terms, owners, verdicts):
        if v in (0, 4, 8):
            continue
        c, r = calls[i], results[i]
        if v == 2:
            if 'C10:iterfit:procedure:maxiter%s0' % ('=' if c['maxiter'] == 0 else '>') in seen:
                continue
            diag = cc.show('diagnose %s' % t)[-600:]
            viol('C10:iterfit:procedure:maxiter%s0' % ('=' if c['maxiter'] == 0 else '>'),
                 'returned curve/mask differ from the documented procedure (fit, reject beyond lower/upper sigma, refit until '
                 'unchanged or maxiter=%d) carried out with the checked least-squares solver' % c['maxiter'], c, r,
                 extra={'verdict': v, 'diagnose': diag,
                        'meaning': 'diagnose = Some (model mask in sorted order, per run (mask agrees, curve agrees))'})
        else:
            viol('C10:harness:inconsistent-case', 'case data inconsistent (perm does not sort / runs differ): verdict %d' % v, c, r, failing=False)


def replay(ctx, rep):
    c = rep.get('call')
    if not c:
        print('replay file has no call (kind=%s, item=%s)' % (rep.get('kind'), rep.get('item')))
        return 2
    out = C.run_impl('c10_impl.py', [c])
    r = out['results'][0]
    print('call   : iterfit(n=%d, %s, maxiter=%d, lower=%s, upper=%s), outliers at %s, zero weight at %s' % (
        len(c['x']), c['opts'], c['maxiter'], c['lower'], c['upper'], c.get('outliers'), c.get('zero_weight')))
    for run in r['runs']:
        print('impl   :', {k: v for k, v in run.items() if k in ('err', 'msg', 'mask', 'curve')})
    if 'refit' in r:
        print('refit  :', r['refit'])
    return 0
