(* C01/C02/C03: the literals the hand-written scanners of coq/Yanny/Parse.v and Render.v were written for.
   Which scanner implements which regular expression of yanny.py is listed in notes/C01.md and in the
   definition scanner_regexes below (method, re function, literal): get_token -> Parse.get_token;
   protect -> Render.protect; type -> Parse.struct_entry, find_type, check_decl; isarray -> Parse.match_char_arr;
   isenum -> Parse.enum_entry, split_commas; _parse -> Parse.join_cont, match_typedef, findall_td, remove_td,
   words, defs, cut_array, struct_columns, skip_line, double_braces.
   What a regex MEANS is tied to its scanner by the correspondence runs of C01/C02/C03 only; what this file
   adds is the obligation that the source still uses exactly these literals (Generated/YannyLits.v is
   regenerated from yanny.py on every run). *)
From Coq Require Import List String.
Import ListNotations.
From PV Require Import Yanny.Bytes Yanny.Parse Generated.YannyLits.
Open Scope string_scope.

Definition scanner_regexes : list (string * string * string) := [
  ("get_token", "search", "^""([^""]*)""\s*(.*)");
  ("get_token", "search", "^\{\s*([^}]*)\s*\}\s*(.*)");
  ("get_token", "split", "\s+");
  ("protect", "search", "\s+");
  ("type", "compile", "\}\s*(\w+)\s*;$");
  ("type", "compile", "(\S+)\s+{0}([\[<].*[\]>]|);   .format(variable)");
  ("isarray", "compile", "char[\[<]\d*[\]>][\[<]\d*[\]>]");
  ("isenum", "search", "typedef\s+enum\s*\{([^}]+)\}\s*(\w+)\s*;");
  ("isenum", "split", ",\s*");
  ("_parse", "sub", "\\\s*\n");
  ("_parse", "findall", "typedef\s+struct\s*\{[^}]+\}\s*\w+\s*;");
  ("_parse", "findall", "typedef\s+enum\s*\{[^}]+\}\s*\w+\s*;");
  ("_parse", "sub", "typedef\s+struct\s*\{[^}]+\}\s*\w+\s*;");
  ("_parse", "sub", "typedef\s+enum\s*\{[^}]+\}\s*\w+\s*;");
  ("_parse", "compile", "typedef\s+struct\s*\{([^}]+)\}\s*(\w*)\s*;");
  ("_parse", "findall", "\S+\s+\S+;");
  ("_parse", "split", "\s+");
  ("_parse", "sub", "[\[<].*[\]>]$");
  ("_parse", "compile", "^\s*#");
  ("_parse", "compile", "^\s*$");
  ("_parse", "compile", """[^""]*""|[^\s""{]\S*|\{\s*\{\s*\}\s*\}")
].

Definition scanner_dtmap_write : list (string * string) := [("i2", "short"); ("i4", "int"); ("i8", "long"); ("f4", "float"); ("f8", "double")].
Definition scanner_dtmap_read : list (string * string) := [("short", "i2"); ("int", "i4"); ("long", "i8"); ("float", "f"); ("double", "d")].
Definition scanner_int_types : list string := ["short"; "int"; "long"].
Definition scanner_float_types : list string := ["float"; "double"].
Definition scanner_protect_condition : string := "len(s) == 0 or s.find('#') >= 0 or re.search('\\s+', s) is not None".

Lemma regexes_are_the_scanners : yanny_regexes = scanner_regexes.
Proof. reflexivity. Qed.

Lemma tables_are_the_scanners :
  yanny_dtmap_write = scanner_dtmap_write /\ yanny_dtmap_read = scanner_dtmap_read /\
  yanny_int_types = scanner_int_types /\ yanny_float_types = scanner_float_types /\
  yanny_protect_condition = scanner_protect_condition.
Proof. repeat split; reflexivity. Qed.

(* the C type names of the writer's table are the keywords the reader model classifies *)
Lemma type_names_are_keywords :
  map (fun p => bs (snd p)) yanny_dtmap_write = [KW_SHORT; KW_INT; KW_LONG; KW_FLOAT; KW_DOUBLE] /\
  map (fun p => bs (fst p)) yanny_dtmap_read = [KW_SHORT; KW_INT; KW_LONG; KW_FLOAT; KW_DOUBLE] /\
  map bs yanny_int_types = [KW_SHORT; KW_INT; KW_LONG] /\ map bs yanny_float_types = [KW_FLOAT; KW_DOUBLE].
Proof. repeat split; reflexivity. Qed.
