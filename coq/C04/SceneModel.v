(* C04, round 5 -- definitions only (proofs: C04/Coverage.v, C04/InitProofs.v).
   (1) the geometry of one spherematch call as data (`scene`): the grid chunks.__init__ built, the rotated
       coordinates (currRa, dec) of both lists as chunks.get / chunks.getbounds receive them, the margins;
       get_model (chunks.get), scene_bounds / scene_cell_of (what assign / the pair loop see) and the decidable
       grid-level side conditions scene_ok under which C04_coverage_from_margins proves `coverage`;
   (2) the part of chunks.__init__ / rarange / getraminmax and of the head of spherematch() that decides the grid:
       fmod, the raOffset selection, nDec / decBounds, per slice nRa / raBounds with the "embrace 0/360" clauses,
       the chunksize default and floor.  cos() values are inputs (recorded), everything else is exact rationals. *)
From Coq Require Import ZArith QArith Qround Qabs List Bool Arith.
Import ListNotations.
From PV Require Import C04.Model.
Close Scope Q_scope. Close Scope Z_scope. Open Scope nat_scope.

(* ------------------------------------------------------------------ (1) scene *)
Record scene := {
  s_decB : list Q;                 (* decBounds *)
  s_raB : list (list Q);           (* raBounds, one list per declination slice *)
  s_m : Q;                         (* marginSize = matchlength *)
  s_p1 : list (Q * Q);             (* list 1: (currRa, dec) as passed to chunks.get *)
  s_p2 : list (Q * Q * Q)          (* list 2: (currRa, dec, raMargin) as used by chunks.getbounds *)
}.

(* chunks.get: (decChunk, raChunk); None = it raised; raChunk = -1 when the declination is outside the grid *)
Definition get_model (decB : list Q) (raB : list (list Q)) (ra dec : Q) : option cell :=
  let nDec := (length decB - 1)%nat in
  let c0 := cell_index dec (qbnd decB 0) (qbnd decB nDec) nDec in
  let c1 := if (c0 =? Z.of_nat nDec)%Z && Qeq_bool dec (qbnd decB nDec) then (Z.of_nat nDec - 1)%Z else c0 in
  if (c1 <? Z.of_nat nDec)%Z && (0 <=? c1)%Z then
    let B := nth (Z.to_nat c1) raB [] in
    let n := (length B - 1)%nat in
    let r := cell_index ra (qbnd B 0) (qbnd B n) n in
    if (r <? 0)%Z || (Z.of_nat n - 1 <? r)%Z then None else Some (c1, r)
  else Some (c1, (-1)%Z).

Definition scene_bounds (sc : scene) : list (option bnd) :=
  map (fun q => getbounds_model (s_decB sc) (s_raB sc) (fst (fst q)) (snd (fst q)) (s_m sc) (snd q)) (s_p2 sc).

Definition scene_cell (sc : scene) (p : Q * Q) : cell :=
  match get_model (s_decB sc) (s_raB sc) (fst p) (snd p) with Some c => c | None => ((-1)%Z, (-1)%Z) end.
Definition scene_cell_of (sc : scene) (i : nat) : cell :=
  match nth_error (s_p1 sc) i with Some p => scene_cell sc p | None => ((-1)%Z, (-1)%Z) end.

(* "the RA of a differs from the RA of b by less than mg on the circle" for RA in [0, 360) *)
Definition circ_ltb (a b mg : Q) : bool :=
  (Qlt_bool (a - b) mg && Qlt_bool (b - a) mg) || Qlt_bool (a + 360 - b) mg || Qlt_bool (b + 360 - a) mg.
(* list-1 point p is within the two margins of list-2 point q *)
Definition withinb (m : Q) (p : Q * Q) (q : Q * Q * Q) : bool :=
  Qlt_bool (snd (fst q) - snd p) m && Qlt_bool (snd p - snd (fst q)) m && circ_ltb (fst p) (fst (fst q)) (snd q).

Fixpoint monob (B : list Q) : bool :=
  match B with
  | a :: r => match r with b :: _ => Qle_bool a b && monob r | [] => true end
  | [] => true
  end.

(* a list-1 point lies, in both coordinates, between the bounds of the cell chunks.get computes for it *)
Definition p1_ok (decB : list Q) (raB : list (list Q)) (p : Q * Q) : bool :=
  Qle_bool 0 (fst p) && Qlt_bool (fst p) 360 &&
  match get_model decB raB (fst p) (snd p) with
  | Some (s, r) =>
      let B := nth (Z.to_nat s) raB [] in
      (0 <=? s)%Z && (s <? Z.of_nat (length decB - 1))%Z && (0 <=? r)%Z && (r <? Z.of_nat (length B - 1))%Z &&
      Qle_bool (qbnd decB (Z.to_nat s)) (snd p) && Qle_bool (snd p) (qbnd decB (S (Z.to_nat s))) &&
      Qle_bool (qbnd B (Z.to_nat r)) (fst p) && Qle_bool (fst p) (qbnd B (S (Z.to_nat r)))
  | None => false
  end.

(* one slice against one margin: either the margin is the whole circle, or the slice spans 0..360 and its two end
   cells are at least one margin wide (one wrap cell suffices), or the slice stays clear of 0/360 by at least one
   margin in total (no neighbour through the seam inside the slice) *)
Definition slice_ok (B : list Q) (mg : Q) : bool :=
  let n := (length B - 1)%nat in
  Qle_bool 360 mg ||
  (Qeq_bool (qbnd B 0) 0 && Qeq_bool (qbnd B n) 360 &&
   Qle_bool mg (qbnd B 1 - qbnd B 0) && Qle_bool mg (qbnd B n - qbnd B (n - 1))) ||
  Qle_bool mg (qbnd B 0 + 360 - qbnd B n).

Definition p2_ok (sc : scene) (q : Q * Q * Q) : bool :=
  Qle_bool 0 (fst (fst q)) && Qlt_bool (fst (fst q)) 360 &&
  match getbounds_model (s_decB sc) (s_raB sc) (fst (fst q)) (snd (fst q)) (s_m sc) (snd q) with
  | Some b =>
      forallb (fun s => slice_ok (nth s (s_raB sc) []) (snd q)) (seq (Z.to_nat (fst b)) (length (snd b)))
  | None =>
      (* dropped from every cell: then no list-1 point may be within the margins of it *)
      forallb (fun p => negb (withinb (s_m sc) p q)) (s_p1 sc)
  end.

Definition scene_ok (sc : scene) : bool :=
  monob (s_decB sc) && (2 <=? length (s_decB sc)) &&
  Nat.eqb (length (s_raB sc)) (length (s_decB sc) - 1) &&
  forallb (fun B => monob B && Qlt_bool (qbnd B 0) (qbnd B (length B - 1)) && (2 <=? length B)) (s_raB sc) &&
  forallb (p1_ok (s_decB sc) (s_raB sc)) (s_p1 sc) &&
  forallb (p2_ok sc) (s_p2 sc).

(* the part of scene_ok that is not conservative: the grid is well formed and every point is where the binning says *)
Definition scene_sharp (sc : scene) : bool :=
  monob (s_decB sc) && (2 <=? length (s_decB sc)) &&
  Nat.eqb (length (s_raB sc)) (length (s_decB sc) - 1) &&
  forallb (fun B => monob B && Qlt_bool (qbnd B 0) (qbnd B (length B - 1)) && (2 <=? length B)) (s_raB sc) &&
  forallb (p1_ok (s_decB sc) (s_raB sc)) (s_p1 sc) &&
  forallb (fun q => Qle_bool 0 (fst (fst q)) && Qlt_bool (fst (fst q)) 360) (s_p2 sc).

(* what remains of the geometry once the grid conditions are checked: separation < L puts the pair within the margins *)
Definition margins_sound (sc : scene) (sep : nat -> nat -> Q) (L : Q) : Prop :=
  forall i k p q, nth_error (s_p1 sc) i = Some p -> nth_error (s_p2 sc) k = Some q -> (sep i k < L)%Q ->
    withinb (s_m sc) p q = true.
(* ... and its per-case decision on a separation table *)
Definition margins_check (sc : scene) (sep : nat -> nat -> Q) (L : Q) : bool :=
  forallb (fun i => forallb (fun k =>
     match nth_error (s_p1 sc) i, nth_error (s_p2 sc) k with
     | Some p, Some q => implb (Qlt_bool (sep i k) L) (withinb (s_m sc) p q)
     | _, _ => true
     end) (seq 0 (length (s_p2 sc)))) (seq 0 (length (s_p1 sc))).

(* ------------------------------------------------------------------ (2) what decides the grid *)
(* C fmod for a positive modulus: truncation towards zero *)
Definition Qtrunc (x : Q) : Z := if Qle_bool 0 x then Qfloor x else Qceiling x.
Definition qfmod (x y : Q) : Q := (x - y * inject_Z (Qtrunc (x / y)))%Q.

Fixpoint qmin_list (d : Q) (l : list Q) : Q :=
  match l with [] => d | a :: r => let m := qmin_list a r in if Qle_bool a m then a else m end.
Fixpoint qmax_list (d : Q) (l : list Q) : Q :=
  match l with [] => d | a :: r => let m := qmax_list a r in if Qle_bool m a then a else m end.

(* ---- reference transliterations, expression by expression (Generated/Chunks.v is proved equal to these:
   C04_generated_grid_is_reference); the float constants are the exact values of the doubles *)
Definition dbl_0_1 : Q := 3602879701896397 # 36028797018963968.        (* 0.1 *)
Definition dbl_1em5 : Q := 5902958103587057 # 590295810358705651712.    (* 1.0e-5 *)
(* chunks.wrapra: fmod keeps the sign of its argument, so negatives are shifted up by one turn; the last clause
   (a tiny negative plus 360 rounds to 360 in doubles) never fires in exact arithmetic but is kept as written *)
Definition ref_wrapra (ra : Q) : Q :=
  let currRa := qfmod ra 360 in
  let currRa := if Qlt_bool currRa 0 then (currRa + 360)%Q else currRa in
  if Qle_bool 360 currRa then 0%Q else currRa.
Definition ref_currRa (ra raOffset : Q) : Q := ref_wrapra (ra + raOffset).
Definition ref_rarange_nra : Z := 6%Z.
Definition ref_rarange_init : Q * Q := (361%Q, 0%Q).
Definition ref_rarange_offset (j : Q) : Q := (360 * j / 6)%Q.
Definition ref_rarange_range (raMin raMax : Q) : Q := (raMax - raMin)%Q.
Definition ref_accept (raRange raRangeMin raMin raMax minSize : Q) : bool :=
  Qlt_bool (2 * (raRange - raRangeMin) / (raRange + raRangeMin)) (- dbl_1em5) &&
  Qlt_bool minSize raMin && Qlt_bool raMax (360 - minSize).
Definition ref_init_decRange0 (decMin decMax : Q) : Q := (decMax - decMin)%Q.
Definition ref_init_nDec (decRange minSize : Q) : Q := (3 + inject_Z (Qfloor (decRange / minSize)))%Q.
Definition ref_init_decRange (minSize nDec : Q) : Q := (minSize * nDec)%Q.
Definition ref_init_decMin (decMin decMax decRange : Q) : Q := (decMin - (1 # 2) * (decRange - decMax + decMin))%Q.
Definition ref_init_decMax (decMin decRange : Q) : Q := (decMin + decRange)%Q.
Definition ref_clamp_decMin_test (decMin minSize : Q) : bool := Qlt_bool decMin (- (90) + 3 * minSize).
Definition ref_clamp_decMax_test (decMax minSize : Q) : bool := Qlt_bool (90 - 3 * minSize) decMax.
Definition ref_init_decBound (decMin decMax k nDec : Q) : Q := (decMin + (decMax - decMin) * k / nDec)%Q.
Definition ref_init_rarange_arg (minSize cosDecMin : Q) : Q := (minSize / cosDecMin)%Q.
Definition ref_init_raRange (raMin raMax : Q) : Q := (raMax - raMin)%Q.
Definition ref_init_cos_of_lo (declo dechi : Q) : bool := Qlt_bool (Qabs dechi) (Qabs declo).
Definition ref_init_cos_bad (cosDecMin : Q) : bool := Qle_bool cosDecMin 0.
Definition ref_init_nRa (cosDecMin raRange minSize : Q) : Q := (3 + inject_Z (Qfloor (cosDecMin * raRange / minSize)))%Q.
Definition ref_init_raRangeTmp (minSize nRa cosDecMin : Q) : Q := (minSize * nRa / cosDecMin)%Q.
Definition ref_init_raMinTmp (raMin raMax raRangeTmp : Q) : Q := (raMin - (1 # 2) * (raRangeTmp - raMax + raMin))%Q.
Definition ref_init_raMaxTmp (raMinTmp raRangeTmp : Q) : Q := (raMinTmp + raRangeTmp)%Q.
Definition ref_embrace (raRangeTmp raMinTmp raMaxTmp minSize cosDecMin declo : Q) : bool :=
  Qle_bool 360 raRangeTmp || Qle_bool raMinTmp (minSize / cosDecMin) || Qle_bool (360 - minSize / cosDecMin) raMaxTmp ||
  Qeq_bool (Qabs declo) 90.
Definition ref_polar (declo dechi : Q) : bool := Qeq_bool declo (- (90)) || Qeq_bool dechi 90.
Definition ref_init_raBound (raMinTmp raMaxTmp k nRa : Q) : Q := (raMinTmp + (raMaxTmp - raMinTmp) * k / nRa)%Q.
Definition ref_chunksize_default (L : Q) : Q := if Qle_bool dbl_0_1 (4 * L) then (4 * L)%Q else dbl_0_1.
Definition ref_chunksize_small (chunksize L : Q) : bool := Qlt_bool chunksize (4 * L).
Definition ref_chunksize_floor (L : Q) : Q := (4 * L)%Q.
Definition ref_pair_test (sep L : Q) : bool := Qlt_bool sep L.
Definition ref_assign_guard (marginSize minSize : Q) : bool := Qle_bool minSize marginSize.
Definition ref_ramargin_cap_clear (sinMargin cosDec : Q) : bool := Qlt_bool sinMargin cosDec.

(* ---- the models built from them *)
(* getraminmax: (min, max) of fmod(ra + raOffset, 360) *)
Definition getraminmax_model (ras : list Q) (off : Q) : Q * Q :=
  let cur := map (fun a => ref_currRa a off) ras in (qmin_list 0 cur, qmax_list 0 cur).

(* one iteration of the loop of rarange: state (raRangeMin, raOffset) *)
Definition rarange_step (ras : list Q) (minSize : Q) (st : Q * Q) (j : nat) : Q * Q :=
  let off := ref_rarange_offset (inject_Z (Z.of_nat j)) in
  let mm := getraminmax_model ras off in
  let raRange := ref_rarange_range (fst mm) (snd mm) in
  if ref_accept raRange (fst st) (fst mm) (snd mm) minSize then (raRange, off) else st.
Definition rarange_model (ras : list Q) (minSize : Q) : Q * Q :=
  fold_left (rarange_step ras minSize) (seq 0 (Z.to_nat ref_rarange_nra)) ref_rarange_init.

(* head of spherematch(): the chunk size actually used *)
Definition eff_chunksize (chunksize : option Q) (L : Q) : Q :=
  match chunksize with
  | None => ref_chunksize_default L
  | Some c => if ref_chunksize_small c L then ref_chunksize_floor L else c
  end.

(* chunks.__init__, declination: nDec, the (clamped) ends and the bounds with the two ends pinned *)
Definition init_dec (decs : list Q) (w : Q) : nat * Q * Q :=
  let a := qmin_list 0 decs in let b := qmax_list 0 decs in
  let nq := ref_init_nDec (ref_init_decRange0 a b) w in
  let rng := ref_init_decRange w nq in
  let lo := ref_init_decMin a b rng in
  let hi := ref_init_decMax lo rng in
  (Z.to_nat (Qfloor nq),
   if ref_clamp_decMin_test lo w then (- (90))%Q else lo,
   if ref_clamp_decMax_test hi w then 90%Q else hi).
Definition init_decBounds (decs : list Q) (w : Q) : list Q :=
  let '(n, lo, hi) := init_dec decs w in
  map (fun k => if Nat.eqb k 0 then lo else if Nat.eqb k n then hi
                else ref_init_decBound lo hi (inject_Z (Z.of_nat k)) (inject_Z (Z.of_nat n))) (seq 0 (S n)).

(* chunks.__init__, one slice: cosDecMin c (recorded), list-1 RA extremes raMin/raMax after the rotation, the bounds of the
   slice declo/dechi  ->  (nRa, raBounds[0], raBounds[nRa]) *)
Definition init_slice (raMin raMax w c declo dechi : Q) : nat * Q * Q :=
  let nq := ref_init_nRa c (ref_init_raRange raMin raMax) w in
  let rng := ref_init_raRangeTmp w nq c in
  let lo := ref_init_raMinTmp raMin raMax rng in
  let hi := ref_init_raMaxTmp lo rng in
  let n' := if ref_polar declo dechi then 1%nat else Z.to_nat (Qfloor nq) in
  if ref_embrace rng lo hi w c declo then (n', 0%Q, 360%Q) else (n', lo, hi).

(* ------------------------------------------------------------------ correspondence of (1) and (2) with a recorded run *)
Definition q_close (tol a b : Q) : bool := Qle_bool (Qabs (a - b)) (tol * (1 + Qabs b)).
Definition cell_list_eqb (a b : list cell) : bool := list_eqb cell_eqb a b.

(* recorded: getbounds results, get results; separation table and L for margins_check.
   verdict bits: 1 scene_bounds <> recorded getbounds results, 2 scene cells <> recorded get results,
                 4 scene_ok fails (a grid-level side condition of the coverage theorem is false of this grid),
                 8 margins_check fails (a pair closer than L is not within the margins the code used) *)
Definition run_scene (x : scene * list (option bnd) * list cell * list (list Q) * Q) : Z :=
  let '(sc, rb, rc, T, L) := x in
  ((if list_eqb bnd_eqb (scene_bounds sc) rb then 0 else 1) +
   (if cell_list_eqb (map (scene_cell sc) (s_p1 sc)) rc then 0 else 2) +
   (if scene_ok sc then 0 else 4) +
   (if margins_check sc (sep_of T) L then 0 else 8))%Z.
Definition run_scenes xs := map run_scene xs.
Definition mkscene (decB : list Q) (raB : list (list Q)) (m : Q) (p1 : list (Q * Q)) (p2 : list (Q * Q * Q)) : scene :=
  {| s_decB := decB; s_raB := raB; s_m := m; s_p1 := p1; s_p2 := p2 |}.

(* one pass per case: the verdict of run_case (bits 1, 2) plus, when the grid was small enough to ship, the scene:
   4 scene_bounds <> recorded getbounds results, 8 scene cells <> recorded get results, 16 scene_sharp fails (the grid is
   not well formed or a point is not where the binning says), 32 margins_check fails (a pair closer than L is not within
   the margins the code used), 64 scene_ok fails although scene_sharp holds (slice_ok, which is sufficient but not
   necessary, or a dropped list-2 point with a list-1 point within its margins): coverage is not certified for the case *)
Definition scene_verdict (c : case) (sc : scene) (r : recorded) : Z :=
  ((if list_eqb bnd_eqb (scene_bounds sc) (r_bounds r) then 0 else 4) +
   (if cell_list_eqb (map (scene_cell sc) (s_p1 sc)) (r_cells r) then 0 else 8) +
   (if scene_sharp sc then 0 else 16) +
   (if margins_check sc (sep_of (c_sep c)) (c_L c) then 0 else 32) +
   (if scene_ok sc || negb (scene_sharp sc) then 0 else 64))%Z.
Definition run_full (x : case * option scene) : Z :=
  (run_case (fst x) +
   match snd x, c_rec (fst x) with
   | Some sc, Some r => scene_verdict (fst x) sc r
   | _, _ => 0
   end)%Z.
Definition run_fulls (xs : list (case * option scene)) : list Z := map run_full xs.

(* recorded grid decisions of one call: inputs (ra1, dec1, chunksize option, L, cosDecMin of the whole grid and per
   slice) and what the code computed (minSize, raOffset, raMin, raMax, nDec, decBounds, nRa, first/last raBound,
   currRa of both lists).  verdict bits: 1 chunk size, 2 raOffset (exact), 4 raMin/raMax, 8 nDec or decBounds,
   16 a slice (nRa exact, ends within tolerance), 32 currRa (wrapra) of a point, 64 undecided (near a threshold) *)
Record gridrec := {
  gr_ra1 : list Q; gr_dec1 : list Q; gr_ra2 : list Q; gr_chunk : option Q; gr_L : Q;
  gr_cos0 : Q; gr_cos : list Q;
  gr_minSize : Q; gr_raOffset : Q; gr_raMin : Q; gr_raMax : Q;
  gr_decB : list Q; gr_nRa : list Z; gr_raEnds : list (Q * Q);
  gr_cur1 : list Q; gr_cur2 : list Q;
  gr_tol : Q      (* 1e-9; 1e-5 when a coordinate array of list 1 is float32: numpy then builds the grid in single precision *)
}.

Definition tol9 : Q := 1 # 1000000000.

Fixpoint slices_agree (tol raMin raMax w : Q) (decB cs : list Q) (nRa : list Z) (ends : list (Q * Q)) : bool :=
  match decB, cs, nRa, ends with
  | lo :: ((hi :: _) as decB'), c :: cs', n :: nRa', e :: ends' =>
      let '(n0, a, b) := init_slice raMin raMax w c lo hi in
      (Z.of_nat n0 =? n)%Z && q_close tol a (fst e) && q_close tol b (snd e) &&
      slices_agree tol raMin raMax w decB' cs' nRa' ends'
  | [_], [], [], [] => true
  | _, _, _, _ => false
  end.

(* a decision of the grid model whose exact operands lie within 1e-9 (relative) of its threshold may fall on the other side
   in double precision: such a case is reported as undecided (bit 64), never as a disagreement *)
Definition near (tol a b : Q) : bool := negb (Qeq_bool a b) && Qle_bool (Qabs (a - b)) (tol * (1 + Qabs b)).
(* purely relative: for quantities formed by products and quotients (floor arguments, padded ends) *)
Definition near_rel (tol a b : Q) : bool := negb (Qeq_bool a b) && Qle_bool (Qabs (a - b)) (tol * (Qabs a + Qabs b)).
Definition near_int (tol x : Q) : bool := near_rel tol x (inject_Z (Qfloor (x + (1 # 2)))).

Definition rarange_near (tol : Q) (ras : list Q) (minSize : Q) : bool :=
  snd (fold_left (fun (acc : (Q * Q) * bool) (j : nat) =>
         let st := fst acc in
         let off := ref_rarange_offset (inject_Z (Z.of_nat j)) in
         let mm := getraminmax_model ras off in
         let raRange := ref_rarange_range (fst mm) (snd mm) in
         (rarange_step ras minSize st j,
          snd acc || near_rel tol (2 * (raRange - fst st) / (raRange + fst st)) (- dbl_1em5) || near_rel tol (fst mm) minSize ||
          near_rel tol (snd mm) (360 - minSize) ||
          existsb (fun a => near tol (a + off) 0 || near tol (a + off) 360) ras))
       (seq 0 (Z.to_nat ref_rarange_nra)) (ref_rarange_init, false)).

Fixpoint slices_near (tol raMin raMax w : Q) (decB cs : list Q) : bool :=
  match decB, cs with
  | lo :: ((hi :: _) as decB'), c :: cs' =>
      let nq := ref_init_nRa c (ref_init_raRange raMin raMax) w in
      let rng := ref_init_raRangeTmp w nq c in
      let l := ref_init_raMinTmp raMin raMax rng in
      let h := ref_init_raMaxTmp l rng in
      near_int tol (c * (raMax - raMin) / w) || near_rel tol rng 360 || near_rel tol l (w / c) || near_rel tol h (360 - w / c) ||
      slices_near tol raMin raMax w decB' cs'
  | _, _ => false
  end.

Definition grid_undecided (g : gridrec) : bool :=
  let tol := gr_tol g in
  let w := eff_chunksize (gr_chunk g) (gr_L g) in
  let a := qmin_list 0 (gr_dec1 g) in let b := qmax_list 0 (gr_dec1 g) in
  let nq := ref_init_nDec (ref_init_decRange0 a b) w in
  let rng := ref_init_decRange w nq in
  let lo := ref_init_decMin a b rng in
  let hi := ref_init_decMax lo rng in
  near_int tol ((b - a) / w) || near_rel tol lo (- (90) + 3 * w) || near_rel tol hi (90 - 3 * w) ||
  match gr_chunk g with Some c => near_rel tol c (4 * gr_L g) | None => near_rel tol (4 * gr_L g) dbl_0_1 end ||
  rarange_near tol (gr_ra1 g) (ref_init_rarange_arg w (gr_cos0 g)) ||
  slices_near tol (gr_raMin g) (gr_raMax g) w (gr_decB g) (gr_cos g) ||
  existsb (fun x => near tol (x + gr_raOffset g) 0 || near tol (x + gr_raOffset g) 360) (gr_ra1 g ++ gr_ra2 g).

Definition run_grid (g : gridrec) : Z :=
  let tol := gr_tol g in
  let w := eff_chunksize (gr_chunk g) (gr_L g) in
  let rr := rarange_model (gr_ra1 g) (ref_init_rarange_arg w (gr_cos0 g)) in
  let mm := getraminmax_model (gr_ra1 g) (snd rr) in
  let dB := init_decBounds (gr_dec1 g) w in
  ((if Qeq_bool w (gr_minSize g) then 0 else 1) +
   (if Qeq_bool (snd rr) (gr_raOffset g) then 0 else 2) +
   (if q_close tol (fst mm) (gr_raMin g) && q_close tol (snd mm) (gr_raMax g) then 0 else 4) +
   (if Nat.eqb (length dB) (length (gr_decB g)) &&
       forallb (fun ab => q_close tol (fst ab) (snd ab)) (combine dB (gr_decB g)) then 0 else 8) +
   (if slices_agree tol (gr_raMin g) (gr_raMax g) w (gr_decB g) (gr_cos g) (gr_nRa g) (gr_raEnds g) then 0 else 16) +
   (if list_eqb (q_close tol) (map (fun a => ref_currRa a (gr_raOffset g)) (gr_ra1 g)) (gr_cur1 g) &&
       list_eqb (q_close tol) (map (fun a => ref_currRa a (gr_raOffset g)) (gr_ra2 g)) (gr_cur2 g) then 0 else 32) +
   (if grid_undecided g then 64 else 0))%Z.
Definition run_grids gs := map run_grid gs.
Definition mkgrid ra1 dec1 ra2 chunk L cos0 cs minSize raOffset raMin raMax decB nRa raEnds cur1 cur2 tol : gridrec :=
  {| gr_ra1 := ra1; gr_dec1 := dec1; gr_ra2 := ra2; gr_chunk := chunk; gr_L := L; gr_cos0 := cos0; gr_cos := cs;
     gr_minSize := minSize; gr_raOffset := raOffset; gr_raMin := raMin; gr_raMax := raMax;
     gr_decB := decB; gr_nRa := nRa; gr_raEnds := raEnds; gr_cur1 := cur1; gr_cur2 := cur2; gr_tol := tol |}.
