(* C13: func_fit_ref returns the weighted least-squares optimum in the free parameters, keeps fixed parameters,
   ignores zero-weight points and recovers exact combinations. *)
From Coq Require Import QArith Qabs Lqa List Bool Lia ZArith.
From PV Require Import Lib.WLS C13.LinAlg C13.LinAlgProofs C13.Model.
Import ListNotations.
Open Scope Q_scope.

(* ------------------------------------------------------------------ shapes *)
Lemma select_length {A : Type} (mask : list bool) (l : list A) :
  length l = length mask -> length (select mask l) = count_true mask.
Proof.
  unfold select, count_true. revert l; induction mask as [|b mask IH]; intros [|a l] H; simpl in *; try discriminate; auto.
  destruct b; simpl; [f_equal|]; apply IH; lia.
Qed.

Lemma wf_combine m rows w ys : rows_len m rows -> Forall (fun v => 0 <= v) w -> wf m (combine (combine rows w) ys).
Proof.
  unfold wf, rows_len. revert w ys; induction rows as [|r rows IH]; intros [|v w] [|y ys] Hr Hw; simpl; try constructor.
  - simpl. inversion Hr; inversion Hw; auto.
  - inversion Hr; inversion Hw; subst. apply IH; auto.
Qed.

Lemma rows_len_select m rows iaf : rows_len m rows -> length iaf = m -> rows_len (count_true iaf) (map (select iaf) rows).
Proof.
  unfold rows_len. intros H L. apply Forall_forall. intros r Hr. apply in_map_iff in Hr.
  destruct Hr as [r0 [E Hin]]. subst. apply select_length. rewrite Forall_forall in H. rewrite (H _ Hin). auto.
Qed.

Lemma free_problem_wf rows w y ncfit ia fixv :
  rows_len ncfit rows -> (ncfit <= length ia)%nat -> Forall (fun v => 0 <= v) w ->
  wf (count_true (firstn ncfit ia)) (free_problem rows w y (firstn ncfit ia) fixv).
Proof.
  intros Hr Hl Hw. unfold free_problem. apply wf_combine; [|exact Hw].
  apply rows_len_select with (m := ncfit); [exact Hr | apply firstn_length_le; exact Hl].
Qed.

(* ------------------------------------------------------------------ optimality *)
Theorem fit_core_optimal rows w y ncfit ia ans res yfit :
  fit_core rows w y ncfit ia ans = Some (res, yfit) ->
  rows_len ncfit rows -> (ncfit <= length ia)%nat -> Forall (fun v => 0 <= v) w ->
  let iaf := firstn ncfit ia in
  let D := free_problem rows w y iaf (fixed_part ans ia) in
  exists sol, res = scatter 0 iaf sol ans /\ yfit = map (fun r => dot r res) rows /\
              length sol = count_true iaf /\
              forall z, length z = count_true iaf -> chi2 D sol <= chi2 D z.
Proof.
  intros H Hr Hl Hw iaf D. unfold fit_core in H. fold iaf in H. fold D in H.
  destruct (wls_solve (count_true iaf) D) as [sol|] eqn:E; [|discriminate].
  inversion H; subst; clear H. exists sol.
  destruct (wls_solve_optimal (count_true iaf) D sol (free_problem_wf rows w y ncfit ia _ Hr Hl Hw) E) as [L O].
  repeat split; auto.
Qed.

(* ------------------------------------------------------------------ fixed coefficients keep their values *)
Lemma scatter_fixed mask : forall i free ans j v,
  nth_error mask j = Some false -> nth_error ans (i + j) = Some v ->
  nth_error (scatter i mask free ans) j = Some v.
Proof.
  induction mask as [|b mask IH]; intros i free ans j v Hm Ha.
  - destruct j; discriminate.
  - destruct j as [|j].
    + simpl in Hm. inversion Hm; subst. simpl. rewrite Nat.add_0_r in Ha.
      f_equal. apply nth_error_nth. exact Ha.
    + simpl in Hm. replace (i + S j)%nat with (S i + j)%nat in Ha by lia.
      destruct b; simpl.
      * destruct free as [|s free]; simpl; apply IH; assumption.
      * apply IH; assumption.
Qed.

Lemma scatter_length mask : forall i free ans, length (scatter i mask free ans) = length mask.
Proof.
  induction mask as [|b mask IH]; intros i free ans; simpl; [reflexivity|].
  destruct b; [destruct free|]; simpl; rewrite IH; reflexivity.
Qed.

Theorem fit_core_fixed_kept rows w y ncfit ia ans res yfit j v :
  fit_core rows w y ncfit ia ans = Some (res, yfit) ->
  nth_error (firstn ncfit ia) j = Some false -> nth_error ans j = Some v ->
  nth_error res j = Some v.
Proof.
  intros H Hm Ha. unfold fit_core in H.
  destruct (wls_solve _ _) as [sol|]; [|discriminate]. inversion H; subst; clear H.
  apply scatter_fixed; assumption.
Qed.

(* ------------------------------------------------------------------ zero-weight points have no influence *)
Inductive agree3 : vec -> vec -> vec -> Prop :=
| ag_nil : agree3 [] [] []
| ag_cons w a b ws ys ys' : (w == 0 \/ a == b) -> agree3 ws ys ys' -> agree3 (w :: ws) (a :: ys) (b :: ys').

Lemma normal_mat_ignores_y m (g : vec -> vec) (h : Q -> vec -> Q) rows : forall w y y',
  agree3 w y y' ->
  normal_mat m (combine (combine (map g rows) w) (map2 h y rows))
  = normal_mat m (combine (combine (map g rows) w) (map2 h y' rows)).
Proof.
  induction rows as [|r rows IH]; intros w y y' H.
  - destruct H; reflexivity.
  - destruct H as [|w0 a b ws ys ys' Hab H]; [reflexivity|]. simpl. f_equal. apply IH. exact H.
Qed.

Lemma vscale_veq c c' r : c == c' -> veq (vscale c r) (vscale c' r).
Proof. intros H. induction r; simpl; constructor; [rewrite H; reflexivity | assumption]. Qed.
Lemma vadd_veq a a' b b' : veq a a' -> veq b b' -> veq (vadd a b) (vadd a' b').
Proof.
  intros H; revert b b'; induction H as [|x x' a a' Hx Ha IH]; intros b b' Hb.
  - constructor.
  - destruct Hb as [|z z' b b' Hz Hb]; simpl; constructor; [rewrite Hx, Hz; reflexivity | apply IH; exact Hb].
Qed.

Lemma normal_rhs_agree m (g : vec -> vec) (fixv : vec) rows : forall w y y',
  agree3 w y y' ->
  veq (normal_rhs m (combine (combine (map g rows) w) (map2 (fun yi r => yi - dot r fixv) y rows)))
      (normal_rhs m (combine (combine (map g rows) w) (map2 (fun yi r => yi - dot r fixv) y' rows))).
Proof.
  induction rows as [|r rows IH]; intros w y y' H.
  - destruct H; apply veq_refl.
  - destruct H as [|w0 a b ws ys ys' Hab H]; [apply veq_refl|]. simpl.
    apply vadd_veq; [|apply IH; exact H].
    apply vscale_veq. destruct Hab as [E|E]; rewrite E; ring.
Qed.

Theorem fit_core_zero_weight_indep rows w y y' ncfit ia ans :
  agree3 w y y' -> fit_core rows w y ncfit ia ans = fit_core rows w y' ncfit ia ans.
Proof.
  intros H. unfold fit_core, wls_solve, free_problem.
  rewrite (normal_mat_ignores_y _ (select (firstn ncfit ia)) (fun yi r => yi - dot r (fixed_part ans ia)) rows w y y' H).
  rewrite (vred_complete _ _ (normal_rhs_agree _ (select (firstn ncfit ia)) (fixed_part ans ia) rows w y y' H)).
  reflexivity.
Qed.

(* ------------------------------------------------------------------ exact combinations are recovered *)
Lemma chi2_of_zero_resid D c : Forall (fun o => resid c o == 0) D -> chi2 D c == 0.
Proof.
  induction 1 as [|[[r w] y] D H0 HD IH]; simpl in *; [reflexivity|]. rewrite IH, H0. ring.
Qed.

Lemma vsub_zero_veq a : forall b, length a = length b -> (forall r, dot r (vsub a b) == 0) -> veq a b.
Proof.
  induction a as [|x a IH]; intros [|y b] L H; simpl in *; try discriminate; constructor.
  - specialize (H [1]). simpl in H. destruct (vsub a b); simpl in H; lra.
  - apply IH; [lia|]. intros r. specialize (H (0 :: r)). simpl in H. lra.
Qed.

(* data that are an exact combination c of the (free) basis rows: chi2 vanishes at the answer, every point with
   positive weight is reproduced exactly, and under full column rank on those points the coefficients are c *)
Theorem wls_exact_recovery m D sol c :
  wf m D -> wls_solve m D = Some sol -> length c = m ->
  Forall (fun o => resid c o == 0) D ->
  chi2 D sol == 0 /\
  Forall (fun o => 0 < snd (fst o) -> resid sol o == 0) D /\
  ((forall z, length z = m -> Forall (fun o => 0 < snd (fst o) -> dot (fst (fst o)) z == 0) D -> forall r, dot r z == 0)
   -> veq sol c).
Proof.
  intros HD HS Lc Hc. destruct (wls_solve_optimal m D sol HD HS) as [Ls Opt].
  assert (Z0 : chi2 D sol == 0).
  { pose proof (Opt c Lc) as H1. rewrite (chi2_of_zero_resid D c Hc) in H1.
    pose proof (chi2_nonneg m D sol HD). lra. }
  pose proof (chi2_zero_resid m D sol HD Z0) as Hres.
  split; [exact Z0|]. split; [exact Hres|].
  intros Hrank. apply vsub_zero_veq; [congruence|].
  apply Hrank; [rewrite vsub_length; congruence|].
  clear Opt Hrank Z0 HS. induction HD as [|[[r w] y] D [Hr Hw] HD IH]; constructor.
  - simpl. intros Hpos. inversion Hres as [|? ? H1 H2]; subst. inversion Hc as [|? ? H3 H4]; subst. simpl in *.
    rewrite dot_vsub_r by congruence. specialize (H1 Hpos). lra.
  - inversion Hres; inversion Hc; subst. apply IH; assumption.
Qed.

(* ------------------------------------------------------------------ func_fit_ref: the main branch is fit_core *)
Definition ngood_of (y w : vec) : nat := length (filter (fun p => Qlt_bool 0 (snd p)) (combine y w)).

Lemma func_fit_main f x y w ncoeff ia ans ifunc res yfit :
  func_fit_ref f x y w ncoeff ia ans ifunc = Some (res, yfit) -> (2 <= ngood_of y w)%nat ->
  let ncfit := Nat.min (ngood_of y w) ncoeff in
  exists resf, fit_core (scale_rows ifunc (map (basis_row f ncfit) x)) w y ncfit ia ans = Some (resf, yfit)
               /\ res = resf ++ zeros (ncoeff - ncfit).
Proof.
  unfold func_fit_ref, ngood_of. intros H Hg.
  destruct (length (filter (fun p => Qlt_bool 0 (snd p)) (combine y w))) as [|[|k]] eqn:E; try lia.
  simpl. destruct (_ && _); [discriminate|].
  destruct (fit_core _ _ _ _ _ _) as [[r0 yf]|]; [|discriminate].
  inversion H; subst. exists r0. split; reflexivity.
Qed.

Lemma basis_row_length f m x : length (basis_row f m x) = m.
Proof. unfold basis_row. rewrite map_length, seq_length. reflexivity. Qed.

Lemma rows_len_basis f m xs : rows_len m (map (basis_row f m) xs).
Proof. unfold rows_len. apply Forall_forall. intros r Hr. apply in_map_iff in Hr. destruct Hr as [x [E _]]. subst. apply basis_row_length. Qed.

Lemma rows_len_scale m ifunc rows : rows_len m rows -> rows_len m (scale_rows ifunc rows).
Proof.
  unfold rows_len, scale_rows. destruct ifunc as [s|]; [|auto]. revert s; induction rows as [|r rows IH]; intros [|c s] H; simpl; try constructor.
  - rewrite map_length. inversion H; auto.
  - apply IH. inversion H; auto.
Qed.

(* func_fit_optimal: with at least two good points and non-negative weights the coefficients returned for the free
   parameters minimise the weighted chi-square of the sub-problem (data minus the fixed part) over ALL vectors *)
Theorem func_fit_optimal f x y w ncoeff ia ans ifunc res yfit :
  func_fit_ref f x y w ncoeff ia ans ifunc = Some (res, yfit) -> (2 <= ngood_of y w)%nat ->
  (ncoeff <= length ia)%nat -> Forall (fun v => 0 <= v) w ->
  let ncfit := Nat.min (ngood_of y w) ncoeff in
  let rows := scale_rows ifunc (map (basis_row f ncfit) x) in
  let iaf := firstn ncfit ia in
  let D := free_problem rows w y iaf (fixed_part ans ia) in
  exists sol, res = scatter 0 iaf sol ans ++ zeros (ncoeff - ncfit) /\
              yfit = map (fun r => dot r (scatter 0 iaf sol ans)) rows /\
              length sol = count_true iaf /\
              forall z, length z = count_true iaf -> chi2 D sol <= chi2 D z.
Proof.
  intros H Hg Hia Hw ncfit rows iaf D.
  destruct (func_fit_main _ _ _ _ _ _ _ _ _ _ H Hg) as [resf [Hc Hres]]. fold ncfit in Hc, Hres. fold rows in Hc.
  destruct (fit_core_optimal rows w y ncfit ia ans resf yfit Hc) as [sol [E1 [E2 [L O]]]].
  - apply rows_len_scale, rows_len_basis.
  - unfold ncfit. lia.
  - exact Hw.
  - exists sol. subst resf. repeat split; auto.
Qed.

Lemma nth_error_firstn_lt {A : Type} (l : list A) : forall n j, (j < n)%nat -> nth_error (firstn n l) j = nth_error l j.
Proof.
  induction l as [|a l IH]; intros [|n] [|j] H; simpl; try reflexivity; try lia.
  apply IH. lia.
Qed.

Theorem func_fit_fixed_kept f x y w ncoeff ia ans ifunc res yfit j v :
  func_fit_ref f x y w ncoeff ia ans ifunc = Some (res, yfit) -> (2 <= ngood_of y w)%nat ->
  (j < Nat.min (ngood_of y w) ncoeff)%nat ->
  nth_error ia j = Some false -> nth_error ans j = Some v ->
  nth_error res j = Some v.
Proof.
  intros H Hg Hj Hm Ha.
  destruct (func_fit_main _ _ _ _ _ _ _ _ _ _ H Hg) as [resf [Hc Hres]]. subst res.
  assert (Hm' : nth_error (firstn (Nat.min (ngood_of y w) ncoeff) ia) j = Some false).
  { rewrite nth_error_firstn_lt by exact Hj. exact Hm. }
  pose proof (fit_core_fixed_kept _ _ _ _ _ _ _ _ j v Hc Hm' Ha) as Hn.
  rewrite nth_error_app1; [exact Hn|]. apply nth_error_Some. congruence.
Qed.

Lemma agree3_good w y y' : agree3 w y y' ->
  length (filter (fun p => Qlt_bool 0 (snd p)) (combine y w)) = length (filter (fun p => Qlt_bool 0 (snd p)) (combine y' w)).
Proof.
  intros H. induction H as [|w0 a b ws ys ys' Hab H IH]; simpl; [reflexivity|].
  destruct (Qlt_bool 0 w0); simpl; congruence.
Qed.

(* zero-weight independence for func_fit_ref itself: if y and y' are equal (as numbers) wherever the weight is not zero,
   then the same coefficients and fitted values come back (main branch: at least two good points) *)
Theorem func_fit_zero_weight_indep f x y y' w ncoeff ia ans ifunc res yfit :
  agree3 w y y' -> (2 <= ngood_of y w)%nat ->
  func_fit_ref f x y w ncoeff ia ans ifunc = Some (res, yfit) ->
  func_fit_ref f x y' w ncoeff ia ans ifunc = Some (res, yfit).
Proof.
  intros Hag Hg H.
  pose proof (agree3_good w y y' Hag) as EL.
  unfold func_fit_ref, ngood_of in *. rewrite <- EL.
  destruct (length (filter (fun p => Qlt_bool 0 (snd p)) (combine y w))) as [|[|k]] eqn:E; try lia.
  simpl in *. destruct (_ && _); [discriminate|].
  rewrite <- (fit_core_zero_weight_indep _ w y y' _ ia ans Hag). exact H.
Qed.

(* exact combinations: if the data of the free sub-problem are an exact combination c of the free basis rows, chi2
   vanishes at the answer, every good point is reproduced exactly and (full column rank on the good points) the
   coefficients are c *)
Theorem func_fit_exact_recovery f x y w ncoeff ia ans ifunc res yfit c :
  func_fit_ref f x y w ncoeff ia ans ifunc = Some (res, yfit) -> (2 <= ngood_of y w)%nat ->
  (ncoeff <= length ia)%nat -> Forall (fun v => 0 <= v) w ->
  let ncfit := Nat.min (ngood_of y w) ncoeff in
  let rows := scale_rows ifunc (map (basis_row f ncfit) x) in
  let iaf := firstn ncfit ia in
  let D := free_problem rows w y iaf (fixed_part ans ia) in
  length c = count_true iaf ->
  Forall (fun o => resid c o == 0) D ->
  exists sol, res = scatter 0 iaf sol ans ++ zeros (ncoeff - ncfit) /\
              chi2 D sol == 0 /\
              Forall (fun o => 0 < snd (fst o) -> resid sol o == 0) D /\
              ((forall z, length z = count_true iaf ->
                  Forall (fun o => 0 < snd (fst o) -> dot (fst (fst o)) z == 0) D -> forall r, dot r z == 0)
               -> veq sol c).
Proof.
  intros H Hg Hia Hw ncfit rows iaf D Lc Hc.
  destruct (func_fit_main _ _ _ _ _ _ _ _ _ _ H Hg) as [resf [Hcore Hres]]. fold ncfit in Hcore, Hres. fold rows in Hcore.
  unfold fit_core in Hcore. fold iaf in Hcore. fold D in Hcore.
  destruct (wls_solve (count_true iaf) D) as [sol|] eqn:E; [|discriminate].
  inversion Hcore; subst resf; clear Hcore. exists sol. split; [exact Hres|].
  apply (wls_exact_recovery (count_true iaf) D sol c); auto.
  apply free_problem_wf; [apply rows_len_scale, rows_len_basis | unfold ncfit; lia | exact Hw].
Qed.
