(* C06, storage types: proofs about the typed packing model (C06/Typed.v).
   The facts about the GENERATED typed expressions are re-established on every run:
     - erasing the casts gives the Z-valued expressions the rest of the development reasons about (reflexivity),
     - the verified range analysis Lib.NumpyInt.tcheck accepts them for the intervals given by the source's own
       range checks (vm_compute), so by tcheck_sound no intermediate result leaves its type, whatever integer
       types the argument arrays have,
     - the MJD conversion is exact on accepted values and can never wrap a rejected value into the accepted range. *)
From Coq Require Import ZArith List Bool Lia ZifyBool.
Import ListNotations.
From PV Require Import Lib.Bits Lib.NumpyInt Generated.SdssIds C06.Model C06.Proofs C06.Typed.
Open Scope Z_scope.

Lemma objid_texpr_erases s rr r c f fi o :
  zeval [s; rr; r; c; f; fi; o] objid_texpr = objid_expr s rr r c f fi o.
Proof. reflexivity. Qed.

Lemma specobjid_texpr_erases p f m r l i :
  zeval [p; f; m; r; l; i] specobjid_texpr = specobjid_expr p f m r l i.
Proof. reflexivity. Qed.

Lemma objid_static_check :
  tcheck (intervals 7 objid_checks) objid_texpr = Some (Some I64, 0, tmax I64).
Proof. vm_compute. reflexivity. Qed.

Lemma specobjid_static_check :
  tcheck (intervals 6 specobjid_checks) specobjid_texpr = Some (Some U64, 0, tmax U64).
Proof. vm_compute. reflexivity. Qed.

Lemma objid_intervals : intervals 7 objid_checks = [(0, 15); (0, 2047); (0, 65535); (1, 6); (0, 1); (0, 4095); (0, 65535)].
Proof. vm_compute. reflexivity. Qed.

Lemma specobjid_intervals : intervals 6 specobjid_checks = [(0, 16383); (0, 4095); (0, 16383); (0, 16383); (0, 1023); (0, 1023)].
Proof. vm_compute. reflexivity. Qed.

Definition all_fit (ts : list ity) (vs : list Z) : Prop := Forall2 (fun t v => fits t v = true) ts vs.

Lemma checks_env_ok n checks (ts : list ity) (vs : list Z) :
  length vs = n -> all_fit ts vs ->
  (forall i, (i < n)%nat -> fst (nth i (intervals n checks) (1, 0)) <= nth i vs 0 <= snd (nth i (intervals n checks) (1, 0))) ->
  env_ok (intervals n checks) (combine ts vs).
Proof.
  intros L F H. unfold env_ok.
  assert (Li : length (intervals n checks) = n) by (unfold intervals; rewrite map_length, seq_length; reflexivity).
  revert H Li. generalize (intervals n checks) as ivs. revert n L.
  induction F as [|t v ts vs Hf F IH]; intros n L ivs H Li.
  - cbn in L. subst n. destruct ivs; [constructor|discriminate Li].
  - cbn in L. destruct n as [|n]; [discriminate L|]. destruct ivs as [|iv ivs]; [discriminate Li|].
    cbn [combine]. constructor.
    + split; [exact Hf|]. specialize (H 0%nat ltac:(lia)). cbn in H. exact H.
    + apply (IH n); [lia | | cbn in Li; lia].
      intros i Hi. specialize (H (S i) ltac:(lia)). cbn in H. exact H.
Qed.

Lemma map_snd_combine (ts : list ity) (vs : list Z) : length ts = length vs -> map snd (combine ts vs) = vs.
Proof.
  revert vs. induction ts as [|t ts IH]; intros [|v vs] L; try discriminate L; [reflexivity|].
  cbn. f_equal. apply IH. cbn in L. lia.
Qed.

Lemma all_fit_length ts vs : all_fit ts vs -> length ts = length vs.
Proof. induction 1; cbn; lia. Qed.

(* ---------- objID ---------- *)

Theorem objid_typed_layout ts vs : length vs = 7%nat -> all_fit ts vs ->
  objid_doc_ranges vs = true ->
  objid_typed_row (combine ts vs) = TOk I64 (pack objid_table vs).
Proof.
  intros L F R. pose proof (all_fit_length _ _ F) as Lt.
  destruct vs as [|s [|rr [|r [|c [|f [|fi [|o [|x vs]]]]]]]]; try discriminate L.
  unfold objid_typed_row. rewrite map_snd_combine by exact Lt.
  rewrite objid_checks_are_documented, R.
  assert (C : checks_ok objid_checks [s; rr; r; c; f; fi; o] = true)
    by (rewrite objid_checks_are_documented; exact R).
  assert (E : env_ok (intervals 7 objid_checks) (combine ts [s; rr; r; c; f; fi; o])).
  { apply checks_env_ok; [reflexivity | exact F |].
    unfold checks_ok, objid_checks in C. cbn [forallb nth] in C.
    rewrite objid_intervals. intros i Hi. do 7 (destruct i as [|i]; [cbn [nth fst snd]; lia|]). lia. }
  destruct (tcheck_sound _ _ _ _ _ objid_static_check _ E) as (t & Ev & Ht & _). subst t.
  rewrite Ev, map_snd_combine by exact Lt. cbn [of_tres]. f_equal.
  rewrite objid_texpr_erases. apply objid_layout. exact C.
Qed.

Theorem objid_typed_rejects ts vs : length vs = 7%nat -> length ts = 7%nat ->
  objid_doc_ranges vs = false -> objid_typed_row (combine ts vs) = TValueError.
Proof.
  intros L Lt R. unfold objid_typed_row. rewrite map_snd_combine by lia.
  rewrite (objid_rejected vs L R). reflexivity.
Qed.

(* ---------- specObjID ---------- *)

(* The MJD conversion of the array branch, on an array of ANY integer type: the converted value is accepted by the
   range check exactly when the true MJD minus 50000 is in range, and then it IS that number. *)
Lemma mjd_conversion_exact t v : fits t v = true ->
  exists m, forall (env : list (ity * Z)), nth_error env 2 = Some (t, v) ->
    teval env mjd_array_texpr = TVal I64 m /\
    ((0 <= m < 2 ^ 14) <-> (0 <= v - 50000 < 2 ^ 14)) /\
    (0 <= v - 50000 < 2 ^ 14 -> m = v - 50000).
Proof.
  intros F. pose proof (fits_bounds t v F) as B.
  destruct (wrap_I64_spec v) as (k1 & E1 & R1).
  destruct (wrap_I64_spec (wrap I64 v - 50000)) as (k2 & E2 & R2).
  exists (wrap I64 (wrap I64 v - 50000)). intros env Hn.
  unfold mjd_array_texpr. cbn [teval]. rewrite Hn.
  replace (fits I64 50000) with true by reflexivity.
  split; [reflexivity|].
  change (2 ^ 63) with 9223372036854775808 in *. change (2 ^ 64) with 18446744073709551616 in *.
  change (2 ^ 14) with 16384.
  split; [split; intros H; lia | intros H; lia].
Qed.

Lemma nth_error_combine_2 (ts : list ity) (vs : list Z) t0 t1 t2 tl v0 v1 v2 vl :
  ts = t0 :: t1 :: t2 :: tl -> vs = v0 :: v1 :: v2 :: vl -> nth_error (combine ts vs) 2 = Some (t2, v2).
Proof. intros -> ->. reflexivity. Qed.

Theorem specobjid_typed_layout ts p f m r l i : all_fit ts [p; f; m; r; l; i] ->
  specobjid_doc_ranges [p; f; m - 50000; r; l; i] = true -> l = 0 \/ i = 0 ->
  specobjid_typed_row (combine ts [p; f; m; r; l; i]) = TOk U64 (pack specobjid_table [p; f; m - 50000; r; l + i]).
Proof.
  intros F R LI. pose proof (all_fit_length _ _ F) as Lt.
  destruct ts as [|t0 [|t1 [|t2 [|t3 [|t4 [|t5 [|t6 ts]]]]]]]; try discriminate Lt.
  assert (F2 : fits t2 m = true).
  { inversion F as [|? ? ? ? _ F']; subst. inversion F' as [|? ? ? ? _ F'']; subst.
    inversion F'' as [|? ? ? ? H _]; subst. exact H. }
  assert (C : checks_ok specobjid_checks [p; f; m - 50000; r; l; i] = true)
    by (rewrite specobjid_checks_are_documented; exact R).
  assert (Rm : 0 <= m - 50000 < 2 ^ 14).
  { unfold checks_ok, specobjid_checks in C. cbn [forallb nth] in C. change (2 ^ 14) with 16384. lia. }
  destruct (mjd_conversion_exact t2 m F2) as (m' & Hm).
  destruct (Hm (combine [t0; t1; t2; t3; t4; t5] [p; f; m; r; l; i]) eq_refl) as (Ev & _ & Hex).
  specialize (Hex Rm). subst m'.
  unfold specobjid_typed_row. rewrite Ev. cbn [set_nth firstn skipn combine app map snd].
  rewrite C.
  assert (E : env_ok (intervals 6 specobjid_checks)
                (combine [t0; t1; I64; t3; t4; t5] [p; f; m - 50000; r; l; i])).
  { apply checks_env_ok; [reflexivity | |].
    - inversion F as [|? ? ? ? H0 F0]; subst. inversion F0 as [|? ? ? ? H1 F1]; subst.
      inversion F1 as [|? ? ? ? H2 F2']; subst.
      constructor; [exact H0|]. constructor; [exact H1|]. constructor; [|exact F2'].
      apply (in_type_fits I64 0 16383); [reflexivity | change (2 ^ 14) with 16384 in Rm; lia].
    - unfold checks_ok, specobjid_checks in C. cbn [forallb nth] in C.
      rewrite specobjid_intervals. intros j Hj. do 6 (destruct j as [|j]; [cbn [nth fst snd]; lia|]). lia. }
  destruct (tcheck_sound _ _ _ _ _ specobjid_static_check _ E) as (t & Ev2 & Ht & _). subst t.
  change (combine [t0; t1; I64; t3; t4; t5] [p; f; m - 50000; r; l; i]) with
    [(t0, p); (t1, f); (I64, m - 50000); (t3, r); (t4, l); (t5, i)] in Ev2.
  rewrite Ev2. cbn [of_tres map snd]. f_equal.
  rewrite specobjid_texpr_erases. apply specobjid_layout; [exact C | exact LI].
Qed.

Theorem specobjid_typed_rejects ts p f m r l i : all_fit ts [p; f; m; r; l; i] ->
  specobjid_doc_ranges [p; f; m - 50000; r; l; i] = false ->
  specobjid_typed_row (combine ts [p; f; m; r; l; i]) = TValueError.
Proof.
  intros F R. pose proof (all_fit_length _ _ F) as Lt.
  destruct ts as [|t0 [|t1 [|t2 [|t3 [|t4 [|t5 [|t6 ts]]]]]]]; try discriminate Lt.
  assert (F2 : fits t2 m = true).
  { inversion F as [|? ? ? ? _ F']; subst. inversion F' as [|? ? ? ? _ F'']; subst.
    inversion F'' as [|? ? ? ? H _]; subst. exact H. }
  destruct (mjd_conversion_exact t2 m F2) as (m' & Hm).
  destruct (Hm (combine [t0; t1; t2; t3; t4; t5] [p; f; m; r; l; i]) eq_refl) as (Ev & Hiff & _).
  unfold specobjid_typed_row. rewrite Ev. cbn [set_nth firstn skipn combine app map snd].
  replace (checks_ok specobjid_checks [p; f; m'; r; l; i]) with false; [reflexivity|].
  symmetry. rewrite specobjid_checks_are_documented.
  rewrite <- specobjid_checks_are_documented in R.
  unfold checks_ok, specobjid_checks in R. cbn [forallb nth] in R.
  unfold specobjid_doc_ranges. change (2 ^ 14) with 16384 in *. change (2 ^ 12) with 4096. change (2 ^ 10) with 1024.
  lia.
Qed.

(* non-vacuity and sensitivity: an int32 catalogue row packs to the documented ID; shifting in the array's own
   type (no cast) is NOT accepted by the analysis and really does wrap *)
Example typed_example_int32 :
  objid_typed_row (combine [I32; I32; I32; I32; I32; I32; I32] [2; 301; 3704; 3; 0; 91; 146]) = TOk I64 1237661382772195474.
Proof. vm_compute. reflexivity. Qed.

Example uncast_shift_wraps :
  teval [(I32, 3704)] (TShl (TVar 0%nat) 32) = TVal I32 0 /\
  tcheck [(0, 65535)] (TShl (TVar 0%nat) 32) = None.
Proof. split; vm_compute; reflexivity. Qed.

Example uncast_mjd_wraps_into_range :
  teval [(U16, 0); (U16, 0); (U16, 500)] (TSubLit (TVar 2%nat) 50000) = TVal U16 16036.
Proof. vm_compute. reflexivity. Qed.
