"""C08 -- B-spline evaluation equals the Cox-de Boor spline of its knots and coefficients."""
import math

from harness import common as C
from translate import c08 as T08

ID = 'C08'
PROPS_V = 'C08/Props.v'
LEVEL = 'proof'
TRUSTED = [
    'translate/c08.py: ast extraction of the index / comparison / constant arithmetic of bspline.py (87 expressions of '
    '__init__, intrv, bsplvn, action, value incl. the masked-breakpoint gap logic, fit, maskpoints, cholesky_band, iterfit incl. its '
    'guards: too-few-points early return, status -2 abort, give-up test, when djs_reject runs) and of the neighbour comparison of '
    'pydl/uniq.py into coq/Generated/BSpline.v; BSpline/GenBridge.v + the Cxx_generated_* obligations prove that the hand-written '
    'reference models are built from exactly these',
    'hand-written models coq/BSpline/Eval.v (knots_of_option, intrv, bsplvn, action_ranges, value) -- tied to '
    'bspline.__init__/intrv/bsplvn/action/value by the correspondence run only (no translator)',
    'numpy argsort / fancy indexing (the sorting permutation is observed and passed to the model)',
    'long splines (> 100000 intervals): harness/impl/c08_impl.py extracts, per evaluation point, the window of 2k knots and k '
    'coefficients around the interval it locates with numpy.searchsorted on the object\'s own knots; Coq checks that the window '
    'brackets the point (t_l < x <= t_{l+1}) and judges value / basis / mask / interval / action ranges on the window '
    '(C08_value_is_local: the spline value depends on the window only); the extraction itself is trusted glue',
    'float32/float64 arithmetic of numpy agrees with exact rational arithmetic to the stated tolerances '
    '(2^-20 relative for knot placement, 1e-9 relative for values) on the generated inputs',
    'Coq stdlib QArith, Lqa (theorems closed under the global context)',
]
ASSUMPTIONS = [
    'npoly = 1 (one-dimensional fits); the x2/npoly>1 path is outside',
    'the constructor writes its coverage repair (smallest / largest entry := x.min() / x.max()) into the CALLER\'s bkpt= array (the object '
    'keeps a copy): observed and counted (coverage.aliasing_and_layout.bkpt_cover_repair_in_place), accepted only when the array then '
    'holds exactly that repair -- every other change of bkpt=, placed=, x or the evaluation array is reported; a second object built '
    'from the same argument objects must get the knots of one built from pristine copies',
    'repeated INTERIOR knots are exercised (explicit breakpoints); a repeated first/last breakpoint (zero padding spacing) is outside',
    'the constructor receives sorted abscissae when everyn is used (as iterfit supplies them); for the other '
    'options only min/max of the data matter and unsorted data are exercised',
    'every-n with nx // everyn >= 2 (a single every-n breakpoint ends at x.max() and cannot cover x.min(): '
    'KnotsProofs.knots_everyn_single; model and code agree on that degenerate case)',
    'the one-sided value at a discontinuity is the one of the (t_l, t_{l+1}] convention of the reference implementation '
    '(C08_eval1_is_spline_left); the statement itself names no convention',
]

def translate(ctx):
    return {'BSpline': T08.regenerate(C)}


HEADER = '''From Coq Require Import QArith ZArith List. Import ListNotations.
From PV Require Import BSpline.Eval C08.Model. Open Scope Q_scope.'''

KINDS = ['bkpt', 'placed', 'bkspace', 'nbkpts', 'everyn']


def ql(v):
    return C.coq_list([C.qlit(x) for x in v])


def nl(v):
    return C.coq_list(['%d%%nat' % int(x) for x in v])


def zl(v):
    return C.coq_list(['%s%%Z' % C.zlit(x) for x in v])


def bl(v):
    return C.coq_list([C.boollit(x) for x in v])


def opt_term(opt):
    k, v = opt['kind'], opt['value']
    if k == 'bkpt':
        return '(OBkpt %s)' % ql(v)
    if k == 'placed':
        return '(OPlaced %s)' % ql(v)
    if k == 'bkspace':
        return '(OBkspace %s)' % C.qlit(v)
    if k == 'nbkpts':
        return '(ONbkpts %d%%nat)' % v
    return '(OEveryn %d%%nat)' % v


def gen_xs(rng, n, style, lo, hi, bits):
    if style == 'uniform':
        xs = [C.dyadic(rng, lo, hi, bits) for _ in range(n)]
    elif style == 'clustered':
        centres = [C.dyadic(rng, lo, hi, bits) for _ in range(rng.randint(2, 4))]
        w = (hi - lo) / 16.0
        xs = [min(hi, max(lo, rng.choice(centres) + C.dyadic(rng, -w, w, bits))) for _ in range(n)]
    elif style == 'repeated':
        base = [C.dyadic(rng, lo, hi, bits) for _ in range(max(3, n // 3))]
        xs = [rng.choice(base) for _ in range(n)]
    elif style == 'largeoffset':
        # offset / spacing up to ~1e8 (e.g. minutes of data on an MJD axis): lo is a large integer, spacing 2^-sp
        sp = 2.0 ** -rng.randint(4, 10)
        xs = [lo + i * sp * rng.choice([1, 1, 2]) for i in range(n)]
        xs = [lo + sp * j for j in sorted(rng.sample(range(0, 4 * n), n))]
        return xs
    else:  # 'longmantissa': not representable in float32
        xs = [lo + (hi - lo) * rng.random() for _ in range(n)]
    if max(xs) - min(xs) < (hi - lo) / 8.0:
        xs[0], xs[-1] = lo, hi
    return xs


def gen_call(rng, idx):
    kind = KINDS[idx % 5]
    k = 1 + (idx // 5) % 6
    lo = C.dyadic(rng, -40, 40, 2)
    hi = lo + rng.choice([1, 2, 8, 30, 100])
    bits = rng.choice([4, 8, 10])
    style = rng.choice(['uniform', 'uniform', 'clustered', 'repeated', 'longmantissa'])
    n = rng.randint(8, 36) if k <= 4 else rng.randint(8, 20)
    big = kind in ('nbkpts', 'bkspace', 'everyn') and idx % 7 == 4
    if big:
        lo = float(rng.choice([55359, 2 ** 20, 2 ** 24, 2450000]))
        hi = lo + 1
        style = 'largeoffset'
        xs = gen_xs(rng, n, style, lo, hi, bits)
        if kind != 'everyn' and rng.random() < 0.5:
            rng.shuffle(xs)
    elif kind == 'everyn':
        style = rng.choice(['uniform', 'longmantissa'])
        xs = sorted(set(gen_xs(rng, n, style, lo, hi, bits)))
        while len(xs) < 6:
            xs = sorted(set(xs + [C.dyadic(rng, lo, hi, 10)]))
    elif big:
        pass
    else:
        xs = gen_xs(rng, n, style, lo, hi, bits)
        if rng.random() < 0.5:
            xs.sort()
    xmin, xmax = min(xs), max(xs)
    rg = xmax - xmin
    if kind == 'bkpt':
        nb = rng.randint(2, 7)
        inner = sorted(set(C.dyadic(rng, xmin, xmax, 6) for _ in range(nb)))
        t = rng.random()
        if t < 0.4:      # covers exactly
            v = sorted(set([xmin] + inner + [xmax]))
        elif t < 0.7:    # wider than the data
            v = sorted(set([xmin - rg / 8] + inner + [xmax + rg / 4]))
        else:            # does not cover: the constructor must move the extreme breakpoints
            v = inner if len(inner) >= 2 else sorted(set([xmin] + inner + [xmax]))
        if idx % 4 == 2 and len(v) >= 4:
            # a repeated interior knot (multiplicity 2 .. nord): the spline may be discontinuous there
            j = rng.randrange(2, len(v) - 1)
            v = sorted(v + [v[j]] * rng.randint(1, max(1, k - 1)))
        value = v
    elif kind == 'placed':
        nb = rng.randint(0, 8)
        v = sorted(set(C.dyadic(rng, xmin - rg / 4, xmax + rg / 4, 6) for _ in range(nb)))
        if rng.random() < 0.3 and xmin + (xmax - xmin) == xmax:
            # (the code filters with `placed <= startx + rangex`; when that float sum is not x.max() exactly a
            #  placed point AT x.max() is dropped and re-created by the cover fix-up: same range, other knots)
            v = sorted(set(v + [xmin, xmax]))
        # keep placed points off the rounding boundary startx + rangex
        v = [t for t in v if t == xmax or abs(t - (xmin + (xmax - xmin))) > 1e-9 * (1 + abs(xmax))]
        value = v
    elif kind == 'bkspace':
        value = rg / rng.choice([1, 2, 3, 4, 5, 7]) * rng.choice([1.0, 1.0, 0.75, 1.5, 4.0])
        value = float(math.ldexp(round(math.ldexp(value, 12)), -12)) or rg
    elif kind == 'nbkpts':
        value = rng.randint(0, 8)
    else:
        value = rng.randint(1, max(1, len(xs) // 2))
    bkspread = rng.choice([1.0, 1.0, 1.0, 0.5, 2.0])
    coeff = [C.dyadic(rng, -8, 8, 6) for _ in range(160)]
    ne = rng.randint(6, 14) if k <= 4 else rng.randint(3, 6)
    xe = [C.dyadic(rng, xmin - rg / 8, xmax + rg / 8, 12) for _ in range(ne)]
    xe += rng.sample(xs, min(len(xs), 4))                      # data points themselves
    keys = None if rng.random() < 0.3 else [rng.randrange(1 << 30) for _ in range(97)]
    call = {'xs': xs, 'nord': k, 'opt': {'kind': kind, 'value': value}, 'bkspread': bkspread,
            'coeff': coeff, 'xe': xe, 'keys': keys}
    # sparse evaluation sets: a single point, an isolated minimum, one point per interval (the per-interval
    # row ranges lower/upper of value() then have lower == upper, possibly == 0)
    t = idx % 7
    if t == 3:
        call['sparse'] = 'single'
        call['xe'] = [C.dyadic(rng, xmin, xmax, 12)]
    elif t == 5:
        call['sparse'] = 'one-per-interval'
        call['stride'] = rng.choice([1, 1, 2])
    elif t == 6:
        call['sparse'] = 'isolated-min'
        call['first'] = rng.randrange(8)
    # multi-call history on one object: evaluate, change knots + coefficients (in place / by assignment), evaluate again
    if idx % 5 in (1, 2) and "sparse" not in call:
        call['history'] = {'mode': 'inplace' if idx % 2 else 'assign', 'shift': rng.choice([0.125, 0.375, -0.25]),
                           'follow': rng.random() < 0.7}
    elif idx % 5 in (0, 3, 4) and idx % 3 == 0 and call.get('sparse') != 'single':
        # the SAME evaluation array object again after the caller changed its contents in place (x += dx, x[:] = ..., shuffle,
        # sort), or handed to a second object on the same grid; the coefficients change (in place / by assignment) or not
        call['reuse'] = {'mode': ['iadd', 'shuffle', 'assign', 'second-object', 'shuffle', 'sort'][(idx // 3) % 6],
                         'shift': rng.choice([0.0625, -0.125, 0.25]), 'seed': rng.randrange(1 << 30),
                         'newcoeff': (idx // 10) % 2 == 0, 'coeff_inplace': (idx // 20) % 2 == 0}
    # repeated evaluation points; memory layout of the arrays handed to the constructor and to value()
    if 'sparse' not in call:
        call['dups'] = [0, 2, 0, 0, 3, 0][idx % 6]
    call['xe_layout'] = ['contiguous', 'strided', 'reversed'][(idx // 3) % 3]
    call['xs_layout'] = ['contiguous', 'reversed', 'strided'][(idx // 4) % 3]
    return call


def gen_long(rng, idx):
    """Splines with more than 100000 intervals (explicit breakpoints: equally spaced with long or short mantissas, or with
    jittered spacing), evaluated at clusters of points in CONSECUTIVE intervals in every magnitude class of the interval
    index (hundreds ... > 10^5, around 2^16 and 2^17, the first and the last intervals), 2-3 points per interval, shuffled."""
    # (order, spacing): long-mantissa knots (linspace) make the exact Cox-de Boor recursion expensive for high orders
    k, spacing = [(4, 'dyadic'), (2, 'linspace'), (3, 'jitter'), (1, 'linspace'), (5, 'jitter'), (6, 'dyadic'), (3, 'linspace'),
                  (2, 'jitter'), (4, 'linspace')][idx % 9]
    N = rng.choice([100040, 120011, 131080, 150000]) + rng.randint(0, 60)
    nint = N - 1
    starts = [0, nint - rng.randint(9, 14), rng.randrange(100, 1000), rng.randrange(1000, 10000), rng.randrange(10000, 65000),
              65536 - rng.randint(2, 6), rng.randrange(66000, 99000), min(nint - 30, 131072 - rng.randint(2, 6))]
    starts += [rng.randrange(100000, nint - 20) for _ in range(3)] + [rng.randrange(99990, 99999)]
    clusters = [[s0, rng.randint(5, 9)] for s0 in sorted(set(starts))]
    clusters = [[s0, min(cnt, nint - s0)] for s0, cnt in clusters]
    fracs = [rng.choice([0.125, 0.25, 0.375]), rng.choice([0.5, 0.8125, 0.9375])] + ([1.0] if idx % 2 == 0 else [])
    if k >= 4 and spacing == 'linspace':
        clusters = clusters[::2]
    return {'long': True, 'nord': k, 'nbk': N, 'spacing': spacing, 'log2step': rng.choice([8, 10, 12]),
            'seed': rng.randrange(1 << 30), 'clusters': clusters, 'fracs': fracs, 'sorted': idx % 4 == 3}


def long_term(c, r):
    pts = ['(mkWpt %s %d%%Z %s %s %s %s %d%%Z %s)' % (
        C.qlit(p['x']), p['l'], ql(p['knots']), ql(p['coeff']), C.qlit(p['y']), C.boollit(p['mask']), p['indx'], ql(p['row']))
        for p in r['points']]
    rg = ['(%d%%Z, (%s%%Z, %s%%Z))' % (s_, C.zlit(lo), C.zlit(hi)) for s_, lo, hi in r['ranges']]
    return '(CWin %d%%nat %s %s %s %d%%nat %s)' % (c['nord'], C.coq_list(pts), zl(r['indx_all']), C.coq_list(rg), r['nonempty'],
                                                 bl(r['outside_masks']))


def hist_term(c, r, key='hist'):
    h = r[key]
    ob = '(mkObsv %s %s %s %s %s %s %s %s %s)' % (
        ql(h['bk']), ql(h['xe']), nl(h['perm']), ql(h['yy']), bl(h['mask']), nl(h['indx']),
        C.coq_list([ql(row) for row in h['bs']]), zl(h['lower']), zl(h['upper']))
    return '(CHist %d%%nat %s %s)' % (c['nord'], ql(h['coeff']), ob)


def case_term(c, r):
    ob = '(mkObsv %s %s %s %s %s %s %s %s %s)' % (
        ql(r['bk']), ql(r['xe']), nl(r['perm']), ql(r['yy']), bl(r['mask']), nl(r['indx']),
        C.coq_list([ql(row) for row in r['bs']]), zl(r['lower']), zl(r['upper']))
    return '(CVal %s %s %d%%nat %s %s %s)' % (
        opt_term(c['opt']), ql(c['xs']), c['nord'], C.qlit(c['bkspread']), ql(c['coeff'][:r['nc']]), ob)


def correspond(ctx, proof_ok=True):
    ok, log = C.coq_make(['C08/Model.vo'])
    if not ok:
        raise RuntimeError('C08/Model.v does not build:\n' + log[-2000:])
    rng = ctx.rng
    ncases = ctx.n(150, 1500)
    calls = [gen_call(rng, i) for i in range(ncases)]
    nb = 8
    outs = C.run_impl_parallel('c08_impl.py', [calls[i::nb] for i in range(nb)])
    results = [None] * ncases
    for bi, o in enumerate(outs):
        for j, r in enumerate(o['results']):
            results[bi + j * nb] = r
    ctx.coverage['pydl_file'] = outs[0]['pydl_file']
    terms, owners = [], []
    dist = {}
    npoints = 0
    seen = set()
    astats = {'bkpt_cover_repair_in_place': 0, 'second_init_same_objects': 0}
    gch = sorted(set(sum([o.get('globals_changed', {}).get('by_import', []) + o.get('globals_changed', {}).get('by_calls', []) for o in outs], [])))
    ctx.coverage['process_globals_changed'] = gch
    if gch:
        ctx.violation('C08:process-globals-changed', 'importing pydl.pydlutils.bspline / evaluating splines changed process-global settings: %s' % gch,
                      {'kind': 'broken-correspondence', 'item': 'process-global state (np.geterr, print options, warnings.filters, os.environ)',
                       'globals_changed': [o.get('globals_changed') for o in outs]}, False)
    # ---- long splines (> 100000 intervals): behaviour of the real code, judged point by point on windows
    lcalls = [gen_long(rng, i) for i in range(ctx.n(3, 18))]
    louts = C.run_impl_parallel('c08_impl.py', [[lc] for lc in lcalls])
    lterms, lown = [], []
    lstats = {'splines': len(lcalls), 'points': 0, 'points_index_ge_100000': 0, 'max_intervals': 0}
    for li, (lc, lo_) in enumerate(zip(lcalls, louts)):
        lr = lo_['results'][0]
        what = lr.get('err') or ('non-finite' if not lr.get('finite', True) else None) or \
            ('bad-knots' if not (lr.get('knots_sorted') and lr.get('nknots') == lr.get('knots_expected') and lr.get('mask_all_true')
                                 and lr.get('coeff_shape_ok')) else None)
        if what:
            sig = 'C08:long:impl=%s:property' % what
            if sig not in seen:
                seen.add(sig)
                ctx.violation(sig, 'bspline with %d breakpoints, nord=%d: %s %s' % (lc['nbk'], lc['nord'], what, lr.get('msg', '')),
                              {'kind': 'failing-input', 'call': lc, 'impl_result': {k_: v for k_, v in lr.items() if k_ not in ('points', 'indx_all', 'ranges')}}, True)
            continue
        if lr.get('args_mutated'):
            ctx.violation('C08:value:argument-modified', 'value() modified its argument (long spline)', {'kind': 'failing-input', 'call': lc}, True)
        lterms.append(long_term(lc, lr))
        lown.append(li)
        lstats['points'] += len(lr['points'])
        lstats['points_index_ge_100000'] += sum(1 for p_ in lr['points'] if p_['l'] >= 100000)
        lstats['max_intervals'] = max(lstats['max_intervals'], lr['nseg'])
    lcc = C.CoqCases(ctx.work, HEADER, 'run_cases', shard=1)
    lverd = lcc.run(lterms, tag='long') if lterms else []
    for t, li, v in zip(lterms, lown, lverd):
        if v == 0:
            continue
        lc, lr = lcalls[li], louts[li]['results'][0]
        diag = lcc.show('diagnose %s' % t)[-300:]
        small = {k_: v_ for k_, v_ in lr.items() if k_ not in ('points', 'indx_all', 'ranges')}
        if v == 4:
            sig = 'C08:harness:long:window'
            if sig not in seen:
                seen.add(sig)
                ctx.violation(sig, 'long-spline case data inconsistent (a window does not bracket its point)',
                              {'kind': 'broken-correspondence', 'item': 'C08.Model.run_case (CWin)', 'call': lc, 'diagnose': diag}, False)
            continue
        sig = 'C08:long:%s' % ('property' if v & 2 else 'model')
        if sig in seen:
            continue
        seen.add(sig)
        bad = []
        if v & 2:
            ctx.violation(sig, 'spline with %d intervals (nord=%d, %s breakpoints): value()/mask/basis contradict the Cox-de Boor spline of the '
                          'knots and coefficients around the evaluation points (windows of 2k knots; BSpline/WindowProofs.eval1_window)' % (
                              lr['nseg'], lc['nord'], lc['spacing']),
                          {'kind': 'failing-input', 'call': lc, 'impl_result': small, 'verdict': v, 'diagnose': diag,
                           'meaning': 'diagnose = [windows ok; model value/basis/interval; model action ranges; spec value/mask/basis; outside masks False]; '
                                      'replay re-runs the call and lists the deviating points'}, True)
        else:
            ctx.violation(sig, 'long spline (%d intervals, nord=%d): model and implementation disagree; specification accepts the output' % (lr['nseg'], lc['nord']),
                          {'kind': 'broken-correspondence', 'item': 'C08.Model.run_case (CWin)', 'call': lc, 'impl_result': small, 'verdict': v, 'diagnose': diag}, False)
    npoints += lstats['points']
    ctx.coverage['long_splines'] = dict(lstats, coq_eval_s=round(lcc.coq_seconds, 1))
    for i, (c, r) in enumerate(zip(calls, results)):
        key = '%s:k=%d:%s' % (c['opt']['kind'], c['nord'], r.get('err', 'ok'))
        dist[key] = dist.get(key, 0) + 1
        if 'err' in r or not r.get('finite', True) or not r.get('mask_all_true', True) or not r.get('coeff_shape_ok', True):
            what = r.get('err') or ('non-finite' if not r.get('finite', True) else 'bad-shape')
            sig = 'C08:%s:%s:impl=%s:property' % (r.get('stage', 'value'), c['opt']['kind'], what)
            if sig not in seen:
                seen.add(sig)
                ctx.violation(sig, 'bspline(%s=%r, nord=%d) on %d abscissae: %s %s' % (
                    c['opt']['kind'], c['opt']['value'], c['nord'], len(c['xs']), what, r.get('msg', '')),
                    {'kind': 'failing-input', 'call': c, 'impl_result': r,
                     'meaning': 'the constructor/evaluation must produce a knot vector and finite values for every '
                                'breakpoint option; an exception or NaN contradicts the property directly'}, True)
            continue
        if r.get('args_mutated') or r.get('result_aliases_arg'):
            sig = 'C08:value:argument-modified' if r.get('args_mutated') else 'C08:value:result-aliases-argument'
            if sig not in seen:
                seen.add(sig)
                ctx.violation(sig, 'a caller-owned array was modified by the call (%s) / the result shares memory with an argument' % r.get('args_mutated'),
                              {'kind': 'failing-input', 'call': c, 'impl_result': {k_: r[k_] for k_ in ('args_mutated', 'result_aliases_arg')}}, True)
        astats['bkpt_cover_repair_in_place'] += 1 if r.get('bkpt_cover_repair_in_place') else 0
        if 'derived_same' in r or 'derived_err' in r:
            astats['derived_objects'] = astats.get('derived_objects', 0) + 1
            if r.get('derived_err') or not r.get('derived_same'):
                sig = 'C08:derived-object:property'
                if sig not in seen:
                    seen.add(sig)
                    ctx.violation(sig, 'copy.deepcopy / copy.copy / pickle round trip of a bspline does not evaluate like the object it was made from: %s' % (
                        r.get('derived_err') or 'values or mask differ'),
                        {'kind': 'failing-input', 'history': ['b = bspline(...)', 'b2 = copy.deepcopy(b) | pickle.loads(pickle.dumps(b)) | copy.copy(b)', 'b2.value(x) != b.value(x)'],
                         'call': c, 'impl_result': {k_: r.get(k_) for k_ in ('derived_err', 'derived_same', 'bk')}}, True)
        if 'second_init_same' in r or 'second_init' in r:
            astats['second_init_same_objects'] += 1
            if r.get('second_init') or not r.get('second_init_same') or r.get('object_keeps_argument'):
                sig = 'C08:init:second-call-same-arguments'
                if sig not in seen:
                    seen.add(sig)
                    ctx.violation(sig, 'a second bspline built from the SAME argument objects (%s=) does not get the knots of one built from pristine copies '
                                  '(%s), or the object keeps a reference to the caller\'s array (%s)' % (
                                      c['opt']['kind'], r.get('second_init') or r.get('second_init_same'), r.get('object_keeps_argument')),
                                  {'kind': 'failing-input', 'history': ['b = bspline(x, %s=grid)' % c['opt']['kind'], 'b2 = bspline(x, %s=grid)  # same objects' % c['opt']['kind'],
                                                                        'b3 = bspline(x.copy(), %s=<copy of the grid>)' % c['opt']['kind']],
                                   'call': c, 'impl_result': {k_: r.get(k_) for k_ in ('second_init', 'second_init_same', 'object_keeps_argument', 'bk')}}, True)
        terms.append(case_term(c, r))
        owners.append(i)
        npoints += len(r['xe'])
        ru = r.get('reuse')
        if ru is not None:
            mode = c['reuse']['mode']
            astats['reuse:' + mode] = astats.get('reuse:' + mode, 0) + 1
            rhist = ['b.value(x)', {'iadd': 'x += dx', 'assign': 'x[:] = <other points>', 'shuffle': 'shuffle x in place', 'sort': 'x.sort()',
                                   'second-object': 'b2 = bspline(<same arguments>), other coefficients'}[mode] +
                     ('; coefficients changed' if c['reuse'].get('newcoeff') else ''), '%s.value(x)   # the same ndarray object' % ('b2' if mode == 'second-object' else 'b')]
            if 'err' in ru or not ru.get('finite', True) or ru.get('arg_modified'):
                sig = 'C08:reuse:impl=%s' % (ru.get('err') or ('argument-modified' if ru.get('arg_modified') else 'non-finite'))
                if sig not in seen:
                    seen.add(sig)
                    ctx.violation(sig, 'evaluating the same array object again (%s): %s %s' % (mode, ru.get('err'), ru.get('msg', '')),
                                  {'kind': 'failing-input', 'history': rhist, 'call': c, 'impl_result': ru}, True)
            else:
                terms.append(hist_term(c, r, 'reuse'))
                owners.append(('reuse', i, rhist))
                npoints += len(ru['xe'])
        h = r.get('hist')
        if h is not None:
            if 'err' in h or not h.get('finite', True):
                sig = 'C08:history:impl=%s' % (h.get('err') or 'non-finite')
                if sig not in seen:
                    seen.add(sig)
                    ctx.violation(sig, 'evaluating again after changing knots/coefficients on the same object: %s %s' % (h.get('err'), h.get('msg', '')),
                                  {'kind': 'failing-input', 'history': ['construct', 'value(xe)', 'change breakpoints+coeff (%s)' % c['history']['mode'], 'value(xe2)'],
                                   'call': c, 'impl_result': h}, True)
            else:
                terms.append(hist_term(c, r))
                owners.append(-(i + 1))          # negative: the history step of call i
                npoints += len(h['xe'])
    cc = C.CoqCases(ctx.work, HEADER, 'run_cases', shard=1)
    verdicts = cc.run(terms) if terms else []
    ctx.coverage.update({
        'evaluations': npoints,
        'distinct_nontrivial': len(set(terms)) + len(set(lterms)),
        'rule': 'one evaluation = one evaluation point of one constructed bspline (value, mask, basis row, interval) '
                'compared with the Coq model and with the Cox-de Boor specification; distinct = distinct case terms '
                '(one per constructed knot vector)',
        'cases': ncases, 'cases_by_option_order_outcome': dist,
        'coq_eval_s': round(cc.coq_seconds, 1),
        'model_disagreements': sum(1 for v in verdicts if v & 1),
        'spec_violations': sum(1 for v in verdicts if v & 2),
        'samples': [{'call': {k: (v if k != 'coeff' else v[:6]) for k, v in calls[i].items()},
                     'impl': {k: results[i][k] for k in ('bk', 'bk_dtype', 'nc')}} for i in [o for o in owners if isinstance(o, int) and o >= 0][:3]],
        'aliasing_and_layout': astats,
        'genuinely_permuted_evaluations': sum(1 for o in owners if isinstance(o, int) and o >= 0 and results[o]['xe'] not in (
            sorted(results[o]['xe']), sorted(results[o]['xe'], reverse=True))),
    })
    for t, i, v in zip(terms, owners, verdicts):
        if v == 0:
            continue
        if isinstance(i, tuple):
            _tag, i0, rhist = i
            c, r = calls[i0], results[i0]
            sig = 'C08:reuse:%s' % ('property' if v & 2 else 'model')
            if sig in seen:
                continue
            seen.add(sig)
            diag = cc.show('diagnose %s' % t)
            if not v & 2:
                ctx.violation(sig, 'same-array re-evaluation (%s): model and implementation disagree; the specification accepts the output' % c['reuse']['mode'],
                              {'kind': 'broken-correspondence', 'item': 'C08.Model.run_case (CHist)', 'history': rhist, 'call': c, 'impl_result': r['reuse'],
                               'verdict': v, 'diagnose': diag[-300:]}, False)
                continue
            ctx.violation(sig, 'value() called again with the SAME array object after its contents were changed in place / on a second object (%s): '
                          'the values returned are not the spline of the knots and coefficients at the points the array NOW holds, in the '
                          'caller\'s order (%s, nord=%d)' % (c['reuse']['mode'], c['opt']['kind'], c['nord']),
                          {'kind': 'failing-input', 'history': rhist, 'call': c, 'impl_result': r['reuse'], 'verdict': v, 'diagnose': diag[-300:],
                           'meaning': 'diagnose = [-; model_eval; knots sorted; spec_values; spec_mask; spec_basis] for the CURRENT contents of x'}, True)
            continue
        if i < 0:
            c, r = calls[-i - 1], results[-i - 1]
            sig = 'C08:history:%s' % ('property' if v & 2 else 'model')
            if sig in seen:
                continue
            seen.add(sig)
            diag = cc.show('diagnose %s' % t)
            if not v & 2:
                ctx.violation(sig, 'history step: model and implementation disagree after changing breakpoints/coefficients (%s); the '
                              'specification accepts the output' % c['history']['mode'],
                              {'kind': 'broken-correspondence', 'item': 'C08.Model.run_case (CHist)', 'call': c, 'impl_result': r['hist'],
                               'verdict': v, 'diagnose': diag[-300:]}, False)
                continue
            ctx.violation(sig, 'history-dependent result: after evaluating, changing breakpoints/coefficients (%s) and evaluating again on the '
                          'SAME object, the values are not those of the current knots and coefficients (%s, nord=%d)' % (
                              c['history']['mode'], c['opt']['kind'], c['nord']),
                          {'kind': 'failing-input', 'history': ['construct', 'value(xe)', 'change breakpoints+coeff (%s)' % c['history']['mode'], 'value(xe2)'],
                           'call': c, 'impl_result': r['hist'], 'verdict': v, 'diagnose': diag[-300:]}, True)
            continue
        c, r = calls[i], results[i]
        sig = 'C08:%s:%s' % (c['opt']['kind'], 'property' if v & 2 else 'model')
        if sig in seen:
            continue
        seen.add(sig)
        diag = cc.show('diagnose %s' % t)
        if v & 2:
            ctx.violation(sig, 'implementation output contradicts the Cox-de Boor / knot / mask specification (%s, nord=%d)' % (
                c['opt']['kind'], c['nord']),
                {'kind': 'failing-input', 'call': c, 'impl_result': r, 'verdict': v, 'diagnose': diag[-400:],
                 'meaning': 'diagnose = [model_knots; model_eval; spec_knots; spec_values; spec_mask; spec_basis]'}, True)
        else:
            ctx.violation(sig, 'model and implementation disagree (%s, nord=%d); specification accepts the output' % (
                c['opt']['kind'], c['nord']),
                {'kind': 'broken-correspondence', 'item': 'C08.Model.run_case', 'call': c, 'impl_result': r,
                 'verdict': v, 'diagnose': diag[-400:]}, False)


def replay(ctx, rep):
    c = rep.get('call')
    if not c:
        print('replay file has no call (kind=%s, item=%s)' % (rep.get('kind'), rep.get('item')))
        return 2
    out = C.run_impl('c08_impl.py', [c])
    r = out['results'][0]
    if c.get('long'):
        print('call   : bspline(bkpt=<%d %s breakpoints>, nord=%d).value(<%d clusters of consecutive intervals>)' % (
            c['nbk'], c['spacing'], c['nord'], len(c['clusters'])))
        if 'err' in r:
            print('impl   :', r)
            return 0
        import numpy as np
        from scipy.interpolate import BSpline
        nbad = 0
        for p_ in r['points']:
            k = c['nord']
            ref = float(BSpline(np.array(p_['knots']), np.array(p_['coeff']), k - 1, extrapolate=True)(p_['x']))
            if abs(ref - p_['y']) > 1e-8 * (1 + abs(ref)):
                nbad += 1
                if nbad <= 5:
                    print('impl   : x=%r interval %d: value() = %r, spline of the surrounding knots/coefficients = %r' % (p_['x'], p_['l'], p_['y'], ref))
        print('impl   : %d of %d points deviate' % (nbad, len(r['points'])))
        return 0
    print('call   : bspline(x[%d], nord=%d, %s=%r, bkspread=%r)' % (
        len(c['xs']), c['nord'], c['opt']['kind'], c['opt']['value'], c['bkspread']))
    print('impl   :', {k: v for k, v in r.items() if k in ('err', 'msg', 'stage', 'bk', 'nc', 'finite')})
    print('before :', {k: v for k, v in (rep.get('impl_result') or {}).items() if k in ('err', 'msg', 'stage', 'bk', 'nc')})
    return 0
