(* C14 -- IDL built-in replacements: smooth, median, uniq, rebin.
   Executable definitions ONLY (no proofs).
     M  = algorithmic models, transliterations of pydl/{smooth,median,uniq,rebin}.py
          (smooth's index arithmetic and rebin's shape tests / branch selectors / shrink arithmetic come
          from Generated/Smooth.v and Generated/Rebin.v, regenerated from the source);
     S  = specification models written from the IDL rules (never mention M or Generated);
     case / run_case for the correspondence run.
   Numbers: float arrays are lists of exact rationals Q (the harness passes the doubles exactly),
   integer arrays are lists of Z (or of integral Q for rebin). *)
From Coq Require Import ZArith QArith Qround Qabs List Bool.
Import ListNotations.
From PV Require Import Generated.Smooth Generated.Rebin Generated.Uniq Generated.Median.
Open Scope Z_scope.

(* ------------------------------------------------------------------ common *)

Definition getQ (xs : list Q) (j : Z) : Q := if j <? 0 then 0%Q else nth (Z.to_nat j) xs 0%Q.
Definition sumQ (l : list Q) : Q := fold_right Qplus 0%Q l.
Definition lenZ {A} (l : list A) : Z := Z.of_nat (length l).

(* Python slice l[a:b] (step 1): negative bounds count from the end, everything is clamped *)
Definition slice_norm (n j : Z) : Z := if j <? 0 then Z.max (j + n) 0 else Z.min j n.
Definition pyslice {A} (l : list A) (a b : Z) : list A :=
  let n := lenZ l in
  let a' := slice_norm n a in
  let b' := slice_norm n b in
  firstn (Z.to_nat (b' - a')) (skipn (Z.to_nat a') l).
(* Python scalar index l[j], negative j counts from the end *)
Definition pygetQ (xs : list Q) (j : Z) : Q := if j <? 0 then getQ xs (j + lenZ xs) else getQ xs j.

Definition Qlt_bool (a b : Q) : bool := negb (Qle_bool b a).
Definition Qeqb_tol (tol a b : Q) : bool := Qle_bool (Qabs (a - b)) tol.
Definition eq1_tol (tol : Q) (a b : list Q) : bool :=
  Nat.eqb (length a) (length b) && forallb (fun p => Qeqb_tol tol (fst p) (snd p)) (combine a b).
(* per-element tolerances (the harness scales them with the magnitudes inside each output sample's window) *)
Definition eq1_tolv (tols : list Q) (a b : list Q) : bool :=
  Nat.eqb (length a) (length b) && Nat.eqb (length a) (length tols) &&
  forallb (fun p => Qeqb_tol (snd p) (fst (fst p)) (snd (fst p))) (combine (combine a b) tols).
Definition eq2_tol (tol : Q) (a b : list (list Q)) : bool :=
  Nat.eqb (length a) (length b) && forallb (fun p => eq1_tol tol (fst p) (snd p)) (combine a b).
Definition eq3_tol (tol : Q) (a b : list (list (list Q))) : bool :=
  Nat.eqb (length a) (length b) && forallb (fun p => eq2_tol tol (fst p) (snd p)) (combine a b).
Definition eqb_listZ (a b : list Z) : bool :=
  Nat.eqb (length a) (length b) && forallb (fun p => fst p =? snd p) (combine a b).

(* ================================================================== smooth *)

(* M: pydl/smooth.py; every integer expression is a Generated definition *)
Definition smooth (signal : list Q) (owidth : Z) (edge_truncate : bool) : list Q :=
  let width := smooth_width owidth in
  if smooth_returns_input width then signal else
  let n := lenZ signal in
  let istart := smooth_istart n width owidth in
  let iend := smooth_iend n width owidth in
  let w2 := smooth_w2 n width owidth in
  map (fun k =>
         let i := Z.of_nat k in
         if smooth_in_lo i n istart iend w2 width then
           if edge_truncate then
             ((sumQ (pyslice signal (smooth_lo_a i n istart iend w2 width) (smooth_lo_b i n istart iend w2 width))
               + inject_Z (smooth_lo_mult i n istart iend w2 width)
                 * pygetQ signal (smooth_lo_edge i n istart iend w2 width)) / inject_Z width)%Q
           else getQ signal i
         else if smooth_in_hi i n istart iend w2 width then
           if edge_truncate then
             ((sumQ (pyslice signal (smooth_hi_a i n istart iend w2 width) (smooth_hi_b i n istart iend w2 width))
               + inject_Z (smooth_hi_mult i n istart iend w2 width)
                 * pygetQ signal (smooth_hi_edge i n istart iend w2 width)) / inject_Z width)%Q
           else getQ signal i
         else
           (sumQ (pyslice signal (smooth_mid_a i n istart iend w2 width) (smooth_mid_b i n istart iend w2 width))
            / inject_Z width)%Q)
      (seq 0 (length signal)).

(* S: IDL SMOOTH.  window = the samples lo, lo+1, ... (cnt of them); cwindow = the same with every
   subscript clamped into [0, n-1] (out-of-range samples replaced by the nearest edge value) *)
Definition clampZ (n j : Z) : Z := Z.max 0 (Z.min (n - 1) j).
Definition window (xs : list Q) (lo : Z) (cnt : nat) : list Q :=
  map (fun k => getQ xs (lo + Z.of_nat k)) (seq 0 cnt).
Definition cwindow (xs : list Q) (lo : Z) (cnt : nat) : list Q :=
  map (fun k => getQ xs (clampZ (lenZ xs) (lo + Z.of_nat k))) (seq 0 cnt).
(* centred mean of width 2h+1 at i, clamped subscripts *)
Definition boxcar (xs : list Q) (h i : Z) : Q :=
  (sumQ (cwindow xs (i - h) (Z.to_nat (2 * h + 1))) / inject_Z (2 * h + 1))%Q.
(* centred mean of width 2h+1 at i, plain subscripts (only meaningful for h <= i <= n-1-h) *)
Definition window_mean (xs : list Q) (h i : Z) : Q :=
  (sumQ (window xs (i - h) (Z.to_nat (2 * h + 1))) / inject_Z (2 * h + 1))%Q.
Definition odd_width (ow : Z) : Z := if Z.even ow then ow + 1 else ow.
Definition interior (n h i : Z) : bool := (h <=? i) && (i <=? n - 1 - h).
Definition smooth_spec (xs : list Q) (owidth : Z) (edge_truncate : bool) : list Q :=
  let w := odd_width owidth in
  if w <? 3 then xs else
  let h := w / 2 in
  map (fun k => let i := Z.of_nat k in
                if interior (lenZ xs) h i then window_mean xs h i
                else if edge_truncate then boxcar xs h i else getQ xs i)
      (seq 0 (length xs)).

(* ================================================================== median *)

Fixpoint insertQ (x : Q) (l : list Q) : list Q :=
  match l with
  | [] => [x]
  | y :: t => if Qle_bool x y then x :: l else y :: insertQ x t
  end.
Definition sortQ (l : list Q) : list Q := fold_right insertQ [] l.

(* M: median(array) without width: np.median for odd sizes or /EVEN, else f[argsort(f)[size//2]] *)
Definition np_median (xs : list Q) : Q :=
  let s := sortQ xs in
  let n := length s in
  if Nat.odd n then nth (Nat.div n 2) s 0%Q
  else ((nth (Nat.div n 2 - 1)%nat s 0%Q + nth (Nat.div n 2) s 0%Q) / 2)%Q.
(* the branch test and the rank picked from the argsort are GENERATED (Generated/Median.v) *)
Definition median_plain (xs : list Q) (even : bool) : Q :=
  if median_uses_npmedian (lenZ xs) even then np_median xs
  else nth (Z.to_nat (median_pick_rank (lenZ xs))) (sortQ xs) 0%Q.

(* median(array, axis=...) on a 2-D array: np.median along the axis *)
Definition column (j : nat) (x : list (list Q)) : list Q := map (fun r => nth j r 0%Q) x.
Definition ncols (x : list (list Q)) : nat := match x with [] => O | r :: _ => length r end.
Definition median_axis (x : list (list Q)) (axis : Z) : list Q :=
  if axis =? 0 then map (fun j => np_median (column j x)) (seq 0 (ncols x))
  else map np_median x.

Inductive fres1 := F1Ok (l : list Q) | F1ValueError | F1Other.
Inductive fres2 := F2Ok (l : list (list Q)) | F2ValueError | F2Other.

(* scipy.signal.medfilt(x, k): zero padded running median, k must be odd *)
Definition padded (xs : list Q) (j : Z) : Q := if (0 <=? j) && (j <? lenZ xs) then getQ xs j else 0%Q.
Definition medfilt_at (xs : list Q) (k : Z) (i : Z) : Q :=
  let h := k / 2 in
  let w := map (fun t => padded xs (i - h + Z.of_nat t)) (seq 0 (Z.to_nat k)) in
  nth (Z.to_nat h) (sortQ w) 0%Q.
(* M: median(array, width) for 1-D input; kernel size, istart, iend and the edge mask are GENERATED *)
Definition median_filter1 (xs : list Q) (width : Z) : fres1 :=
  let n := lenZ xs in
  let k := medfilt1_kernel width n in
  if Z.even k || (k <? 1) then F1ValueError else
  let istart := medfilt1_istart width n in
  let iend := medfilt1_iend width n in
  F1Ok (map (fun t => let i := Z.of_nat t in
                      if medfilt1_edge i istart iend then getQ xs i else medfilt_at xs k i)
            (seq 0 (length xs))).

Definition get2 (x : list (list Q)) (i j : Z) : Q := if i <? 0 then 0%Q else getQ (nth (Z.to_nat i) x []) j.
Definition padded2 (x : list (list Q)) (i j : Z) : Q :=
  if (0 <=? i) && (i <? lenZ x) && (0 <=? j) && (j <? Z.of_nat (ncols x)) then get2 x i j else 0%Q.
Definition medfilt2_at (x : list (list Q)) (k : Z) (i j : Z) : Q :=
  let h := k / 2 in
  let w := flat_map (fun a => map (fun b => padded2 x (i - h + Z.of_nat a) (j - h + Z.of_nat b))
                                  (seq 0 (Z.to_nat k))) (seq 0 (Z.to_nat k)) in
  nth (Z.to_nat ((k * k) / 2)) (sortQ w) 0%Q.
(* M: median(array, width) for 2-D input: medfilt2d(array, min(width, array.size)), then the edge rows
   and the edge columns are copied back from the input; kernel, istart, iend, edge masks GENERATED *)
Definition median_filter2 (x : list (list Q)) (width : Z) : fres2 :=
  let n0 := lenZ x in
  let n1 := Z.of_nat (ncols x) in
  let k := medfilt2_kernel width (n0 * n1) in
  if Z.even k || (k <? 1) then F2ValueError else
  let istart := medfilt2_istart width n0 n1 in
  let iend0 := medfilt2_iend0 width n0 n1 in
  let iend1 := medfilt2_iend1 width n0 n1 in
  F2Ok (map (fun a => let i := Z.of_nat a in
          map (fun b => let j := Z.of_nat b in
                 if medfilt2_edge_row i j istart iend0 iend1 || medfilt2_edge_col i j istart iend0 iend1
                 then get2 x i j else medfilt2_at x k i j)
              (seq 0 (ncols x)))
        (seq 0 (length x))).

(* S: IDL MEDIAN.  The rank characterisation of the median is a theorem about sortQ (Proofs.v);
   the running median is the middle element of the sorted window of actual samples for interior
   points and the input sample elsewhere. *)
Definition median_spec (xs : list Q) (even : bool) : Q :=
  let s := sortQ xs in
  let n := length xs in
  if Nat.even n && even then ((nth (Nat.div n 2 - 1)%nat s 0%Q + nth (Nat.div n 2) s 0%Q) / 2)%Q
  else nth (Nat.div n 2) s 0%Q.
Definition window_median (xs : list Q) (h i : Z) : Q :=
  nth (Z.to_nat h) (sortQ (window xs (i - h) (Z.to_nat (2 * h + 1)))) 0%Q.
Definition median_filter1_spec (xs : list Q) (width : Z) : list Q :=
  let h := width / 2 in
  map (fun t => let i := Z.of_nat t in
                if interior (lenZ xs) h i then window_median xs h i else getQ xs i)
      (seq 0 (length xs)).
Definition window2 (x : list (list Q)) (h i j : Z) : list Q :=
  flat_map (fun a => map (fun b => get2 x (i - h + Z.of_nat a) (j - h + Z.of_nat b))
                         (seq 0 (Z.to_nat (2 * h + 1)))) (seq 0 (Z.to_nat (2 * h + 1))).
Definition window2_median (x : list (list Q)) (h i j : Z) : Q :=
  nth (Z.to_nat (((2 * h + 1) * (2 * h + 1)) / 2)) (sortQ (window2 x h i j)) 0%Q.
Definition median_filter2_spec (x : list (list Q)) (width : Z) : list (list Q) :=
  let h := width / 2 in
  map (fun a => let i := Z.of_nat a in
     map (fun b => let j := Z.of_nat b in
            if interior (lenZ x) h i && interior (Z.of_nat (ncols x)) h j
            then window2_median x h i j else get2 x i j)
         (seq 0 (ncols x)))
      (seq 0 (length x)).

(* ================================================================== uniq *)

Fixpoint nonzero_from (i : Z) (bs : list bool) : list Z :=
  match bs with
  | [] => []
  | b :: t => if b then i :: nonzero_from (i + 1) t else nonzero_from (i + 1) t
  end.
Definition getZ (xs : list Z) (j : Z) : Z := if j <? 0 then 0 else nth (Z.to_nat j) xs 0.

(* numpy.roll(l, k): out[i] = l[(i - k) mod n] *)
Definition roll {A} (k : Z) (l : list A) : list A :=
  let n := lenZ l in
  if n =? 0 then l else
  let s := Z.to_nat ((- k) mod n) in skipn s l ++ firstn s l.

Section Uniq.
  Variable A : Type.
  Variable neqb : A -> A -> bool.          (* M: the GENERATED comparison (x != y) applied to the dtype's equality;
                                              S: the dtype's disequality *)
  Variable dflt : A.

  (* (x CMP roll(x, shift)).nonzero()[0] *)
  Definition change_points_at (shift : Z) (x : list A) : list Z :=
    nonzero_from 0 (map (fun p => neqb (fst p) (snd p)) (combine x (roll shift x))).
  (* M: uniq(x); shift, size test, returned subscripts and the all-equal value are GENERATED (Generated/Uniq.v) *)
  Definition uniq (x : list A) : list Z :=
    let ind := change_points_at uniq_plain_shift x in
    if uniq_plain_nonempty (lenZ ind) then map (uniq_plain_pick (fun j => j)) ind
    else [uniq_plain_constant (lenZ x)].
  (* x[index] (subscripts in range) *)
  Definition take (x : list A) (index : list Z) : list A := map (fun j => nth (Z.to_nat j) x dflt) index.
  (* M: uniq(x, index) *)
  Definition uniq_indexed (x : list A) (index : list Z) : list Z :=
    let q := take x index in
    let ind := change_points_at uniq_indexed_shift q in
    if uniq_indexed_nonempty (lenZ ind) then map (uniq_indexed_pick (getZ index)) ind
    else [uniq_indexed_constant (lenZ q)].

  (* S: subscript of the last element of every maximal run of equal neighbours *)
  Fixpoint runs_last_from (i : Z) (l : list A) : list Z :=
    match l with
    | [] => []
    | x :: t => match t with
                | [] => [i]
                | y :: _ => if neqb x y then i :: runs_last_from (i + 1) t else runs_last_from (i + 1) t
                end
    end.
  Definition runs_last (l : list A) : list Z := runs_last_from 0 l.
End Uniq.

(* S side: the dtype's disequality *)
Definition neqbZ (a b : Z) : bool := negb (a =? b).
Definition neqbQ (a b : Q) : bool := negb (Qeq_bool a b).
(* M side: the comparison as written in uniq.py (GENERATED), over the dtype's equality *)
Definition gneqbZ_plain : Z -> Z -> bool := uniq_plain_differs Z.eqb.
Definition gneqbZ_indexed : Z -> Z -> bool := uniq_indexed_differs Z.eqb.
Definition gneqbQ_plain : Q -> Q -> bool := uniq_plain_differs Qeq_bool.
Definition gneqbQ_indexed : Q -> Q -> bool := uniq_indexed_differs Qeq_bool.

(* ================================================================== rebin *)

(* dtype kinds: floating, or integer (values are integral rationals; results are truncated on store,
   block sums are floor-divided) *)
Inductive dkind := DFloat | DInt.
Definition Qtrunc (q : Q) : Z := if Qle_bool 0 q then Qfloor q else Qceiling q.

Record ops (T : Type) := mkops {
  lin : Q -> T -> T -> T;          (* lin t a b = store (a + t*(b - a)) *)
  avg : list T -> Z -> T;          (* avg block f = store (sum block / f) *)
  dfl : T }.
Arguments lin {T}. Arguments avg {T}. Arguments dfl {T}.

(* S: element rules.  Integer dtypes hold integers (Qfloor is the identity on them): the interpolant is
   truncated toward zero on store, block sums are floor-divided. *)
Definition ops_elem (k : dkind) : ops Q :=
  match k with
  | DFloat => mkops Q (fun t a b => (a + t * (b - a))%Q) (fun l f => (sumQ l / inject_Z f)%Q) 0%Q
  | DInt => mkops Q (fun t a b => let a' := inject_Z (Qfloor a) in let b' := inject_Z (Qfloor b) in
                                  inject_Z (Qtrunc (a' + t * (b' - a'))%Q))
                    (fun l f => inject_Z (Qfloor (sumQ l / inject_Z f)%Q)) 0%Q
  end.
(* M: element rules of rebin.py.  The integer path of the expanding branch is GENERATED
   (num = lo*m + (i % m)*(hi - lo); q = abs(num)//m; q[num < 0] *= -1, on astype('i8') copies); it is
   instantiated at the weight's own numerator and denominator (i', m') = the weight (i mod m)/m in lowest
   terms -- the value depends on the ratio only (C14_rebin_int_path_is_truncation). *)
Definition expand_int_path (t : Q) (a b : Q) : Q :=
  let lo := Qfloor a in
  let hi := Qfloor b in
  let m := Zpos (Qden t) in
  let num := rebin_expand_int_num lo hi m (Qnum t) in
  let q := rebin_expand_int_q num m in
  inject_Z (if rebin_expand_int_negate num then q * -1 else q).
Definition ops_gen (k : dkind) : ops Q :=
  match k with
  | DFloat => mkops Q (fun t a b => (a + t * (b - a))%Q) (fun l f => (sumQ l / inject_Z f)%Q) 0%Q
  | DInt => mkops Q expand_int_path (fun l f => inject_Z (Qfloor (sumQ l / inject_Z f)%Q)) 0%Q
  end.
(* the same operations acting element-wise on sub-arrays (axis 0 of a 2-D / 3-D array) *)
Definition ops_lift {T} (o : ops T) : ops (list T) :=
  mkops (list T)
        (fun t a b => map (fun p => lin o t (fst p) (snd p)) (combine a b))
        (fun l f => match l with
                    | [] => []
                    | v :: _ => map (fun j => avg o (map (fun r => nth j r (dfl o)) l) f) (seq 0 (length v))
                    end)
        [].

Section RebinAxis.
  Variable T : Type.
  Variable o : ops T.
  Definition getT (xs : list T) (j : Z) : T := if j <? 0 then dfl o else nth (Z.to_nat j) xs (dfl o).

  (* M: one pass of the `for k` loop of rebin() along the leading axis of xs, new extent d.
     Branch selectors, loop bounds, the subscript fp, the numerator / denominator of p, the `p < bound` bound,
     the two neighbour subscripts and the shrinking branch's integer expressions are all GENERATED
     (Generated/Rebin.v); p itself is the exact rational num/den (a double in the Python), and the
     weight p - fp is put in lowest terms (Qred) so that M and S agree syntactically. *)
  Definition rebin_axis (sample : bool) (xs : list T) (d : Z) : list T :=
    let d0 := lenZ xs in
    if rebin_is_expand d0 d then
      map (fun t => let i := Z.of_nat t in
                    let fp := rebin_expand_fp d0 d i in
                    let p := (inject_Z (rebin_expand_p_num d0 d i) / inject_Z (rebin_expand_p_den d0 d i))%Q in
                    if sample then getT xs (rebin_expand_lo fp)
                    else if Qlt_bool p (inject_Z (rebin_expand_interp_bound d0 d))
                         then lin o (Qred (p - inject_Z fp)) (getT xs (rebin_expand_lo fp)) (getT xs (rebin_expand_hi fp))
                         else getT xs (rebin_expand_lo fp))
          (seq 0 (Z.to_nat (rebin_expand_count d0 d)))
    else if rebin_is_keep d0 d then
      map (fun t => getT xs (rebin_keep_src (Z.of_nat t))) (seq 0 (Z.to_nat (rebin_keep_count d0 d)))
    else
      let f := rebin_shrink_f d0 d in
      map (fun t => let i := Z.of_nat t in
                    if sample then getT xs (rebin_shrink_pick f i)
                    else avg o (pyslice xs (rebin_shrink_lo f i) (rebin_shrink_hi f i)) f)
          (seq 0 (Z.to_nat (rebin_shrink_count d0 d))).

  (* S: IDL REBIN along one axis, integer subscript arithmetic only *)
  Definition rebin_axis_spec (sample : bool) (xs : list T) (d : Z) : list T :=
    let d0 := lenZ xs in
    if d0 <? d then
      map (fun t => let i := Z.of_nat t in
                    let j := (i * d0) / d in
                    let r := (i * d0) mod d in
                    if sample then getT xs j
                    else if j <? d0 - 1 then lin o (Qred (r # Z.to_pos d)) (getT xs j) (getT xs (j + 1))
                         else getT xs j)
          (seq 0 (Z.to_nat d))
    else if d0 =? d then xs
    else
      let f := d0 / d in
      map (fun t => let i := Z.of_nat t in
                    if sample then getT xs (i * f)
                    else avg o (map (fun u => getT xs (i * f + Z.of_nat u)) (seq 0 (Z.to_nat f))) f)
          (seq 0 (Z.to_nat d)).
End RebinAxis.
Arguments rebin_axis {T}. Arguments rebin_axis_spec {T}. Arguments getT {T}.

(* S: the shape test of rebin(): same rank, and on every axis the larger extent is a multiple of the
   smaller one.  (extents are >= 1 here) *)
Fixpoint dims_ok (d0 d : list Z) : bool :=
  match d0, d with
  | [], [] => true
  | a :: r0, b :: r => (if a <? b then b mod a =? 0 else if a =? b then true else a mod b =? 0) && dims_ok r0 r
  | _, _ => false
  end.
(* M: the two GENERATED tests of rebin(): `len(d0) != len(d)` and the per-axis loop of `%` tests
   (zip stops at the shorter list, as the loop is only reached with equal ranks) *)
Definition dims_ok_gen (d0 d : list Z) : bool :=
  negb (rebin_rank_rejects (lenZ d0) (lenZ d))
  && forallb (fun p => negb (rebin_axis_rejects (fst p) (snd p))) (combine d0 d).

Inductive rres :=
| R1 (l : list Q) | R2 (l : list (list Q)) | R3 (l : list (list (list Q))) | RValueError | ROther.

Definition shape1 (x : list Q) : list Z := [lenZ x].
Definition shape2 (x : list (list Q)) : list Z := [lenZ x; Z.of_nat (ncols x)].
Definition shape3 (x : list (list (list Q))) : list Z :=
  [lenZ x; lenZ (hd [] x); lenZ (hd [] (hd [] x))].

Section RebinND.
  Variable ax : forall T, ops T -> bool -> list T -> Z -> list T.   (* rebin_axis or rebin_axis_spec *)
  Variable dims_ok : list Z -> list Z -> bool.                      (* dims_ok_gen or dims_ok *)
  Variable ops_elem : dkind -> ops Q.                               (* ops_gen or ops_elem *)
  Variable k : dkind.
  Variable sample : bool.
  Definition rebin1_with (x : list Q) (d : list Z) : rres :=
    if dims_ok (shape1 x) d then
      match d with [a] => R1 (ax _ (ops_elem k) sample x a) | _ => RValueError end
    else RValueError.
  Definition rebin2_with (x : list (list Q)) (d : list Z) : rres :=
    if dims_ok (shape2 x) d then
      match d with
      | [a; b] => R2 (map (fun row => ax _ (ops_elem k) sample row b)
                          (ax _ (ops_lift (ops_elem k)) sample x a))
      | _ => RValueError end
    else RValueError.
  Definition rebin3_with (x : list (list (list Q))) (d : list Z) : rres :=
    if dims_ok (shape3 x) d then
      match d with
      | [a; b; c] =>
          R3 (map (fun plane => map (fun row => ax _ (ops_elem k) sample row c) plane)
                (map (fun plane => ax _ (ops_lift (ops_elem k)) sample plane b)
                   (ax _ (ops_lift (ops_lift (ops_elem k))) sample x a)))
      | _ => RValueError end
    else RValueError.
End RebinND.

(* M *)
Definition rebin1 := rebin1_with (@rebin_axis) dims_ok_gen ops_gen.
Definition rebin2 := rebin2_with (@rebin_axis) dims_ok_gen ops_gen.
Definition rebin3 := rebin3_with (@rebin_axis) dims_ok_gen ops_gen.
(* S *)
Definition rebin1_spec := rebin1_with (@rebin_axis_spec) dims_ok ops_elem.
Definition rebin2_spec := rebin2_with (@rebin_axis_spec) dims_ok ops_elem.
Definition rebin3_spec := rebin3_with (@rebin_axis_spec) dims_ok ops_elem.

Definition eqb_rres (tol : Q) (a b : rres) : bool :=
  match a, b with
  | R1 x, R1 y => eq1_tol tol x y
  | R2 x, R2 y => eq2_tol tol x y
  | R3 x, R3 y => eq3_tol tol x y
  | RValueError, RValueError => true
  | ROther, ROther => true
  | _, _ => false
  end.


(* ------------------------------------------------------------------ rebin for every rank *)

(* an n-D array is a list nested n deep; element rules lifted n times act on (n)-D sub-arrays *)
Fixpoint ndT (T : Type) (n : nat) : Type := match n with O => T | S k => list (ndT T k) end.
Fixpoint ops_nd {T} (o : ops T) (n : nat) : ops (ndT T n) :=
  match n with O => o | S k => ops_lift (ops_nd o k) end.
Fixpoint dflt_nd (n : nat) : ndT Q n := match n with O => 0%Q | S _ => [] end.
Fixpoint shape_nd (n : nat) : ndT Q n -> list Z :=
  match n with O => fun _ => [] | S k => fun x => lenZ x :: shape_nd k (hd (dflt_nd k) x) end.

Inductive rresN (n : nat) := RN (y : ndT Q n) | RNValueError | RNOther.
Arguments RN {n}. Arguments RNValueError {n}. Arguments RNOther {n}.

(* M: the plan of the axis loop of rebin.py, GENERATED (Generated/Rebin.v, `the axis loop`): the number of passes,
   the list position every per-axis object is indexed with in pass k (d, d0, new_shape, the three slice lists, the
   axis of the block sum), whether the scratch slice lists are re-created in every pass, whether a pass starts
   from the previous pass's result and keeps its dtype.  The reference plan -- pass k acts on nesting level k of
   the array and reads extent k of the requested shape, nothing is carried over between passes except the
   array -- is what rebin_nd_axes below implements; a generated plan that differs gives ROther. *)
Definition axis_plan_ok (rank : Z) : bool :=
  (rebin_loop_count rank rank =? rank) && rebin_scratch_fresh && rebin_pass_feeds_next && rebin_pass_keeps_dtype
  && forallb (fun t => let k := Z.of_nat t in
                (rebin_pos_d k =? k) && (rebin_pos_d0 k =? k) && (rebin_pos_newshape k =? k)
                && (rebin_pos_newextent k =? k) && (rebin_pos_src k =? k) && (rebin_pos_hi k =? k)
                && (rebin_pos_dst k =? k) && (rebin_pos_sum k =? k))
             (seq 0 (Z.to_nat rank)).

Section RebinAnyRank.
  Variable ax : forall T, ops T -> bool -> list T -> Z -> list T.   (* rebin_axis or rebin_axis_spec *)
  Variable dims_ok : list Z -> list Z -> bool.                      (* dims_ok_gen or dims_ok *)
  Variable ops_elem : dkind -> ops Q.                               (* ops_gen or ops_elem *)
  Variable plan_ok : Z -> bool.                                     (* axis_plan_ok or constant true *)
  Variable k : dkind.
  Variable sample : bool.
  (* pass 0 along the leading axis with the element rules lifted to the (n-1)-D sub-arrays, then the remaining
     passes inside every sub-array: pass j acts on nesting level j *)
  Fixpoint rebin_nd_axes (n : nat) : ndT Q n -> list Z -> ndT Q n :=
    match n with
    | O => fun x _ => x
    | S m => fun x d => match d with
                        | [] => x
                        | a :: r => map (fun sub => rebin_nd_axes m sub r) (ax (ndT Q m) (ops_nd (ops_elem k) m) sample x a)
                        end
    end.
  Definition rebin_nd_with (n : nat) (x : ndT Q n) (d : list Z) : rresN n :=
    if dims_ok (shape_nd n x) d then
      if plan_ok (Z.of_nat n) then RN (rebin_nd_axes n x d) else RNOther
    else RNValueError.
End RebinAnyRank.

(* M / S for every rank (rebin1/2/3 above are the ranks 1, 2, 3: C14_rebin_nd_is_rebin123) *)
Definition rebin_nd := rebin_nd_with (@rebin_axis) dims_ok_gen ops_gen axis_plan_ok.
Definition rebin_nd_spec := rebin_nd_with (@rebin_axis_spec) dims_ok ops_elem (fun _ => true).

Fixpoint eqnd_tol (tol : Q) (n : nat) : ndT Q n -> ndT Q n -> bool :=
  match n with
  | O => fun a b => Qeqb_tol tol a b
  | S m => fun a b => Nat.eqb (length a) (length b) && forallb (fun p => eqnd_tol tol m (fst p) (snd p)) (combine a b)
  end.
Definition eqb_rresN (tol : Q) (n : nat) (a b : rresN n) : bool :=
  match a, b with
  | RN x, RN y => eqnd_tol tol n x y
  | RNValueError, RNValueError => true
  | RNOther, RNOther => true
  | _, _ => false
  end.

(* ------------------------------------------------------------------ exact comparison with a double *)

(* q is a double (up to exponent range): a dyadic rational with a significand below 2^53 *)
Definition is_pow2 (p : positive) : bool := Z.pow 2 (Z.log2 (Zpos p)) =? Zpos p.
Definition representable (q : Q) : bool :=
  let r := Qred q in is_pow2 (Qden r) && (Z.abs (Qnum r) <? 9007199254740992).
(* necessary for "r is the double nearest to q": r = q when q is itself a double, |r - q| <= |q| 2^-53 otherwise *)
Definition rounds_to (q r : Q) : bool :=
  if representable q then Qeq_bool q r else Qle_bool (Qabs (r - q)) (Qabs q * (1 # 9007199254740992)).
Definition eq1_rounded (model impl : list Q) : bool :=
  Nat.eqb (length model) (length impl) && forallb (fun p => rounds_to (fst p) (snd p)) (combine model impl).

(* ================================================================== correspondence cases *)

Inductive case :=
| CSmooth (xs : list Q) (owidth : Z) (et : bool) (tols : list Q) (meta_ok : bool) (expect : list Q)
| CMedian (xs : list Q) (even : bool) (meta_ok : bool) (expect : Q)
| CMedianAxis (x : list (list Q)) (axis : Z) (meta_ok : bool) (expect : list Q)
| CMedFilt1 (xs : list Q) (width : Z) (expect : fres1)
| CMedFilt2 (x : list (list Q)) (width : Z) (expect : fres2)
| CUniqZ (xs : list Z) (idx : option (list Z)) (meta_ok : bool) (expect : list Z)
| CUniqQ (xs : list Q) (idx : option (list Z)) (meta_ok : bool) (expect : list Z)
| CRebin1 (k : dkind) (sample : bool) (x : list Q) (d : list Z) (tol : Q) (meta_ok : bool) (expect : rres)
| CRebin2 (k : dkind) (sample : bool) (x : list (list Q)) (d : list Z) (tol : Q) (meta_ok : bool) (expect : rres)
| CRebin3 (k : dkind) (sample : bool) (x : list (list (list Q))) (d : list Z) (tol : Q) (meta_ok : bool) (expect : rres)
(* round 5 *)
| CRebinN (n : nat) (k : dkind) (sample : bool) (x : ndT Q n) (d : list Z) (tol : Q) (meta_ok : bool) (expect : rresN n)
| CSmoothX (xs : list Q) (owidth : Z) (et : bool) (meta_ok : bool) (expect : list Q).

Definition verdict (model_ok spec_ok : bool) : Z := (if model_ok then 0 else 1) + (if spec_ok then 0 else 2).

Definition eqb_fres1 (a b : fres1) : bool :=
  match a, b with
  | F1Ok x, F1Ok y => eq1_tol 0 x y | F1ValueError, F1ValueError => true | F1Other, F1Other => true | _, _ => false end.
Definition eqb_fres2 (a b : fres2) : bool :=
  match a, b with
  | F2Ok x, F2Ok y => eq2_tol 0 x y | F2ValueError, F2ValueError => true | F2Other, F2Other => true | _, _ => false end.

Definition is_sortedb {A} (leb : A -> A -> bool) (l : list A) : bool :=
  forallb (fun p => leb (fst p) (snd p)) (combine l (tl l)).
Definition idx_in_range (n : Z) (idx : list Z) : bool := forallb (fun j => (0 <=? j) && (j <? n)) idx.
Definition all_same {A} (neqb : A -> A -> bool) (l : list A) : bool :=
  match l with [] => true | x :: t => forallb (fun y => negb (neqb x y)) t end.

(* S for uniq with an index (IDL uniq.pro): the subscripts index[j], j in runs_last(x[index]);
   a constant x[index] gives the single subscript n-1 *)
Definition uniq_indexed_spec {A} (neqb : A -> A -> bool) (dflt : A) (x : list A) (idx : list Z) : list Z :=
  let q := take A dflt x idx in
  if all_same neqb q then [lenZ q - 1] else map (getZ idx) (runs_last A neqb q).

(* meta_ok: bookkeeping checked by the harness on the Python side: result dtype / shape, every caller-owned
   array argument bit-identical after the call, same answer on a read-only input; counts in the spec bit *)
Definition run_case (c : case) : Z :=
  match c with
  | CSmooth xs ow et tols meta expect =>
      (* domain of the specification = hypothesis of C14_smooth_refines_spec: a non-empty array and either no
         edge_truncate (any width) or width_made_odd - 1 <= n.  It contains the property's "widths not
         exceeding N" (owidth <= n: owidth = n even gives width n+1, still inside) and its boundary
         owidth = n+1 odd; owidth >= n+2 with edge_truncate is outside (not a clamped boxcar). *)
      let dom := (1 <=? lenZ xs) && (negb et || (odd_width ow - 1 <=? lenZ xs)) in
      verdict (eq1_tolv tols (smooth xs ow et) expect)
              (negb dom || (meta && eq1_tolv tols (smooth_spec xs ow et) expect))
  | CMedian xs even meta expect =>
      verdict (Qeq_bool (median_plain xs even) expect) (meta && Qeq_bool (median_spec xs even) expect)
  | CMedianAxis x axis meta expect =>
      verdict (eq1_tol 0 (median_axis x axis) expect)
              (meta && eq1_tol 0 (if axis =? 0 then map (fun j => median_spec (column j x) true) (seq 0 (ncols x))
                          else map (fun r => median_spec r true) x) expect)
  | CMedFilt1 xs width expect =>
      let dom := Z.odd width && (1 <=? width) && (width <=? lenZ xs) in
      verdict (eqb_fres1 (median_filter1 xs width) expect)
              (negb dom || eqb_fres1 (F1Ok (median_filter1_spec xs width)) expect)
  | CMedFilt2 x width expect =>
      (* round 5: every odd width up to the number of elements (a one-row / one-column image has no interior
         point for width >= 3: everything is edge and stays untouched) -- C14_median_filter2_refines_spec_size *)
      let dom := Z.odd width && (1 <=? width) && (width <=? lenZ x * Z.of_nat (ncols x)) in
      verdict (eqb_fres2 (median_filter2 x width) expect)
              (negb dom || eqb_fres2 (F2Ok (median_filter2_spec x width)) expect)
  | CUniqZ xs None meta expect =>
      let dom := is_sortedb Z.leb xs && (1 <=? lenZ xs) in
      verdict (eqb_listZ (uniq Z gneqbZ_plain xs) expect) (negb dom || (meta && eqb_listZ (runs_last Z neqbZ xs) expect))
  | CUniqZ xs (Some idx) meta expect =>
      let dom := idx_in_range (lenZ xs) idx && is_sortedb Z.leb (take Z 0 xs idx) && (1 <=? lenZ idx) in
      verdict (eqb_listZ (uniq_indexed Z gneqbZ_indexed 0 xs idx) expect)
              (negb dom || (meta && eqb_listZ (uniq_indexed_spec neqbZ 0 xs idx) expect))
  | CUniqQ xs None meta expect =>
      let dom := is_sortedb Qle_bool xs && (1 <=? lenZ xs) in
      verdict (eqb_listZ (uniq Q gneqbQ_plain xs) expect) (negb dom || (meta && eqb_listZ (runs_last Q neqbQ xs) expect))
  | CUniqQ xs (Some idx) meta expect =>
      let dom := idx_in_range (lenZ xs) idx && is_sortedb Qle_bool (take Q 0%Q xs idx) && (1 <=? lenZ idx) in
      verdict (eqb_listZ (uniq_indexed Q gneqbQ_indexed 0%Q xs idx) expect)
              (negb dom || (meta && eqb_listZ (uniq_indexed_spec neqbQ 0%Q xs idx) expect))
  | CRebin1 k sample x d tol meta expect =>
      verdict (eqb_rres tol (rebin1 k sample x d) expect) (meta && eqb_rres tol (rebin1_spec k sample x d) expect)
  | CRebin2 k sample x d tol meta expect =>
      verdict (eqb_rres tol (rebin2 k sample x d) expect) (meta && eqb_rres tol (rebin2_spec k sample x d) expect)
  | CRebin3 k sample x d tol meta expect =>
      verdict (eqb_rres tol (rebin3 k sample x d) expect) (meta && eqb_rres tol (rebin3_spec k sample x d) expect)
  | CRebinN n k sample x d tol meta expect =>
      verdict (eqb_rresN tol n (rebin_nd k sample n x d) expect) (meta && eqb_rresN tol n (rebin_nd_spec k sample n x d) expect)
  | CSmoothX xs ow et meta expect =>
      (* arrays whose window sums are exact in double arithmetic (short dyadic values; decided by the harness):
         the only rounding is the division by float(width), so every output sample must be the double nearest
         to the exact mean -- in particular EQUAL to it when the exact mean is itself a double *)
      let dom := (1 <=? lenZ xs) && (negb et || (odd_width ow - 1 <=? lenZ xs)) in
      verdict (eq1_rounded (smooth xs ow et) expect)
              (negb dom || (meta && eq1_rounded (smooth_spec xs ow et) expect))
  end.

Definition run_cases (cs : list case) : list Z := map run_case cs.
