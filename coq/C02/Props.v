(* C02 -- yanny: the meaning of a file does not depend on its surface syntax.
   Property theorems only; each is closed by `exact` and followed by Print Assumptions.
   One theorem per syntactic freedom, at the level it acts on (token, line, or a pre-pass over the text);
   the model of the reader is Yanny/Parse.v (of the code with fixes/C01-*.diff applied). *)
From Coq Require Import NArith ZArith List Bool.
Import ListNotations.
From PV Require Import Yanny.Bytes Yanny.BytesFacts Yanny.Types Yanny.Parse Yanny.Render
  Yanny.TokenFacts Yanny.RowFacts Yanny.TypeFacts Yanny.DocFacts Yanny.LayoutFacts C02.Model C02.Proofs.
Open Scope N_scope.

(* arbitrary runs of blanks / tabs between tokens *)
Theorem C02_get_token_ws_indep : forall s w1 w2 rest,
  tok_ok s = true -> w1 <> [] -> all_ws w1 = true -> w2 <> [] -> all_ws w2 = true -> head_not_ws rest ->
  get_token (protect s ++ w1 ++ rest) = get_token (protect s ++ w2 ++ rest).
Proof. exact get_token_ws_indep. Qed.
Print Assumptions C02_get_token_ws_indep.

(* a string written bare, double-quoted or brace-wrapped (where its content admits the form) is the same token *)
Theorem C02_get_token_quote_forms : forall s lead w rest,
  bare_adm s = true -> brace_adm s = true -> all_ws lead = true -> w <> [] -> all_ws w = true -> head_not_ws rest ->
  get_token (s ++ w ++ rest) = Some (s, rest) /\
  get_token (QUOTE :: s ++ QUOTE :: w ++ rest) = Some (s, rest) /\
  get_token (LBRACE :: lead ++ s ++ RBRACE :: w ++ rest) = Some (s, rest).
Proof. exact get_token_quote_forms. Qed.
Print Assumptions C02_get_token_quote_forms.

Theorem C02_empty_string_forms : forall w rest, all_ws w = true -> head_not_ws rest ->
  get_token (QUOTE :: QUOTE :: w ++ rest) = Some ([], rest) /\
  get_token (LBRACE :: RBRACE :: w ++ rest) = Some ([], rest).
Proof. exact empty_string_forms. Qed.
Print Assumptions C02_empty_string_forms.

(* { { } } with any inner blanks, standing where a value can start, is rewritten to two quotes *)
Theorem C02_double_brace_is_empty_string : forall w1 w2 w3 r, all_ws w1 = true -> all_ws w2 = true -> all_ws w3 = true ->
  dbl_aux 0 0 (LBRACE :: w1 ++ LBRACE :: w2 ++ RBRACE :: w3 ++ RBRACE :: r) = QUOTE :: QUOTE :: dbl_aux 0 0 r.
Proof. exact double_brace_is_empty_string. Qed.
Print Assumptions C02_double_brace_is_empty_string.

(* a trailing comment (no further #, an even number of double quotes) is removed, and nothing else *)
Theorem C02_trailing_comment_strips : forall line w c,
  last_not_ws line -> all_ws w = true -> mem HASH c = false -> Nat.even (count QUOTE c) = true ->
  trailing_comment (line ++ w ++ HASH :: c) = line.
Proof. exact trailing_comment_strips. Qed.
Print Assumptions C02_trailing_comment_strips.

(* backslash continuation: backslash, blanks, line end and the next line's indentation read as one blank *)
Theorem C02_continuation_join : forall a w1 w2 b,
  mem BSL a = false -> all_ws w1 = true -> all_ws w2 = true -> mem NL w2 = false -> head_not_ws b ->
  join_cont (a ++ BSL :: w1 ++ NL :: w2 ++ b) = a ++ SP :: w2 ++ join_cont b.
Proof. exact continuation_join. Qed.
Print Assumptions C02_continuation_join.

(* CRLF: text-mode reads translate it; binary reads keep the CR, which never changes what a line means *)
Theorem C02_crlf_text_mode : forall l r, mem CR l = false -> univ_nl (l ++ CR :: NL :: r) = l ++ NL :: univ_nl r.
Proof. exact univ_nl_crlf. Qed.
Print Assumptions C02_crlf_text_mode.

Theorem C02_crlf_indep : forall sy st l, process_line sy st (l ++ [CR]) = process_line sy st l.
Proof. exact crlf_line_indep. Qed.
Print Assumptions C02_crlf_indep.

(* any letter case of the structure name on a data row *)
Theorem C02_rowname_case_indep : forall es t r sy st name',
  forallb enum_ok es = true -> table_ok es t = true -> In r (t_rows t) ->
  assoc (upper (t_name t)) sy = Some (tcols_of es (t_cols t)) ->
  name' <> [] -> forallb is_word name' = true -> upper name' = upper (t_name t) ->
  process_line sy st (render_row_line name' r)
  = Some (mkst (st_pairs st) (assoc_app (upper (t_name t)) r (st_rows st))).
Proof. exact rowname_case_indep_doc. Qed.
Print Assumptions C02_rowname_case_indep.

(* [n] and legacy <n>: same declared type, same column name *)
Theorem C02_legacy_array_notation : forall var n rest,
  check_decl var (var ++ LT :: show_N n ++ GT :: SEMI :: NL :: rest) = Some (LT :: show_N n ++ [GT]) /\
  check_decl var (var ++ brack n ++ SEMI :: NL :: rest) = Some (brack n) /\
  normalise_array (LT :: show_N n ++ [GT]) = brack n /\ normalise_array (brack n) = brack n.
Proof. exact legacy_array_notation. Qed.
Print Assumptions C02_legacy_array_notation.

Theorem C02_legacy_array_column_name : forall name o c mid,
  forallb is_word name = true -> is_open o = true -> is_close c = true -> cut_array (name ++ o :: mid ++ [c]) = name.
Proof. exact cut_array_brackets. Qed.
Print Assumptions C02_legacy_array_column_name.

Theorem C02_blank_and_comment_lines_skipped : forall sy st l,
  all_ws l = true \/ starts_with [HASH] (lstrip l) = true -> process_line sy st l = Some st.
Proof. exact blank_and_comment_lines_skipped. Qed.
Print Assumptions C02_blank_and_comment_lines_skipped.

(* rows of different tables commute *)
Theorem C02_interleaving_indep : forall sy st n1 c1 r1 n2 c2 r2,
  n1 <> [] -> n2 <> [] -> forallb is_word n1 = true -> forallb is_word n2 = true ->
  beq (upper n1) (upper n2) = false ->
  assoc (upper n1) sy = Some c1 -> row_fits c1 r1 = true -> assoc (upper n2) sy = Some c2 -> row_fits c2 r2 = true ->
  process_lines sy st [render_row_line n1 r1; render_row_line n2 r2]
  = process_lines sy st [render_row_line n2 r2; render_row_line n1 r1].
Proof. exact interleaving_indep. Qed.
Print Assumptions C02_interleaving_indep.

(* char[] columns size themselves to the longest value (and need one) *)
Theorem C02_char_unsized_width : forall enums v vs,
  col_dtype enums T_CHAR_UNSIZED (v :: vs)
  = Some (NS (N.of_nat (fold_right (fun c m => Nat.max (cell_maxlen c) m) O (v :: vs))), None).
Proof. exact char_unsized_width. Qed.
Print Assumptions C02_char_unsized_width.

(* enum columns read as their label text, sized by the longest label *)
Theorem C02_enum_reads_as_label : forall enums typ labels values,
  assoc_last (basetype typ) enums = Some labels -> beq (basetype typ) KW_CHAR = false -> isarray typ = false ->
  classify typ = KOther ->
  col_dtype enums typ values = Some (NS (N.of_nat (maxlen labels)), None) /\ (forall t, conv1 (classify typ) t = Some (STok t)).
Proof. exact enum_reads_as_label. Qed.
Print Assumptions C02_enum_reads_as_label.

(* a table is typed by the typedef whose own name it bears -- whatever other names or columns contain it
   (this is the repaired lookup; the unrepaired substring search is the defect the check reports) *)
Theorem C02_struct_name_lookup_exact : forall structs name body text,
  names_distinct structs = true -> In (name, body, text) structs -> lookup_def name structs = Some text.
Proof. exact struct_name_lookup_exact. Qed.
Print Assumptions C02_struct_name_lookup_exact.

(* raw mode is the first stage of the same parse; the second stage changes no value (strings longer than
   the declared width are cut, as numpy does) *)
Theorem C02_raw_mode_is_the_first_stage : forall s, parse_text s = obind (parse_text_raw s) to_records.
Proof. exact raw_mode_is_the_first_stage. Qed.
Print Assumptions C02_raw_mode_is_the_first_stage.

Theorem C02_raw_mode_same_values : forall k v v', conv_sval k v = Some v' ->
  v' = v \/ exists w t, k = NS w /\ v = STok t /\ v' = STok (firstn (N.to_nat w) t).
Proof. exact raw_mode_same_values. Qed.
Print Assumptions C02_raw_mode_same_values.

(* indentation, trailing blanks, a trailing comment and the CR of a CRLF line end around ANY core line
   (a data row or a keyword pair) do not change what the line does *)
Theorem C02_line_decoration_indep : forall sy st lead L w cmt cr,
  core_line L -> all_ws lead = true -> all_ws w = true ->
  match cmt with Some c => comment_text_ok c = true | None => True end ->
  process_line sy st (lead ++ L ++ w ++ tail_of cmt cr) = process_line sy st L.
Proof. exact line_decoration_indep. Qed.
Print Assumptions C02_line_decoration_indep.

Theorem C02_rendered_row_is_core_line : forall name r,
  name <> [] -> forallb is_word name = true -> forallb cell_tok_ok r = true -> core_line (render_row_line name r).
Proof. exact row_is_core_line. Qed.
Print Assumptions C02_rendered_row_is_core_line.

(* layout_independence, PARTIAL.  Full statement (not proved as one theorem):
     forall d lay, doc_ok d -> layout_ok lay d -> parse (render_with lay d) = Some (lsem d).
   Proved here: the line loop reaches the same state for every decoration of every line (indentation, trailing
   blanks, trailing comments, CR) and every insertion of blank / comment lines.  Proved separately above: the
   token-level freedoms (blank runs, quote forms, empty-string forms), case of the row name, interleaving,
   continuation joining, CRLF translation, [n] / <n>.  Not composed into one file-level theorem: the freedoms
   inside typedef blocks and the interaction of the pre-passes (continuation, typedef extraction) with the rest;
   these are covered by the correspondence run only. *)
Theorem C02_layout_independence_partial : forall Ds Ls, decorates Ds Ls ->
  forall sy st, process_lines sy st Ds = process_lines sy st Ls.
Proof. exact decorated_lines_same_state. Qed.
Print Assumptions C02_layout_independence_partial.
