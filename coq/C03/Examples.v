(* C03 -- a concrete history inside the domain of the theorems (non-vacuity), checked by computation. *)
From Coq Require Import String.
From Coq Require Import NArith ZArith List Bool.
Import ListNotations.
From PV Require Import Yanny.Bytes Yanny.Types Yanny.Parse Yanny.Render C03.Model C03.Proofs C03.Invariant C03.Append.
Open Scope N_scope.

Definition ex_table : table :=
  mktable (bs "Tab"%string) [mkcol (bs "x"%string) TInt None; mkcol (bs "s"%string) (TChar 4) None]
          [[Sc (SInt 1); Sc (STok (bs "ab"%string))]].
Definition ex_doc : doc := mkdoc [bs "c"%string] [(bs "k"%string, bs "v"%string)] [] [ex_table].
Definition ex_row2 : list cell := [Sc (SInt 2); Sc (STok (bs "c d"%string))].
Definition ex_row3 : list cell := [Sc (SInt (-3)); Sc (STok [])].
Definition ex_ops : list op :=
  [ AppendRows true (bs "Tab"%string) [ex_row2] (bs "t1"%string);
    AppendPairs [(bs "k2"%string, bs "v 2"%string)] (bs "t2"%string);
    WriteCopy (bs "g.par"%string) [bs "c2"%string];
    WriteOverExisting [bs "c3"%string];
    AppendToMissing (bs "h.par"%string) [(bs "k3"%string, AText (bs "v"%string))] (bs "t3"%string);
    AppendEmpty (bs "t4"%string);
    AppendMixed [(bs "TAB"%string, ARows [ex_row3]); (bs "k4"%string, AText (bs "w"%string))] (bs "t5"%string);
    WriteCopy (bs "f.par"%string) [bs "c4"%string];
    ReRead ].
Definition ex_case : case := CHist ex_doc (bs "f.par"%string) false (map (fun x => (x, mkobs 0 [] None ONone)) ex_ops).

Lemma example_in_domain : in_domain ex_case = true.
Proof. vm_compute. reflexivity. Qed.

Definition ex_final : doc :=
  mkdoc [bs "c"%string] [(bs "k"%string, bs "v"%string); (bs "k2"%string, bs "v 2"%string); (bs "k4"%string, bs "w"%string)] []
        [mktable (bs "Tab"%string) (t_cols ex_table) (t_rows ex_table ++ [ex_row2; ex_row3])].

Lemma example_history_content : spec_doc ex_doc ex_ops = ex_final.
Proof. vm_compute. reflexivity. Qed.

(* the outcomes along the example history: all four kinds of outcome occur *)
Fixpoint outcomes (s : fsys * obj) (ops : list op) : list outcome :=
  match ops with [] => [] | x :: ops' => let '(fs, o, out) := step s x in out :: outcomes (fs, o) ops' end.
Lemma example_outcomes :
  match init_state ex_doc (bs "f.par"%string) false with
  | Some s => outcomes s ex_ops = [Ok; Ok; Ok; Refused; Refused; Warned; Ok; Refused; Ok]
  | None => False
  end.
Proof. vm_compute. reflexivity. Qed.

Lemma example_final_object :
  match init_state ex_doc (bs "f.par"%string) false with
  | Some s => let '(fs, o) := run s ex_ops in
              o_file o = bs "g.par"%string /\ Some (o_state o) = sem ex_final /\ fs_get fs (o_file o) = Some (o_contents o) /\
              parse (o_contents o) = Some (o_state o)
  | None => False
  end.
Proof. vm_compute. repeat split. Qed.

(* keywords are a dictionary: re-stating a keyword (also one appended earlier in the history) or adding its
   upper-case twin is inside the domain; the re-stated key keeps its place and takes the last value *)
Definition ex_ops2 : list op :=
  [ AppendPairs [(bs "k"%string, bs "new"%string); (bs "K"%string, bs "twin"%string)] (bs "t1"%string);
    AppendPairs [(bs "K"%string, bs "again"%string)] (bs "t2"%string);
    WriteCopy (bs "g.par"%string) [bs "c2"%string];
    AppendPairs [(bs "k"%string, bs "last"%string)] (bs "t3"%string);
    ReRead ].
Definition ex_case2 : case := CHist ex_doc (bs "f.par"%string) false (map (fun x => (x, mkobs 0 [] None ONone)) ex_ops2).

Lemma example_repeated_keys :
  in_domain ex_case2 = true /\
  d_pairs (spec_doc ex_doc ex_ops2) = [(bs "k"%string, bs "last"%string); (bs "K"%string, bs "again"%string)] /\
  match init_state ex_doc (bs "f.par"%string) false with
  | Some s => outcomes s ex_ops2 = [Ok; Ok; Ok; Ok; Ok] /\
              let '(fs, o) := run s ex_ops2 in
              pd_pairs (o_state o) = [(bs "k"%string, bs "last"%string); (bs "K"%string, bs "again"%string)]
  | None => False
  end.
Proof. vm_compute. repeat split. Qed.
