(* C16 -- readspec / spec_append (pydl/pydlspec2d/spec1d.py).
   Executable definitions ONLY; proofs are in C16/Proofs.v.

   M (algorithmic model, a transliteration of the Python):
     spec_append, usort (= np.unique), key/decoding of (plate<<16)+mjd, group (= pmjdindex),
     per-file row selection thisfiber-1, fold of spec_append (zero padding on the right),
     allpmjdindex concatenation, argsort (stable insertion sort), final re-indexing,
     calling conventions (scalar / vector promotion, mjd=None -> latest_mjd).
   S (specification, hand-written from the property statement, independent of M):
     spec_readspec (row i = padded row fiber_i-1 of the file of request i, request by request),
     spec_append_S (index-arithmetic formulation of "rows of a, then rows of b, each at its
     offset, zeros elsewhere").
   Pixel values are integers: the harness encodes (file, fiber, hdu, pixel) into every value.
   Wavelength coefficients are integers in units of 2^-20 (the harness uses dyadic COEFF0/COEFF1,
   so that the double arithmetic c0 + c1*pixel of the code is exact). *)
From Coq Require Import ZArith List Bool Arith.
From PV Require Import Lib.NumpyInt C16.Typed.   (* storage types: only for the CTyped correspondence case *)
Import ListNotations.
Open Scope Z_scope.

Definition img := list (list Z).

(* ------------------------------------------------------------------ spec_append (M) *)

(* ndarray.shape[1] of a non-empty block *)
Definition width (a : img) : nat := match a with [] => 0%nat | r :: _ => length r end.

(* spec3[row, off:off+npix] = r   in a zero row of length w *)
Definition place (off w : nat) (r : list Z) : list Z :=
  repeat 0 off ++ r ++ repeat 0 (w - off - length r).

Definition nadd1_of (pixshift : Z) : nat := if pixshift <? 0 then Z.to_nat (- pixshift) else 0%nat.
Definition nadd2_of (pixshift : Z) : nat := if 0 <? pixshift then Z.to_nat pixshift else 0%nat.

Definition spec_append (a b : img) (pixshift : Z) : img :=
  let nadd1 := nadd1_of pixshift in
  let nadd2 := nadd2_of pixshift in
  let maxpix := Nat.max (width a + nadd1) (width b + nadd2) in
  map (place nadd1 maxpix) a ++ map (place nadd2 maxpix) b.

(* ------------------------------------------------------------------ spec_append (S) *)

(* entry (i, j) of the result, by index arithmetic on the inputs (defaults are never reached
   inside the stated ranges) *)
Definition append_entry (a b : img) (pixshift : Z) (i j : nat) : Z :=
  let n1 := length a in
  if (i <? n1)%nat then
    let off := nadd1_of pixshift in
    if ((off <=? j) && (j <? off + width a))%nat then nth (j - off) (nth i a []) 0 else 0
  else
    let off := nadd2_of pixshift in
    if ((off <=? j) && (j <? off + width b))%nat then nth (j - off) (nth (i - n1) b []) 0 else 0.

Definition spec_append_S (a b : img) (pixshift : Z) : img :=
  let maxpix := Nat.max (width a + nadd1_of pixshift) (width b + nadd2_of pixshift) in
  map (fun i => map (fun j => append_entry a b pixshift i j) (seq 0 maxpix)) (seq 0 (length a + length b)).

(* ------------------------------------------------------------------ survey *)

Record file := mkFile {
  f_plate : Z; f_mjd : Z;
  f_npix : nat; f_c0 : Z; f_c1 : Z;        (* NAXIS1, COEFF0, COEFF1 (units of 2^-20) *)
  f_imgs : list img;                       (* image HDUs: flux invvar andmask ormask disp sky *)
  f_tabs : list img;                       (* table columns indexed by fiber-1: plugmap (+ tsobj) columns; a scalar column has width 1 *)
  f_zbest : list img;                      (* spZbest columns, one row per fiber ([] = file absent) *)
  f_nper : Z; f_zall : list img            (* spZall: DIMS0 and columns, nper rows per fiber *)
}.

Definition survey := list file.

Definition find_file (sv : survey) (p m : Z) : option file :=
  find (fun f => (f_plate f =? p) && (f_mjd f =? m)) sv.

(* latest_mjd: the largest MJD for which an spPlate file of this plate exists (0 if none) *)
Definition latest_mjd (sv : survey) (p : Z) : Z :=
  fold_left (fun acc f => if (f_plate f =? p) && (acc <? f_mjd f) then f_mjd f else acc) sv 0.

(* ------------------------------------------------------------------ list helpers *)

Fixpoint mapM {A B} (f : A -> option B) (l : list A) : option (list B) :=
  match l with
  | [] => Some []
  | x :: t => match f x with
              | None => None
              | Some y => match mapM f t with None => None | Some ys => Some (y :: ys) end
              end
  end.

Definition pad (w : nat) (r : list Z) : list Z := r ++ repeat 0 (w - length r).

Definition list_max_nat (l : list nat) : nat := fold_right Nat.max 0%nat l.

(* np.unique on the uint64 keys: sorted, duplicates removed *)
Fixpoint uinsert (x : Z) (l : list Z) : list Z :=
  match l with
  | [] => [x]
  | y :: t => if x <? y then x :: l else if x =? y then l else y :: uinsert x t
  end.
Definition usort (l : list Z) : list Z := fold_right uinsert [] l.

(* ndarray.argsort(): stable insertion sort of (value, position) pairs by value *)
Fixpoint ins (x : nat * nat) (l : list (nat * nat)) : list (nat * nat) :=
  match l with
  | [] => [x]
  | y :: t => if (fst x <=? fst y)%nat then x :: l else y :: ins x t
  end.
Definition isort (l : list (nat * nat)) : list (nat * nat) := fold_right ins [] l.
Definition argsort (l : list nat) : list nat := map snd (isort (combine l (seq 0 (length l)))).

(* the explicit inverse of a permutation of 0..n-1: position of i in l *)
Fixpoint index_of (i : nat) (l : list nat) : nat :=
  match l with [] => 0%nat | x :: t => if (x =? i)%nat then 0%nat else S (index_of i t) end.
Definition inv_perm (l : list nat) : list nat := map (fun i => index_of i l) (seq 0 (length l)).

(* a[j, :] *)
Definition take_rows {A} (d : A) (data : list A) (j : list nat) : list A := map (fun t => nth t data d) j.

(* ------------------------------------------------------------------ readspec core (M) *)

Definition req := (Z * Z * Z)%type.   (* plate, mjd, fiber *)
Definition r_plate (r : req) : Z := fst (fst r).
Definition r_mjd (r : req) : Z := snd (fst r).
Definition r_fiber (r : req) : Z := snd r.

Definition key (p m : Z) : Z := Z.shiftl p 16 + m.
Definition key_plate (k : Z) : Z := Z.shiftr k 16.
Definition key_mjd (k : Z) : Z := Z.land k (Z.shiftl 1 16 - 1).

Definition indexed {A} (l : list A) : list (nat * A) := combine (seq 0 (length l)) l.

(* pmjdindex (with the requests attached): positions whose plate and mjd equal the decoded key *)
Definition group (ireqs : list (nat * req)) (p m : Z) : list (nat * req) :=
  filter (fun ir => (r_plate (snd ir) =? p) && (r_mjd (snd ir) =? m)) ireqs.

(* what one HDU / table column contributes for one fiber of one file.
   1-based row number -> row (numpy would wrap a 0 or negative fiber; the model refuses it) *)
Definition row1 (rows : img) (n : Z) : option (list Z) :=
  if n <? 1 then None else nth_error rows (Z.to_nat (n - 1)).

Inductive what :=
| WImg (h : nat)          (* image HDU h *)
| WLoglam                 (* c0 + c1*arange(npix), one copy per selected fiber *)
| WTab (c : nat)          (* plugmap/tsobj column c *)
| WZbest (c : nat)        (* spZbest column c *)
| WZall (c : nat) (znum : Z).  (* spZall column c, znum-th best fit: row (fiber-1)*nper + znum-1 *)

Definition loglam0 (f : file) : list Z := map (fun p => f_c0 f + f_c1 f * Z.of_nat p) (seq 0 (f_npix f)).

Definition ext1 (w : what) (f : file) (fiber : Z) : option (list Z) :=
  match w with
  | WImg h => row1 (nth h (f_imgs f) []) fiber
  | WLoglam => Some (loglam0 f)
  | WTab c => row1 (nth c (f_tabs f) []) fiber
  | WZbest c => row1 (nth c (f_zbest f) []) fiber
  | WZall c z => row1 (nth c (f_zall f) []) ((fiber - 1) * f_nper f + z)
  end.

(* images are accumulated with spec_append (padding), table columns with np.concatenate *)
Definition padded (w : what) : bool := match w with WImg _ | WLoglam => true | _ => false end.

(* the loop over the unique plate-MJD keys: (pmjdindex, tmp) per file, in key order *)
Definition read_blocks (sv : survey) (w : what) (reqs : list req) : option (list (list nat * img)) :=
  let ireqs := indexed reqs in
  let ukeys := usort (map (fun r => key (r_plate r) (r_mjd r)) reqs) in
  mapM (fun k =>
          let p := key_plate k in
          let m := key_mjd k in
          let g := group ireqs p m in
          match find_file sv p m with
          | None => None
          | Some f => match mapM (fun ir => ext1 w f (r_fiber (snd ir))) g with
                      | None => None
                      | Some blk => Some (map fst g, blk)
                      end
          end) ukeys.

Definition accumulate (w : what) (blocks : list img) : option img :=
  match blocks with
  | [] => None                                  (* no request at all: the code has nothing to return *)
  | b0 :: bs => Some (if padded w then fold_left (fun acc b => spec_append acc b 0) bs b0
                      else concat (b0 :: bs))
  end.

Definition readspec_core (sv : survey) (w : what) (reqs : list req) : option img :=
  match read_blocks sv w reqs with
  | None => None
  | Some bl =>
      let allpmjdindex := concat (map fst bl) in
      match accumulate w (map snd bl) with
      | None => None
      | Some data => Some (take_rows [] data (argsort allpmjdindex))
      end
  end.

(* ------------------------------------------------------------------ readspec specification (S) *)

Definition spec_row (sv : survey) (w : what) (r : req) : option (list Z) :=
  match find_file sv (r_plate r) (r_mjd r) with
  | None => None
  | Some f => ext1 w f (r_fiber r)
  end.

Definition npixmax (rows : img) : nat := list_max_nat (map (@length Z) rows).

(* row i belongs to request i; images are zero-padded on the right to the longest requested spectrum *)
Definition spec_readspec (sv : survey) (w : what) (reqs : list req) : option img :=
  match reqs with
  | [] => None
  | _ => match mapM (spec_row sv w) reqs with
         | None => None
         | Some rows => Some (if padded w then map (pad (npixmax rows)) rows else rows)
         end
  end.

(* ------------------------------------------------------------------ calling conventions (M) *)

Inductive arg := Sc (z : Z) | Ar (l : list Z).
Definition alen (a : arg) : nat := match a with Sc _ => 1%nat | Ar l => length l end.
Definition avals (a : arg) : list Z := match a with Sc z => [z] | Ar l => l end.

Fixpoint zip3 (a b c : list Z) : list req :=
  match a, b, c with
  | x :: a', y :: b', z :: c' => (x, y, z) :: zip3 a' b' c'
  | _, _, _ => []
  end.

(* platevec, mjdvec, fibervec of readspec(platein, mjd, fiber) with fiber given; None = TypeError *)
Definition request_vectors (sv : survey) (plate : arg) (mjd : option arg) (fiber : arg) : option (list req) :=
  let nplate := alen plate in
  let nfiber := alen fiber in
  if ((1 <? nplate) && (1 <? nfiber) && negb (nplate =? nfiber))%nat then None
  else if ((nplate =? 0) || (nfiber =? 0))%nat then None
  else
    let platevec := if (1 <? nplate)%nat then avals plate else repeat (hd 0 (avals plate)) nfiber in
    let fibervec := if (1 <? nfiber)%nat then avals fiber else repeat (hd 0 (avals fiber)) nplate in
    match mjd with
    | None => Some (zip3 platevec (map (latest_mjd sv) platevec) fibervec)
    | Some m =>
        if negb (alen m =? nplate)%nat then None
        else
          (* np.zeros(nplate)+mjd, then broadcast against platevec when nplate = 1 *)
          let mjdvec := if (1 <? nplate)%nat then avals m else repeat (hd 0 (avals m)) (length platevec) in
          Some (zip3 platevec mjdvec fibervec)
    end.

Definition nimg : nat := 6.

Fixpoint sequenceM {A} (l : list (option A)) : option (list A) :=
  match l with
  | [] => Some []
  | None :: _ => None
  | Some x :: t => match sequenceM t with None => None | Some xs => Some (x :: xs) end
  end.

(* which outputs a call produces, in the order the harness serialises them *)
Definition outputs (sv : survey) (reqs : list req) (znum : option Z) : list what :=
  let f0 := match reqs with r :: _ => find_file sv (r_plate r) (r_mjd r) | [] => None end in
  match f0 with
  | None => [WImg 0]
  | Some f =>
      map WImg (seq 0 (length (f_imgs f))) ++ [WLoglam] ++ map WTab (seq 0 (length (f_tabs f))) ++
      match znum with
      | None => map WZbest (seq 0 (length (f_zbest f)))
      | Some z => map (fun c => WZall c z) (seq 0 (length (f_zall f)))
      end
  end.

Definition readspec_model (sv : survey) (plate : arg) (mjd : option arg) (fiber : arg) (znum : option Z)
  : option (list img) :=
  match request_vectors sv plate mjd fiber with
  | None => None
  | Some reqs => sequenceM (map (fun w => readspec_core sv w reqs) (outputs sv reqs znum))
  end.

Definition readspec_S (sv : survey) (reqs : list req) (znum : option Z) : option (list img) :=
  sequenceM (map (fun w => spec_readspec sv w reqs) (outputs sv reqs znum)).

(* ------------------------------------------------------------------ fiber=None: number_of_fibers and the expansion (M) *)

(* one row of platelist.fits; RUN2D / RUN1D strings are represented by integer codes (equality is all that is used) *)
Record plrow := mkPl { pl_plate : Z; pl_mjd : Z; pl_run2d : Z; pl_run1d : Z; pl_ntotal : Z }.

Definition sdss_nfiber : Z := 640.        (* nfiber[mjd < 55025] = 640 *)
Definition boss_first_mjd : Z := 55025.

(* platentotal[(plateplate == p) & (platemjd == m) & (platerun2d == run2d) & (platerun1d == run1d)][0] *)
Definition ntotal_lookup (pl : list plrow) (p m r2 r1 : Z) : option Z :=
  match find (fun r => (pl_plate r =? p) && (pl_mjd r =? m) && (pl_run2d r =? r2) && (pl_run1d r =? r1)) pl with
  | Some r => Some (pl_ntotal r)
  | None => None
  end.

(* number_of_fibers(plate): 640 everywhere when every plate's latest MJD is before 55025; otherwise EVERY plate
   (also the early ones) is looked up in the platelist *)
Definition number_of_fibers (sv : survey) (pl : list plrow) (r2 r1 : Z) (plates : list Z) : option (list Z) :=
  let mjds := map (latest_mjd sv) plates in
  if forallb (fun m => m <? boss_first_mjd) mjds then Some (map (fun _ => sdss_nfiber) plates)
  else mapM (fun pm => ntotal_lookup pl (fst pm) (snd pm) r2 r1) (combine plates mjds).

(* np.unique(nfibers[plate == p])[0]; all entries of one plate are equal (same latest MJD), the first is taken *)
Definition nf_first (plates nfibers : list Z) (p : Z) : Z :=
  match find (fun pn => fst pn =? p) (combine plates nfibers) with Some pn => snd pn | None => 0 end.

(* the loop  for p in np.unique(plate): platevec[k:k+n] = p; fibervec[k:k+n] = arange(n)+1; k += n
   over arrays of nfibers.sum() zeros (a repeated plate leaves zeros at the end) *)
Definition all_fiber_pairs (plates nfibers : list Z) : list (Z * Z) :=
  flat_map (fun p => map (fun f => (p, Z.of_nat f)) (seq 1 (Z.to_nat (nf_first plates nfibers p)))) (usort plates).
Definition all_fiber_vectors (plates nfibers : list Z) : list (Z * Z) :=
  let assigned := all_fiber_pairs plates nfibers in
  assigned ++ repeat (0, 0) (Z.to_nat (fold_right Z.add 0 nfibers) - length assigned).

Definition request_vectors_all (sv : survey) (pl : list plrow) (r2 r1 : Z) (plate : arg) (mjd : option arg)
  : option (list req) :=
  match number_of_fibers sv pl r2 r1 (avals plate) with
  | None => None
  | Some nf =>
      let pf := all_fiber_vectors (avals plate) nf in
      let platevec := map fst pf in
      let fibervec := map snd pf in
      match mjd with
      | None => Some (zip3 platevec (map (latest_mjd sv) platevec) fibervec)
      | Some m =>
          if negb (alen m =? alen plate)%nat then None
          else if (alen m =? 1)%nat then Some (zip3 platevec (repeat (hd 0 (avals m)) (length platevec)) fibervec)
          else if (alen m =? length platevec)%nat then Some (zip3 platevec (avals m) fibervec)
          else None                                  (* shapes cannot be broadcast *)
      end
  end.

Definition readspec_model_all (sv : survey) (pl : list plrow) (r2 r1 : Z) (plate : arg) (mjd : option arg)
  (znum : option Z) : option (list img) :=
  match request_vectors_all sv pl r2 r1 plate mjd with
  | None => None
  | Some reqs => sequenceM (map (fun w => readspec_core sv w reqs) (outputs sv reqs znum))
  end.

(* ------------------------------------------------------------------ spec_path and file names (M) *)

Definition bytes := list Z.     (* ASCII codes *)

(* decimal digits, most significant first; fuel log2 n + 1 is enough (Proofs: dec_value) *)
Fixpoint dec_fuel (fuel : nat) (n : Z) (acc : bytes) : bytes :=
  match fuel with
  | O => acc
  | S k => if n <? 10 then (48 + n) :: acc else dec_fuel k (n / 10) ((48 + n mod 10) :: acc)
  end.
Definition dec (n : Z) : bytes := dec_fuel (S (Z.to_nat (Z.log2 n))) n [].
(* '{0:0Wd}'.format(n) for n >= 0 *)
Definition fmt (w : nat) (n : Z) : bytes := let d := dec n in repeat 48 (w - length d) ++ d.
(* value of a digit string *)
Definition dvalue (l : bytes) : Z := fold_left (fun a d => a * 10 + (d - 48)) l 0.
Definition is_digit (d : Z) : bool := (48 <=? d) && (d <=? 57).

Definition plate_width : nat := 4.      (* '{0:04d}' *)
Definition mjd_width : nat := 5.        (* '{1:05d}' *)
Definition dash : Z := 45.
Definition pmjdstr (plate mjd : Z) : bytes := fmt plate_width plate ++ [dash] ++ fmt mjd_width mjd.
Definition dot_fits : bytes := [46; 102; 105; 116; 115].
Definition pre_spplate : bytes := [115; 112; 80; 108; 97; 116; 101; 45].                 (* "spPlate-" *)
Definition pre_spzbest : bytes := [115; 112; 90; 98; 101; 115; 116; 45].                 (* "spZbest-" *)
Definition pre_spzall : bytes := [115; 112; 90; 97; 108; 108; 45].                       (* "spZall-" *)
Definition pre_photoplate : bytes := [112; 104; 111; 116; 111; 80; 108; 97; 116; 101; 45]. (* "photoPlate-" *)
Definition file_name (prefix : bytes) (plate mjd : Z) : bytes := prefix ++ pmjdstr plate mjd ++ dot_fits.

(* where a call looks: path= (one flat directory) or a top directory (topdir= or environment) *)
Inductive loc := LPath (dir : bytes) | LTop (topdir : bytes).
Record envt := mkEnv { e_sdss : option bytes;     (* SPECTRO_REDUX *)
                       e_boss : option bytes }.   (* BOSS_SPECTRO_REDUX *)
(* int(run2d) succeeds: modelled as "non-empty, decimal digits only" *)
Definition is_int_string (r : bytes) : bool := negb (Nat.eqb (length r) 0) && forallb is_digit r.
Definition env_top (env : envt) (run2d : bytes) : option bytes := if is_int_string run2d then e_sdss env else e_boss env.
(* None = KeyError (variable not set) *)
Definition resolve_loc (path topdir : option bytes) (env : envt) (run2d : bytes) : option loc :=
  match path with
  | Some p => Some (LPath p)
  | None => match topdir with
            | Some t => Some (LTop t)
            | None => match env_top env run2d with Some t => Some (LTop t) | None => None end
            end
  end.
(* spec_path: path components of the directory of a plate *)
Definition plate_dir (l : loc) (run2d : bytes) (plate : Z) : list bytes :=
  match l with LPath p => [p] | LTop t => [t; run2d; fmt plate_width plate] end.
Definition spplate_file (l : loc) (run2d : bytes) (plate mjd : Z) : list bytes :=
  plate_dir l run2d plate ++ [file_name pre_spplate plate mjd].
Definition spz_file (l : loc) (run2d run1d prefix : bytes) (plate mjd : Z) : list bytes :=
  plate_dir l run2d plate ++ [run1d; file_name prefix plate mjd].

(* the spPlate files one call opens, in the order of the unique keys *)
Definition opened_spplate (l : loc) (run2d : bytes) (reqs : list req) : list (list bytes) :=
  map (fun k => spplate_file l run2d (key_plate k) (key_mjd k)) (usort (map (fun r => key (r_plate r) (r_mjd r)) reqs)).

(* a file system holding several trees / reductions; a call sees it through its own location and run2d *)
Record tree := mkTree { t_loc : loc; t_run2d : bytes; t_survey : survey }.
Definition mount (trees : list tree) : list (list bytes * file) :=
  flat_map (fun t => map (fun f => (spplate_file (t_loc t) (t_run2d t) (f_plate f) (f_mjd f), f)) (t_survey t)) trees.

(* ------------------------------------------------------------------ correspondence cases *)

(* a table column given by a formula of (fibre, fit number), nper rows per fibre: the spZall tables of the
   realistic-size trees (1000 fibres x 134 fits) are written by the harness from the same formula *)
Fixpoint zseq (start : Z) (n : nat) : list Z := match n with O => [] | S k => start :: zseq (start + 1) k end.
Definition gen_col (nfib nper : nat) (g : Z -> Z -> Z) : img :=
  flat_map (fun f => map (fun z => [g f z]) (zseq 1 nper)) (zseq 1 nfib).
(* an image / table column with one row per fibre given by a formula of (fibre, pixel or component) *)
Definition gen_img (nfib npix : nat) (g : Z -> Z -> Z) : img :=
  map (fun f => map (fun p => g f p) (zseq 0 npix)) (zseq 1 nfib).

Definition okind_eqb (a b : option ity) : bool :=
  match a, b with Some x, Some y => ity_eqb x y | None, None => true | _, _ => false end.
Definition pres_eqb (a b : pres) : bool :=
  match a, b with
  | PVal ka za, PVal kb zb => okind_eqb ka kb && (za =? zb)
  | POverflow, POverflow => true
  | PUnmodelled, PUnmodelled => true
  | _, _ => false
  end.

Definition eqb_listZ (a b : list Z) : bool :=
  Nat.eqb (length a) (length b) && forallb (fun p => fst p =? snd p) (combine a b).
Definition eqb_img (a b : img) : bool :=
  Nat.eqb (length a) (length b) && forallb (fun p => eqb_listZ (fst p) (snd p)) (combine a b).
Definition eqb_imgs (a b : list img) : bool :=
  Nat.eqb (length a) (length b) && forallb (fun p => eqb_img (fst p) (snd p)) (combine a b).
Definition eqb_oimgs (a b : option (list img)) : bool :=
  match a, b with Some x, Some y => eqb_imgs x y | None, None => true | _, _ => false end.
Definition eqb_oimg (a b : option img) : bool :=
  match a, b with Some x, Some y => eqb_img x y | None, None => true | _, _ => false end.

(* lookup of a path (list of components) in a mounted file system *)
Definition fs_find (fs : list (list bytes * file)) (path : list bytes) : option file :=
  match find (fun e => eqb_img (fst e) path) fs with Some e => Some (snd e) | None => None end.

Definition spec_path_model (path topdir : option bytes) (env : envt) (run2d : bytes) (plates : list Z) : option (list img) :=
  match resolve_loc path topdir env run2d with
  | None => None
  | Some l => Some (map (plate_dir l run2d) plates)
  end.
Definition opened_model (path topdir : option bytes) (env : envt) (run2d : bytes) (reqs : list req) : option (list img) :=
  match resolve_loc path topdir env run2d with
  | None => None
  | Some l => Some (opened_spplate l run2d reqs)
  end.

(* ------------------------------------------------------------------ a call that RETURNS although S is undefined (S) *)

(* The first sentence of the property judges every returned answer, also when some request has no file / no row / the files
   differ in what they hold (then spec_readspec is None and makes no claim about errors): every returned array has exactly
   one row per request, and row i is the row of request i -- zero-padded on the right for images -- wherever request i has
   a file, that file has the HDU / column, and the fibre is one of its rows.  Independent of M and of Generated. *)
Definition row_belongs (w : what) (own got : list Z) : bool :=
  if padded w then
    (length own <=? length got)%nat && eqb_listZ (firstn (length own) got) own &&
    forallb (fun v => v =? 0) (skipn (length own) got)
  else eqb_listZ got own.

Definition rows_belong (sv : survey) (reqs : list req) (w : what) (a : img) : bool :=
  Nat.eqb (length a) (length reqs) &&
  forallb (fun ra => match spec_row sv w (fst ra) with
                     | None => true
                     | Some own => row_belongs w own (snd ra)
                     end) (combine reqs a).

(* the outputs named after the first request that HAS a file (outputs uses the first request) *)
Definition outputs_any (sv : survey) (reqs : list req) (znum : option Z) : list what :=
  match filter (fun r => match find_file sv (r_plate r) (r_mjd r) with Some _ => true | None => false end) reqs with
  | [] => []
  | r :: _ => outputs sv [r] znum
  end.

Definition partial_ok (sv : survey) (reqs : list req) (znum : option Z) (out : list img) : bool :=
  let ws := outputs_any sv reqs znum in
  Nat.eqb (length out) (length ws) &&
  forallb (fun wa => rows_belong sv reqs (fst wa) (snd wa)) (combine ws out).

Inductive case :=
  (* one readspec call: conventions as passed, the request list as the harness understands it
     (None = the harness expects an error from the calling convention), observed output (None = exception) *)
| CRead (sv : survey) (plate : arg) (mjd : option arg) (fiber : arg) (znum : option Z)
        (reqs : option (list req)) (expect : option (list img))
  (* readspec(plate, mjd, fiber=None): all fibres; platelist rows and the codes of the call's RUN2D / RUN1D *)
| CReadAll (sv : survey) (pl : list plrow) (r2 r1 : Z) (plate : arg) (mjd : option arg) (znum : option Z)
           (reqs : option (list req)) (expect : option (list img))
  (* spec_path(plates, path, topdir, run2d) under an environment: directories as lists of path components *)
| CSpecPath (path topdir : option bytes) (env : envt) (run2d : bytes) (plates : list Z) (expect : option (list img))
  (* the spPlate files one readspec call opened (observed by wrapping fits.open), as lists of path components *)
| CFiles (path topdir : option bytes) (env : envt) (run2d : bytes) (reqs : list req) (expect : option (list img))
| CAppend (a b : img) (pixshift : Z) (expect : option img)
  (* one readspec call on a tree whose files differ in what they hold (a plate-MJD without spZbest / spZall / photoPlate file,
     a truncated spPlate file) or with requests that have no file: the returned arrays, each with the output it claims to be.
     No claim when the call raises; a returned answer is judged by rows_belong *)
| CReadPartial (sv : survey) (reqs : list req) (expect : option (list (what * img)))
  (* one typed index expression of readspec (the gen_t definitions of Generated.Readspec) evaluated by NumPy itself on one-element arrays of
     the stated storage types: value and dtype of the result, or OverflowError *)
| CTyped (e : pexpr) (env : list (option ity * Z)) (expect : pres).

(* verdict: 0 = model = impl and spec satisfied; +1 model differs from impl; +2 impl contradicts the spec *)
Definition run_case (c : case) : Z :=
  match c with
  | CRead sv plate mjd fiber znum reqs expect =>
      let m := readspec_model sv plate mjd fiber znum in
      let spec_bad :=
        match reqs with
        | None => false
        | Some rq => match readspec_S sv rq znum with
                     | None =>                    (* invalid request (no file, no such fiber): no claim that it raises, *)
                         match expect with        (* but an answer that IS returned must still be request by request *)
                         | None => false
                         | Some out => negb (partial_ok sv rq znum out)
                         end
                     | Some s => negb (eqb_oimgs (Some s) expect)
                     end
        end in
      (if eqb_oimgs m expect then 0 else 1) + (if spec_bad then 2 else 0)
  | CReadAll sv pl r2 r1 plate mjd znum reqs expect =>
      let m := readspec_model_all sv pl r2 r1 plate mjd znum in
      let spec_bad :=
        match reqs with
        | None => false
        | Some rq => match readspec_S sv rq znum with
                     | None => match expect with None => false | Some out => negb (partial_ok sv rq znum out) end
                     | Some s => negb (eqb_oimgs (Some s) expect)
                     end
        end in
      (if eqb_oimgs m expect then 0 else 1) + (if spec_bad then 2 else 0)
  | CSpecPath path topdir env run2d plates expect =>
      if eqb_oimgs (spec_path_model path topdir env run2d plates) expect then 0 else 1
  | CFiles path topdir env run2d reqs expect =>
      if eqb_oimgs (opened_model path topdir env run2d reqs) expect then 0 else 1
  | CAppend a b s expect =>
      (if eqb_oimg (Some (spec_append a b s)) expect then 0 else 1) +
      (if eqb_oimg (Some (spec_append_S a b s)) expect then 0 else 2)
  | CReadPartial sv reqs expect =>
      match expect with
      | None => 0
      | Some outs => if forallb (fun wa => rows_belong sv reqs (fst wa) (snd wa)) outs then 0 else 2
      end
  | CTyped e env expect =>
      match peval env e with
      | PUnmodelled => 0                       (* mixed array types: NumPy promotion is not modelled, no claim *)
      | r => if pres_eqb r expect then 0 else 1
      end
  end.

Definition run_cases (l : list case) : list Z := map run_case l.
