(* C09 proofs beyond BSpline/FitProofs.v: the cheap evaluator fit_fast, the exact meaning of the
   Cholesky checkers, and the abstract L L^T solve identity. *)
From Coq Require Import QArith Qround Qabs Lqa List Bool Arith Lia.
Import ListNotations.
From PV Require Import Lib.WLS BSpline.Eval BSpline.EvalProofs BSpline.Fit BSpline.FitProofs C09.Model.
Open Scope Q_scope.

(* ---- fit_fast: Gauss-Jordan on [A | b] followed by the gradient check *)
Lemma fit_fast_sound m D x : fit_fast m D = Some x ->
  length x = m /\ Forall (fun g => g == 0) (grad m D x).
Proof.
  unfold fit_fast. destruct (gj_solve m (normal_matrix m D) (rhs m D)) as [x0|]; [|discriminate].
  apply solve_checked_sound.
Qed.

Theorem fit_fast_optimal m D x : wf m D -> fit_fast m D = Some x ->
  forall z, length z = m -> chi2 D x <= chi2 D z.
Proof.
  unfold fit_fast. destruct (gj_solve m (normal_matrix m D) (rhs m D)) as [x0|]; [|discriminate].
  apply solve_checked_optimal.
Qed.

(* whenever the certified-unique dense solve exists, the cheap evaluator returns the same coefficients *)
Theorem fit_fast_agrees m D x z : rows_len m D -> fit_dense m D = Some x -> fit_fast m D = Some z ->
  Forall2 Qeq z x.
Proof.
  intros HR Hd Hf. destruct (fit_fast_sound m D z Hf) as [Hl Hg].
  exact (fit_unique m D x z HR Hd Hl Hg).
Qed.

(* ---- what the checkers certify *)
Lemma close_spec tol a b : close tol a b = true <-> Qabs (a - b) <= tol.
Proof. unfold close. apply Qle_bool_iff. Qed.

Lemma close_zero a b : close 0 a b = true -> a == b.
Proof.
  intro H. apply close_spec in H.
  assert (H0 : Qabs (a - b) == 0) by (apply Qle_antisym; [exact H | apply Qabs_nonneg]).
  revert H0. apply Qabs_case; intros; lra.
Qed.

(* ---- L L^T = A: solving with the two triangular systems solves A x = b (matrices as index functions) *)
Fixpoint sumf (f : nat -> Q) (n : nat) : Q := match n with O => 0 | S n' => sumf f n' + f n' end.

Lemma sumf_ext f g n : (forall i, (i < n)%nat -> f i == g i) -> sumf f n == sumf g n.
Proof.
  induction n as [|n IH]; intro H; cbn [sumf]; [reflexivity|].
  rewrite IH by (intros; apply H; lia). rewrite (H n) by lia. reflexivity.
Qed.

Lemma sumf_scale a f n : sumf (fun i => a * f i) n == a * sumf f n.
Proof. induction n as [|n IH]; cbn [sumf]; [ring|]. rewrite IH. ring. Qed.

Lemma sumf_plus f g n : sumf (fun i => f i + g i) n == sumf f n + sumf g n.
Proof. induction n as [|n IH]; cbn [sumf]; [ring|]. rewrite IH. ring. Qed.

Lemma sumf_swap (g : nat -> nat -> Q) n m :
  sumf (fun j => sumf (fun c => g j c) m) n == sumf (fun c => sumf (fun j => g j c) n) m.
Proof.
  induction n as [|n IH]; cbn [sumf].
  - induction m as [|m IHm]; cbn [sumf]; [reflexivity|]. rewrite <- IHm. ring.
  - rewrite IH. rewrite <- sumf_plus. reflexivity.
Qed.

Theorem llt_solves (n : nat) (L A : nat -> nat -> Q) (x y b : nat -> Q) :
  (forall i j, (i < n)%nat -> (j < n)%nat -> A i j == sumf (fun c => L i c * L j c) n) ->   (* A = L L^T *)
  (forall i, (i < n)%nat -> sumf (fun c => L i c * y c) n == b i) ->                        (* L y = b *)
  (forall c, (c < n)%nat -> sumf (fun j => L j c * x j) n == y c) ->                        (* L^T x = y *)
  forall i, (i < n)%nat -> sumf (fun j => A i j * x j) n == b i.                            (* A x = b *)
Proof.
  intros HA HL HU i Hi.
  rewrite <- (HL i Hi).
  transitivity (sumf (fun j => sumf (fun c => L i c * (L j c * x j)) n) n).
  - apply sumf_ext. intros j Hj. rewrite (HA i j Hi Hj).
    rewrite Qmult_comm, <- sumf_scale. apply sumf_ext. intros c _. ring.
  - rewrite sumf_swap. apply sumf_ext. intros c Hc.
    rewrite sumf_scale. rewrite (HU c Hc). reflexivity.
Qed.

(* forward substitution exists and solves L y = b when L is lower triangular with non-zero diagonal:
   y_i = (b_i - sum_{c<i} L_ic y_c) / L_ii, as a list built left to right *)
Fixpoint fwd_list (L : nat -> nat -> Q) (b : nat -> Q) (n : nat) : list Q :=
  match n with
  | O => []
  | S i => let ys := fwd_list L b i in
           ys ++ [(b i - sumf (fun c => L i c * nth c ys 0) i) / L i i]
  end.

Lemma fwd_list_length L b n : length (fwd_list L b n) = n.
Proof. induction n as [|n IH]; cbn [fwd_list]; [reflexivity|]. rewrite app_length, IH. cbn. lia. Qed.

Lemma fwd_list_prefix L b n : forall i, (i <= n)%nat -> forall c, (c < i)%nat ->
  nth c (fwd_list L b n) 0 = nth c (fwd_list L b i) 0.
Proof.
  induction n as [|n IH]; intros i Hi c Hc.
  - assert (i = 0)%nat by lia. subst. reflexivity.
  - destruct (Nat.eq_dec i (S n)) as [->|Hne]; [reflexivity|].
    cbn [fwd_list]. rewrite app_nth1 by (rewrite fwd_list_length; lia).
    apply IH; lia.
Qed.

Theorem forward_substitution_solves (n : nat) (L : nat -> nat -> Q) (b : nat -> Q) :
  (forall i c, (i < c)%nat -> L i c == 0) ->             (* lower triangular *)
  (forall i, (i < n)%nat -> ~ L i i == 0) ->             (* e.g. positive diagonal *)
  let y := fun c => nth c (fwd_list L b n) 0 in
  forall i, (i < n)%nat -> sumf (fun c => L i c * y c) n == b i.
Proof.
  intros Htri Hd y i Hi.
  (* split the sum at i: c < i, c = i, c > i *)
  assert (Hsplit : forall m, (i < m)%nat -> (m <= n)%nat ->
            sumf (fun c => L i c * y c) m == sumf (fun c => L i c * y c) i + L i i * y i).
  { induction m as [|m IHm]; intros H1 H2; [lia|].
    cbn [sumf]. destruct (Nat.eq_dec m i) as [->|Hne]; [reflexivity|].
    rewrite IHm by lia. rewrite (Htri i m) by lia. ring. }
  rewrite (Hsplit n Hi (le_n n)).
  assert (Hy : y i == (b i - sumf (fun c => L i c * y c) i) / L i i).
  { unfold y. rewrite (fwd_list_prefix L b n (S i)) by lia.
    cbn [fwd_list]. rewrite app_nth2 by (rewrite fwd_list_length; lia).
    rewrite fwd_list_length, Nat.sub_diag. cbn [nth].
    apply Qmult_inj_r with (z := L i i); [apply Hd; exact Hi|].
    assert (E : sumf (fun c => L i c * nth c (fwd_list L b i) 0) i == sumf (fun c => L i c * nth c (fwd_list L b n) 0) i).
    { apply sumf_ext. intros c Hc. rewrite (fwd_list_prefix L b n i) by lia. reflexivity. }
    rewrite E. reflexivity. }
  rewrite Hy. field. apply Hd. exact Hi.
Qed.

(* ---- constants are in the span of the basis (partition of unity): fitting constant data returns it *)
From PV Require Import BSpline.CoxDeBoor BSpline.BasisProofs.

Lemma dot_repeat_r u c : forall n, (length u <= n)%nat -> dot u (repeat c n) == c * sumQ u.
Proof.
  induction u as [|a u IH]; intros n Hn; cbn [dot sumQ].
  - destruct n; cbn; ring.
  - destruct n as [|n]; [cbn in Hn; lia|]. cbn [repeat dot]. rewrite IH by (cbn in Hn; lia). ring.
Qed.

Lemma dot_app_repeat a b c : forall n, (length a + length b <= n)%nat ->
  dot (a ++ b) (repeat c n) == dot a (repeat c (length a)) + dot b (repeat c (n - length a)).
Proof.
  induction a as [|x a IH]; intros n Hn; cbn [app length dot repeat].
  - rewrite Nat.sub_0_r. ring.
  - destruct n as [|n]; [cbn in Hn; lia|]. cbn [repeat dot Nat.sub]. rewrite IH by (cbn in Hn; lia). ring.
Qed.

Lemma sumQ_zeros n : sumQ (zeros n) == 0.
Proof. induction n as [|n IH]; cbn [zeros repeat sumQ]; [reflexivity|]. unfold zeros in IH. rewrite IH. ring. Qed.

Lemma sumQ_app a b : sumQ (a ++ b) == sumQ a + sumQ b.
Proof. induction a as [|x a IH]; cbn [app sumQ]; [ring|]. rewrite IH. ring. Qed.

(* a design row times the constant vector: c * (sum of the basis values) = c *)
Theorem constant_in_span gb k x l c :
  nondecr gb -> (1 <= k)%nat -> (k - 1 <= l)%nat -> (l + k <= length gb)%nat ->
  nthQ gb l < nthQ gb (S l) ->
  let m := (length gb - k)%nat in
  (l <= m - 1)%nat -> (1 <= m)%nat ->
  dot (design_row gb k m x l) (repeat c m) == c.
Proof.
  intros Hnd Hk Hl Hlen Hlt m Hlm Hm.
  unfold design_row.
  assert (Hb : length (bsplvn gb k x l) = k) by (apply bsplvn_length; exact Hk).
  set (off := (l - (k - 1))%nat).
  assert (Hlen' : (length (zeros off ++ bsplvn gb k x l ++ zeros (m - off - k)) <= m)%nat).
  { rewrite !app_length, Hb. unfold zeros. rewrite !repeat_length. subst off. lia. }
  rewrite dot_repeat_r by exact Hlen'.
  rewrite !sumQ_app, !sumQ_zeros.
  rewrite (bsplvn_partition_of_unity gb k x l Hnd Hk Hl Hlen Hlt). ring.
Qed.

(* hence: constant data y_i = c on a uniquely solvable problem are fitted by the constant coefficient vector *)
Theorem fit_reproduces_constant m rows ws c x :
  Forall (fun r : list Q => length r = m) rows ->
  Forall (fun r => dot r (repeat c m) == c) rows ->
  fit_dense m (mk_obs rows ws (map (fun _ => c) rows)) = Some x ->
  Forall2 Qeq x (repeat c m).
Proof.
  intros Hr Hc Hf.
  apply (fit_exact_recovery m rows ws (map (fun _ => c) rows) (repeat c m) x Hr).
  - apply repeat_length.
  - clear Hf Hr. induction Hc as [|r rows H _ IH]; cbn [map]; constructor; [symmetry; exact H | exact IH].
  - exact Hf.
Qed.

(* ---- the observations built from a knot vector and sorted abscissae are well formed, so the optimality
   theorem applies to the B-spline fit itself *)
Lemma design_row_length gb k m x l : (1 <= k)%nat -> (k - 1 <= l)%nat -> (l + 1 <= m)%nat ->
  length (design_row gb k m x l) = m.
Proof.
  intros Hk Hl Hm. unfold design_row. rewrite !app_length, (bsplvn_length gb k x l Hk).
  unfold zeros. rewrite !repeat_length. lia.
Qed.

Lemma design_rows_len gb k xs : (1 <= k)%nat -> (2 * k <= length gb)%nat -> sortedQ xs = true ->
  Forall (fun r : list Q => length r = (length gb - k)%nat) (design gb k xs).
Proof.
  intros Hk Hg Hs. unfold design.
  pose proof (intrv_spec gb k xs) as HS.
  rewrite (intrv_pointwise_gen gb k xs Hk Hg Hs).
  apply Forall_forall. intros r Hr. apply in_map_iff in Hr. destruct Hr as [[x l] [<- Hin]].
  apply in_combine_r in Hin. apply in_map_iff in Hin. destruct Hin as [x' [<- _]].
  destruct (intrv1_spec gb k x' Hk Hg) as [[H1 H2] _]. cbn [fst snd].
  apply design_row_length; lia.
Qed.

Lemma mk_obs_wf m rows : Forall (fun r : list Q => length r = m) rows -> forall ws ys, Forall (fun w => 0 <= w) ws ->
  wf m (mk_obs rows ws ys).
Proof.
  induction rows as [|r rows IH]; intros Hr ws ys Hw; [constructor|].
  destruct ws as [|w ws]; [constructor|]. destruct ys as [|y ys]; [constructor|].
  inversion Hr as [|r' rows' Hr0 Hrs]; subst r' rows'. inversion Hw as [|w' ws' Hw0 Hws]; subst w' ws'.
  cbn [mk_obs]. constructor.
  - cbn [fst snd]. split; [exact Hr0 | exact Hw0].
  - apply IH; assumption.
Qed.

Theorem bspline_fit_optimal gb k xs ys ws c :
  (1 <= k)%nat -> (2 * k <= length gb)%nat -> sortedQ xs = true -> Forall (fun w => 0 <= w) ws ->
  fit_coeff gb k xs ys ws = Some c ->
  forall z, length z = (length gb - k)%nat ->
  chi2 (fit_obs gb k xs ys ws) c <= chi2 (fit_obs gb k xs ys ws) z.
Proof.
  intros Hk Hg Hs Hw Hf z Hz.
  apply (fit_optimal (length gb - k) (fit_obs gb k xs ys ws) c); [|exact Hf|exact Hz].
  apply mk_obs_wf; [apply design_rows_len; assumption | exact Hw].
Qed.
