(* C16 -- storage types of readspec's integer arithmetic: the typed expressions regenerated from spec1d.py
   (Generated/Readspec.v: gen_t_*; every route through the argument normalisation is one list entry) evaluate, in the
   integer types the code uses, to the unbounded expressions of the model, for the documented ranges
   (fibre 1..1000, DIMS0 1..1000, znum 1..1000, plate 0..99999, 0 <= MJD < 2^16).  Holds or fails with the source: a
   narrower dtype in the prologue (seeded change C16-13: fibre numbers kept as int16) makes c16_checked false. *)
From Coq Require Import ZArith List Bool Lia.
From PV Require Import Lib.NumpyInt C16.Typed Generated.Readspec C16.Model C16.Proofs.
Import ListNotations.
Open Scope Z_scope.

(* variables: 0 fiber, 1 nper (DIMS0), 2 znum, 3 plate, 4 mjd, 5 element of np.arange(nfiber), 6 bigmjd of latest_mjd *)
Definition c16_tab : vtab :=
  [(false, 1, 1000); (true, 1, 1000); (true, 1, 1000); (false, 0, 99999); (false, 0, 65535); (false, 0, 999); (true, 0, 65535)].

Definition c16_env (tf : ity) (fiber nper znum : Z) (tp : ity) (plate : Z) (tm : ity) (mjd : Z) (ta : ity) (a bigmjd : Z)
  : list (option ity * Z) :=
  [(Some tf, fiber); (None, nper); (None, znum); (Some tp, plate); (Some tm, mjd); (Some ta, a); (None, bigmjd)].

Lemma c16_env_ok tf fiber nper znum tp plate tm mjd ta a bigmjd :
  fits tf fiber = true -> 1 <= fiber <= 1000 -> 1 <= nper <= 1000 -> 1 <= znum <= 1000 ->
  fits tp plate = true -> 0 <= plate <= 99999 -> fits tm mjd = true -> 0 <= mjd <= 65535 ->
  fits ta a = true -> 0 <= a <= 999 -> 0 <= bigmjd <= 65535 ->
  penv_ok c16_tab (c16_env tf fiber nper znum tp plate tm mjd ta a bigmjd).
Proof.
  intros. unfold penv_ok, c16_tab, c16_env.
  repeat (apply Forall2_cons; [cbn [fst snd]; repeat split; (assumption || lia || reflexivity)|]). apply Forall2_nil.
Qed.

Definition fiber_routes : list pexpr := gen_t_fiber_given ++ gen_t_fiber_all.
Definition plate_routes : list pexpr := gen_t_plate_given ++ gen_t_plate_all.
Definition mjd_routes : list pexpr := gen_t_mjd_given ++ gen_t_mjd_latest.

Definition fiber_exprs (f : pexpr) : list pexpr :=
  [f; gen_t_img_row f; gen_t_photo_row f; gen_t_z_row (gen_t_zbest_fiber f); gen_t_z_row (gen_t_znum_fiber f)].
Definition key_exprs (pv mv : pexpr) : list pexpr :=
  let k := gen_t_key pv mv in [k; gen_t_key_plate k; gen_t_key_mjd k].

Definition c16_index_exprs : list pexpr :=
  flat_map fiber_exprs fiber_routes ++ flat_map (fun pv => flat_map (key_exprs pv) mjd_routes) plate_routes.

(* THE range analysis, run on the extracted expressions *)
Lemma c16_checked : all_checked c16_tab c16_index_exprs = true.
Proof. vm_compute. reflexivity. Qed.

Ltac each_route H := repeat (destruct H as [<-|H]; [cbn [pzeval zop]; try reflexivity; lia|]); destruct H.

(* ---- what every route denotes over unbounded integers (erasure) *)
Lemma fiber_given_denotes f env : In f gen_t_fiber_given -> pzeval env f = nth 0 env 0.
Proof. intros H. unfold gen_t_fiber_given in H. cbn [In] in H. each_route H. Qed.
Lemma fiber_all_denotes f env : In f gen_t_fiber_all -> pzeval env f = nth 5 env 0 + 1.
Proof. intros H. unfold gen_t_fiber_all in H. cbn [In] in H. each_route H. Qed.
Lemma plate_denotes pv env : In pv plate_routes -> pzeval env pv = nth 3 env 0.
Proof. intros H. unfold plate_routes, gen_t_plate_given, gen_t_plate_all in H. cbn [In app] in H. each_route H. Qed.
Lemma mjd_given_denotes mv env : In mv gen_t_mjd_given -> pzeval env mv = nth 4 env 0.
Proof. intros H. unfold gen_t_mjd_given in H. cbn [In] in H. each_route H. Qed.
Lemma mjd_latest_denotes mv env : In mv gen_t_mjd_latest -> pzeval env mv = nth 6 env 0.
Proof. intros H. unfold gen_t_mjd_latest in H. cbn [In] in H. each_route H. Qed.

(* the typed index expressions erase to the untyped generated ones (which C16/Source.v proves to be the model's) *)
Lemma erase_rows f env :
  pzeval env (gen_t_img_row f) = gen_img_row (pzeval env f) /\
  pzeval env (gen_t_photo_row f) = gen_photo_row (pzeval env f) /\
  pzeval env (gen_t_z_row (gen_t_zbest_fiber f)) = gen_z_row (gen_zbest_fiber (pzeval env f)) /\
  pzeval env (gen_t_z_row (gen_t_znum_fiber f)) = gen_z_row (gen_znum_fiber (pzeval env f) (nth 1 env 0) (nth 2 env 0)).
Proof. repeat split. Qed.

Lemma erase_key pv mv env :
  pzeval env (gen_t_key pv mv) = gen_key (pzeval env pv) (pzeval env mv) /\
  pzeval env (gen_t_key_plate (gen_t_key pv mv)) = gen_key_plate (gen_key (pzeval env pv) (pzeval env mv)) /\
  pzeval env (gen_t_key_mjd (gen_t_key pv mv)) = gen_key_mjd (gen_key (pzeval env pv) (pzeval env mv)).
Proof. repeat split. Qed.

(* ---- no intermediate result wraps *)
Lemma checked_fiber f e env : In f fiber_routes -> In e (fiber_exprs f) -> penv_ok c16_tab env ->
  exists t, peval env e = PVal (Some t) (pzeval (map snd env) e).
Proof.
  intros Hf He Henv. apply (all_checked_sound _ _ c16_checked); [|exact Henv].
  unfold c16_index_exprs. apply in_or_app. left. apply in_flat_map. exists f. split; assumption.
Qed.

Lemma checked_key pv mv e env : In pv plate_routes -> In mv mjd_routes -> In e (key_exprs pv mv) -> penv_ok c16_tab env ->
  exists t, peval env e = PVal (Some t) (pzeval (map snd env) e).
Proof.
  intros Hp Hm He Henv. apply (all_checked_sound _ _ c16_checked); [|exact Henv].
  unfold c16_index_exprs. apply in_or_app. right. apply in_flat_map. exists pv. split; [exact Hp|].
  apply in_flat_map. exists mv. split; assumption.
Qed.

Definition typed_is (env : list (option ity * Z)) (e : pexpr) (z : Z) : Prop := exists t, peval env e = PVal (Some t) z.

(* rows, fibre numbers given by the caller (vector or scalar convention) *)
Theorem storage_rows_given f env : In f gen_t_fiber_given -> penv_ok c16_tab env ->
  let fiber := nth 0 (map snd env) 0 in
  let nper := nth 1 (map snd env) 0 in
  let znum := nth 2 (map snd env) 0 in
  typed_is env f fiber /\
  typed_is env (gen_t_img_row f) (fiber - 1) /\
  typed_is env (gen_t_photo_row f) (fiber - 1) /\
  typed_is env (gen_t_z_row (gen_t_zbest_fiber f)) (fiber - 1) /\
  typed_is env (gen_t_z_row (gen_t_znum_fiber f)) ((fiber - 1) * nper + znum - 1).
Proof.
  intros Hf Henv. cbv zeta. unfold typed_is.
  assert (Hr : In f fiber_routes) by (apply in_or_app; left; exact Hf).
  pose proof (fiber_given_denotes f (map snd env) Hf) as D.
  destruct (erase_rows f (map snd env)) as (E1 & E2 & E3 & E4).
  repeat split.
  - rewrite <- D. apply (checked_fiber f); auto. cbn; auto.
  - replace (nth 0 (map snd env) 0 - 1) with (pzeval (map snd env) (gen_t_img_row f))
      by (rewrite E1, D; unfold gen_img_row; lia).
    apply (checked_fiber f); auto. cbn; auto.
  - replace (nth 0 (map snd env) 0 - 1) with (pzeval (map snd env) (gen_t_photo_row f))
      by (rewrite E2, D; unfold gen_photo_row; lia).
    apply (checked_fiber f); auto. cbn; auto.
  - replace (nth 0 (map snd env) 0 - 1) with (pzeval (map snd env) (gen_t_z_row (gen_t_zbest_fiber f)))
      by (rewrite E3, D; unfold gen_z_row, gen_zbest_fiber; lia).
    apply (checked_fiber f); auto. cbn; auto 6.
  - replace ((nth 0 (map snd env) 0 - 1) * nth 1 (map snd env) 0 + nth 2 (map snd env) 0 - 1)
      with (pzeval (map snd env) (gen_t_z_row (gen_t_znum_fiber f)))
      by (rewrite E4, D; unfold gen_z_row, gen_znum_fiber; lia).
    apply (checked_fiber f); auto. cbn; auto 7.
Qed.

(* rows, fiber=None: the fibre numbers are np.arange(n) + 1 written into the fibervec buffer *)
Theorem storage_rows_all f env : In f gen_t_fiber_all -> penv_ok c16_tab env ->
  let fiber := nth 5 (map snd env) 0 + 1 in
  let nper := nth 1 (map snd env) 0 in
  let znum := nth 2 (map snd env) 0 in
  typed_is env f fiber /\
  typed_is env (gen_t_img_row f) (fiber - 1) /\
  typed_is env (gen_t_photo_row f) (fiber - 1) /\
  typed_is env (gen_t_z_row (gen_t_zbest_fiber f)) (fiber - 1) /\
  typed_is env (gen_t_z_row (gen_t_znum_fiber f)) ((fiber - 1) * nper + znum - 1).
Proof.
  intros Hf Henv. cbv zeta. unfold typed_is.
  assert (Hr : In f fiber_routes) by (apply in_or_app; right; exact Hf).
  pose proof (fiber_all_denotes f (map snd env) Hf) as D.
  destruct (erase_rows f (map snd env)) as (E1 & E2 & E3 & E4).
  repeat split.
  - rewrite <- D. apply (checked_fiber f); auto. cbn; auto.
  - replace (nth 5 (map snd env) 0 + 1 - 1) with (pzeval (map snd env) (gen_t_img_row f))
      by (rewrite E1, D; unfold gen_img_row; lia).
    apply (checked_fiber f); auto. cbn; auto.
  - replace (nth 5 (map snd env) 0 + 1 - 1) with (pzeval (map snd env) (gen_t_photo_row f))
      by (rewrite E2, D; unfold gen_photo_row; lia).
    apply (checked_fiber f); auto. cbn; auto.
  - replace (nth 5 (map snd env) 0 + 1 - 1) with (pzeval (map snd env) (gen_t_z_row (gen_t_zbest_fiber f)))
      by (rewrite E3, D; unfold gen_z_row, gen_zbest_fiber; lia).
    apply (checked_fiber f); auto. cbn; auto 6.
  - replace ((nth 5 (map snd env) 0 + 1 - 1) * nth 1 (map snd env) 0 + nth 2 (map snd env) 0 - 1)
      with (pzeval (map snd env) (gen_t_z_row (gen_t_znum_fiber f)))
      by (rewrite E4, D; unfold gen_z_row, gen_znum_fiber; lia).
    apply (checked_fiber f); auto. cbn; auto 7.
Qed.

(* keys: every (platevec route, mjdvec route); the uint64 key is the model's key and decodes to the pair *)
Theorem storage_key pv mv env : In pv plate_routes -> In mv mjd_routes -> penv_ok c16_tab env ->
  let plate := nth 3 (map snd env) 0 in
  let mjd := pzeval (map snd env) mv in
  0 <= mjd < 2 ^ 16 /\
  typed_is env (gen_t_key pv mv) (key plate mjd) /\
  typed_is env (gen_t_key_plate (gen_t_key pv mv)) plate /\
  typed_is env (gen_t_key_mjd (gen_t_key pv mv)) mjd.
Proof.
  intros Hp Hm Henv. cbv zeta. unfold typed_is.
  pose proof (plate_denotes pv (map snd env) Hp) as Dp.
  destruct (erase_key pv mv (map snd env)) as (E1 & E2 & E3).
  assert (Rm : 0 <= pzeval (map snd env) mv < 2 ^ 16).
  { apply in_app_or in Hm. destruct Hm as [Hm|Hm].
    - rewrite (mjd_given_denotes _ _ Hm).
      destruct (penv_ok_nth _ _ Henv 4%nat false 0 65535 eq_refl) as (k & z & _ & -> & R & _). change (2 ^ 16) with 65536. lia.
    - rewrite (mjd_latest_denotes _ _ Hm).
      destruct (penv_ok_nth _ _ Henv 6%nat true 0 65535 eq_refl) as (k & z & _ & -> & R & _). change (2 ^ 16) with 65536. lia. }
  destruct (key_decode (nth 3 (map snd env) 0) (pzeval (map snd env) mv) Rm) as [K1 K2].
  split; [exact Rm|]. repeat split.
  - destruct (checked_key pv mv (gen_t_key pv mv) env Hp Hm ltac:(cbn; auto) Henv) as [t Ht].
    exists t. rewrite Ht. f_equal. rewrite E1, Dp. reflexivity.
  - destruct (checked_key pv mv (gen_t_key_plate (gen_t_key pv mv)) env Hp Hm ltac:(cbn; auto) Henv) as [t Ht].
    exists t. rewrite Ht. f_equal. rewrite E2, Dp. exact K1.
  - destruct (checked_key pv mv (gen_t_key_mjd (gen_t_key pv mv)) env Hp Hm ltac:(cbn; auto) Henv) as [t Ht].
    exists t. rewrite Ht. f_equal. rewrite E3, Dp. exact K2.
Qed.

(* the analysis discriminates: the same znum row computed from an int16 fibre number is rejected, and it does wrap
   (real spZall files: 134 fits per fibre; fibre 246, znum 134 lands on a negative index = a row of another fibre) *)
Lemma int16_rejected : all_checked c16_tab [gen_t_z_row (gen_t_znum_fiber (PCast I16 (PArr 0)))] = false.
Proof. vm_compute. reflexivity. Qed.
Lemma int16_wraps :
  peval (c16_env I64 246 134 134 I32 4055 I32 55359 I64 0 0) (gen_t_z_row (gen_t_znum_fiber (PCast I16 (PArr 0))))
  = PVal (Some I16) (-32573) /\ (246 - 1) * 134 + 134 - 1 = 32963.
Proof. split; vm_compute; reflexivity. Qed.

Lemma ex_storage :
  penv_ok c16_tab (c16_env I16 1000 134 134 I32 10000 U16 65535 I64 999 65535) /\
  (gen_t_fiber_given <> [] /\ gen_t_fiber_all <> [] /\ plate_routes <> [] /\ mjd_routes <> []) /\
  all_checked c16_tab c16_index_exprs = true /\
  all_checked c16_tab [gen_t_z_row (gen_t_znum_fiber (PCast I16 (PArr 0)))] = false /\
  peval (c16_env I64 246 134 134 I32 4055 I32 55359 I64 0 0) (gen_t_z_row (gen_t_znum_fiber (PCast I16 (PArr 0))))
    = PVal (Some I16) (-32573)%Z /\
  peval (c16_env I64 246 134 134 I32 4055 I32 55359 I64 0 0) (gen_t_z_row (gen_t_znum_fiber (PCast I32 (PArr 0))))
    = PVal (Some I32) 32963%Z.
Proof.
  split; [apply c16_env_ok; (reflexivity || lia)|].
  split; [repeat split; discriminate|].
  split; [exact c16_checked|].
  split; [exact int16_rejected|].
  split; vm_compute; reflexivity.
Qed.
