(* C01/C02/C03: the literals the hand-written scanners of coq/Yanny/Parse.v and Render.v were written for.
   Which scanner implements which regular expression of yanny.py: the entries of scanner_regexes below are in source
   order (method of class yanny, re function, literal); by entry number (the literals themselves cannot be quoted inside
   a Coq comment):

    1 get_token, quoted token          Parse.get_token, quoted branch (span to the closing quote, lstrip of the rest)
    2 get_token, braced token          Parse.get_token, brace branch (span to the first closing brace, strip, lstrip)
    3 get_token, split on blanks       Parse.get_token, bare branch (span not_ws, lstrip; maxsplit 1)
    4 protect, blank search            Render.needs_quote / Render.protect (together with the len = 0 and hash tests)
    5 type, trailing name of a typedef Parse.struct_entry (name group of match_typedef KW_STRUCT) + lookup_def: the typedef is
                                       selected by its own trailing name (the repaired lookup of fixes/C01-typedef-lookup-by-name)
    6 type, declaration of VAR         Parse.find_type = word_splits_aux (the non-blank word and the blanks before VAR)
                                       + check_decl (VAR, then a semicolon or an opening bracket)
                                       + last_close_semi (greedy up to the last closing bracket that is followed by a semicolon);
                                       normalise_array is the pair of str.replace calls that follows the match
    7 isarray, char with two brackets  Parse.match_char_arr + search_char_arr (used by Parse.isarray)
    8 isenum, enum typedef             Parse.enum_entry (match_typedef KW_ENUM: body and name groups)
    9 isenum, split on commas          Parse.split_commas (on the stripped body)
   10 _parse, continuation lines       Parse.join_cont (join_cont_aux, last_nl: the blank run is greedy up to its LAST newline)
   11 12 _parse, findall typedefs      Parse.findall_td KW_STRUCT / KW_ENUM (match_typedef at every position, leftmost, non-overlapping)
   13 14 _parse, remove typedefs       Parse.remove_td KW_STRUCT / KW_ENUM
   15 _parse, body and name of a struct  Parse.struct_entry / build_symtab (match_typedef KW_STRUCT on a text findall returned; there
                                       the optional and the mandatory name agree)
   16 _parse, declarations of a body   Parse.words + split_def_word + defs (struct_columns)
   17 _parse, split of one declaration the two words of one match, inside Parse.defs
   18 _parse, array suffix of a column Parse.cut_array
   19 20 _parse, comment / blank line  Parse.skip_line
   21 _parse, double braces            Parse.match_dbl + dbl_aux + double_braces (the tokenising rewrite of fixes/C01-double-brace-in-strings)

   trailing_comment() uses no regular expression (str.rfind / count): Parse.trailing_comment.  convert() and dtype() use the
   tables below: Parse.classify / conv1 (intTypes, floatTypes), Parse.col_dtype (dtmap of dtype), Render.ctype_word (dtmap of
   dtype_to_struct); protect()'s condition: Render.needs_quote.
   What a regex MEANS is tied to its scanner by the correspondence runs of C01/C02/C03 only; what this file
   adds is the obligation that the source still uses exactly these literals (Generated/YannyLits.v is
   regenerated from yanny.py on every run). *)
From Coq Require Import List String.
Import ListNotations.
From PV Require Import Yanny.Bytes Yanny.Parse Generated.YannyLits.
Open Scope string_scope.

Definition scanner_regexes : list (string * string * string) := [
  ("get_token", "search", "^""([^""]*)""\s*(.*)");
  ("get_token", "search", "^\{\s*([^}]*)\s*\}\s*(.*)");
  ("get_token", "split", "\s+");
  ("protect", "search", "\s+");
  ("type", "compile", "\}\s*(\w+)\s*;$");
  ("type", "compile", "(\S+)\s+{0}([\[<].*[\]>]|);   .format(variable)");
  ("isarray", "compile", "char[\[<]\d*[\]>][\[<]\d*[\]>]");
  ("isenum", "search", "typedef\s+enum\s*\{([^}]+)\}\s*(\w+)\s*;")
] ++ (* round 5: entry 8b, present iff isenum() strips comments from the block body (fixes/C02-enum-block-comments.diff):
        Parse.drop_hash_comments, switched by the generated flag yanny_enum_strips_comments in Parse.enum_entry *)
  (if yanny_enum_strips_comments then [("isenum", "sub", "#[^\n]*")] else []) ++ [
  ("isenum", "split", ",\s*");
  ("_parse", "sub", "\\\s*\n");
  ("_parse", "findall", "typedef\s+struct\s*\{[^}]+\}\s*\w+\s*;");
  ("_parse", "findall", "typedef\s+enum\s*\{[^}]+\}\s*\w+\s*;");
  ("_parse", "sub", "typedef\s+struct\s*\{[^}]+\}\s*\w+\s*;");
  ("_parse", "sub", "typedef\s+enum\s*\{[^}]+\}\s*\w+\s*;");
  ("_parse", "compile", "typedef\s+struct\s*\{([^}]+)\}\s*(\w*)\s*;");
  ("_parse", "findall", "\S+\s+\S+;");
  ("_parse", "split", "\s+");
  ("_parse", "sub", "[\[<].*[\]>]$");
  ("_parse", "compile", "^\s*#");
  ("_parse", "compile", "^\s*$");
  ("_parse", "compile", """[^""]*""|[^\s""{]\S*|\{\s*\{\s*\}\s*\}")
].

Definition scanner_dtmap_write : list (string * string) := [("i2", "short"); ("i4", "int"); ("i8", "long"); ("f4", "float"); ("f8", "double")].
Definition scanner_dtmap_read : list (string * string) := [("short", "i2"); ("int", "i4"); ("long", "i8"); ("float", "f"); ("double", "d")].
Definition scanner_int_types : list string := ["short"; "int"; "long"].
Definition scanner_float_types : list string := ["float"; "double"].
Definition scanner_protect_condition : string := "len(s) == 0 or s.find('#') >= 0 or re.search('\\s+', s) is not None".

Lemma regexes_are_the_scanners : yanny_regexes = scanner_regexes.
Proof. reflexivity. Qed.

Lemma tables_are_the_scanners :
  yanny_dtmap_write = scanner_dtmap_write /\ yanny_dtmap_read = scanner_dtmap_read /\
  yanny_int_types = scanner_int_types /\ yanny_float_types = scanner_float_types /\
  yanny_protect_condition = scanner_protect_condition.
Proof. repeat split; reflexivity. Qed.

(* the C type names of the writer's table are the keywords the reader model classifies *)
Lemma type_names_are_keywords :
  map (fun p => bs (snd p)) yanny_dtmap_write = [KW_SHORT; KW_INT; KW_LONG; KW_FLOAT; KW_DOUBLE] /\
  map (fun p => bs (fst p)) yanny_dtmap_read = [KW_SHORT; KW_INT; KW_LONG; KW_FLOAT; KW_DOUBLE] /\
  map bs yanny_int_types = [KW_SHORT; KW_INT; KW_LONG] /\ map bs yanny_float_types = [KW_FLOAT; KW_DOUBLE].
Proof. repeat split; reflexivity. Qed.
