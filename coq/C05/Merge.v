(* C05 -- the mapGroups union-find of chunks.friendsoffriends():
   invariant  map[g] <= g  (and map = identity above the groups created so far), the fuel lemma (every
   chase terminates within g+1 steps at a root), effect of path compression on the roots, and preservation
   of the invariant by the whole merge loop (merge_inv). *)
From Coq Require Import ZArith List Bool Arith Lia.
Import ListNotations.
From PV Require Import C05.Model C05.Algo.

Definition dec (mp : nat -> nat) : Prop := forall x, mp x <= x.
Definition rep (mp : nat -> nat) (c : nat) : nat := chase c mp c.

Lemma chase_S : forall mp, dec mp -> forall f c, c <= f -> chase (S f) mp c = chase f mp c.
Proof.
  intros mp Hd. induction f as [|f IH]; intros c Hc.
  - assert (c = 0) by lia. subst c. simpl. pose proof (Hd 0).
    destruct (Nat.eqb (mp 0) 0) eqn:E; [reflexivity|]. apply Nat.eqb_neq in E. lia.
  - change (chase (S (S f)) mp c) with (if Nat.eqb (mp c) c then c else chase (S f) mp (mp c)).
    change (chase (S f) mp c) with (if Nat.eqb (mp c) c then c else chase f mp (mp c)).
    destruct (Nat.eqb (mp c) c) eqn:E; [reflexivity|].
    apply Nat.eqb_neq in E. pose proof (Hd c). apply IH. lia.
Qed.

Lemma chase_rep : forall mp, dec mp -> forall f c, c <= f -> chase f mp c = rep mp c.
Proof.
  intros mp Hd f c Hc. unfold rep. induction Hc; [reflexivity|].
  rewrite chase_S; assumption.
Qed.

Lemma rep_root : forall mp c, mp c = c -> rep mp c = c.
Proof.
  intros mp c H. unfold rep. destruct c; [reflexivity|]. simpl. rewrite H, Nat.eqb_refl. reflexivity.
Qed.

Lemma rep_step : forall mp, dec mp -> forall c, mp c <> c -> rep mp c = rep mp (mp c).
Proof.
  intros mp Hd c H. unfold rep at 1. destruct c as [|c].
  - pose proof (Hd 0). lia.
  - simpl. apply Nat.eqb_neq in H. rewrite H. apply chase_rep; [exact Hd|].
    pose proof (Hd (S c)). apply Nat.eqb_neq in H. lia.
Qed.

(* the fuel lemma: under map[g] <= g a chase started at c ends, within c steps, at a root below c *)
Lemma rep_spec : forall mp, dec mp -> forall c, mp (rep mp c) = rep mp c /\ rep mp c <= c.
Proof.
  intros mp Hd c. induction c as [c IH] using lt_wf_ind.
  destruct (Nat.eq_dec (mp c) c) as [E|E].
  - rewrite (rep_root mp c E). split; [exact E|lia].
  - rewrite (rep_step mp Hd c E). pose proof (Hd c). destruct (IH (mp c) ltac:(lia)) as [H1 H2].
    split; [exact H1|lia].
Qed.

Theorem chase_terminates : forall mp, dec mp -> forall fuel c, c <= fuel ->
  mp (chase fuel mp c) = chase fuel mp c /\ chase fuel mp c <= c.
Proof. intros mp Hd fuel c Hc. rewrite (chase_rep mp Hd fuel c Hc). apply rep_spec. exact Hd. Qed.

Lemma upd_same : forall mp i v, upd mp i v i = v.
Proof. intros. unfold upd. rewrite Nat.eqb_refl. reflexivity. Qed.
Lemma upd_other : forall mp i v x, x <> i -> upd mp i v x = mp x.
Proof. intros. unfold upd. apply Nat.eqb_neq in H. rewrite H. reflexivity. Qed.

Lemma dec_upd : forall mp c m, dec mp -> m <= c -> dec (upd mp c m).
Proof.
  intros mp c m Hd Hm x. destruct (Nat.eq_dec x c) as [->|E]; [rewrite upd_same; exact Hm|rewrite upd_other by exact E; apply Hd].
Qed.

(* one pointer redirected to a root m <= c *)
Lemma upd_rep : forall mp c m, dec mp -> mp m = m -> m <= c ->
  let r := rep mp c in
  let mp1 := upd mp c m in
  forall y,
    (y < c -> rep mp1 y = rep mp y) /\
    (rep mp y <> r -> rep mp1 y = rep mp y) /\
    (rep mp y = r -> rep mp1 y = r \/ rep mp1 y = m) /\
    (y = c -> rep mp1 y = m).
Proof.
  intros mp c m Hd Hm Hmc r mp1.
  assert (Hd1 : dec mp1) by (apply dec_upd; assumption).
  assert (Hm1 : mp1 m = m).
  { unfold mp1. destruct (Nat.eq_dec m c) as [->|E]; [apply upd_same|rewrite upd_other by exact E; exact Hm]. }
  induction y as [y IH] using lt_wf_ind.
  destruct (Nat.eq_dec y c) as [->|Eyc].
  - assert (Hc : rep mp1 c = m).
    { destruct (Nat.eq_dec m c) as [<-|E].
      - apply rep_root. exact Hm1.
      - rewrite (rep_step mp1 Hd1 c); unfold mp1; rewrite upd_same; [|auto].
        apply rep_root. exact Hm1. }
    split; [lia|]. split; [intro H; exfalso; apply H; reflexivity|]. split; [intros _; right; exact Hc|intros _; exact Hc].
  - assert (Hy1 : mp1 y = mp y) by (unfold mp1; apply upd_other; exact Eyc).
    destruct (Nat.eq_dec (mp y) y) as [Er|Er].
    + assert (rep mp y = y) by (apply rep_root; exact Er).
      assert (rep mp1 y = y) by (apply rep_root; congruence).
      split; [intros; congruence|]. split; [intros; congruence|]. split; [intros; left; congruence|intro; contradiction].
    + rewrite (rep_step mp Hd y Er). rewrite (rep_step mp1 Hd1 y) by congruence. rewrite Hy1.
      pose proof (Hd y). destruct (IH (mp y) ltac:(lia)) as [I1 [I2 [I3 _]]].
      split; [intro; apply I1; lia|]. split; [exact I2|]. split; [exact I3|intro; contradiction].
Qed.

(* path compression from c towards the root m: the class of c joins the class of m, nothing else changes *)
Lemma compress_rep : forall fuel mp c m, dec mp -> mp m = m -> m <= rep mp c -> c <= fuel ->
  let mp' := compress (S fuel) mp c m in
  dec mp' /\ mp' m = m /\
  (forall y, rep mp' y = if Nat.eqb (rep mp y) (rep mp c) then m else rep mp y) /\
  (forall x, c < x -> mp' x = mp x).
Proof.
  induction fuel as [fuel IH] using lt_wf_ind. intros mp c m Hd Hm Hmr Hc.
  pose proof (rep_spec mp Hd c) as [Hr1 Hr2].
  assert (Hmc : m <= c) by lia.
  cbn [compress]. destruct (Nat.eqb (mp c) c) eqn:Ec.
  - (* c is the root *)
    apply Nat.eqb_eq in Ec. assert (Hrc : rep mp c = c) by (apply rep_root; exact Ec).
    cbv zeta. split; [apply dec_upd; assumption|]. split.
    + destruct (Nat.eq_dec m c) as [->|E]; [apply upd_same|rewrite upd_other by exact E; exact Hm].
    + split; [|intros x Hx; apply upd_other; lia].
      intro y. destruct (upd_rep mp c m Hd Hm Hmc y) as [_ [U2 [U3 _]]]. rewrite Hrc in *.
      destruct (Nat.eqb (rep mp y) c) eqn:Ey.
      * apply Nat.eqb_eq in Ey.
        (* the path of y ends at c, whose pointer now goes to m *)
        clear U2 U3. revert Ey. induction y as [y IHy] using lt_wf_ind. intro Ey.
        assert (Hd1 : dec (upd mp c m)) by (apply dec_upd; assumption).
        destruct (Nat.eq_dec y c) as [->|Eyc]; [destruct (upd_rep mp c m Hd Hm Hmc c) as [_ [_ [_ U4]]]; apply U4; reflexivity|].
        destruct (Nat.eq_dec (mp y) y) as [Er|Er]; [rewrite (rep_root mp y Er) in Ey; contradiction|].
        rewrite (rep_step _ Hd1 y) by (rewrite upd_other by exact Eyc; exact Er).
        rewrite upd_other by exact Eyc. pose proof (Hd y).
        apply IHy; [lia|]. rewrite <- (rep_step mp Hd y Er). exact Ey.
      * apply Nat.eqb_neq in Ey. apply U2. exact Ey.
  - (* c is not the root: redirect it and continue from its old parent *)
    apply Nat.eqb_neq in Ec. pose proof (Hd c) as Hdc.
    destruct fuel as [|fuel']; [lia|].
    set (mp1 := upd mp c m).
    assert (Hd1 : dec mp1) by (apply dec_upd; assumption).
    assert (Hm1 : mp1 m = m).
    { unfold mp1. destruct (Nat.eq_dec m c) as [->|E]; [apply upd_same|rewrite upd_other by exact E; exact Hm]. }
    assert (Hrc : rep mp c = rep mp (mp c)) by (apply rep_step; assumption).
    assert (Hr1c : rep mp1 (mp c) = rep mp (mp c)).
    { destruct (upd_rep mp c m Hd Hm Hmc (mp c)) as [U1 _]. apply U1. lia. }
    destruct (IH fuel' ltac:(lia) mp1 (mp c) m Hd1 Hm1 ltac:(rewrite Hr1c, <- Hrc; exact Hmr) ltac:(lia))
      as [A1 [A2 [A3 A4]]].
    cbv zeta in *. split; [exact A1|]. split; [exact A2|]. split.
    + intro y. rewrite A3, Hr1c, <- Hrc.
      destruct (upd_rep mp c m Hd Hm Hmc y) as [_ [U2 [U3 _]]]. fold mp1 in U2, U3.
      destruct (Nat.eqb (rep mp y) (rep mp c)) eqn:Ey.
      * apply Nat.eqb_eq in Ey. destruct (U3 Ey) as [H|H]; rewrite H.
        -- rewrite Nat.eqb_refl. reflexivity.
        -- destruct (Nat.eqb m (rep mp c)); reflexivity.
      * apply Nat.eqb_neq in Ey. rewrite (U2 Ey). apply Nat.eqb_neq in Ey. rewrite Ey. reflexivity.
    + intros x Hx. rewrite A4 by lia. unfold mp1. apply upd_other. lia.
Qed.

(* ------------------------------------------------------------------ the merge loop keeps the invariant *)
Definition minv (t : nat) (mp : nat -> nat) (ing : nat -> option nat) : Prop :=
  dec mp /\ (forall x, t <= x -> mp x = x) /\ (forall p e, ing p = Some e -> e < t).

Lemma rep_upd_above : forall mp t m, dec mp -> m <= t -> forall e, e < t -> rep (upd mp t m) e = rep mp e.
Proof.
  intros mp t m Hd Hm e. induction e as [e IH] using lt_wf_ind. intro He.
  assert (Hd1 : dec (upd mp t m)) by (apply dec_upd; assumption).
  assert (Hu : upd mp t m e = mp e) by (apply upd_other; lia).
  destruct (Nat.eq_dec (mp e) e) as [Er|Er].
  - rewrite !rep_root; congruence.
  - rewrite (rep_step _ Hd1 e) by congruence. rewrite (rep_step mp Hd e Er), Hu.
    pose proof (Hd e). apply IH; lia.
Qed.

(* what the first walk computes *)
Lemma pass1_spec : forall t mp, dec mp -> (forall x, t <= x -> mp x = x) ->
  forall g ing me,
  (forall p e, ing p = Some e -> e <= t) ->
  (forall m, me = Some m -> mp m = m /\ m <= t) ->
  let r := pass1 (S t) t mp g ing in
  (forall p e, fst (fold_left (fun st p => match fst st p with
                         | Some e => (fst st, omin (snd st) (chase (S t) mp e))
                         | None => (oset (fst st) p t, snd st)
                         end) g (ing, me)) p = Some e -> e <= t) /\
  (forall m, snd (fold_left (fun st p => match fst st p with
                         | Some e => (fst st, omin (snd st) (chase (S t) mp e))
                         | None => (oset (fst st) p t, snd st)
                         end) g (ing, me)) = Some m -> mp m = m /\ m <= t).
Proof.
  intros t mp Hd Hid. induction g as [|p g IH]; intros ing me Hing Hme r; [simpl; split; assumption|].
  cbn [fold_left fst snd]. destruct (ing p) as [e|] eqn:Ep.
  - apply IH; [exact Hing|]. intros m Hm.
    pose proof (Hing p e Ep) as He.
    destruct (chase_terminates mp Hd (S t) e ltac:(lia)) as [C1 C2].
    remember (chase (S t) mp e) as rr eqn:Err. clear Err.
    destruct me as [x|]; cbn [omin] in Hm; inversion Hm; subst.
    + destruct (Hme x eq_refl) as [X1 X2].
      destruct (Nat.min_spec x rr) as [[_ ->]|[_ ->]]; split; auto; lia.
    + split; [exact C1|lia].
  - apply IH; [|exact Hme]. intros q e. unfold oset. destruct (Nat.eqb q p); [intro H; inversion H; lia|apply Hing].
Qed.

(* ------------------------------------------------------------------ the second walk (path compression) *)
Lemma rep_in_dec : forall (x : nat) (l : list nat), {In x l} + {~ In x l}.
Proof. intros. apply in_dec. apply Nat.eq_dec. Qed.

(* roots (w.r.t. mp0) of the members of g that carry a provisional group number *)
Definition roots_of (mp0 : nat -> nat) (ing : nat -> option nat) (g : list nat) : list nat :=
  flat_map (fun p => match ing p with Some e => [rep mp0 e] | None => [] end) g.

Lemma pass2_spec : forall t m mp0 ing, dec mp0 -> mp0 m = m ->
  forall g mpk done,
  (forall p e, In p g -> ing p = Some e -> e <= t /\ m <= rep mp0 e) ->
  dec mpk -> mpk m = m ->
  (forall y, rep mpk y = if rep_in_dec (rep mp0 y) done then m else rep mp0 y) ->
  (forall r, In r done -> m <= r) ->
  (forall x, t < x -> mpk x = mp0 x) ->
  let mp' := pass2 (S t) g ing mpk m in
  dec mp' /\ mp' m = m /\
  (forall y, rep mp' y = if rep_in_dec (rep mp0 y) (done ++ roots_of mp0 ing g) then m else rep mp0 y) /\
  (forall x, t < x -> mp' x = mp0 x).
Proof.
  intros t m mp0 ing Hd0 Hm0. induction g as [|p g IH]; intros mpk done Hg Hdk Hmk Hrep Hdone Hab.
  - simpl. rewrite app_nil_r. auto.
  - cbn [pass2 fold_left]. change (fold_left _ g ?x) with (pass2 (S t) g ing x m).
    destruct (ing p) as [e|] eqn:Ep.
    + destruct (Hg p e (or_introl eq_refl) Ep) as [He Hme].
      assert (Hmr : m <= rep mpk e).
      { rewrite Hrep. destruct (rep_in_dec (rep mp0 e) done); [lia|exact Hme]. }
      destruct (compress_rep t mpk e m Hdk Hmk Hmr He) as [C1 [C2 [C3 C4]]]. cbv zeta in *.
      specialize (IH (compress (S t) mpk e m) (done ++ [rep mp0 e])).
      assert (Hroots : roots_of mp0 ing (p :: g) = rep mp0 e :: roots_of mp0 ing g).
      { unfold roots_of. simpl. rewrite Ep. reflexivity. }
      rewrite Hroots.
      replace (done ++ rep mp0 e :: roots_of mp0 ing g) with ((done ++ [rep mp0 e]) ++ roots_of mp0 ing g)
        by (rewrite <- app_assoc; reflexivity).
      apply IH; auto.
      * intros q e' Hq. apply Hg. right. exact Hq.
      * intro y. rewrite C3, !Hrep.
        destruct (rep_in_dec (rep mp0 y) done) as [Hy|Hy];
        destruct (rep_in_dec (rep mp0 e) done) as [He'|He'];
        destruct (rep_in_dec (rep mp0 y) (done ++ [rep mp0 e])) as [Hy2|Hy2];
        try (exfalso; apply Hy2; apply in_app_iff; left; exact Hy).
        -- rewrite Nat.eqb_refl. reflexivity.
        -- destruct (Nat.eqb m (rep mp0 e)); reflexivity.
        -- (* y not merged before, e's class already merged: y stays unless its root is m *)
           apply in_app_iff in Hy2. destruct Hy2 as [Hy2|[Hy2|[]]]; [contradiction|].
           exfalso. apply Hy. rewrite <- Hy2. exact He'.
        -- destruct (Nat.eqb (rep mp0 y) m) eqn:E; [apply Nat.eqb_eq in E; congruence|reflexivity].
        -- apply in_app_iff in Hy2. destruct Hy2 as [Hy2|[Hy2|[]]]; [contradiction|].
           rewrite <- Hy2, Nat.eqb_refl. reflexivity.
        -- destruct (Nat.eqb (rep mp0 y) (rep mp0 e)) eqn:E; [|reflexivity].
           apply Nat.eqb_eq in E. exfalso. apply Hy2. apply in_app_iff. right. left. auto.
      * intros r Hr. apply in_app_iff in Hr. destruct Hr as [Hr|[<-|[]]]; [apply Hdone; exact Hr|exact Hme].
      * intros x Hx. rewrite C4 by lia. apply Hab. exact Hx.
    + assert (Hroots : roots_of mp0 ing (p :: g) = roots_of mp0 ing g).
      { unfold roots_of. simpl. rewrite Ep. reflexivity. }
      rewrite Hroots. apply IH; auto. intros q e' Hq. apply Hg. right. exact Hq.
Qed.

(* ------------------------------------------------------------------ the first walk, in closed form *)
Definition p1step (fuel t : nat) (mp : nat -> nat) (st : (nat -> option nat) * option nat) (p : nat) :=
  match fst st p with
  | Some e => (fst st, omin (snd st) (chase fuel mp e))
  | None => (oset (fst st) p t, snd st)
  end.

Lemma pass1_unfold : forall fuel t mp g ing, pass1 fuel t mp g ing = fold_left (p1step fuel t mp) g (ing, None).
Proof. reflexivity. Qed.

Lemma pass1_gen : forall t mp, (mp t = t) -> forall g acc me,
  let r := fold_left (p1step (S t) t mp) g (acc, me) in
  (forall p, fst r p = match acc p with Some e => Some e | None => if rep_in_dec p g then Some t else None end) /\
  (snd r = None -> me = None /\ forall p, In p g -> acc p = None) /\
  (forall m, snd r = Some m ->
     (forall m', me = Some m' -> m <= m') /\
     (forall p e, In p g -> acc p = Some e -> m <= chase (S t) mp e) /\
     (me = Some m \/ m = t \/ exists p e, In p g /\ acc p = Some e /\ chase (S t) mp e = m)).
Proof.
  intros t mp Ht. induction g as [|p g IH]; intros acc me r.
  - subst r. simpl. split; [intro p; destruct (acc p); [reflexivity|destruct (rep_in_dec p []) as [[]|_]; reflexivity]|]. split.
    + intro H. split; [exact H|intros p []].
    + intros m H. split; [intros m' H'; rewrite H in H'; inversion H'; lia|]. split; [intros p e []|left; exact H].
  - subst r. cbn [fold_left].
    destruct (acc p) as [e|] eqn:Ep.
    + assert (Hs : p1step (S t) t mp (acc, me) p = (acc, omin me (chase (S t) mp e)))
        by (unfold p1step; cbn [fst snd]; rewrite Ep; reflexivity).
      rewrite Hs. clear Hs.
      remember (chase (S t) mp e) as rr eqn:Hrr.
      destruct (IH acc (omin me rr)) as [Q1 [Q2 Q3]]. split; [|split].
      * intro q. rewrite Q1. destruct (acc q) eqn:Eaq; [reflexivity|].
        destruct (rep_in_dec q g) as [H|H]; destruct (rep_in_dec q (p :: g)) as [H'|H']; try reflexivity.
        -- exfalso. apply H'. right. exact H.
        -- destruct H' as [->|H']; [congruence|contradiction].
      * intro H. apply Q2 in H. destruct H as [H _]. destruct me; discriminate.
      * intros m H. destruct (Q3 m H) as [R1 [R2 R3]].
        assert (Hle : m <= rr).
        { destruct me as [x|]; cbn [omin] in R1.
          - specialize (R1 _ eq_refl). lia.
          - specialize (R1 _ eq_refl). lia. }
        split; [|split].
        -- intros m' ->. cbn [omin] in R1. specialize (R1 _ eq_refl). lia.
        -- intros q e' [<-|Hq] Hacc; [rewrite Ep in Hacc; assert (e' = e) by congruence; subst e'; rewrite <- Hrr; exact Hle|eapply R2; eauto].
        -- destruct R3 as [R3|[R3|[q [e' [Hq [Ha Hc]]]]]].
           ++ destruct me as [x|]; cbn [omin] in R3.
              ** assert (Hmin : Nat.min x rr = m) by congruence.
                 destruct (Nat.min_spec x rr) as [[_ Hx]|[_ Hx]]; rewrite Hx in Hmin.
                 --- left. congruence.
                 --- right. right. exists p, e. split; [left; reflexivity|split; [exact Ep|congruence]].
              ** assert (Hmin : rr = m) by congruence.
                 right. right. exists p, e. split; [left; reflexivity|split; [exact Ep|congruence]].
           ++ right. left. exact R3.
           ++ right. right. exists q, e'. split; [right; exact Hq|split; assumption].
    + assert (Hs : p1step (S t) t mp (acc, me) p = (oset acc p t, me))
        by (unfold p1step; cbn [fst snd]; rewrite Ep; reflexivity).
      rewrite Hs. clear Hs.
      destruct (IH (oset acc p t) me) as [Q1 [Q2 Q3]]. split; [|split].
      * intro q. rewrite Q1. unfold oset. destruct (Nat.eqb q p) eqn:Eq.
        -- apply Nat.eqb_eq in Eq. subst q. rewrite Ep.
           destruct (rep_in_dec p (p :: g)) as [H|H]; [reflexivity|exfalso; apply H; left; reflexivity].
        -- apply Nat.eqb_neq in Eq. destruct (acc q) eqn:Eaq; [reflexivity|].
           destruct (rep_in_dec q g) as [H|H]; destruct (rep_in_dec q (p :: g)) as [H'|H']; try reflexivity.
           ++ exfalso. apply H'. right. exact H.
           ++ destruct H' as [->|H']; [congruence|contradiction].
      * intro H. apply Q2 in H. destruct H as [H1 H2]. split; [exact H1|].
        intros q [<-|Hq]; [exact Ep|]. specialize (H2 q Hq). unfold oset in H2.
        destruct (Nat.eqb q p); [discriminate|exact H2].
      * intros m H. destruct (Q3 m H) as [R1 [R2 R3]]. split; [exact R1|]. split.
        -- intros q e' [<-|Hq] Hacc; [congruence|]. apply (R2 q e' Hq). unfold oset.
           destruct (Nat.eqb q p) eqn:Eq; [apply Nat.eqb_eq in Eq; congruence|exact Hacc].
        -- destruct R3 as [R3|[R3|[q [e' [Hq [Ha Hc]]]]]]; [left; exact R3|right; left; exact R3|].
           unfold oset in Ha. destruct (Nat.eqb q p) eqn:Eq.
           ++ inversion Ha; subst e'. right. left. rewrite <- Hc. simpl. rewrite Ht, Nat.eqb_refl. reflexivity.
           ++ right. right. exists q, e'. split; [right; exact Hq|split; assumption].
Qed.
