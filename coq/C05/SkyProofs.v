(* C05 -- soundness of the certified link relation of C05/Sky.v with respect to the real-number separation. *)
From Coq Require Import ZArith List Bool Reals Lra Lia Arith.
From Interval Require Import Float.Specific_bigint Float.Specific_ops Float.Basic Real.Xreal
                             Interval.Interval Interval.Float_full.
From PV Require Import C05.Model C05.Algo C05.Sky.
Import ListNotations.
Local Open Scope R_scope.

(* ------------------------------------------------------------------ the real-number specification *)
Definition ratR (q : rat) : R := IZR (fst q) / IZR (snd q).
Definition radR (x : R) : R := x * PI / 180.
(* cosine of the angular separation of two positions (ra, dec) given in degrees: spherical law of cosines *)
Definition cossep (p q : rat * rat) : R :=
  sin (radR (ratR (snd p))) * sin (radR (ratR (snd q))) +
  cos (radR (ratR (snd p))) * cos (radR (ratR (snd q))) * cos (radR (ratR (fst p)) - radR (ratR (fst q))).
Definition LhiR (L rel abs : rat) : R := radR (ratR L) * ratR (one_plus rel) + ratR abs.
Definition LloR (L rel abs : rat) : R := radR (ratR L) * ratR (one_minus rel) - ratR abs.


(* ------------------------------------------------------------------ enclosures *)
Notation "x ∈ xi" := (contains (I.convert xi) (Xreal x)) (at level 70).

Lemma ratI_correct : forall q, den_pos q = true -> ratR q ∈ ratI q.
Proof.
  intros [a b] H. unfold den_pos in H. cbn [snd] in H. apply Z.ltb_lt in H.
  unfold ratI, ratR. cbn [fst snd].
  pose proof (I.div_correct prec _ _ _ _ (I.fromZ_correct prec a) (I.fromZ_correct prec b)) as C.
  cbn [Xbind2] in C. unfold Xdiv' in C. rewrite is_zero_false in C; [exact C|].
  apply not_0_IZR. lia.
Qed.

Lemma radI_correct : forall xi x, x ∈ xi -> radR x ∈ radI xi.
Proof.
  intros xi x H. unfold radI, radR.
  pose proof (I.mul_correct prec _ _ _ _ H (I.pi_correct prec)) as C1. cbn [Xbind2] in C1.
  pose proof (I.div_correct prec _ _ _ _ C1 (I.fromZ_correct prec 180)) as C.
  cbn [Xbind2] in C. unfold Xdiv' in C. rewrite is_zero_false in C; [exact C|].
  apply not_0_IZR. lia.
Qed.

Lemma sinI_correct : forall xi x, x ∈ xi -> sin x ∈ I.sin prec xi.
Proof. intros xi x H. exact (I.sin_correct prec _ _ H). Qed.
Lemma cosI_correct : forall xi x, x ∈ xi -> cos x ∈ I.cos prec xi.
Proof. intros xi x H. exact (I.cos_correct prec _ _ H). Qed.
Lemma mulI_correct : forall xi yi x y, x ∈ xi -> y ∈ yi -> x * y ∈ I.mul prec xi yi.
Proof. intros xi yi x y H1 H2. exact (I.mul_correct prec _ _ _ _ H1 H2). Qed.
Lemma addI_correct : forall xi yi x y, x ∈ xi -> y ∈ yi -> x + y ∈ I.add prec xi yi.
Proof. intros xi yi x y H1 H2. exact (I.add_correct prec _ _ _ _ H1 H2). Qed.
Lemma subI_correct : forall xi yi x y, x ∈ xi -> y ∈ yi -> x - y ∈ I.sub prec xi yi.
Proof. intros xi yi x y H1 H2. exact (I.sub_correct prec _ _ _ _ H1 H2). Qed.

Lemma ge0_correct : forall xi x, x ∈ xi -> ge0 xi = true -> 0 <= x.
Proof.
  intros xi x H G. unfold ge0 in G. pose proof (I.sign_large_correct xi) as S.
  destruct (I.sign_large xi); try discriminate.
  - specialize (S _ H). injection S as ->. lra.
  - specialize (S _ H). cbn [proj_val] in S. tauto.
Qed.
Lemma lt0_correct : forall xi x, x ∈ xi -> lt0 xi = true -> x < 0.
Proof.
  intros xi x H G. unfold lt0 in G. pose proof (I.sign_strict_correct xi) as S.
  destruct (I.sign_strict xi); try discriminate.
  specialize (S _ H). cbn [proj_val] in S. tauto.
Qed.

Definition pt_ok (p : rat * rat) (P : ptI) : Prop :=
  sin (radR (ratR (snd p))) ∈ p_sd P /\ cos (radR (ratR (snd p))) ∈ p_cd P /\
  sin (radR (ratR (fst p))) ∈ p_sa P /\ cos (radR (ratR (fst p))) ∈ p_ca P.

Lemma mkptI_correct : forall p, den_pos (fst p) = true -> den_pos (snd p) = true -> pt_ok p (mkptI p).
Proof.
  intros p Ha Hd. unfold pt_ok, mkptI. cbn [p_sd p_cd p_sa p_ca].
  pose proof (radI_correct _ _ (ratI_correct _ Ha)). pose proof (radI_correct _ _ (ratI_correct _ Hd)).
  repeat split; auto using sinI_correct, cosI_correct.
Qed.

Lemma dotI_correct : forall p q P Q, pt_ok p P -> pt_ok q Q -> cossep p q ∈ dotI P Q.
Proof.
  intros p q P Q (A1 & A2 & A3 & A4) (B1 & B2 & B3 & B4). unfold cossep. rewrite cos_minus. unfold dotI.
  apply addI_correct; [apply mulI_correct; assumption|].
  apply mulI_correct; [apply mulI_correct; assumption|].
  apply addI_correct; apply mulI_correct; assumption.
Qed.

Lemma cossep_sym : forall p q, cossep p q = cossep q p.
Proof.
  intros p q. unfold cossep.
  replace (radR (ratR (fst q)) - radR (ratR (fst p))) with (- (radR (ratR (fst p)) - radR (ratR (fst q)))) by ring.
  rewrite cos_neg. ring.
Qed.

Lemma cossep_refl : forall p, cossep p p = 1.
Proof.
  intro p. unfold cossep. replace (radR (ratR (fst p)) - radR (ratR (fst p))) with 0 by ring. rewrite cos_0.
  pose proof (sin2_cos2 (radR (ratR (snd p)))) as H. unfold Rsqr in H. lra.
Qed.

Lemma LhiI_correct : forall L rel abs, den_pos L = true -> den_pos rel = true -> den_pos abs = true ->
  LhiR L rel abs ∈ LhiI L rel abs.
Proof.
  intros L rel abs HL Hr Ha. unfold LhiR, LhiI.
  apply addI_correct; [apply mulI_correct|]; [apply radI_correct, ratI_correct, HL| |apply ratI_correct, Ha].
  apply ratI_correct. exact Hr.
Qed.
Lemma LloI_correct : forall L rel abs, den_pos L = true -> den_pos rel = true -> den_pos abs = true ->
  LloR L rel abs ∈ LloI L rel abs.
Proof.
  intros L rel abs HL Hr Ha. unfold LloR, LloI.
  apply subI_correct; [apply mulI_correct|]; [apply radI_correct, ratI_correct, HL| |apply ratI_correct, Ha].
  apply ratI_correct. exact Hr.
Qed.

(* ------------------------------------------------------------------ the triangle of decisions *)
Section Sound.
  Variable pts : list (rat * rat).
  Variable L rel abs : rat.
  Variable impl : nat -> nat -> bool.
  Let n := length pts.
  Let T := tri pts L rel abs impl.

  Lemma tri_get_lt : forall i j, (i < j)%nat -> (j < n)%nat ->
    tri_get T i j = decide impl (ptsI pts) (cHiI L rel abs) (cLoI L rel abs) i j.
  Proof.
    intros i j Hij Hj. unfold tri_get. destruct (Nat.ltb_spec i j); [|lia].
    unfold T, tri. fold n.
    rewrite (nth_indep _ [] (map (fun j0 => decide impl (ptsI pts) (cHiI L rel abs) (cLoI L rel abs) 0 j0) (seq 1 (n - 1))))
      by (rewrite map_length, seq_length; lia).
    rewrite (map_nth (fun i0 => map (fun j0 => decide impl (ptsI pts) (cHiI L rel abs) (cLoI L rel abs) i0 j0) (seq (S i0) (n - S i0))) (seq 0 n) 0%nat i).
    rewrite seq_nth by lia. cbn [plus].
    rewrite (nth_indep _ None (decide impl (ptsI pts) (cHiI L rel abs) (cLoI L rel abs) i 0))
      by (rewrite map_length, seq_length; lia).
    rewrite (map_nth (fun j0 => decide impl (ptsI pts) (cHiI L rel abs) (cLoI L rel abs) i j0)).
    rewrite seq_nth by lia. f_equal. lia.
  Qed.

  Lemma link_from_sym : forall (U : list (list (option bool))) i j, link_from U i j = link_from U j i.
  Proof.
    intros U i j. unfold link_from. destruct (Nat.eqb_spec i j) as [->|Hne].
    - rewrite Nat.eqb_refl. reflexivity.
    - destruct (Nat.eqb_spec j i); [congruence|]. unfold tri_get.
      destruct (Nat.ltb_spec i j), (Nat.ltb_spec j i); try lia; reflexivity.
  Qed.

  Lemma link_from_refl : forall (U : list (list (option bool))) i, link_from U i i = true.
  Proof. intros U i. unfold link_from. rewrite Nat.eqb_refl. reflexivity. Qed.

  Lemma ok_from_decided : ok_from T = true -> forall i j, (i < j)%nat -> (j < n)%nat -> tri_get T i j <> None.
  Proof.
    intros Hok i j Hij Hj. unfold tri_get. destruct (Nat.ltb_spec i j); [|lia].
    unfold ok_from in Hok. rewrite forallb_forall in Hok.
    assert (Hlen : length T = n) by (unfold T, tri; rewrite map_length, seq_length; reflexivity).
    assert (Hrow : In (nth i T []) T) by (apply nth_In; lia).
    specialize (Hok _ Hrow). rewrite forallb_forall in Hok.
    assert (Hrl : length (nth i T []) = (n - S i)%nat).
    { unfold T, tri. fold n.
      rewrite (nth_indep _ [] (map (fun j0 => decide impl (ptsI pts) (cHiI L rel abs) (cLoI L rel abs) 0 j0) (seq 1 (n - 1))))
        by (rewrite map_length, seq_length; lia).
      rewrite (map_nth (fun i0 => map (fun j0 => decide impl (ptsI pts) (cHiI L rel abs) (cLoI L rel abs) i0 j0) (seq (S i0) (n - S i0))) (seq 0 n) 0%nat i).
      rewrite map_length, seq_length, seq_nth by lia. reflexivity. }
    assert (Hin : In (nth (j - S i) (nth i T []) None) (nth i T [])) by (apply nth_In; lia).
    specialize (Hok _ Hin). destruct (nth (j - S i) (nth i T []) None); [discriminate|discriminate Hok].
  Qed.

  Hypothesis Hdens : dens_ok pts L rel abs = true.

  Lemma dens_parts : (forall p, In p pts -> den_pos (fst p) = true /\ den_pos (snd p) = true) /\
                     den_pos L = true /\ den_pos rel = true /\ den_pos abs = true.
  Proof.
    unfold dens_ok in Hdens. apply andb_prop in Hdens. destruct Hdens as [H1 Ha].
    apply andb_prop in H1. destruct H1 as [H1 Hr]. apply andb_prop in H1. destruct H1 as [H1 HL].
    split; [|tauto]. intros p Hp. rewrite forallb_forall in H1. specialize (H1 _ Hp).
    apply andb_prop in H1. exact H1.
  Qed.

  Lemma nth_ptsI : forall i p, nth_error pts i = Some p -> pt_ok p (nth i (ptsI pts) (nopt)).
  Proof.
    intros i p Hi. unfold ptsI.
    assert (Hlt : (i < length pts)%nat) by (apply nth_error_Some; congruence).
    rewrite (nth_indep _ nopt (mkptI p)) by (rewrite map_length; exact Hlt).
    rewrite map_nth. apply nth_error_nth with (d := p) in Hi. rewrite Hi.
    destruct dens_parts as [Hp _]. destruct (Hp p) as [Ha Hd].
    { rewrite <- Hi. apply nth_In. exact Hlt. }
    apply mkptI_correct; assumption.
  Qed.

  (* one decision, read against the reals *)
  Lemma decide_sound : forall i j p q, nth_error pts i = Some p -> nth_error pts j = Some q ->
    forall b, decide impl (ptsI pts) (cHiI L rel abs) (cLoI L rel abs) i j = Some b ->
    (b = true -> cos (LhiR L rel abs) <= cossep p q) /\ (b = false -> cossep p q < cos (LloR L rel abs)).
  Proof.
    intros i j p q Hi Hj b Hd. unfold decide in Hd.
    pose proof (dotI_correct p q _ _ (nth_ptsI i p Hi) (nth_ptsI j q Hj)) as Cd.
    destruct dens_parts as [_ [HL [Hr Ha]]].
    pose proof (cosI_correct _ _ (LhiI_correct L rel abs HL Hr Ha)) as Chi. fold (cHiI L rel abs) in Chi.
    pose proof (cosI_correct _ _ (LloI_correct L rel abs HL Hr Ha)) as Clo. fold (cLoI L rel abs) in Clo.
    set (d := dotI _ _) in *.
    assert (Hin : cert_in (cHiI L rel abs) d = true -> cos (LhiR L rel abs) <= cossep p q).
    { intro H. unfold cert_in in H. pose proof (ge0_correct _ _ (subI_correct _ _ _ _ Cd Chi) H). lra. }
    assert (Hout : cert_out (cLoI L rel abs) d = true -> cossep p q < cos (LloR L rel abs)).
    { intro H. unfold cert_out in H. pose proof (lt0_correct _ _ (subI_correct _ _ _ _ Cd Clo) H). lra. }
    destruct (cert_in (cHiI L rel abs) d), (cert_out (cLoI L rel abs) d); try discriminate;
      injection Hd as <-; split; intro; try discriminate; auto.
  Qed.

  (* soundness of the link bits: every `true' is a separation of at most Lhi, every `false' one above Llo *)
  Theorem sky_link_sound : ok_from T = true ->
    forall i j p q, nth_error pts i = Some p -> nth_error pts j = Some q ->
      (link_from T i j = true -> cos (LhiR L rel abs) <= cossep p q) /\
      (i <> j -> link_from T i j = false -> cossep p q < cos (LloR L rel abs)).
  Proof.
    intros Hok i j p q Hi Hj.
    assert (Hil : (i < n)%nat) by (apply nth_error_Some; congruence).
    assert (Hjl : (j < n)%nat) by (apply nth_error_Some; congruence).
    destruct (Nat.lt_total i j) as [Hlt|[->|Hgt]].
    - pose proof (tri_get_lt i j Hlt Hjl) as Eg. pose proof (ok_from_decided Hok i j Hlt Hjl) as Hn.
      unfold link_from. destruct (Nat.eqb_spec i j); [lia|].
      destruct (tri_get T i j) as [b|] eqn:Eb; [|congruence]. symmetry in Eg.
      destruct (decide_sound i j p q Hi Hj b Eg) as [A B]. split; [exact A|intros _; exact B].
    - rewrite Hi in Hj. injection Hj as <-. rewrite cossep_refl. split; [intros _; apply COS_bound|intros; congruence].
    - pose proof (tri_get_lt j i Hgt Hil) as Eg. pose proof (ok_from_decided Hok j i Hgt Hil) as Hn.
      rewrite (link_from_sym T i j). unfold link_from. destruct (Nat.eqb_spec j i); [lia|].
      destruct (tri_get T j i) as [b|] eqn:Eb; [|congruence]. symmetry in Eg.
      destruct (decide_sound j i q p Hj Hi b Eg) as [A B]. rewrite (cossep_sym p q). split; [exact A|intros _; exact B].
  Qed.
End Sound.

(* ------------------------------------------------------------------ the bit-mask rows read back *)
Lemma testbit_row_of : forall (f : nat -> bool) n j, Z.testbit (row_of f n) (Z.of_nat j) = (j <? n)%nat && f j.
Proof.
  intros f n j. unfold row_of.
  assert (G : forall l, Z.testbit (fold_right (fun j0 acc => if f j0 then Z.setbit acc (Z.of_nat j0) else acc) 0%Z l) (Z.of_nat j)
                        = existsb (Nat.eqb j) l && f j).
  { induction l as [|a l IH]; cbn [fold_right existsb].
    - rewrite Z.bits_0. reflexivity.
    - destruct (f a) eqn:Ea.
      + rewrite Z.setbit_eqb by lia. rewrite IH.
        destruct (Nat.eqb_spec j a) as [->|Hne].
        * rewrite Z.eqb_refl, Ea. reflexivity.
        * destruct (Z.eqb_spec (Z.of_nat a) (Z.of_nat j)); [lia|]. reflexivity.
      + rewrite IH. destruct (Nat.eqb_spec j a) as [->|Hne]; [rewrite Ea|]; cbn [orb];
          [rewrite !andb_false_r; reflexivity|reflexivity]. }
  rewrite G. f_equal.
  destruct (Nat.ltb_spec j n) as [H|H].
  - apply existsb_exists. exists j. split; [apply in_seq; lia|apply Nat.eqb_refl].
  - destruct (existsb (Nat.eqb j) (seq 0 n)) eqn:E; [|reflexivity].
    apply existsb_exists in E. destruct E as [x [Hx Hxe]]. apply in_seq in Hx. apply Nat.eqb_eq in Hxe. lia.
Qed.

Lemma link_of_rows_from : forall pts (U : list (list (option bool))) i j, (i < length pts)%nat -> (j < length pts)%nat ->
  link_of (rows_from pts U) i j = link_from U i j.
Proof.
  intros pts U i j Hi Hj. unfold link_of, rows_from.
  rewrite (nth_indep _ 0%Z (row_of (link_from U 0) (length pts))) by (rewrite map_length, seq_length; exact Hi).
  rewrite (map_nth (fun i0 => row_of (link_from U i0) (length pts))). rewrite seq_nth by exact Hi. cbn [plus].
  rewrite testbit_row_of. destruct (Nat.ltb_spec j (length pts)); [reflexivity|lia].
Qed.

(* ------------------------------------------------------------------ cossep >= cos t  <->  separation <= t *)
Lemma cossep_bound : forall p q, -1 <= cossep p q <= 1.
Proof.
  intros p q. unfold cossep.
  set (d1 := radR (ratR (snd p))). set (d2 := radR (ratR (snd q))). set (a := radR (ratR (fst p)) - radR (ratR (fst q))).
  pose proof (COS_bound a) as Ha. pose proof (cos_minus d1 d2) as Hm. pose proof (cos_plus d1 d2) as Hp.
  pose proof (COS_bound (d1 - d2)) as B1. pose proof (COS_bound (d1 + d2)) as B2.
  (* cossep = (1+cos a)/2 cos(d1-d2) - (1-cos a)/2 cos(d1+d2) *)
  assert (E : sin d1 * sin d2 + cos d1 * cos d2 * cos a
              = (1 + cos a) / 2 * cos (d1 - d2) - (1 - cos a) / 2 * cos (d1 + d2)) by (rewrite Hm, Hp; field).
  rewrite E. split; nra.
Qed.

Lemma acos_le_iff : forall c t, -1 <= c <= 1 -> 0 <= t <= PI -> (acos c <= t <-> cos t <= c).
Proof.
  intros c t Hc Ht. pose proof (acos_bound c) as Hb. split; intro H.
  - rewrite <- (cos_acos c) by lra. apply cos_decr_1; lra.
  - destruct (Rle_or_lt (acos c) t) as [G|G]; [exact G|].
    assert (cos (acos c) < cos t) by (apply cos_decreasing_1; lra).
    rewrite cos_acos in H0 by lra. lra.
Qed.

(* ------------------------------------------------------------------ the end-to-end theorem for the certified link *)
From PV Require Import C05.Full.

Theorem sky_link_sym : forall pts L rel abs impl i j, sky_link pts L rel abs impl i j = sky_link pts L rel abs impl j i.
Proof. intros pts L rel abs impl i j. unfold sky_link. exact (link_from_sym pts _ i j). Qed.
Theorem sky_link_refl : forall pts L rel abs impl i, sky_link pts L rel abs impl i i = true.
Proof. intros pts L rel abs impl i. unfold sky_link. exact (link_from_refl _ i). Qed.

Theorem sky_rows_link : forall pts L rel abs impl i j, (i < length pts)%nat -> (j < length pts)%nat ->
  link_of (sky_rows pts L rel abs impl) i j = sky_link pts L rel abs impl i j.
Proof. intros. unfold sky_rows, sky_link. apply link_of_rows_from; assumption. Qed.

Theorem sky_link_certified : forall pts L rel abs impl, sky_ok pts L rel abs impl = true ->
  forall i j p q, nth_error pts i = Some p -> nth_error pts j = Some q ->
    (sky_link pts L rel abs impl i j = true -> cos (LhiR L rel abs) <= cossep p q) /\
    (i <> j -> sky_link pts L rel abs impl i j = false -> cossep p q < cos (LloR L rel abs)).
Proof.
  intros pts L rel abs impl Hok. unfold sky_ok in Hok. apply andb_prop in Hok. destruct Hok as [Hd Hok].
  intros i j p q Hi Hj. unfold sky_link. exact (sky_link_sound pts L rel abs impl Hd Hok i j p q Hi Hj).
Qed.

Theorem spheregroup_sky_spec : forall pts L rel abs impl cells,
  (forall c a, In c cells -> In a c -> (a < length pts)%nat) ->
  pair_coverage (length pts) (sky_link pts L rel abs impl) cells ->
  spheregroup_full (length pts) (sky_link pts L rel abs impl) cells = spec_output (length pts) (sky_link pts L rel abs impl).
Proof.
  intros pts L rel abs impl cells Hc Hp.
  apply spheregroup_full_spec; auto.
  - intros; apply sky_link_sym.
  - intros; apply sky_link_refl.
Qed.
