(* C08 proofs: facts about the checkers of C08/Model.v; the theorems about the shared model live in
   BSpline/{EvalProofs,CoxDeBoor,BasisProofs,KnotsProofs,PermProofs}.v *)
From Coq Require Import QArith Qround Qabs Lqa List Bool Arith Lia.
Import ListNotations.
From PV Require Import Lib.WLS BSpline.Eval BSpline.EvalProofs BSpline.CoxDeBoor C08.Model.
Open Scope Q_scope.

(* the reduced-fraction evaluators used by the specification checker are the textbook recursion *)
Lemma zmul_eq r b : zmul r b == r * b.
Proof.
  unfold zmul. destruct (Qeq_bool b 0) eqn:E; [|reflexivity].
  apply Qeq_bool_iff in E. rewrite E. ring.
Qed.

Lemma Bq_eq t m : forall i x, Bq t m i x == B t m i x.
Proof.
  induction m as [|m IH]; intros i x; cbn [Bq B]; [reflexivity|].
  rewrite Qred_correct, !zmul_eq, !IH. reflexivity.
Qed.

Lemma Blq_eq t m : forall i x, Blq t m i x == Bl t m i x.
Proof.
  induction m as [|m IH]; intros i x; cbn [Blq Bl]; [reflexivity|].
  rewrite Qred_correct, !zmul_eq, !IH. reflexivity.
Qed.

Lemma splineq_from_eq (f g : nat -> Q -> Q) c : (forall i x, f i x == g i x) ->
  forall i x, splineq_from f c i x == spline_from g c i x.
Proof.
  intros H. induction c as [|a c IH]; intros i x; cbn [splineq_from spline_from]; [reflexivity|].
  rewrite Qred_correct, H, IH. reflexivity.
Qed.

Lemma splineq_eq t c k x : splineq t c k x == spline t c k x.
Proof. unfold splineq, spline. apply splineq_from_eq. intros; apply Bq_eq. Qed.

Lemma splineq_left_eq t c k x : splineq_left t c k x == spline_left t c k x.
Proof. unfold splineq_left, spline_left. apply splineq_from_eq. intros; apply Blq_eq. Qed.

(* the validity mask while no breakpoint is masked: False exactly outside [t_{k-1}, t_n] *)
Lemma select_all_true {A} (l : list A) : select (repeat true (length l)) l = l.
Proof. induction l as [|a l IH]; cbn; [reflexivity|]. now rewrite IH. Qed.

Lemma good_positions_all_true n : forall p, good_positions (repeat true n) p = seq p n.
Proof. induction n as [|n IH]; intros p; cbn; [reflexivity|]. now rewrite IH. Qed.

Lemma gaps_seq bk n : forall p, gaps bk (seq p n) = [].
Proof.
  induction n as [|n IH]; intros p; [reflexivity|].
  cbn [seq]. destruct n as [|n]; [reflexivity|].
  cbn [seq gaps]. replace (S p - p)%nat with 1%nat by lia. cbn [Nat.ltb Nat.leb].
  exact (IH (S p)).
Qed.

Lemma mask_spec bk k x :
  point_mask bk (repeat true (length bk)) k x = false <->
  (x < nthQ bk (k - 1) \/ nthQ bk (length bk - k) < x).
Proof.
  unfold point_mask. rewrite select_all_true, good_positions_all_true, gaps_seq.
  cbn [forallb]. rewrite andb_true_r. unfold in_range_mask.
  rewrite negb_false_iff, orb_true_iff, !Qltb_lt. reflexivity.
Qed.

(* ------------------------------------------------------------------ evaluation = Cox-de Boor spline *)
From PV Require Import BSpline.BasisProofs BSpline.KnotsProofs.

(* every x of the breakpoint range (t_{k-1}, t_n] is evaluated to the left-continuous spline,
   the left end point t_{k-1} to the (right-continuous) textbook spline *)
Theorem eval1_is_spline_left gb k c x :
  nondecr gb -> (1 <= k)%nat -> (2 * k <= length gb)%nat -> length c = (length gb - k)%nat ->
  nthQ gb (k - 1) < x -> x <= nthQ gb (length gb - k) ->
  eval1 gb k c x == spline_left gb c k x.
Proof.
  intros Hnd Hk Hg Hc Hlo Hhi. unfold eval1.
  destruct (intrv1_spec gb k x Hk Hg) as [[H1 H2] [H3 H4]].
  set (l := intrv1 gb k x) in *.
  apply eval_at_is_spline_left; try assumption; try lia.
  - destruct (Nat.eq_dec l (k - 1)) as [E|E]; [rewrite E; exact Hlo | apply H3; lia].
  - destruct (Nat.eq_dec l (length gb - k - 1)) as [E|E].
    + replace (S l) with (length gb - k)%nat by lia. exact Hhi.
    + apply H4. lia.
Qed.

Theorem eval1_is_spline_at_left_end gb k c x :
  nondecr gb -> (1 <= k)%nat -> (2 * k <= length gb)%nat -> length c = (length gb - k)%nat ->
  x == nthQ gb (k - 1) -> nthQ gb (k - 1) < nthQ gb k ->
  eval1 gb k c x == spline gb c k x.
Proof.
  intros Hnd Hk Hg Hc Hx Hlt. unfold eval1.
  destruct (intrv1_spec gb k x Hk Hg) as [[H1 H2] [H3 H4]].
  set (l := intrv1 gb k x) in *.
  assert (El : l = (k - 1)%nat).
  { destruct (Nat.eq_dec l (k - 1)) as [E|E]; [exact E|exfalso].
    assert (Hl : nthQ gb l < x) by (apply H3; lia).
    assert (Hm : nthQ gb (k - 1) <= nthQ gb l) by (apply Hnd; lia).
    rewrite Hx in Hl. apply (Qlt_not_le _ _ Hl Hm). }
  rewrite El. apply eval_at_is_spline; try assumption; try lia.
  - rewrite Hx. apply Qle_refl.
  - rewrite Hx. replace (S (k - 1)) with k by lia. exact Hlt.
Qed.

(* orders >= 2 on distinct knots: the two conventions agree, so every point of the breakpoint range
   gets the value of THE B-spline of the knots and coefficients *)
Theorem value_is_spline gb k c x :
  incr gb -> (2 <= k)%nat -> (2 * k <= length gb)%nat -> length c = (length gb - k)%nat ->
  nthQ gb (k - 1) <= x -> x <= nthQ gb (length gb - k) ->
  eval1 gb k c x == spline gb c k x.
Proof.
  intros Hi Hk Hg Hc Hlo Hhi.
  assert (Hnd : nondecr gb) by (apply incr_nondecr; exact Hi).
  destruct (Qlt_le_dec (nthQ gb (k - 1)) x) as [Hlt|Hle].
  - rewrite eval1_is_spline_left by (try assumption; lia).
    apply spline_left_eq_spline; try assumption; try lia.
  - apply eval1_is_spline_at_left_end; try assumption; try lia.
    + apply Qle_antisym; assumption.
    + replace k with (S (k - 1)) at 2 by lia. apply Hi. lia.
Qed.

(* ------------------------------------------------------------------ value(): caller's order *)
From PV Require Import BSpline.PermProofs.

Lemma unsort_indep {A} (d d' : A) p s : is_perm p (length s) = true -> unsort d p s = unsort d' p s.
Proof.
  intro Hp. destruct (is_perm_spec p (length s) Hp) as [Hl [_ Hin]].
  unfold unsort. apply map_ext_in. intros j Hj. apply in_seq in Hj.
  apply nth_indep. destruct (nth_index_of j p) as [_ H]; [apply Hin; lia | lia].
Qed.

Lemma apply_perm_indep {A} (d d' : A) p l : is_perm p (length l) = true -> apply_perm d p l = apply_perm d' p l.
Proof.
  intro Hp. destruct (is_perm_spec p (length l) Hp) as [_ [_ Hin]].
  unfold apply_perm. apply map_ext_in. intros i Hi. apply nth_indep. apply Hin. exact Hi.
Qed.

Lemma select_all_true_skipn {A} k (bk : list A) (coeff : list Q) :
  length coeff = (length bk - k)%nat -> select (skipn k (repeat true (length bk))) coeff = coeff.
Proof.
  intro H. replace (skipn k (repeat true (length bk))) with (repeat true (length coeff)).
  - apply select_all_true.
  - rewrite H. clear H. revert k. induction (length bk) as [|n IH]; intros k.
    + destruct k; reflexivity.
    + destruct k as [|k]; [rewrite Nat.sub_0_r; reflexivity|]. cbn [repeat skipn Nat.sub]. apply IH.
Qed.

Theorem value_in_caller_order bk k coeff xs perm :
  (1 <= k)%nat -> (2 * k <= length bk)%nat -> length coeff = (length bk - k)%nat ->
  is_perm perm (length xs) = true -> sortedQ (apply_perm 0 perm xs) = true ->
  value bk (repeat true (length bk)) k coeff xs perm
  = (map (eval1 bk k coeff) xs, map (point_mask bk (repeat true (length bk)) k) xs).
Proof.
  intros Hk Hg Hc Hp Hs. unfold value.
  rewrite select_all_true, (select_all_true_skipn k bk coeff Hc).
  f_equal.
  rewrite (value_sorted_pointwise_gen bk k coeff _ Hk Hg Hs).
  rewrite <- (apply_perm_map (eval1 bk k coeff) 0 perm xs).
  rewrite (unsort_indep 0 (eval1 bk k coeff 0)).
  - apply unsort_apply. rewrite map_length. exact Hp.
  - rewrite length_apply_perm. destruct (is_perm_spec _ _ Hp) as [Hl _]. rewrite Hl. exact Hp.
Qed.

(* permuting the evaluation points permutes values and mask identically *)
Theorem value_perm_equivariant bk k coeff xs q p p' :
  (1 <= k)%nat -> (2 * k <= length bk)%nat -> length coeff = (length bk - k)%nat ->
  is_perm q (length xs) = true ->
  is_perm p (length xs) = true -> sortedQ (apply_perm 0 p xs) = true ->
  is_perm p' (length (apply_perm 0 q xs)) = true -> sortedQ (apply_perm 0 p' (apply_perm 0 q xs)) = true ->
  let bm := repeat true (length bk) in
  value bk bm k coeff (apply_perm 0 q xs) p'
  = (apply_perm 0 q (fst (value bk bm k coeff xs p)), apply_perm true q (snd (value bk bm k coeff xs p))).
Proof.
  intros Hk Hg Hc Hq Hp Hs Hp' Hs' bm. unfold bm.
  rewrite (value_in_caller_order bk k coeff (apply_perm 0 q xs) p' Hk Hg Hc Hp' Hs').
  rewrite (value_in_caller_order bk k coeff xs p Hk Hg Hc Hp Hs). cbn [fst snd].
  f_equal.
  - rewrite <- apply_perm_map. apply apply_perm_indep. rewrite map_length. exact Hq.
  - rewrite <- apply_perm_map. apply apply_perm_indep. rewrite map_length. exact Hq.
Qed.
