(* C14 proofs, part 6 (round 5): rebin for every rank, by induction over the list of axes.
   - the GENERATED plan of the axis loop is the reference plan (pass k acts on nesting level k);
   - M = S for every rank; exactly the requested shape; ValueError iff rank change / non-integral factor;
   - ranks 1, 2, 3 are rebin1 / rebin2 / rebin3;
   - the leading-axis pass of an (n+1)-D array acts on every line x[:, j1, ..., jn] as the 1-D rule. *)
From Coq Require Import ZArith QArith Qround Qabs List Bool Lia ZifyBool.
Import ListNotations.
From PV Require Import Generated.Rebin C14.Model C14.Proofs C14.ProofsRebin C14.ProofsLift.
Open Scope Z_scope.
Ltac Zify.zify_post_hook ::= Z.to_euclidean_division_equations.

(* ------------------------------------------------------------------ the generated axis plan *)

Theorem axis_plan_ok_true rank : axis_plan_ok rank = true.
Proof.
  unfold axis_plan_ok, rebin_loop_count, rebin_scratch_fresh, rebin_pass_feeds_next, rebin_pass_keeps_dtype,
    rebin_pos_d, rebin_pos_d0, rebin_pos_newshape, rebin_pos_newextent, rebin_pos_src, rebin_pos_hi,
    rebin_pos_dst, rebin_pos_sum.
  rewrite Z.eqb_refl. cbn [andb]. apply forallb_forall. intros t _. cbv zeta. rewrite Z.eqb_refl. reflexivity.
Qed.

(* ------------------------------------------------------------------ M = S for every rank *)

Lemma ops_nd_agree {T} (oM oS : ops T) n : ops_agree oM oS -> ops_agree (ops_nd oM n) (ops_nd oS n).
Proof. intros H. induction n as [|n IH]; cbn [ops_nd]; [exact H|apply ops_lift_agree, IH]. Qed.

Lemma rebin_nd_axes_refines k s n : forall x d,
  rebin_nd_axes (@rebin_axis) ops_gen k s n x d = rebin_nd_axes (@rebin_axis_spec) ops_elem k s n x d.
Proof.
  induction n as [|n IH]; intros x d; cbn [rebin_nd_axes]; [reflexivity|].
  destruct d as [|a r]; [reflexivity|].
  rewrite (rebin_axis_refines_spec _ (ops_nd (ops_elem k) n) (ops_nd (ops_gen k) n))
    by apply ops_nd_agree, ops_gen_agree.
  apply map_ext. intros sub. apply IH.
Qed.

Theorem rebin_nd_refines k s n x d : rebin_nd k s n x d = rebin_nd_spec k s n x d.
Proof.
  unfold rebin_nd, rebin_nd_spec, rebin_nd_with.
  rewrite dims_ok_gen_eq, axis_plan_ok_true, rebin_nd_axes_refines. reflexivity.
Qed.

(* ------------------------------------------------------------------ shape, rejection *)

Lemma shape_nd_length n : forall x, length (shape_nd n x) = n.
Proof. induction n as [|n IH]; intros x; cbn [shape_nd length]; [reflexivity|rewrite IH; reflexivity]. Qed.

(* y has exactly the shape d: d has one extent per nesting level and every sub-array has the remaining shape *)
Fixpoint has_shape (n : nat) : ndT Q n -> list Z -> Prop :=
  match n with
  | O => fun _ d => d = []
  | S m => fun y d => match d with
                      | [] => False
                      | a :: r => lenZ y = a /\ Forall (fun sub => has_shape m sub r) y
                      end
  end.

Lemma rebin_nd_axes_shape k s n : forall x d, length d = n -> Forall (fun a => 0 <= a) d ->
  has_shape n (rebin_nd_axes (@rebin_axis_spec) ops_elem k s n x d) d.
Proof.
  induction n as [|n IH]; intros x d L P.
  - destruct d; [reflexivity|discriminate].
  - destruct d as [|a r]; [discriminate|]. cbn [rebin_nd_axes has_shape].
    inversion P as [|a0 r0 Pa Pr]; subst. cbn [length] in L. split.
    + unfold lenZ. rewrite map_length, rebin_axis_spec_length by exact Pa. lia.
    + apply Forall_forall. intros sub Hs. apply in_map_iff in Hs. destruct Hs as [s0 [<- _]].
      apply IH; [lia|exact Pr].
Qed.

Theorem rebin_nd_shape k s n x d y : Forall (fun a => 0 <= a) d -> rebin_nd k s n x d = RN y -> has_shape n y d.
Proof.
  intros P. rewrite rebin_nd_refines. unfold rebin_nd_spec, rebin_nd_with.
  destruct (dims_ok (shape_nd n x) d) eqn:E; [|discriminate]. intros H.
  assert (Y : y = rebin_nd_axes (@rebin_axis_spec) ops_elem k s n x d).
  { refine (match H in _ = r return match r with RN y' => y' = _ | _ => True end with eq_refl => eq_refl end). }
  subst y. apply rebin_nd_axes_shape; [|exact P].
  apply dims_ok_length in E. rewrite shape_nd_length in E. lia.
Qed.

Theorem rebin_nd_rejects k s n x d : rebin_nd k s n x d = RNValueError <-> ~ Forall2 factor_ok (shape_nd n x) d.
Proof.
  rewrite rebin_nd_refines. unfold rebin_nd_spec, rebin_nd_with. rewrite <- dims_ok_iff.
  destruct (dims_ok (shape_nd n x) d); split; intros H; try discriminate; try reflexivity.
  exfalso. apply H. reflexivity.
Qed.

Theorem rebin_nd_rejects_rank_change k s n x d : length d <> n -> rebin_nd k s n x d = RNValueError.
Proof.
  intros H. apply rebin_nd_rejects. intros F. apply Forall2_length in F. rewrite shape_nd_length in F. congruence.
Qed.

(* ------------------------------------------------------------------ ranks 1, 2, 3 *)

Definition conv1 (r : rres) : rresN 1 := match r with R1 y => RN (n:=1) y | RValueError => RNValueError | _ => RNOther end.
Definition conv2 (r : rres) : rresN 2 := match r with R2 y => RN (n:=2) y | RValueError => RNValueError | _ => RNOther end.
Definition conv3 (r : rres) : rresN 3 := match r with R3 y => RN (n:=3) y | RValueError => RNValueError | _ => RNOther end.

Lemma shape_nd_2 (x : list (list Q)) : shape_nd 2 x = shape2 x.
Proof. unfold shape2. cbn [shape_nd]. destruct x; reflexivity. Qed.

Theorem rebin_nd_is_rebin123 k s :
  (forall x d, rebin_nd k s 1 x d = conv1 (rebin1 k s x d)) /\
  (forall x d, rebin_nd k s 2 x d = conv2 (rebin2 k s x d)) /\
  (forall x d, rebin_nd k s 3 x d = conv3 (rebin3 k s x d)).
Proof.
  repeat split; intros x d.
  - unfold rebin_nd, rebin_nd_with, rebin1, rebin1_with. rewrite axis_plan_ok_true.
    change (shape_nd 1 x) with (shape1 x).
    destruct (dims_ok_gen (shape1 x) d) eqn:E; [|reflexivity].
    rewrite dims_ok_gen_eq in E. apply dims_ok_length in E. cbn in E.
    destruct d as [|a [|b r]]; try discriminate. cbn [rebin_nd_axes conv1 ops_nd]. rewrite map_id. reflexivity.
  - unfold rebin_nd, rebin_nd_with, rebin2, rebin2_with. rewrite axis_plan_ok_true, shape_nd_2.
    destruct (dims_ok_gen (shape2 x) d) eqn:E; [|reflexivity].
    rewrite dims_ok_gen_eq in E. apply dims_ok_length in E. cbn in E.
    destruct d as [|a [|b [|c r]]]; try discriminate. cbn [rebin_nd_axes conv2 ops_nd]. f_equal.
    apply map_ext. intros row. rewrite map_id. reflexivity.
  - unfold rebin_nd, rebin_nd_with, rebin3, rebin3_with. rewrite axis_plan_ok_true.
    replace (shape_nd 3 x) with (shape3 x) by (unfold shape3; cbn [shape_nd dflt_nd]; reflexivity).
    destruct (dims_ok_gen (shape3 x) d) eqn:E; [|reflexivity].
    rewrite dims_ok_gen_eq in E. apply dims_ok_length in E. cbn in E.
    destruct d as [|a [|b [|c [|e r]]]]; try discriminate. cbn [rebin_nd_axes conv3 ops_nd]. f_equal.
    rewrite map_map. apply map_ext. intros plane. apply map_ext. intros row. rewrite map_id. reflexivity.
Qed.

(* ------------------------------------------------------------------ the lifted pass acts line by line, any depth *)

Section LiftN.
  Variable T : Type.
  Variable o : ops T.

  (* the line x[:, j1, ..., jn] of an (n+1)-D array x (a list of n-D sub-arrays) *)
  Fixpoint lineN (n : nat) : list nat -> list (ndT T n) -> list T :=
    match n with
    | O => fun _ x => x
    | S m => fun p x => match p with
                        | [] => []
                        | j :: q => lineN m q (colT (ops_nd o m) j x)
                        end
    end.

  (* the n-D array y has the extents c *)
  Fixpoint extents (n : nat) : list nat -> ndT T n -> Prop :=
    match n with
    | O => fun c _ => c = []
    | S m => fun c y => match c with
                        | [] => False
                        | c1 :: cr => length y = c1 /\ Forall (extents m cr) y
                        end
    end.

  Lemma extents_col m c1 cr (x : list (ndT T (S m))) j :
    Forall (extents (S m) (c1 :: cr)) x -> (j < c1)%nat ->
    rect c1 x /\ Forall (extents m cr) (colT (ops_nd o m) j x).
  Proof.
    intros F Hj. rewrite Forall_forall in F. split.
    - apply Forall_forall. intros r Hr. apply (F r Hr).
    - apply Forall_forall. intros e He. unfold colT in He. apply in_map_iff in He. destruct He as [r [<- Hr]].
      destruct (F r Hr) as [L Fr]. rewrite Forall_forall in Fr. apply Fr. apply nth_In. rewrite <- L in Hj. exact Hj.
  Qed.

  Theorem lifted_axis_linewise sample a n : forall (x : list (ndT T n)) (c p : list nat),
    x <> [] -> Forall (extents n c) x -> Forall2 lt p c ->
    lineN n p (rebin_axis_spec (ops_nd o n) sample x a) = rebin_axis_spec o sample (lineN n p x) a.
  Proof.
    induction n as [|m IH]; intros x c p NE F P.
    - reflexivity.
    - destruct P as [|j c1 q cr Hj Pq].
      + destruct x as [|y x']; [congruence|]. inversion F as [|? ? Fy _]. destruct Fy.
      + cbn [lineN]. destruct (extents_col m c1 cr x j F Hj) as [R Fc].
        transitivity (lineN m q (rebin_axis_spec (ops_nd o m) sample (colT (ops_nd o m) j x) a)).
        { f_equal. exact (lifted_axis_columnwise (ndT T m) (ops_nd o m) sample x a c1 j R Hj). }
        apply (IH _ cr q); [|exact Fc|exact Pq].
        unfold colT. destruct x; [congruence|discriminate].
  Qed.
End LiftN.

(* ------------------------------------------------------------------ exact comparison with a double *)

(* when the exact mean is itself a double, only that very number is accepted *)
Theorem rounds_to_exact q r : representable q = true -> rounds_to q r = true -> (q == r)%Q.
Proof. intros H. unfold rounds_to. rewrite H. apply Qeq_bool_iff. Qed.

Theorem rounds_to_refl q : rounds_to q q = true.
Proof.
  unfold rounds_to. destruct (representable q); [apply Qeq_bool_iff; reflexivity|].
  apply Qle_bool_iff. setoid_replace (q - q)%Q with 0%Q by ring. cbn [Qabs Z.abs Qnum Qden].
  apply Qmult_le_0_compat; [apply Qabs_nonneg|discriminate].
Qed.
