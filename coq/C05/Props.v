(* C05 -- spheregroup partitions points into friends-of-friends components.
   Property theorems only; each is closed by `exact` and followed by Print Assumptions.
   R n link a b  :=  a < n /\ b < n /\ link a b = true      (the linking relation of the n points)
   E n link      :=  clos_refl_sym_trans nat (R n link)      (chains of links) *)
From Coq Require Import ZArith List Bool Arith Relations.
Import ListNotations.
From PV Require Import C05.Model C05.Proofs.

(* soundness and completeness of the oracle `components`: same label <-> joined by a chain of links;
   labels are exactly 0..ngroups-1; groups are numbered in order of their first member *)
Theorem C05_components_spec : forall n link,
  (forall i, i < n -> nth_error (components n link) i = Some (label n link i)) /\
  (forall i j, i < n -> j < n -> (label n link i = label n link j <-> clos_refl_sym_trans nat (R n link) i j)) /\
  (forall i, i < n -> label n link i < ngroups n link) /\
  (forall g, g < ngroups n link -> exists i, i < n /\ label n link i = g) /\
  (forall i j, i < n -> j < n -> label n link i < label n link j ->
     exists i', i' < j /\ label n link i' = label n link i).
Proof.
  exact (fun n link => conj (components_nth n link) (conj (label_same_iff n link) (conj (label_range n link)
          (conj (label_onto n link) (label_order n link))))).
Qed.
Print Assumptions C05_components_spec.

(* the three list arrays describe the partition given by any labelling lab:
   multiplicity = size, first = least member (or -1), following next from first visits the members
   increasingly, each exactly once, and ends at -1 (the walk has fuel n+1 and at most n members);
   entries beyond the last group are 0 and -1 *)
Theorem C05_lists_spec : forall n lab,
  (forall g, g < n ->
     nth_error (fst (fst (lists_of n lab))) g = Some (mult_of n lab g) /\
     nth_error (snd (fst (lists_of n lab))) g = Some (first_of n lab g) /\
     nth_error (snd (lists_of n lab)) g = Some (next_of n lab g)) /\
  (forall g i, In i (members n lab g) <-> (i < n /\ lab i = g)) /\
  (forall g, mult_of n lab g = Z.of_nat (length (members n lab g))) /\
  (forall g, match members n lab g with
             | [] => first_of n lab g = (-1)%Z
             | i :: _ => first_of n lab g = Z.of_nat i /\ forall j, j < n -> lab j = g -> i <= j
             end) /\
  (forall g, walk (S n) (next_of n lab) (first_of n lab g) = members n lab g) /\
  (forall ng g, (forall i, i < n -> lab i < ng) -> ng <= g ->
     mult_of n lab g = 0%Z /\ first_of n lab g = (-1)%Z).
Proof.
  exact (fun n lab => conj (lists_of_nth n lab) (conj (members_spec n lab) (conj (mult_size n lab)
          (conj (first_least n lab) (conj (walk_members n lab) (beyond_groups n lab)))))).
Qed.
Print Assumptions C05_lists_spec.

(* non-vacuity *)
Example C05_example :
  spec_output 5 (fun i j => Nat.eqb i j || (Nat.eqb i 1 && Nat.eqb j 4) || (Nat.eqb i 3 && Nat.eqb j 0)) =
  ([0; 1; 2; 0; 1]%Z, ([2; 2; 1; 0; 0]%Z, [0; 1; 2; -1; -1]%Z, [3; 4; -1; -1; -1]%Z)).
Proof. vm_compute. reflexivity. Qed.

(* ---------------------------------------------------------------- algorithmic models (C05/Model.v, C05/Algo.v) *)
From PV Require Import C05.Renumber C05.Tail C05.Algo C05.Merge C05.MergeRel C05.FofTail C05.Spec.

(* the tail of spheregroup() (renumbering in order of appearance, list rebuild, multiplicities): for ANY
   labelling lab0 given with arrays that agree with its true lists, and any group count that is large enough,
   it returns the canonical renumbering of lab0 and lists_of it *)
Theorem C05_renumber_refines : forall n lab0 ing0 f0 nx0 K,
  (forall i, i < n -> ing0 i = Z.of_nat (lab0 i)) ->
  (forall g, f0 g = first_of n lab0 g) ->
  (forall i, i < n -> nx0 i = next_of n lab0 i) ->
  length (filter (isfirst n lab0) (seq 0 n)) <= K ->
  renumber_model n ing0 f0 nx0 K
  = (map (fun i => Z.of_nat (canon n lab0 i)) (seq 0 n), lists_of n (canon n lab0)).
Proof. exact renumber_refines_gen. Qed.
Print Assumptions C05_renumber_refines.

(* ... and if lab0 is constant exactly on the friends-of-friends classes, that is the specification's output *)
Theorem C05_spheregroup_tail_spec : forall n link lab0,
  (forall i j, i < n -> j < n -> (lab0 i = lab0 j <-> clos_refl_sym_trans nat (R n link) i j)) ->
  renumber_model n (fun i => Z.of_nat (lab0 i)) (first_of n lab0) (next_of n lab0) (ngroups n link)
  = spec_output n link.
Proof. exact spheregroup_tail_spec. Qed.
Print Assumptions C05_spheregroup_tail_spec.

(* the fuel lemma: under  map[g] <= g  every chase ends within g steps at a root not above g *)
Theorem C05_chase_terminates : forall mp, dec mp -> forall fuel c, c <= fuel ->
  mp (chase fuel mp c) = chase fuel mp c /\ chase fuel mp c <= c.
Proof. exact chase_terminates. Qed.
Print Assumptions C05_chase_terminates.

(* path compression towards a root m: the class of c joins the class of m, no other root changes,
   map[g] <= g is preserved *)
Theorem C05_compress_rep : forall fuel mp c m, dec mp -> mp m = m -> m <= rep mp c -> c <= fuel ->
  let mp' := compress (S fuel) mp c m in
  dec mp' /\ mp' m = m /\
  (forall y, rep mp' y = if Nat.eqb (rep mp y) (rep mp c) then m else rep mp y) /\
  (forall x, c < x -> mp' x = mp x).
Proof. exact compress_rep. Qed.
Print Assumptions C05_compress_rep.

(* merge_refines: after the mapGroups loop over the provisional groups pgs (in creation order):
   nMapGroups = number of groups; map[g] <= g, map = identity above, group numbers below nMapGroups;
   exactly the covered points carry a group number; and two points have provisional groups with the same
   root  <->  they are joined by a chain of provisional groups sharing points *)
Theorem C05_merge_refines : forall pgs,
  let st := merge_model pgs in
  m_n st = length pgs /\
  (dec (m_map st) /\ (forall x, m_n st <= x -> m_map st x = x) /\ (forall p e, m_in st p = Some e -> e < m_n st)) /\
  (forall p, covered pgs p <-> m_in st p <> None) /\
  (forall p q e e', m_in st p = Some e -> m_in st q = Some e' ->
     (rep (m_map st) e = rep (m_map st) e' <-> clos_refl_sym_trans nat (share pgs) p q)).
Proof. exact merge_refines. Qed.
Print Assumptions C05_merge_refines.

(* the tail of chunks.friendsoffriends(): flattening, inGroup, lists, multiplicities, nGroups *)
Theorem C05_fof_refines : forall n pgs st, Inv pgs st -> (forall p, p < n -> covered pgs p) ->
  fof_tail_model n st =
    (map (fun p => Z.of_nat (fof_lab st p)) (seq 0 n),
     fst (fst (lists_of n (fof_lab st))), snd (fst (lists_of n (fof_lab st))), snd (lists_of n (fof_lab st)),
     Z.of_nat (nroots (m_map st) (m_n st))) /\
  (forall p q, p < n -> q < n -> (fof_lab st p = fof_lab st q <-> clos_refl_sym_trans nat (share pgs) p q)).
Proof. exact fof_refines. Qed.
Print Assumptions C05_fof_refines.

(* the property, CONDITIONAL on the geometric hypothesis pair_coverage (every linked pair lies together in
   some cell list) and on groups_ok (what the per-cell class groups must deliver; tied by correspondence
   only -- groups_refines is not proved) *)
Theorem C05_spheregroup_spec_partial : forall n link cells pgs,
  (forall i, i < n -> link i i = true) ->
  pair_coverage n link cells ->
  groups_ok n link cells pgs ->
  spheregroup_model n pgs = spec_output n link.
Proof. exact spheregroup_spec. Qed.
Print Assumptions C05_spheregroup_spec_partial.

Example C05_example_model :
  spheregroup_model 5 [[0; 3]; [1]; [2]; [4; 1]; [3]] =
  ([0; 1; 2; 0; 1]%Z, ([2; 2; 1; 0; 0]%Z, [0; 1; 2; -1; -1]%Z, [3; 4; -1; -1; -1]%Z)).
Proof. vm_compute. reflexivity. Qed.

(* ---------------------------------------------------------------- the per-cell algorithm and the end-to-end theorem *)
From PV Require Import C05.Groups C05.Full.

(* class groups: before its final renumbering, two positions of the cell carry the same label exactly when a
   chain of links inside the cell joins them (for a symmetric, reflexive link) *)
Theorem C05_groups_labels : forall m lnk,
  (forall a b, a < m -> b < m -> lnk a b = lnk b a) -> (forall a, a < m -> lnk a a = true) ->
  forall a b, a < m -> b < m ->
  (labz (g_in (gfinal m lnk)) a = labz (g_in (gfinal m lnk)) b <-> clos_refl_sym_trans nat (R m lnk) a b).
Proof. exact gfinal_labels. Qed.
Print Assumptions C05_groups_labels.

(* groups_refines: run on every cell, class groups delivers groups_ok *)
Theorem C05_groups_refines : forall n link cells,
  (forall a b, a < n -> b < n -> link a b = link b a) -> (forall a, a < n -> link a a = true) ->
  (forall c a, In c cells -> In a c -> a < n) ->
  groups_ok n link cells (all_pgs link cells).
Proof. exact groups_refines. Qed.
Print Assumptions C05_groups_refines.

(* THE PROPERTY, conditional on the geometric hypothesis pair_coverage only (link symmetric and reflexive,
   cell lists contain valid indices): the complete model -- per-cell groups, mapGroups merge, friendsoffriends
   tail, spheregroup tail -- returns (components, lists_of) *)
Theorem C05_spheregroup_spec : forall n link cells,
  (forall a b, a < n -> b < n -> link a b = link b a) -> (forall a, a < n -> link a a = true) ->
  (forall c a, In c cells -> In a c -> a < n) ->
  pair_coverage n link cells ->
  spheregroup_full n link cells = spec_output n link.
Proof. exact spheregroup_full_spec. Qed.
Print Assumptions C05_spheregroup_spec.

Example C05_example_full :
  let link := fun i j => Nat.eqb i j || (Nat.eqb i 1 && Nat.eqb j 4) || (Nat.eqb i 4 && Nat.eqb j 1)
                         || (Nat.eqb i 3 && Nat.eqb j 0) || (Nat.eqb i 0 && Nat.eqb j 3) in
  spheregroup_full 5 link [[0; 3; 2]; [1; 4]; [4; 3]] = spec_output 5 link.
Proof. vm_compute. reflexivity. Qed.
