"""C20 extractor: control skeleton of the functions that touch os.environ -> coq/Generated/EnvSkeletons.v

Fail-closed: any use of os.environ (or os.putenv/unsetenv) that is not one of the recognised idioms raises
Unrecognised.  Statements that do not touch the environment collapse to `Call` (they may raise) or `Skip`
(trivially safe).  Helpers of the same module that touch the environment are inlined under `Scope`.
"""
import ast
import os


class Unrecognised(Exception):
    pass


def is_environ(node):
    return (isinstance(node, ast.Attribute) and node.attr == 'environ'
            and isinstance(node.value, ast.Name) and node.value.id == 'os')


class Tr(object):
    def __init__(self, module_tree, modname):
        self.tree = module_tree
        self.modname = modname
        self.funcs = {n.name: n for n in module_tree.body if isinstance(n, ast.FunctionDef)}
        self.vars = {}      # env var name -> index
        self.slots = {}     # slot key -> index
        self.ncall = 0
        self.nset = 0
        self._touch_cache = {}
        self.inlined = []

    # ---------- helpers
    def var(self, name):
        return self.vars.setdefault(name, len(self.vars))

    def slot(self, key):
        return self.slots.setdefault(key, len(self.slots))

    def const_str(self, node, bind):
        """Evaluate an expression to a constant string under the loop bindings."""
        if isinstance(node, ast.Constant) and isinstance(node.value, str):
            return node.value
        if isinstance(node, ast.Name) and node.id in bind and isinstance(bind[node.id], str):
            return bind[node.id]
        if isinstance(node, ast.BinOp) and isinstance(node.op, ast.Add):
            return self.const_str(node.left, bind) + self.const_str(node.right, bind)
        if isinstance(node, ast.Call) and isinstance(node.func, ast.Attribute) and not node.args \
                and node.func.attr in ('upper', 'lower'):
            s = self.const_str(node.func.value, bind)
            return s.upper() if node.func.attr == 'upper' else s.lower()
        raise Unrecognised('not a constant string: %s' % ast.dump(node)[:80])

    def slot_key(self, node, bind):
        """A saved-value location: a plain name, or dict[constant key] (the dict name is ignored)."""
        if isinstance(node, ast.Name):
            if node.id in bind and isinstance(bind[node.id], tuple) and bind[node.id][0] == 'slot':
                return bind[node.id][1]
            return node.id
        if isinstance(node, ast.Subscript):
            try:
                return "['%s']" % self.const_str(node.slice, bind)
            except Unrecognised:
                return None
        return None

    def touches(self, node):
        for n in ast.walk(node):
            if is_environ(n):
                return True
            if isinstance(n, ast.Attribute) and isinstance(n.value, ast.Name) and n.value.id == 'os' \
                    and n.attr in ('putenv', 'unsetenv', 'environb'):
                return True
            if isinstance(n, ast.Call) and isinstance(n.func, ast.Name) and n.func.id in self.funcs \
                    and self.func_touches(n.func.id):
                return True
        return False

    def writes_env(self, node):
        """Does this code possibly WRITE the environment (directly, or through a helper of this module)?
        Pure reads (environ[K], environ.get(K), K in environ) in helpers need no inlining: they cannot
        change the environment and are covered by `Call` (may raise)."""
        for n in ast.walk(node):
            if isinstance(n, ast.Subscript) and is_environ(n.value) and not isinstance(n.ctx, ast.Load):
                return True
            if isinstance(n, ast.Call) and isinstance(n.func, ast.Attribute) and is_environ(n.func.value) \
                    and n.func.attr not in ('get', 'keys', 'values', 'items', 'copy', '__contains__', '__getitem__'):
                return True
            if isinstance(n, ast.Attribute) and isinstance(n.value, ast.Name) and n.value.id == 'os' \
                    and n.attr in ('putenv', 'unsetenv', 'environb'):
                return True
            if isinstance(n, ast.Call):
                # os.environ handed to something else as an object: unknown effect
                for a in list(n.args) + [k.value for k in n.keywords]:
                    if is_environ(a):
                        return True
                if isinstance(n.func, ast.Name) and n.func.id in self.funcs and self.func_touches(n.func.id):
                    return True
        return False

    def func_touches(self, name):
        """helper functions are inlined iff they may write the environment"""
        if name in self._touch_cache:
            return self._touch_cache[name]
        self._touch_cache[name] = False   # recursion guard
        r = any(self.writes_env(st) for st in self.funcs[name].body)
        self._touch_cache[name] = r
        return r

    def call(self):
        self.ncall += 1
        return '(I (Call %d))' % self.ncall

    @staticmethod
    def seq(items):
        items = [i for i in items if i != 'Skip']
        if not items:
            return 'Skip'
        out = items[-1]
        for i in reversed(items[:-1]):
            out = '(Seq %s %s)' % (i, out)
        return out

    @staticmethod
    def trivially_safe(st):
        if isinstance(st, ast.Pass):
            return True
        if isinstance(st, ast.Expr) and isinstance(st.value, ast.Constant):
            return True     # docstring
        if isinstance(st, ast.Assign) and all(isinstance(t, ast.Name) for t in st.targets):
            v = st.value
            if isinstance(v, (ast.Constant, ast.Name)):
                return True
            if isinstance(v, (ast.List, ast.Tuple, ast.Dict)) and all(isinstance(e, ast.Constant) for e in ast.walk(v) if isinstance(e, ast.expr) and not isinstance(e, (ast.List, ast.Tuple, ast.Dict, ast.Load))):
                return True
        return False

    # ---------- environ idioms at statement level
    def env_subscript(self, node, bind):
        """os.environ[K] -> K or None"""
        if isinstance(node, ast.Subscript) and is_environ(node.value):
            return self.const_str(node.slice, bind)
        return None

    def env_method(self, node, bind):
        """os.environ.get(K[, None]) / .pop(K, None) -> (method, K)"""
        if isinstance(node, ast.Call) and isinstance(node.func, ast.Attribute) and is_environ(node.func.value):
            m = node.func.attr
            if m == 'get' and 1 <= len(node.args) <= 2 and not node.keywords:
                if len(node.args) == 2 and not (isinstance(node.args[1], ast.Constant) and node.args[1].value is None):
                    raise Unrecognised('environ.get with a non-None default')
                return ('get', self.const_str(node.args[0], bind))
            if m == 'pop' and len(node.args) == 2 and isinstance(node.args[1], ast.Constant) and node.args[1].value is None:
                return ('pop', self.const_str(node.args[0], bind))
            raise Unrecognised('os.environ.%s(...)' % m)
        return None

    def stmt(self, st, bind):
        if not self.touches(st):
            if isinstance(st, ast.Return):
                return self.seq([self.call() if st.value is not None and not isinstance(st.value, (ast.Constant, ast.Name)) else 'Skip', 'Ret'])
            if isinstance(st, ast.Raise):
                return 'Raise'
            if isinstance(st, ast.If):
                return self.seq([self.call() if not isinstance(st.test, (ast.Name, ast.Constant)) else 'Skip',
                                 '(Choice %s %s)' % (self.block(st.body, bind), self.block(st.orelse, bind))])
            if isinstance(st, ast.Try):
                return self.try_(st, bind)
            if isinstance(st, ast.With):
                return self.seq([self.call(), self.block(st.body, bind)])
            if isinstance(st, (ast.For, ast.While)):
                # no environment effect inside: the loop as a whole may raise; return/raise inside it are kept
                inner = self.block(st.body + st.orelse, bind)
                return self.seq([self.call(), '(Choice %s Skip)' % inner]) if ('Ret' in inner or 'Raise' in inner) else self.call()
            if self.trivially_safe(st):
                return 'Skip'
            return self.call()
        # --- statements that touch the environment
        if isinstance(st, ast.Try) and len(st.body) == 1 and isinstance(st.body[0], ast.Assign) \
                and len(st.handlers) == 1 and not st.finalbody and not st.orelse:
            a = st.body[0]
            k = self.env_subscript(a.value, bind)
            key = self.slot_key(a.targets[0], bind) if len(a.targets) == 1 else None
            h = st.handlers[0]
            hname = h.type.id if isinstance(h.type, ast.Name) else None
            if k is not None and key is not None and hname == 'KeyError' and len(h.body) == 1:
                hb = h.body[0]
                if isinstance(hb, ast.Raise):
                    return '(I (SaveStrict %d %d))' % (self.var(k), self.slot(key))
                if isinstance(hb, ast.Assign) and len(hb.targets) == 1 and self.slot_key(hb.targets[0], bind) == key \
                        and isinstance(hb.value, ast.Constant) and hb.value.value is None:
                    return '(I (SaveOpt %d %d))' % (self.var(k), self.slot(key))
        if isinstance(st, ast.Assign) and len(st.targets) == 1:
            t = st.targets[0]
            # environ[K] = value
            k = self.env_subscript(t, bind)
            if k is not None:
                if self.touches(st.value):
                    raise Unrecognised('environ on both sides of an assignment')
                key = self.slot_key(st.value, bind)
                if key is not None and key in self.slots:
                    return '(I (Restore %d %d))' % (self.var(k), self.slots[key])
                self.nset += 1
                pre = 'Skip' if isinstance(st.value, (ast.Name, ast.Constant, ast.Subscript)) else self.call()
                return self.seq([pre, '(I (SetC %d %d))' % (self.var(k), self.nset)])
            # slot = environ.get(K) / slot = environ[K]
            key = self.slot_key(t, bind)
            m = self.env_method(st.value, bind)
            if m is not None and m[0] == 'get' and key is not None:
                return '(I (SaveOpt %d %d))' % (self.var(m[1]), self.slot(key))
            k = self.env_subscript(st.value, bind)
            if k is not None and key is not None:
                return '(I (SaveStrict %d %d))' % (self.var(k), self.slot(key))
        if isinstance(st, ast.Delete) and len(st.targets) == 1:
            k = self.env_subscript(st.targets[0], bind)
            if k is not None:
                return '(I (Del %d))' % self.var(k)
        if isinstance(st, ast.Expr):
            m = self.env_method(st.value, bind)
            if m is not None and m[0] == 'pop':
                return '(I (Pop %d))' % self.var(m[1])
        if isinstance(st, ast.If):
            # if slot is None: del environ[K] / environ.pop(K, None)  else: environ[K] = slot
            t = st.test
            if isinstance(t, ast.Compare) and len(t.ops) == 1 and isinstance(t.ops[0], ast.Is) \
                    and isinstance(t.comparators[0], ast.Constant) and t.comparators[0].value is None \
                    and len(st.body) == 1 and len(st.orelse) == 1:
                key = self.slot_key(t.left, bind)
                b, o = st.body[0], st.orelse[0]
                if key is not None and key in self.slots and isinstance(o, ast.Assign) and len(o.targets) == 1:
                    ko = self.env_subscript(o.targets[0], bind)
                    if ko is not None and self.slot_key(o.value, bind) == key:
                        if isinstance(b, ast.Delete) and len(b.targets) == 1 and self.env_subscript(b.targets[0], bind) == ko:
                            return '(I (RestoreOpt %d %d))' % (self.var(ko), self.slots[key])
                        if isinstance(b, ast.Expr) and self.env_method(b.value, bind) == ('pop', ko):
                            return '(I (RestoreOptPop %d %d))' % (self.var(ko), self.slots[key])
            if self.touches(st.test):
                raise Unrecognised('environ in an if-test')
            return self.seq([self.call() if not isinstance(st.test, (ast.Name, ast.Constant)) else 'Skip',
                             '(Choice %s %s)' % (self.block(st.body, bind), self.block(st.orelse, bind))])
        if isinstance(st, ast.For):
            # for r in ('a', 'b'):   /   for name, value in (('A', slot_a), ('B', slot_b)):
            if st.orelse or not isinstance(st.iter, (ast.Tuple, ast.List)):
                raise Unrecognised('environment touched inside a loop that is not over a literal tuple')
            out = []
            for el in st.iter.elts:
                b2 = dict(bind)
                self.bind_target(st.target, el, b2, bind)
                out.append(self.block(st.body, b2))
            return self.seq(out)
        if isinstance(st, ast.Try):
            return self.try_(st, bind)
        if isinstance(st, ast.With):
            for it in st.items:
                if self.touches(it.context_expr):
                    raise Unrecognised('environ in a with-item')
            return self.seq([self.call(), self.block(st.body, bind)])
        if isinstance(st, ast.Return):
            return self.seq([self.expr_effects(st.value, bind), 'Ret'])
        # generic statement: environment reads / inlined calls inside an expression, then the rest may raise
        return self.seq([self.expr_effects(st, bind), self.call()])

    def bind_target(self, target, el, b2, bind):
        if isinstance(target, ast.Name):
            if isinstance(el, ast.Constant) and isinstance(el.value, str):
                b2[target.id] = el.value
            else:
                key = self.slot_key(el, bind)
                if key is None or key not in self.slots:
                    raise Unrecognised('loop element is neither a string nor a saved slot')
                b2[target.id] = ('slot', key)
        elif isinstance(target, ast.Tuple) and isinstance(el, ast.Tuple) and len(target.elts) == len(el.elts):
            for t, e in zip(target.elts, el.elts):
                self.bind_target(t, e, b2, bind)
        else:
            raise Unrecognised('loop target shape')

    def expr_effects(self, node, bind):
        """Environment reads and inlined helper calls occurring inside an expression/statement, in source order."""
        out = []

        class V(ast.NodeVisitor):
            def visit_Subscript(s, n):
                if is_environ(n.value):
                    if not isinstance(n.ctx, ast.Load):
                        raise Unrecognised('environ store/del nested in a statement')
                    out.append('(I (ReadReq %d))' % self.var(self.const_str(n.slice, bind)))
                    return
                s.generic_visit(n)

            def visit_Call(s, n):
                if isinstance(n.func, ast.Attribute) and is_environ(n.func.value):
                    m = self.env_method(n, bind)
                    if m[0] == 'get':
                        # value used in an expression: presence not required
                        out.append('(I (SaveOpt %d %d))' % (self.var(m[1]), self.slot('<tmp>')))
                        return
                    raise Unrecognised('environ.%s nested in an expression' % m[0])
                for a in list(n.args) + [k.value for k in n.keywords]:
                    s.visit(a)
                if isinstance(n.func, ast.Name) and n.func.id in self.funcs and self.func_touches(n.func.id):
                    self.inlined.append(n.func.id)
                    out.append('(Scope %s)' % self.block(self.funcs[n.func.id].body, {}))
                else:
                    s.visit(n.func)

            def visit_Attribute(s, n):
                if is_environ(n):
                    raise Unrecognised('os.environ used as a whole object')
                if isinstance(n.value, ast.Name) and n.value.id == 'os' and n.attr in ('putenv', 'unsetenv', 'environb'):
                    raise Unrecognised('os.%s' % n.attr)
                s.generic_visit(n)
        V().visit(node)
        return self.seq(out)

    def try_(self, st, bind):
        body = self.block(st.body + st.orelse, bind)
        if st.handlers:
            hs = [self.block(h.body, bind) for h in st.handlers]
            h = hs[-1]
            for x in reversed(hs[:-1]):
                h = '(Choice %s %s)' % (x, h)
            body = '(TryExcept %s %s)' % (body, h)
        if st.finalbody:
            body = '(TryFinally %s %s)' % (body, self.block(st.finalbody, bind))
        return body

    def block(self, stmts, bind):
        return self.seq([self.stmt(s, bind) for s in stmts])


TARGETS = [('window_score', 'pydl/photoop/window.py'), ('template_input', 'pydl/pydlspec2d/spec1d.py')]


def generate(repo):
    info = {'recognised': True, 'functions': {}}
    out = ['(* GENERATED by translate/c20.py -- environment skeletons of the entry points of C20; do not edit *)',
           'From Coq Require Import List.', 'Import ListNotations.', 'From PV Require Import C20.Model.', '']
    meta = {}
    for fname, rel in TARGETS:
        try:
            src = open(os.path.join(repo, rel)).read()
            tr = Tr(ast.parse(src), rel)
            if fname not in tr.funcs:
                raise Unrecognised('function %s not found' % fname)
            prog = tr.block(tr.funcs[fname].body, {})
            names = [n for n, _ in sorted(tr.vars.items(), key=lambda kv: kv[1])]
            out.append('(* %s in %s, line %d; variables: %s; slots: %s; inlined: %s *)' % (
                fname, rel, tr.funcs[fname].lineno,
                ', '.join('%d=%s' % (i, n) for i, n in enumerate(names)),
                ', '.join('%d=%s' % (i, k.replace('*', '')) for k, i in sorted(tr.slots.items(), key=lambda kv: kv[1])),
                ', '.join(sorted(set(tr.inlined))) or '-'))
            out.append('Definition %s_vars : list var := [%s].' % (fname, '; '.join(str(i) for i in range(len(names)))))
            out.append('Definition %s_skel : prog :=\n  %s.\n' % (fname, prog))
            meta[fname] = {'vars': names, 'calls': tr.ncall, 'inlined': sorted(set(tr.inlined)), 'recognised': True}
        except (Unrecognised, SyntaxError, OSError) as e:
            info['recognised'] = False
            meta[fname] = {'recognised': False, 'detail': '%s: %s' % (type(e).__name__, e)}
    info['functions'] = meta
    if not info['recognised']:
        return None, info
    return '\n'.join(out) + '\n', info


if __name__ == '__main__':
    import sys
    text, info = generate(sys.argv[1] if len(sys.argv) > 1 else '/repo')
    print(info)
    print(text)
