(* Yanny/NoFinalNL.v -- a MISSING FINAL NEWLINE changes nothing (round 5): a file whose last line is not terminated reads
   like the file with the terminator; composed with the file-level layout theorem Skeleton.layout_file_skeleton. *)
From Coq Require Import String.
From Coq Require Import NArith ZArith List Bool Lia.
Import ListNotations.
From PV Require Import Yanny.Bytes Yanny.BytesFacts Yanny.Types Yanny.Parse Yanny.Render
  Yanny.TokenFacts Yanny.RowFacts Yanny.LayoutFacts Yanny.ScanFacts Yanny.FileFacts
  Yanny.RoundTrip Yanny.LayoutFile Yanny.LayoutRow Yanny.LayoutFile2 Yanny.TypedefLayout Yanny.Skeleton.
Open Scope N_scope.

(* ---- the typedef passes on a text followed by a typedef-free tail (no separator needed at the very end) ---- *)
Lemma scan_plain_end kw a : no_td a = true -> findall_td kw 0 a = [] /\ remove_td kw 0 a = a.
Proof.
  induction a as [|y a IH]; intros H; [split; reflexivity|].
  unfold no_td in H. apply negb_true_iff in H. rewrite contains_cons in H. apply orb_false_iff in H as [H1 H2].
  destruct IH as [I1 I2]; [unfold no_td; now rewrite H2|]. cbn [findall_td remove_td].
  rewrite (match_typedef_none kw (y :: a)) by exact H1. rewrite I1, I2. split; reflexivity.
Qed.

Theorem scan_segs_end kw segs a : kw = KW_STRUCT \/ kw = KW_ENUM -> Forall seg_ok segs -> no_td a = true ->
  findall_td kw 0 (flat segs ++ a) = findall_td kw 0 (flat segs) /\
  remove_td kw 0 (flat segs ++ a) = remove_td kw 0 (flat segs) ++ a.
Proof.
  intros Hkw H Ha. induction H as [|s segs Hs Hrest [I1 I2]].
  - cbn [flat map concat app]. destruct (scan_plain_end kw a Ha) as [-> ->]. split; reflexivity.
  - unfold flat in *. cbn [map concat]. rewrite <- !app_assoc. destruct s as [a0 c|kw' body name].
    + destruct Hs as [Ha0 Hc]. cbn [seg_text].
      destruct (scan_plain kw a0 c (concat (map seg_text segs) ++ a) Ha0 Hc) as [-> ->].
      destruct (scan_plain kw a0 c (concat (map seg_text segs)) Ha0 Hc) as [-> ->]. rewrite I1, I2. split; [reflexivity|].
      now rewrite <- !app_assoc.
    + destruct Hs as [Hk' [Hb [Hr [Hn [Hw [Nb Nn]]]]]]. cbn [seg_text].
      destruct (kw_beq kw kw' Hkw Hk') as [[E <-]|[E Hd]].
      * destruct (td_text_cons kw body name) as [t [Et _]].
        assert (M := match_typedef_text kw body name (concat (map seg_text segs) ++ a) Hkw Hb Hr Hn Hw).
        assert (M' := match_typedef_text kw body name (concat (map seg_text segs)) Hkw Hb Hr Hn Hw).
        rewrite Et in *. cbn [app findall_td remove_td]. cbn [app] in M, M'. rewrite M, M'.
        cbn [length Nat.pred]. rewrite !findall_skip, !remove_skip. rewrite I1, I2. split; reflexivity.
      * destruct (td_text_cons kw' body name) as [t [Et Ett]].
        assert (M := match_typedef_other kw kw' body name (concat (map seg_text segs) ++ a) Hd).
        assert (M' := match_typedef_other kw kw' body name (concat (map seg_text segs)) Hd).
        rewrite Et in *. cbn [app findall_td remove_td]. cbn [app] in M, M'. rewrite M, M'.
        assert (T : no_td t = true) by (rewrite Ett; now apply td_tail_no_td).
        assert (exists t0, t = t0 ++ [SEMI]) as [t0 Et0].
        { rewrite Ett. eexists ([121; 112; 101; 100; 101; 102] ++ [SP] ++ kw' ++ [SP; LBRACE] ++ body ++ [RBRACE; SP] ++ name).
          now rewrite <- !app_assoc. }
        rewrite Et0 in *.
        destruct (scan_plain kw t0 SEMI (concat (map seg_text segs) ++ a) T eq_refl) as [-> ->].
        destruct (scan_plain kw t0 SEMI (concat (map seg_text segs)) T eq_refl) as [-> ->].
        rewrite I1, I2. split; [reflexivity|]. cbn [app]. now rewrite <- !app_assoc.
Qed.

Lemma items_segs_ok items : Forall item_ok items -> Forall seg_ok (flat_map item_segs items).
Proof.
  induction 1 as [|i l Hi _ IH]; [constructor|]. cbn [flat_map]. apply Forall_app. split; auto.
  destruct i; cbn [item_segs item_ok] in *.
  - destruct Hi as [Hi _]. constructor; [|constructor]. split; auto.
  - constructor; [exact Hi|]. constructor; [|constructor]. split; reflexivity.
Qed.

Lemma items_scan_end kw items a : kw = KW_STRUCT \/ kw = KW_ENUM -> Forall item_ok items -> no_td a = true ->
  findall_td kw 0 (items_text items ++ a) = findall_td kw 0 (items_text items) /\
  remove_td kw 0 (items_text items ++ a) = remove_td kw 0 (items_text items) ++ a.
Proof. intros Hkw H Ha. rewrite items_text_segs. apply scan_segs_end; auto. now apply items_segs_ok. Qed.

(* both passes, then the lines *)
Lemma items_prepass_end items a : Forall item_ok items -> no_td a = true ->
  findall_td KW_STRUCT 0 (items_text items ++ a) = findall_td KW_STRUCT 0 (items_text items) /\
  findall_td KW_ENUM 0 (items_text items ++ a) = findall_td KW_ENUM 0 (items_text items) /\
  remove_td KW_ENUM 0 (remove_td KW_STRUCT 0 (items_text items ++ a)) = unlines (map item_line items) ++ a.
Proof.
  intros H Ha.
  destruct (items_scan_end KW_STRUCT items a (or_introl eq_refl) H Ha) as [F1 R1].
  destruct (items_scan_end KW_ENUM items a (or_intror eq_refl) H Ha) as [F2 _].
  split; [exact F1|]. split; [exact F2|]. rewrite R1.
  destruct (items_scan KW_STRUCT items (or_introl eq_refl) H) as [_ R1'].
  destruct (items_prepass items H) as [_ [_ R]]. rewrite R1' in R. rewrite R1'.
  assert (H' : Forall item_ok (map (blank_td KW_STRUCT) items)).
  { clear -H. induction H; constructor; auto. now apply blank_td_ok. }
  destruct (items_scan_end KW_ENUM _ a (or_intror eq_refl) H' Ha) as [_ R2]. rewrite R2, R. reflexivity.
Qed.

(* ---- lines ---- *)
Lemma split_on_last l : mem NL l = false -> split_on NL l = [l].
Proof.
  induction l as [|c l IH]; intros H; [reflexivity|]. apply mem_cons_false in H as [Hc Hl]. cbn [split_on]. rewrite IH by auto. now rewrite Hc.
Qed.

Lemma split_on_unlines_tail ls a : forallb (fun l => negb (mem NL l)) ls = true ->
  split_on NL (unlines ls ++ a) = ls ++ split_on NL a.
Proof.
  induction ls as [|l ls IH]; [reflexivity|]. cbn [forallb]. intros H. apply andb_true_iff in H as [Hl Hls].
  unfold unlines in *. cbn [map concat]. rewrite <- !app_assoc. cbn [app]. rewrite split_on_line by (now apply negb_true_iff).
  now rewrite IH.
Qed.

(* ---- continuation joining: dropping the final newline keeps every backslash harmless ---- *)
Lemma run_ok_drop_nl s : run_ok (s ++ [NL]) = true -> run_ok s = true.
Proof.
  unfold run_ok. destruct (span is_ws s) as [p q] eqn:E. destruct (span_spec _ _ _ _ E) as [-> [Hp Hq]]. destruct q as [|x q].
  - rewrite app_nil_r. rewrite span_all; [discriminate|]. rewrite forallb_app, Hp. reflexivity.
  - rewrite <- app_assoc. cbn [app]. rewrite span_app_stop by auto. cbn [fst snd]. auto.
Qed.

Lemma cont_okb_drop_nl s : cont_okb (s ++ [NL]) = true -> cont_okb s = true.
Proof.
  induction s as [|c s IH]; intros H; [reflexivity|]. cbn [app cont_okb] in *. apply andb_true_iff in H as [H1 H2].
  rewrite (IH H2), andb_true_r. destruct (c =? BSL); [|reflexivity]. cbn [negb orb] in *. now apply run_ok_drop_nl.
Qed.

(* ---- the theorem ---- *)
Theorem no_final_newline_raw its l : Forall item_good (its ++ [ILine l]) -> l <> [] ->
  parse_text_raw (items_text its ++ l) = parse_text_raw (items_text (its ++ [ILine l])).
Proof.
  intros Hg Hne. destruct (items_good_text _ Hg) as [Hio [Htx Hco]].
  assert (Eb : items_text (its ++ [ILine l]) = items_text its ++ (l ++ [NL])).
  { unfold items_text. rewrite map_app, concat_app. cbn [map concat item_text]. now rewrite app_nil_r. }
  rewrite Eb in *. apply Forall_app in Hio as [Hio Hl]. inversion Hl as [|x y Hx _]; subst. cbn [item_ok] in Hx. destruct Hx as [Hl1 Hl2].
  assert (Tl : no_td l = true) by (now apply (no_td_prefix l NL)).
  set (X := items_text its) in *.
  assert (J1 : join_cont (X ++ (l ++ [NL])) = X ++ (l ++ [NL])).
  { unfold join_cont. rewrite <- (app_nil_r (X ++ (l ++ [NL]))) at 1. rewrite join_cont_ok by auto. now rewrite app_nil_r. }
  assert (J2 : join_cont (X ++ l) = X ++ l).
  { unfold join_cont. rewrite <- (app_nil_r (X ++ l)) at 1. rewrite join_cont_ok; [now rewrite app_nil_r|].
    apply cont_okb_drop_nl. now rewrite <- app_assoc. }
  destruct (items_prepass_end its l Hio Tl) as [A1 [A2 A3]]. destruct (items_prepass_end its (l ++ [NL]) Hio Hl1) as [B1 [B2 B3]].
  fold X in A1, A2, A3, B1, B2, B3.
  unfold parse_text_raw. rewrite J1, J2, A1, A2, A3, B1, B2, B3.
  assert (Nl : forallb (fun l0 => negb (mem NL l0)) (map item_line its) = true) by (now apply items_lines_no_nl).
  rewrite !split_on_unlines_tail by exact Nl. rewrite (split_on_last l Hl2).
  replace (split_on NL (l ++ [NL])) with [l; []].
  2:{ change (l ++ [NL]) with (l ++ NL :: []). now rewrite split_on_line. }
  destruct (omap struct_entry (findall_td KW_STRUCT 0 X)) as [structs|]; [|reflexivity].
  assert (N1 : exists c t, unlines (map item_line its) ++ l = c :: t).
  { destruct l as [|c l']; [congruence|]. destruct (unlines (map item_line its)) as [|c' t']; [exists c, l'|exists c', (t' ++ c :: l')]; reflexivity. }
  assert (N2 : exists c t, unlines (map item_line its) ++ l ++ [NL] = c :: t).
  { destruct l as [|c l']; [congruence|]. destruct (unlines (map item_line its)) as [|c' t']; [exists c, (l' ++ [NL])|exists c', (t' ++ (c :: l') ++ [NL])]; reflexivity. }
  destruct N1 as [c1 [t1 ->]]. destruct N2 as [c2 [t2 ->]].
  rewrite !process_lines_app. destruct (process_lines _ _ (map item_line its)) as [st|]; [|reflexivity].
  cbn [process_lines]. destruct (process_line _ st l) as [st'|]; [|reflexivity].
  rewrite blank_and_comment_lines_skipped by (now left). reflexivity.
Qed.

Theorem no_final_newline its l : Forall item_good (its ++ [ILine l]) -> l <> [] ->
  parse (items_text its ++ l) = parse (items_text (its ++ [ILine l])) /\
  parse_binary (items_text its ++ l) = parse_binary (items_text (its ++ [ILine l])).
Proof.
  intros Hg Hne. pose proof (no_final_newline_raw its l Hg Hne) as R.
  destruct (items_good_text _ Hg) as [_ [Htx _]].
  assert (Eb : items_text (its ++ [ILine l]) = (items_text its ++ l) ++ [NL]).
  { unfold items_text. rewrite map_app, concat_app. cbn [map concat item_text]. now rewrite app_nil_r, app_assoc. }
  assert (C1 : mem CR (items_text (its ++ [ILine l])) = false) by (now apply textch_no_cr).
  assert (C2 : mem CR (items_text its ++ l) = false).
  { rewrite Eb in C1. rewrite mem_app in C1. now apply orb_false_iff in C1 as [C1 _]. }
  unfold parse, parse_binary, parse_text. rewrite !univ_nl_id by auto. rewrite R. split; reflexivity.
Qed.

(* FILE LEVEL: any skeleton, any decoration (Skeleton.layout_file_skeleton), the last line not terminated *)
Theorem layout_file_skeleton_nonl d tws l Ds0 ll : doc_ok d = true -> map fst tws = d_tables d -> tws_ok (d_enums d) tws ->
  skel_ok d tws l -> idec (sy_of (d_enums d) tws) (Ds0 ++ [ILine ll]) (map sk_item l) -> ll <> [] ->
  exists p, sem d = Some p /\
    parse (items_text Ds0 ++ ll) = Some (with_texts p (map ebtext (sk_enums l)) (map btext (sk_structs l))) /\
    parse_binary (items_text Ds0 ++ ll) = Some (with_texts p (map ebtext (sk_enums l)) (map btext (sk_structs l))).
Proof.
  intros Hd Et Hok Hsk HD Hne.
  assert (Hg : Forall item_good (Ds0 ++ [ILine ll])).
  { apply (idec_good _ _ _ HD). now apply (skel_good d tws l). }
  destruct (no_final_newline Ds0 ll Hg Hne) as [-> ->].
  apply (layout_file_skeleton d tws l (Ds0 ++ [ILine ll])); auto. destruct Ds0; discriminate.
Qed.
Print Assumptions no_final_newline.
Print Assumptions layout_file_skeleton_nonl.
