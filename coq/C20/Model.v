(* C20 -- environment programs: a small language for the os.environ behaviour of a Python function,
   its operational semantics under fault schedules, an abstract interpreter deciding "every touched
   variable is restored on every path", and a matcher deciding whether an observed sequence of
   environment operations is a behaviour of a program.  Definitions only. *)
From Coq Require Import List Bool Arith.
Import ListNotations.

Definition var := nat.
Definition slot := nat.
Definition val := nat.
Definition env := var -> option val.
(* slot contents: None = never assigned; Some None = "variable was absent"; Some (Some x) = saved value *)
Definition slots := slot -> option (option val).
Definition upd {A} (f : nat -> A) (k : nat) (x : A) : nat -> A := fun j => if Nat.eqb j k then x else f j.

Inductive instr :=
| SaveStrict (v : var) (s : slot)     (* try: s = environ[v]  except KeyError: raise ...   (also: plain s = environ[v]) *)
| SaveOpt (v : var) (s : slot)        (* s = environ.get(v)   /  try: s = environ[v] except KeyError: s = None *)
| ReadReq (v : var)                   (* environ[v] used inside some expression *)
| Del (v : var)                       (* del environ[v] *)
| Pop (v : var)                       (* environ.pop(v, None) *)
| SetC (v : var) (c : val)            (* environ[v] = <a value that is not a saved slot> *)
| Restore (v : var) (s : slot)        (* environ[v] = s *)
| RestoreOpt (v : var) (s : slot)     (* if s is None: del environ[v]  else: environ[v] = s *)
| RestoreOptPop (v : var) (s : slot)  (* if s is None: environ.pop(v, None)  else: environ[v] = s *)
| Call (l : nat).                     (* any other statement: may raise *)

Inductive prog :=
| Skip
| I (i : instr)
| Seq (p q : prog)
| Choice (p q : prog)                 (* if / else, loop taken or not, which handler *)
| TryFinally (p q : prog)
| TryExcept (p q : prog)              (* an exception of p may be caught by q, or propagate (handler does not match) *)
| Scope (p : prog)                    (* inlined callee: its `return` ends the callee only *)
| Raise
| Ret.

Inductive outcome := N | E | R.
Definition state := (env * slots)%type.
(* schedule: one boolean consumed at every Call (true = it raises), Choice (true = left) and caught/propagated decision *)
Definition sched := list bool.
Definition pop (s : sched) : bool * sched := match s with b :: s' => (b, s') | [] => (false, []) end.

Definition step (i : instr) (sc : sched) (st : state) : state * outcome * sched :=
  let '(e, sl) := st in
  match i with
  | SaveStrict v s => match e v with Some x => ((e, upd sl s (Some (Some x))), N, sc) | None => (st, E, sc) end
  | SaveOpt v s => ((e, upd sl s (Some (e v))), N, sc)
  | ReadReq v => match e v with Some _ => (st, N, sc) | None => (st, E, sc) end
  | Del v => match e v with Some _ => ((upd e v None, sl), N, sc) | None => (st, E, sc) end
  | Pop v => ((upd e v None, sl), N, sc)
  | SetC v c => ((upd e v (Some c), sl), N, sc)
  | Restore v s => match sl s with Some (Some x) => ((upd e v (Some x), sl), N, sc) | _ => (st, E, sc) end
  | RestoreOpt v s => match sl s with
                      | Some (Some x) => ((upd e v (Some x), sl), N, sc)
                      | Some None => match e v with Some _ => ((upd e v None, sl), N, sc) | None => (st, E, sc) end
                      | None => (st, E, sc) end
  | RestoreOptPop v s => match sl s with
                         | Some (Some x) => ((upd e v (Some x), sl), N, sc)
                         | Some None => ((upd e v None, sl), N, sc)
                         | None => (st, E, sc) end
  | Call _ => let '(b, sc') := pop sc in (st, if b then E else N, sc')
  end.

Fixpoint exec (p : prog) (sc : sched) (st : state) : state * outcome * sched :=
  match p with
  | Skip => (st, N, sc)
  | I i => step i sc st
  | Seq p q => let '(st1, o, sc1) := exec p sc st in match o with N => exec q sc1 st1 | _ => (st1, o, sc1) end
  | Choice p q => let '(b, sc') := pop sc in if b then exec p sc' st else exec q sc' st
  | TryFinally p q => let '(st1, o, sc1) := exec p sc st in
                      let '(st2, o2, sc2) := exec q sc1 st1 in
                      match o2 with N => (st2, o, sc2) | _ => (st2, o2, sc2) end
  | TryExcept p q => let '(st1, o, sc1) := exec p sc st in
                     match o with
                     | E => let '(b, sc2) := pop sc1 in if b then exec q sc2 st1 else (st1, E, sc2)
                     | _ => (st1, o, sc1) end
  | Scope p => let '(st1, o, sc1) := exec p sc st in (st1, match o with R => N | _ => o end, sc1)
  | Raise => (st, E, sc)
  | Ret => (st, R, sc)
  end.

(* ---------------- abstract interpreter ---------------- *)

Inductive ast := AOrig | AMod.

(* first-order finite maps (lists indexed by variable / slot number, with a default) so that the analysis
   evaluates in linear time: closures would be re-evaluated exponentially often after joins *)
Fixpoint lset {A} (d : A) (l : list A) (k : nat) (x : A) : list A :=
  match k, l with
  | O, [] => [x]
  | O, _ :: l' => x :: l'
  | S k', [] => d :: lset d [] k' x
  | S k', y :: l' => y :: lset d l' k' x
  end.
Definition lget {A} (d : A) (l : list A) (k : nat) : A := nth k l d.
Definition lzip {A} (f : A -> A -> A) (d : A) (l1 l2 : list A) : list A :=
  map (fun j => f (lget d l1 j) (lget d l2 j)) (seq 0 (Nat.max (length l1) (length l2))).

(* per variable: still the original value? per slot: Some (v, known_present) = holds the ORIGINAL value of v *)
Definition astate := (list ast * list (option (var * bool)))%type.
Definition vget (a : astate) (v : var) : ast := lget AOrig (fst a) v.
Definition sget (a : astate) (s : slot) : option (var * bool) := lget None (snd a) s.
Definition vset (av : list ast) (v : var) (x : ast) := lset AOrig av v x.
Definition sset (asl : list (option (var * bool))) (s : slot) (x : option (var * bool)) := lset None asl s x.

(* Path-insensitive: one abstract state per outcome class (None = that outcome is unreachable);
   states reaching the same point are joined.  (A list of states per outcome would double at every
   Choice; the join keeps the analysis linear in the size of the program.) *)
Definition aopt := option astate.

Definition join_ast (x y : ast) : ast := match x, y with AOrig, AOrig => AOrig | _, _ => AMod end.
Definition join_slot (x y : option (var * bool)) : option (var * bool) :=
  match x, y with
  | Some (v, b1), Some (v', b2) => if Nat.eqb v v' then Some (v, b1 && b2) else None
  | _, _ => None
  end.
Definition join (a b : astate) : astate :=
  (lzip join_ast AOrig (fst a) (fst b), lzip join_slot None (snd a) (snd b)).

Definition ojoin (x y : aopt) : aopt :=
  match x, y with
  | None, z => z
  | z, None => z
  | Some a, Some b => Some (join a b)
  end.

Record outs := { oN : aopt; oE : aopt; oR : aopt }.
Definition sel (o : outcome) (x : outs) := match o with N => oN x | E => oE x | R => oR x end.
Definition onone : outs := {| oN := None; oE := None; oR := None |}.
Definition obind (x : aopt) (f : astate -> outs) : outs := match x with None => onone | Some a => f a end.

Definition astep (i : instr) (a : astate) : outs :=
  let '(av, asl) := a in
  let saved v s b := match vget a v with AOrig => sset asl s (Some (v, b)) | AMod => sset asl s None end in
  match i with
  | SaveStrict v s => {| oN := Some (av, saved v s true); oE := Some a; oR := None |}
  | SaveOpt v s => {| oN := Some (av, saved v s false); oE := None; oR := None |}
  | ReadReq _ => {| oN := Some a; oE := Some a; oR := None |}
  | Del v => {| oN := Some (vset av v AMod, asl); oE := Some a; oR := None |}
  | Pop v => {| oN := Some (vset av v AMod, asl); oE := None; oR := None |}
  | SetC v _ => {| oN := Some (vset av v AMod, asl); oE := None; oR := None |}
  | Restore v s =>
      match sget a s with
      | Some (v', b) => if Nat.eqb v' v then {| oN := Some (vset av v AOrig, asl); oE := if b then None else Some a; oR := None |}
                        else {| oN := Some (vset av v AMod, asl); oE := Some a; oR := None |}
      | None => {| oN := Some (vset av v AMod, asl); oE := Some a; oR := None |} end
  | RestoreOpt v s =>
      match sget a s with
      | Some (v', _) => if Nat.eqb v' v then {| oN := Some (vset av v AOrig, asl); oE := Some (vset av v AOrig, asl); oR := None |}
                        else {| oN := Some (vset av v AMod, asl); oE := Some a; oR := None |}
      | None => {| oN := Some (vset av v AMod, asl); oE := Some a; oR := None |} end
  | RestoreOptPop v s =>
      match sget a s with
      | Some (v', _) => if Nat.eqb v' v then {| oN := Some (vset av v AOrig, asl); oE := None; oR := None |}
                        else {| oN := Some (vset av v AMod, asl); oE := Some a; oR := None |}
      | None => {| oN := Some (vset av v AMod, asl); oE := Some a; oR := None |} end
  | Call _ => {| oN := Some a; oE := Some a; oR := None |}
  end.

Fixpoint aexec (p : prog) (a : astate) : outs :=
  match p with
  | Skip => {| oN := Some a; oE := None; oR := None |}
  | I i => astep i a
  | Seq p q => let x := aexec p a in let y := obind (oN x) (aexec q) in
               {| oN := oN y; oE := ojoin (oE x) (oE y); oR := ojoin (oR x) (oR y) |}
  | Choice p q => let x := aexec p a in let y := aexec q a in
               {| oN := ojoin (oN x) (oN y); oE := ojoin (oE x) (oE y); oR := ojoin (oR x) (oR y) |}
  | TryFinally p q => let x := aexec p a in
               let yN := obind (oN x) (aexec q) in let yE := obind (oE x) (aexec q) in let yR := obind (oR x) (aexec q) in
               {| oN := oN yN;
                  oE := ojoin (oN yE) (ojoin (oE yN) (ojoin (oE yE) (oE yR)));
                  oR := ojoin (oN yR) (ojoin (oR yN) (ojoin (oR yE) (oR yR))) |}
  | TryExcept p q => let x := aexec p a in let y := obind (oE x) (aexec q) in
               {| oN := ojoin (oN x) (oN y); oE := ojoin (oE x) (oE y); oR := ojoin (oR x) (oR y) |}
  | Scope p => let x := aexec p a in {| oN := ojoin (oN x) (oR x); oE := oE x; oR := None |}
  | Raise => {| oN := None; oE := Some a; oR := None |}
  | Ret => {| oN := None; oE := None; oR := Some a |}
  end.

Definition all_orig (vars : list var) (a : astate) : bool :=
  forallb (fun v => match vget a v with AOrig => true | AMod => false end) vars.
Definition oall_orig (vars : list var) (x : aopt) : bool :=
  match x with None => true | Some a => all_orig vars a end.

Definition a_init : astate := ([], []).

Definition restores_check (vars : list var) (p : prog) : bool :=
  let x := aexec p a_init in
  oall_orig vars (oN x) && oall_orig vars (oE x) && oall_orig vars (oR x).

(* variables a program can touch at all *)
Definition instr_var (i : instr) : list var :=
  match i with
  | SaveStrict v _ | SaveOpt v _ | ReadReq v | Del v | Pop v | SetC v _ | Restore v _ | RestoreOpt v _
  | RestoreOptPop v _ => [v]
  | Call _ => []
  end.
Definition instr_writes (i : instr) : list var :=
  match i with
  | Del v | Pop v | SetC v _ | Restore v _ | RestoreOpt v _ | RestoreOptPop v _ => [v]
  | _ => []
  end.
Fixpoint prog_writes (p : prog) : list var :=
  match p with
  | Skip | Raise | Ret => []
  | I i => instr_writes i
  | Seq p q | Choice p q | TryFinally p q | TryExcept p q => prog_writes p ++ prog_writes q
  | Scope p => prog_writes p
  end.
Definition writes_within (vars : list var) (p : prog) : bool :=
  forallb (fun v => existsb (Nat.eqb v) vars) (prog_writes p).

(* ---------------- observed environment operations and the trace matcher ---------------- *)

Inductive ev := EvGet (v : var) (ok : bool) | EvDel (v : var) (ok : bool) | EvSet (v : var).

Definition ev_eqb (a b : ev) : bool :=
  match a, b with
  | EvGet v o, EvGet v' o' => Nat.eqb v v' && Bool.eqb o o'
  | EvDel v o, EvDel v' o' => Nat.eqb v v' && Bool.eqb o o'
  | EvSet v, EvSet v' => Nat.eqb v v'
  | _, _ => false
  end.

Definition oc_eqb (a b : outcome) : bool :=
  match a, b with N, N | E, E | R, R => true | _, _ => false end.

(* a configuration of the matcher: remaining trace (identified by its length) and outcome *)
Definition conf := (list ev * outcome)%type.
Definition conf_eqb (a b : conf) : bool := Nat.eqb (length (fst a)) (length (fst b)) && oc_eqb (snd a) (snd b).
Fixpoint dedup (l : list conf) : list conf :=
  match l with
  | [] => []
  | c :: l' => let r := dedup l' in if existsb (conf_eqb c) r then r else c :: r
  end.

Definition expect (tr : list ev) (alts : list (ev * outcome)) : list conf :=
  match tr with
  | e :: tr' => flat_map (fun ao => if ev_eqb e (fst ao) then [(tr', snd ao)] else []) alts
  | [] => []
  end.

Definition mstep (i : instr) (tr : list ev) : list conf :=
  match i with
  | SaveStrict v _ | ReadReq v => expect tr [(EvGet v true, N); (EvGet v false, E)]
  | SaveOpt v _ => expect tr [(EvGet v true, N); (EvGet v false, N)]
  | Del v => expect tr [(EvDel v true, N); (EvDel v false, E)]
  | Pop v => expect tr [(EvDel v true, N); (EvDel v false, N)]
  | SetC v _ => expect tr [(EvSet v, N)]
  | Restore v _ => (tr, E) :: expect tr [(EvSet v, N)]
  | RestoreOpt v _ => (tr, E) :: expect tr [(EvSet v, N); (EvDel v true, N); (EvDel v false, E)]
  | RestoreOptPop v _ => (tr, E) :: expect tr [(EvSet v, N); (EvDel v true, N); (EvDel v false, N)]
  | Call _ => [(tr, N); (tr, E)]
  end.

Definition mbind (l : list conf) (o : outcome) (f : list ev -> list conf) (keep : conf -> bool) : list conf :=
  dedup (flat_map (fun c => if oc_eqb (snd c) o then f (fst c) else if keep c then [c] else []) l).

Fixpoint mrun (p : prog) (tr : list ev) : list conf :=
  match p with
  | Skip => [(tr, N)]
  | I i => mstep i tr
  | Seq p q => mbind (mrun p tr) N (mrun q) (fun _ => true)
  | Choice p q => dedup (mrun p tr ++ mrun q tr)
  | TryFinally p q =>
      dedup (flat_map (fun c => map (fun c' => (fst c', match snd c' with N => snd c | o' => o' end)) (mrun q (fst c)))
                      (mrun p tr))
  | TryExcept p q =>
      let x := mrun p tr in
      dedup (x ++ flat_map (fun c => match snd c with E => mrun q (fst c) | _ => [] end) x)
  | Scope p => dedup (map (fun c => (fst c, match snd c with R => N | o => o end)) (mrun p tr))
  | Raise => [(tr, E)]
  | Ret => [(tr, R)]
  end.

(* raised = true: the real call ended with an exception; false: it returned *)
Definition accepts (p : prog) (tr : list ev) (raised : bool) : bool :=
  existsb (fun c => match fst c with
                    | [] => if raised then oc_eqb (snd c) E else negb (oc_eqb (snd c) E)
                    | _ => false end) (mrun p tr).

(* replay an observed trace on an initial presence map: which variables end up possibly different *)
Definition apply_ev (pres : var -> bool) (e : ev) : var -> bool :=
  match e with
  | EvGet _ _ => pres
  | EvDel v _ => upd pres v false
  | EvSet v => upd pres v true
  end.

(* the success flags of an observed trace agree with the presence map obtained by replaying the trace from the
   initial presence of the variables (the harness knows which variables it set before the call) *)
Fixpoint consistent (pres : var -> bool) (tr : list ev) : bool :=
  match tr with
  | [] => true
  | e :: tr' =>
      (match e with
       | EvGet v ok | EvDel v ok => Bool.eqb (pres v) ok
       | EvSet _ => true
       end) && consistent (apply_ev pres e) tr'
  end.
Definition pres_of (l : list bool) : var -> bool := fun v => nth v l false.

(* ---------------- correspondence cases ---------------- *)

(* a real run: observed env-op trace, whether it raised, and whether the environment afterwards equalled
   the environment before (as observed on the real process).  Verdict bits:
   +1  the generated skeleton does not accept the observed trace (translator/model does not cover the code),
       or (CRunP) the success flags of the trace contradict the initial presence of the variables
   +2  the run did not restore the environment (the property fails on this fault schedule)
   +4  skeleton claims restoration (restores_check = true) yet the run did not restore: model unsound for the code *)
Inductive case :=
| CRun (p : prog) (vars : list var) (tr : list ev) (raised restored : bool)
| CRunP (p : prog) (vars : list var) (pres : list bool) (tr : list ev) (raised restored : bool).

Definition run_case (c : case) : nat :=
  match c with
  | CRun p vars tr raised restored =>
      (if accepts p tr raised then 0 else 1) + (if restored then 0 else 2)
      + (if restores_check vars p && negb restored then 4 else 0)
  | CRunP p vars pres tr raised restored =>
      (if accepts p tr raised && consistent (pres_of pres) tr then 0 else 1) + (if restored then 0 else 2)
      + (if restores_check vars p && negb restored then 4 else 0)
  end.
Definition run_cases (cs : list case) : list nat := map run_case cs.

(* ---------------- instrumented semantics: the os.environ operations an execution performs ---------------- *)

Definition is_some {A} (o : option A) : bool := match o with Some _ => true | None => false end.

Definition step_ev (i : instr) (st : state) : list ev :=
  let '(e, sl) := st in
  match i with
  | SaveStrict v _ | SaveOpt v _ | ReadReq v => [EvGet v (is_some (e v))]
  | Del v | Pop v => [EvDel v (is_some (e v))]
  | SetC v _ => [EvSet v]
  | Restore v s => match sl s with Some (Some _) => [EvSet v] | _ => [] end
  | RestoreOpt v s | RestoreOptPop v s =>
      match sl s with
      | Some (Some _) => [EvSet v]
      | Some None => [EvDel v (is_some (e v))]
      | None => [] end
  | Call _ => []
  end.

Fixpoint exec_ev (p : prog) (sc : sched) (st : state) : list ev :=
  match p with
  | Skip | Raise | Ret => []
  | I i => step_ev i st
  | Seq p q => let '(st1, o, sc1) := exec p sc st in
               exec_ev p sc st ++ match o with N => exec_ev q sc1 st1 | _ => [] end
  | Choice p q => let '(b, sc') := pop sc in if b then exec_ev p sc' st else exec_ev q sc' st
  | TryFinally p q => let '(st1, o, sc1) := exec p sc st in exec_ev p sc st ++ exec_ev q sc1 st1
  | TryExcept p q => let '(st1, o, sc1) := exec p sc st in
                     exec_ev p sc st ++
                     match o with
                     | E => let '(b, sc2) := pop sc1 in if b then exec_ev q sc2 st1 else []
                     | _ => [] end
  | Scope p => exec_ev p sc st
  end.
