(* C16 -- generic list lemmas: mapM, permutations by classes, unique-sort, argsort of a permutation.
   (Own copy: coq/Lib has no list library yet.) *)
From Coq Require Import ZArith List Bool Arith Lia Permutation Sorted.
Import ListNotations.
From PV Require Import C16.Model.

(* ------------------------------------------------------------------ nth_error *)

Lemma nth_error_ext_eq {A} (l l' : list A) : (forall i, nth_error l i = nth_error l' i) -> l = l'.
Proof.
  revert l'; induction l as [|a l IH]; destruct l' as [|b l']; intros H; try reflexivity.
  - specialize (H 0%nat); discriminate.
  - specialize (H 0%nat); discriminate.
  - f_equal.
    + specialize (H 0%nat); cbn in H; congruence.
    + apply IH; intro i; apply (H (S i)).
Qed.

Lemma nth_error_seq a n i : (i < n)%nat -> nth_error (seq a n) i = Some (a + i)%nat.
Proof.
  revert a i; induction n as [|n IH]; intros a i H; [lia|].
  destruct i as [|i]; cbn.
  - f_equal; lia.
  - rewrite IH by lia. f_equal; lia.
Qed.

Lemma nth_error_combine_seq {A} (l : list A) a i x :
  nth_error (combine (seq a (length l)) l) i = Some x <-> (snd x = snd x /\ fst x = (a + i)%nat /\ nth_error l i = Some (snd x)).
Proof.
  revert a i; induction l as [|y l IH]; intros a i; cbn.
  - destruct i; cbn; split; intros H; try discriminate; destruct H as (_ & _ & H); discriminate.
  - destruct i as [|i]; cbn.
    + split.
      * intros H; inversion H; subst; cbn. repeat split; lia.
      * intros (_ & H1 & H2). destruct x as [n z]; cbn in *. inversion H2; subst. f_equal. f_equal. lia.
    + rewrite IH. split; intros (H0 & H1 & H2); repeat split; try assumption; lia.
Qed.

Lemma in_indexed {A} (l : list A) i x : In (i, x) (indexed l) <-> nth_error l i = Some x.
Proof.
  unfold indexed. split.
  - intros H. apply In_nth_error in H. destruct H as [n H].
    apply (nth_error_combine_seq l 0 n (i, x)) in H. cbn in H. destruct H as (_ & -> & H). exact H.
  - intros H. apply (nth_error_In _ i).
    apply (nth_error_combine_seq l 0 i (i, x)). cbn. auto.
Qed.

Lemma map_fst_indexed {A} (l : list A) : map fst (indexed l) = seq 0 (length l).
Proof.
  unfold indexed. generalize 0%nat. induction l as [|x l IH]; intros a; cbn; [reflexivity|].
  f_equal. apply IH.
Qed.

Lemma map_snd_indexed {A} (l : list A) : map snd (indexed l) = l.
Proof.
  unfold indexed. generalize 0%nat. induction l as [|x l IH]; intros a; cbn; [reflexivity|].
  f_equal. apply IH.
Qed.

(* ------------------------------------------------------------------ mapM *)

Lemma mapM_all {A B} (f : A -> option B) (g : A -> B) l :
  (forall x, In x l -> f x = Some (g x)) -> mapM f l = Some (map g l).
Proof.
  induction l as [|x l IH]; intros H; cbn; [reflexivity|].
  rewrite (H x (or_introl eq_refl)). rewrite IH; [reflexivity|].
  intros y Hy. apply H. right; exact Hy.
Qed.

Lemma mapM_Some_inv {A B} (f : A -> option B) (d : B) l ys :
  mapM f l = Some ys ->
  ys = map (fun x => match f x with Some y => y | None => d end) l /\
  (forall x, In x l -> f x = Some (match f x with Some y => y | None => d end)).
Proof.
  revert ys; induction l as [|x l IH]; intros ys H; cbn in H.
  - inversion H; subst. split; [reflexivity|]. intros x [].
  - destruct (f x) as [y|] eqn:E; [|discriminate].
    destruct (mapM f l) as [ys'|] eqn:E'; [|discriminate].
    inversion H; subst. destruct (IH ys' eq_refl) as [H1 H2]. split.
    + cbn. rewrite E. f_equal. exact H1.
    + intros z [<-|Hz]; [rewrite E; reflexivity|apply H2; exact Hz].
Qed.

Lemma mapM_None_in {A B} (f : A -> option B) l x : In x l -> f x = None -> mapM f l = None.
Proof.
  induction l as [|y l IH]; intros H E; [destruct H|].
  cbn. destruct H as [->|H].
  - rewrite E. reflexivity.
  - destruct (f y); [|reflexivity]. rewrite (IH H E). reflexivity.
Qed.

Lemma sequenceM_map_all {A B} (f g : A -> option B) l :
  (forall x, In x l -> f x = g x) -> sequenceM (map f l) = sequenceM (map g l).
Proof.
  intros H. rewrite (map_ext_in f g l H). reflexivity.
Qed.

(* ------------------------------------------------------------------ max of a list *)

Lemma list_max_nat_app l1 l2 : list_max_nat (l1 ++ l2) = Nat.max (list_max_nat l1) (list_max_nat l2).
Proof. unfold list_max_nat. induction l1 as [|x l1 IH]; cbn; [reflexivity|]. rewrite IH. lia. Qed.

Lemma list_max_nat_perm l l' : Permutation l l' -> list_max_nat l = list_max_nat l'.
Proof. unfold list_max_nat. induction 1; cbn; lia. Qed.

Lemma fold_left_max l a : fold_left Nat.max l a = Nat.max a (list_max_nat l).
Proof.
  unfold list_max_nat. revert a; induction l as [|x l IH]; intros a; cbn; [lia|]. rewrite IH. lia.
Qed.

Lemma list_max_nat_const l w : l <> [] -> (forall x, In x l -> x = w) -> list_max_nat l = w.
Proof.
  unfold list_max_nat. induction l as [|x l IH]; intros Hne H; [congruence|].
  cbn. rewrite (H x (or_introl eq_refl)).
  destruct l as [|y l]; [cbn; lia|].
  rewrite IH; [lia|discriminate|]. intros z Hz. apply H. right; exact Hz.
Qed.

(* ------------------------------------------------------------------ classes partition a list *)

Lemma filter_partition_perm {A} (f : A -> bool) l :
  Permutation (filter f l ++ filter (fun x => negb (f x)) l) l.
Proof.
  induction l as [|x l IH]; cbn; [constructor|].
  destruct (f x); cbn.
  - constructor. exact IH.
  - apply Permutation_sym. apply Permutation_cons_app. apply Permutation_sym. exact IH.
Qed.

Lemma filter_filter_neq {A} (cls : A -> Z) k k' l : k' <> k ->
  filter (fun x => Z.eqb (cls x) k') (filter (fun x => negb (Z.eqb (cls x) k)) l) =
  filter (fun x => Z.eqb (cls x) k') l.
Proof.
  intros Hne. induction l as [|x l IH]; cbn; [reflexivity|].
  destruct (Z.eqb (cls x) k) eqn:E; cbn.
  - apply Z.eqb_eq in E. destruct (Z.eqb (cls x) k') eqn:E'.
    + apply Z.eqb_eq in E'. congruence.
    + exact IH.
  - destruct (Z.eqb (cls x) k'); [f_equal|]; exact IH.
Qed.

(* the groups of a duplicate-free list of keys that covers every class partition the list *)
Lemma partition_perm {A} (cls : A -> Z) ks : forall l,
  NoDup ks -> (forall x, In x l -> In (cls x) ks) ->
  Permutation (concat (map (fun k => filter (fun x => Z.eqb (cls x) k) l) ks)) l.
Proof.
  induction ks as [|k ks IH]; intros l Hnd Hin.
  - destruct l as [|x l]; [constructor|]. destruct (Hin x (or_introl eq_refl)).
  - cbn. inversion Hnd as [|? ? Hk Hnd']; subst.
    eapply Permutation_trans; [|apply (filter_partition_perm (fun x => Z.eqb (cls x) k) l)].
    apply Permutation_app_head.
    set (l' := filter (fun x => negb (Z.eqb (cls x) k)) l).
    rewrite (map_ext_in (fun k0 => filter (fun x => Z.eqb (cls x) k0) l)
                        (fun k0 => filter (fun x => Z.eqb (cls x) k0) l')).
    + apply IH; [exact Hnd'|].
      intros x Hx. unfold l' in Hx. apply filter_In in Hx. destruct Hx as [Hx Hne].
      destruct (Hin x Hx) as [E|E]; [|exact E].
      rewrite E, Z.eqb_refl in Hne. discriminate.
    + intros k' Hk'. unfold l'. symmetry. apply filter_filter_neq. intros ->. contradiction.
Qed.

(* ------------------------------------------------------------------ usort = sorted, duplicate free, same elements *)

Lemma uinsert_In x l z : In z (uinsert x l) <-> z = x \/ In z l.
Proof.
  induction l as [|y l IH]; cbn.
  - intuition.
  - destruct (Z.ltb x y) eqn:E1; cbn; [intuition|].
    destruct (Z.eqb x y) eqn:E2; cbn.
    + apply Z.eqb_eq in E2. subst. intuition.
    + rewrite IH. intuition.
Qed.

Lemma usort_In l z : In z (usort l) <-> In z l.
Proof.
  induction l as [|x l IH]; cbn; [reflexivity|].
  rewrite uinsert_In, IH. intuition.
Qed.

Lemma uinsert_sorted x l : StronglySorted Z.lt l -> StronglySorted Z.lt (uinsert x l).
Proof.
  induction l as [|y l IH]; intros H; cbn.
  - constructor; constructor.
  - inversion H as [|? ? Hs Hf]; subst.
    destruct (Z.ltb x y) eqn:E1.
    + apply Z.ltb_lt in E1. constructor; [exact H|].
      constructor; [exact E1|]. rewrite Forall_forall in *. intros z Hz. specialize (Hf z Hz). lia.
    + destruct (Z.eqb x y) eqn:E2; [exact H|].
      apply Z.ltb_ge in E1. apply Z.eqb_neq in E2.
      constructor; [apply IH; exact Hs|].
      rewrite Forall_forall in *. intros z Hz. apply uinsert_In in Hz. destruct Hz as [->|Hz]; [lia|auto].
Qed.

Lemma usort_sorted l : StronglySorted Z.lt (usort l).
Proof. induction l as [|x l IH]; cbn; [constructor|apply uinsert_sorted; exact IH]. Qed.

Lemma sorted_lt_NoDup l : StronglySorted Z.lt l -> NoDup l.
Proof.
  induction 1 as [|x l Hs IH Hf]; constructor; [|exact IH].
  intros Hin. rewrite Forall_forall in Hf. specialize (Hf x Hin). lia.
Qed.

Lemma usort_NoDup l : NoDup (usort l).
Proof. apply sorted_lt_NoDup, usort_sorted. Qed.

(* ------------------------------------------------------------------ argsort *)

Definition le_fst (a b : nat * nat) : Prop := (fst a <= fst b)%nat.

Lemma ins_perm x l : Permutation (ins x l) (x :: l).
Proof.
  induction l as [|y l IH]; cbn; [constructor; constructor|].
  destruct (fst x <=? fst y)%nat; [apply Permutation_refl|].
  eapply Permutation_trans; [apply perm_skip; exact IH|]. apply perm_swap.
Qed.

Lemma isort_perm l : Permutation (isort l) l.
Proof.
  induction l as [|x l IH]; cbn; [constructor|].
  eapply Permutation_trans; [apply ins_perm|]. constructor. exact IH.
Qed.

Lemma ins_sorted x l : StronglySorted le_fst l -> StronglySorted le_fst (ins x l).
Proof.
  induction l as [|y l IH]; intros H; cbn.
  - constructor; constructor.
  - inversion H as [|? ? Hs Hf]; subst.
    destruct (fst x <=? fst y)%nat eqn:E.
    + apply Nat.leb_le in E. constructor; [exact H|].
      constructor; [exact E|]. rewrite Forall_forall in *. intros z Hz. specialize (Hf z Hz).
      unfold le_fst in *. lia.
    + apply Nat.leb_gt in E. constructor; [apply IH; exact Hs|].
      rewrite Forall_forall in *. intros z Hz.
      apply (Permutation_in _ (ins_perm x l)) in Hz. destruct Hz as [<-|Hz].
      * unfold le_fst. lia.
      * apply Hf; exact Hz.
Qed.

Lemma isort_sorted l : StronglySorted le_fst (isort l).
Proof. induction l as [|x l IH]; cbn; [constructor|apply ins_sorted; exact IH]. Qed.

Lemma sorted_map_fst l : StronglySorted le_fst l -> StronglySorted le (map fst l).
Proof.
  induction 1 as [|x l Hs IH Hf]; cbn; constructor; [exact IH|].
  rewrite Forall_forall in *. intros z Hz. apply in_map_iff in Hz. destruct Hz as (y & <- & Hy).
  apply (Hf y Hy).
Qed.

Lemma sorted_le_unique l1 : forall l2,
  StronglySorted le l1 -> StronglySorted le l2 -> Permutation l1 l2 -> l1 = l2.
Proof.
  induction l1 as [|x l1 IH]; intros l2 H1 H2 P.
  - apply Permutation_nil in P. subst. reflexivity.
  - destruct l2 as [|y l2]; [apply Permutation_sym, Permutation_nil in P; discriminate|].
    inversion H1 as [|? ? Hs1 Hf1]; subst. inversion H2 as [|? ? Hs2 Hf2]; subst.
    rewrite Forall_forall in Hf1, Hf2.
    assert (x = y) as ->.
    { assert (In x (y :: l2)) as Hx by (apply (Permutation_in _ P); left; reflexivity).
      assert (In y (x :: l1)) as Hy by (apply (Permutation_in _ (Permutation_sym P)); left; reflexivity).
      destruct Hx as [->|Hx]; [reflexivity|]. destruct Hy as [->|Hy]; [reflexivity|].
      specialize (Hf1 y Hy). specialize (Hf2 x Hx). lia. }
    f_equal. apply IH; [exact Hs1|exact Hs2|]. apply Permutation_cons_inv in P. exact P.
Qed.

Lemma seq_sorted a n : StronglySorted le (seq a n).
Proof.
  revert a; induction n as [|n IH]; intros a; cbn; constructor; [apply IH|].
  rewrite Forall_forall. intros z Hz. apply in_seq in Hz. lia.
Qed.

Lemma map_fst_combine {A B} (l : list A) (l' : list B) : length l = length l' -> map fst (combine l l') = l.
Proof.
  revert l'; induction l as [|x l IH]; destruct l' as [|y l']; cbn; intros H; try reflexivity; try discriminate.
  f_equal. apply IH. lia.
Qed.

Lemma nth_error_combine_seq_r {A} (l : list A) a t x b :
  nth_error (combine l (seq a (length l))) t = Some (x, b) -> nth_error l t = Some x /\ b = (a + t)%nat.
Proof.
  revert a t; induction l as [|y l IH]; intros a t H; cbn in H.
  - destruct t; discriminate.
  - destruct t as [|t]; cbn in H.
    + inversion H; subst. split; [reflexivity|lia].
    + apply IH in H. destruct H as [H1 H2]. split; [exact H1|lia].
Qed.

Lemma argsort_length l : length (argsort l) = length l.
Proof.
  unfold argsort. rewrite map_length.
  rewrite (Permutation_length (isort_perm _)), combine_length, seq_length. lia.
Qed.

(* argsort of a permutation of 0..n-1 is its inverse: position i of the result holds the place where i sits *)
Lemma argsort_inverse l n : Permutation l (seq 0 n) ->
  forall i j, nth_error l j = Some i -> nth_error (argsort l) i = Some j.
Proof.
  intros P i j Hj.
  assert (length l = n) as Hlen by (rewrite (Permutation_length P); apply seq_length).
  set (s := isort (combine l (seq 0 (length l)))).
  assert (Permutation s (combine l (seq 0 (length l)))) as Ps by apply isort_perm.
  assert (map fst s = seq 0 n) as Hfst.
  { apply sorted_le_unique.
    - apply sorted_map_fst, isort_sorted.
    - apply seq_sorted.
    - eapply Permutation_trans; [apply Permutation_map; exact Ps|].
      rewrite map_fst_combine by (rewrite seq_length; reflexivity). exact P. }
  assert (i < n)%nat as Hi.
  { assert (In i (seq 0 n)) as H by (apply (Permutation_in _ P); eapply nth_error_In; exact Hj).
    apply in_seq in H. lia. }
  assert (length s = n) as Hs by (rewrite <- (map_length fst), Hfst; apply seq_length).
  destruct (nth_error s i) as [[a b]|] eqn:E; [|apply nth_error_None in E; lia].
  unfold argsort. fold s. rewrite nth_error_map, E. cbn. f_equal.
  (* a = i *)
  assert (a = i) as ->.
  { pose proof (f_equal (fun q => nth_error q i) Hfst) as H. cbn in H.
    rewrite nth_error_map, E, nth_error_seq in H by exact Hi. cbn in H. congruence. }
  (* (i, b) is in the combine, so l[b] = i *)
  assert (In (i, b) (combine l (seq 0 (length l)))) as Hin.
  { apply (Permutation_in _ Ps). eapply nth_error_In. exact E. }
  apply In_nth_error in Hin. destruct Hin as [t Ht].
  apply nth_error_combine_seq_r in Ht. destruct Ht as [Hl Hb]. cbn in Hb. subst t.
  (* NoDup l *)
  assert (NoDup l) as Hnd by (apply (Permutation_NoDup (Permutation_sym P)), seq_NoDup).
  rewrite (NoDup_nth_error l) in Hnd. apply Hnd; [apply nth_error_Some; congruence|congruence].
Qed.
