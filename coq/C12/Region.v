(* C12 -- set_use_caps keeps the polygon region when doubles are caps with identical membership. *)
From Coq Require Import ZArith QArith List Bool Lia.
Import ListNotations.
From PV Require Import C12.Spec Generated.Mangle C12.Model C12.Proofs C12.SetUse.
Open Scope Z_scope.

(* Removing doubles does not change the region when doubles are caps with the same membership (exact
   same-sign duplicates): the polygon with the de-duplicated mask contains the same points as the polygon
   with all selected bits.  (For sign-flipped doubles the hypothesis fails, and so does the conclusion:
   that is the documented behaviour of allow_neg_doubles=False.) *)
Definition with_use (P : polygon) (u : Z) : polygon := mkpoly (pn P) u (pcaps P).

Lemma dedup_preserves_region P dup u1 ncaps p :
  (pn P <= length (pcaps P))%nat ->
  (forall i j a b, dup i j = true -> nth_error (pcaps P) i = Some a -> nth_error (pcaps P) j = Some b ->
                   in_cap a p = in_cap b p) ->
  in_polygon (with_use P (dedup dup (pn P) u1)) ncaps p = in_polygon (with_use P u1) ncaps p.
Proof.
  intros Hwf Hsame. apply eq_true_iff_eq.
  rewrite !in_polygon_spec by exact Hwf.
  assert (forall u, spec_usencaps (with_use P u) ncaps = spec_usencaps P ncaps) as Eu by reflexivity.
  rewrite !Eu. cbn [with_use puse pcaps].
  pose proof (usencaps_le P ncaps) as Hle.
  set (sel := fun b => Z.testbit u1 (Z.of_nat b)).
  assert (forall i, (i < pn P)%nat -> Z.testbit (dedup dup (pn P) u1) (Z.of_nat i) = kept dup sel i) as Hbit.
  { intros i Hi. rewrite dedup_testbit. destruct (Nat.ltb_spec i (pn P)); [reflexivity|lia]. }
  split; intros H i c Hi Hc Hb.
  - (* selected cap i: either kept, or represented by a kept double before it *)
    destruct (kept dup sel i) eqn:K.
    + apply (H i c Hi Hc). rewrite Hbit by lia. exact K.
    + rewrite kept_unfold in K. unfold sel at 1 in K. rewrite Hb in K. cbn [andb] in K.
      apply negb_false_iff in K. apply existsb_exists in K. destruct K as (i' & Hin & Hk).
      apply in_seq in Hin. apply andb_true_iff in Hk. destruct Hk as [Kk Dk].
      destruct (nth_error (pcaps P) i') as [a|] eqn:Ea.
      2:{ apply nth_error_None in Ea. lia. }
      rewrite <- (Hsame i' i a c Dk Ea Hc).
      apply (H i' a ltac:(lia) Ea). rewrite Hbit by lia. exact Kk.
  - apply (H i c Hi Hc). rewrite Hbit in Hb by lia. apply kept_spec in Hb. apply Hb.
Qed.

Lemma set_use_caps_preserves_region P idx o ncaps p :
  (pn P <= length (pcaps P))%nat -> o_allow_doubles o = false ->
  (forall i j a b, dup_at (o_tol o) (o_allow_neg_doubles o) (pcaps P) i j = true ->
                   nth_error (pcaps P) i = Some a -> nth_error (pcaps P) j = Some b -> in_cap a p = in_cap b p) ->
  in_polygon (with_use P (set_use_caps P idx o)) ncaps p
  = in_polygon (with_use P (set_bits (if o_add o then puse P else 0) idx)) ncaps p.
Proof.
  intros Hwf Hd Hsame. unfold set_use_caps. cbv zeta. rewrite Hd, gen_initial_use_eq.
  apply dedup_preserves_region; assumption.
Qed.
