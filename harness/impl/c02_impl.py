"""C02 runs the same implementation driver as C01 (job kind 'read': write the given bytes to a file and read
them with yanny(path), yanny(text file object), yanny(binary file object), raw and non-raw)."""
import os
import sys
import warnings

sys.path.insert(0, os.path.dirname(os.path.abspath(__file__)))
from c01_impl import main  # noqa: E402

if __name__ == '__main__':
    warnings.simplefilter('ignore')
    main()
