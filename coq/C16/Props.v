(* C16 -- readspec returns each requested spectrum in request order, unshifted.
   Property theorems only; each is closed by `exact` and followed by Print Assumptions.
   Model: C16/Model.v (M = transliteration of readspec / spec_append, S = specification).
   The gen_... expressions are GENERATED from /repo on every run (Generated/Readspec.v, translate/c16.py). *)
From Coq Require Import ZArith List Bool Arith Permutation.
Import ListNotations.
From PV Require Import Generated.Readspec C16.Model C16.ListLemmas C16.Proofs C16.AllFibers C16.Paths C16.Source.
From PV Require Import Lib.NumpyInt C16.Typed C16.Storage C16.AlignModel C16.Align C16.AlignSource.
Open Scope nat_scope.

(* ---------------------------------------------------------------- plate-MJD keys *)

(* (plate<<16)+mjd identifies the plate-MJD pair as long as the MJD fits in 16 bits *)
Theorem C16_pmjd_key_injective : forall p m p' m' : Z,
  (0 <= m < 2 ^ 16)%Z -> (0 <= m' < 2 ^ 16)%Z -> key p m = key p' m' -> p = p' /\ m = m'.
Proof. exact pmjd_key_injective. Qed.
Print Assumptions C16_pmjd_key_injective.

(* >>16 and &0xffff recover plate and MJD *)
Theorem C16_pmjd_key_decode : forall p m : Z,
  (0 <= m < 2 ^ 16)%Z -> key_plate (key p m) = p /\ key_mjd (key p m) = m.
Proof. exact key_decode. Qed.
Print Assumptions C16_pmjd_key_decode.

(* the uint64 key arithmetic does not wrap *)
Theorem C16_pmjd_key_no_wrap : forall p m : Z,
  (0 <= p < 2 ^ 48)%Z -> (0 <= m < 2 ^ 16)%Z -> (0 <= key p m < 2 ^ 64)%Z.
Proof. exact key_no_wrap. Qed.
Print Assumptions C16_pmjd_key_no_wrap.

(* ---------------------------------------------------------------- grouping and the final argsort *)

(* the pmjdindex lists of the unique keys partition the request positions 0..n-1:
   allpmjdindex is a permutation of 0..n-1 *)
Theorem C16_group_positions_partition : forall reqs : list req,
  (forall r, In r reqs -> valid_req r) ->
  let ukeys := usort (map keyf reqs) in
  let groups := map (fun k => group (indexed reqs) (key_plate k) (key_mjd k)) ukeys in
  Permutation (concat groups) (indexed reqs) /\
  Permutation (concat (map (map fst) groups)) (seq 0 (length reqs)).
Proof. exact group_positions_partition. Qed.
Print Assumptions C16_group_positions_partition.

(* np.unique: same elements, strictly increasing, hence duplicate free *)
Theorem C16_usort_spec : forall (l : list Z) (z : Z),
  (In z (usort l) <-> In z l) /\ NoDup (usort l) /\ Sorted.StronglySorted Z.lt (usort l).
Proof. exact (fun l z => conj (usort_In l z) (conj (usort_NoDup l) (usort_sorted l))). Qed.
Print Assumptions C16_usort_spec.

(* argsort of a permutation of 0..n-1 is its inverse *)
Theorem C16_argsort_inverts_permutation : forall (l : list nat) (n : nat),
  Permutation l (seq 0 n) -> forall i j, nth_error l j = Some i -> nth_error (argsort l) i = Some j.
Proof. exact argsort_inverse. Qed.
Print Assumptions C16_argsort_inverts_permutation.

Theorem C16_argsort_is_inverse_permutation : forall (l : list nat) (n : nat),
  Permutation l (seq 0 n) -> argsort l = inv_perm l.
Proof. exact argsort_is_inverse_permutation. Qed.
Print Assumptions C16_argsort_is_inverse_permutation.

(* re-indexing the gathered rows by argsort(allpmjdindex) restores request order, whatever the order
   in which the files were visited *)
Theorem C16_reorder_inverts_grouping : forall (A B : Type) (reqs : list A) (GG : list (nat * A)) (D : A -> B) (d : B),
  Permutation GG (indexed reqs) ->
  take_rows d (map (fun ir => D (snd ir)) GG) (argsort (map fst GG)) = map D reqs.
Proof. exact @reorder_inverts_grouping. Qed.
Print Assumptions C16_reorder_inverts_grouping.

(* ---------------------------------------------------------------- THE PROPERTY *)

(* for every output (image HDU, loglam, plug-map / redshift column) and every request list -- any order,
   repetition, mixture of plates and MJDs -- the algorithm (grouping by key, per-file row selection,
   spec_append chain, argsort re-indexing) computes exactly the request-by-request specification *)
Theorem C16_readspec_core_eq_spec : forall (sv : survey) (w : what) (reqs : list req),
  (forall r, In r reqs -> valid_req r) -> uniform sv w ->
  readspec_core sv w reqs = spec_readspec sv w reqs.
Proof. exact readspec_core_eq_spec. Qed.
Print Assumptions C16_readspec_core_eq_spec.

(* row i of every returned array belongs to request i: it is row fiber_i - 1 of the file of
   (plate_i, mjd_i), zero-padded on the right to the longest requested spectrum when it is an image *)
Theorem C16_readspec_row_i : forall (sv : survey) (w : what) (reqs : list req) (out : img),
  (forall r, In r reqs -> valid_req r) -> uniform sv w ->
  readspec_core sv w reqs = Some out ->
  exists rows,
    mapM (spec_row sv w) reqs = Some rows /\
    length out = length reqs /\
    forall i r, nth_error reqs i = Some r ->
      exists f row,
        find_file sv (r_plate r) (r_mjd r) = Some f /\
        ext1 w f (r_fiber r) = Some row /\
        nth_error rows i = Some row /\
        length row <= npixmax rows /\
        nth_error out i = Some (if padded w then pad (npixmax rows) row else row).
Proof. exact readspec_row_i. Qed.
Print Assumptions C16_readspec_row_i.

(* ... and the model returns something whenever every request has a file and a row *)
Theorem C16_readspec_core_total : forall (sv : survey) (w : what) (reqs : list req) (rows : img),
  (forall r, In r reqs -> valid_req r) -> uniform sv w -> reqs <> [] ->
  mapM (spec_row sv w) reqs = Some rows ->
  readspec_core sv w reqs = Some (if padded w then map (pad (npixmax rows)) rows else rows).
Proof. exact readspec_core_correct. Qed.
Print Assumptions C16_readspec_core_total.

(* "row fiber-1": the row selected for a fibre is the (fiber-1)-th row of the HDU / table;
   with znum it is row (fiber-1)*nper + znum-1 of spZall *)
Theorem C16_row_is_fiber_minus_1 : forall (f : file) (fiber : Z) (row : list Z),
  (forall h, ext1 (WImg h) f fiber = Some row ->
     (1 <= fiber)%Z /\ nth_error (nth h (f_imgs f) []) (Z.to_nat (fiber - 1)) = Some row) /\
  (forall c, ext1 (WTab c) f fiber = Some row ->
     (1 <= fiber)%Z /\ nth_error (nth c (f_tabs f) []) (Z.to_nat (fiber - 1)) = Some row) /\
  (forall c, ext1 (WZbest c) f fiber = Some row ->
     (1 <= fiber)%Z /\ nth_error (nth c (f_zbest f) []) (Z.to_nat (fiber - 1)) = Some row) /\
  (forall c z, ext1 (WZall c z) f fiber = Some row ->
     nth_error (nth c (f_zall f) []) (Z.to_nat ((fiber - 1) * f_nper f + z - 1)) = Some row).
Proof. exact row_is_fiber_minus_1. Qed.
Print Assumptions C16_row_is_fiber_minus_1.

(* padding is on the right, with zeros, and moves no pixel *)
Theorem C16_padding_right_zero : forall (W : nat) (row : list Z), length row <= W ->
  length (pad W row) = W /\
  (forall p v, nth_error row p = Some v -> nth_error (pad W row) p = Some v) /\
  (forall j, length row <= j < W -> nth_error (pad W row) j = Some 0%Z).
Proof. exact pad_spec. Qed.
Print Assumptions C16_padding_right_zero.

(* the common width is the length of the longest requested spectrum (so the longest is not padded) *)
Theorem C16_npixmax_is_longest : forall rows : img,
  (forall r, In r rows -> length r <= npixmax rows) /\
  (rows <> [] -> exists r, In r rows /\ length r = npixmax rows).
Proof. exact (fun rows => conj (npixmax_bound rows) (npixmax_attained rows)). Qed.
Print Assumptions C16_npixmax_is_longest.

(* the wavelength row of a file: COEFF0 + COEFF1 * pixel for each of its NAXIS1 pixels *)
Theorem C16_loglam_row : forall (f : file) (fiber : Z),
  ext1 WLoglam f fiber = Some (loglam0 f) /\ length (loglam0 f) = f_npix f /\
  forall p, p < f_npix f -> nth_error (loglam0 f) p = Some (f_c0 f + f_c1 f * Z.of_nat p)%Z.
Proof. exact (fun f fiber => conj eq_refl (conj (loglam_length f) (loglam_row f))). Qed.
Print Assumptions C16_loglam_row.

(* surveys whose HDUs are rectangular arrays satisfy the hypothesis `uniform` (boolean check) *)
Theorem C16_wf_survey_uniform : forall (sv : survey) (w : what), wf_survey sv = true -> uniform sv w.
Proof. exact wf_survey_uniform. Qed.
Print Assumptions C16_wf_survey_uniform.

(* whole calls, including the calling conventions: all outputs of the model = specification *)
Theorem C16_readspec_model_eq_S : forall sv plate mjd fiber znum reqs,
  wf_survey sv = true ->
  request_vectors sv plate mjd fiber = Some reqs ->
  (forall r, In r reqs -> valid_req r) ->
  readspec_model sv plate mjd fiber znum = readspec_S sv reqs znum.
Proof. exact readspec_model_eq_S. Qed.
Print Assumptions C16_readspec_model_eq_S.

(* calling conventions: which request list a call denotes *)
Theorem C16_requests_vector : forall sv ps ms fs,
  1 < length ps -> length ms = length ps -> length fs = length ps ->
  request_vectors sv (Ar ps) (Some (Ar ms)) (Ar fs) = Some (zip3 ps ms fs).
Proof. exact request_vectors_vector. Qed.
Print Assumptions C16_requests_vector.

Theorem C16_requests_scalar_plate : forall sv p m fs,
  1 < length fs ->
  request_vectors sv (Sc p) (Some (Sc m)) (Ar fs) = Some (zip3 (repeat p (length fs)) (repeat m (length fs)) fs).
Proof. exact request_vectors_scalar_plate. Qed.
Print Assumptions C16_requests_scalar_plate.

Theorem C16_requests_scalar : forall sv p m fb,
  request_vectors sv (Sc p) (Some (Sc m)) (Sc fb) = Some [(p, m, fb)].
Proof. exact request_vectors_scalar. Qed.
Print Assumptions C16_requests_scalar.

Theorem C16_requests_latest_mjd : forall sv ps fs,
  1 < length ps -> length fs = length ps ->
  request_vectors sv (Ar ps) None (Ar fs) = Some (zip3 ps (map (latest_mjd sv) ps) fs).
Proof. exact request_vectors_latest. Qed.
Print Assumptions C16_requests_latest_mjd.

Theorem C16_zip3_nth : forall a b c i x y z,
  nth_error a i = Some x -> nth_error b i = Some y -> nth_error c i = Some z ->
  nth_error (zip3 a b c) i = Some (x, y, z).
Proof. exact zip3_nth. Qed.
Print Assumptions C16_zip3_nth.

(* latest_mjd = the largest MJD among the plate's spPlate files *)
Theorem C16_latest_mjd_spec : forall (sv : survey) (p : Z),
  (forall f, In f sv -> f_plate f = p -> (f_mjd f <= latest_mjd sv p)%Z) /\
  (latest_mjd sv p = 0%Z \/ exists f, In f sv /\ f_plate f = p /\ f_mjd f = latest_mjd sv p).
Proof. exact latest_mjd_spec. Qed.
Print Assumptions C16_latest_mjd_spec.

(* ---------------------------------------------------------------- spec_append *)

(* rows of a, then rows of b; each input pixel lands at its column plus the block's offset;
   every other entry is zero; all rows have the common width *)
Theorem C16_spec_append_spec : forall (a b : img) (s : Z),
  rect a -> rect b ->
  let n1 := nadd1_of s in
  let n2 := nadd2_of s in
  let w := Nat.max (width a + n1) (width b + n2) in
  let out := spec_append a b s in
  length out = length a + length b /\
  (forall i r, nth_error a i = Some r ->
     exists o, nth_error out i = Some o /\ length o = w /\
       (forall p v, nth_error r p = Some v -> nth_error o (n1 + p) = Some v) /\
       (forall j, j < w -> (j < n1 \/ n1 + length r <= j) -> nth_error o j = Some 0%Z)) /\
  (forall i r, nth_error b i = Some r ->
     exists o, nth_error out (length a + i) = Some o /\ length o = w /\
       (forall p v, nth_error r p = Some v -> nth_error o (n2 + p) = Some v) /\
       (forall j, j < w -> (j < n2 \/ n2 + length r <= j) -> nth_error o j = Some 0%Z)).
Proof. exact spec_append_spec. Qed.
Print Assumptions C16_spec_append_spec.

(* the two offsets realise exactly the requested shift: spec2 is displaced by pixshift relative to spec1,
   and at most one of the blocks is displaced *)
Theorem C16_spec_append_shift : forall s : Z,
  (Z.of_nat (nadd2_of s) - Z.of_nat (nadd1_of s) = s)%Z /\ (nadd1_of s = 0 \/ nadd2_of s = 0).
Proof. exact nadd_shift. Qed.
Print Assumptions C16_spec_append_shift.

(* slice-assignment model = index-arithmetic specification *)
Theorem C16_spec_append_M_eq_S : forall (a b : img) (s : Z),
  rect a -> rect b -> spec_append a b s = spec_append_S a b s.
Proof. exact spec_append_M_eq_S. Qed.
Print Assumptions C16_spec_append_M_eq_S.

(* a chain of appends without shift pads everything on the right to the longest row *)
Theorem C16_append_chain_pads_right : forall (w : what) (blocks : list img),
  blocks <> [] -> (padded w = true -> forall b, In b blocks -> rect b /\ b <> []) ->
  accumulate w blocks =
  Some (if padded w then map (pad (list_max_nat (map (@length Z) (concat blocks)))) (concat blocks) else concat blocks).
Proof. exact accumulate_spec. Qed.
Print Assumptions C16_append_chain_pads_right.

(* ---------------------------------------------------------------- tie to the source text (generated expressions) *)

(* the key arithmetic in the source is the model's *)
Theorem C16_source_key : forall p m k : Z,
  gen_key p m = key p m /\ gen_key_plate k = key_plate k /\ gen_key_mjd k = key_mjd k.
Proof. exact (fun p m k => conj (src_key p m) (conj (src_key_plate k) (src_key_mjd k))). Qed.
Print Assumptions C16_source_key.

(* ... hence the source's own expressions decode their own keys *)
Theorem C16_source_key_roundtrip : forall p m : Z,
  (0 <= m < 2 ^ 16)%Z -> gen_key_plate (gen_key p m) = p /\ gen_key_mjd (gen_key p m) = m.
Proof. exact key_decode. Qed.
Print Assumptions C16_source_key_roundtrip.

(* every row subscript in the source (spPlate HDUs, photoPlate, spZbest) is fiber - 1 *)
Theorem C16_source_rows : forall fiber : Z,
  gen_img_row fiber = (fiber - 1)%Z /\ gen_photo_row fiber = (fiber - 1)%Z /\
  gen_z_row (gen_zbest_fiber fiber) = (fiber - 1)%Z.
Proof. exact src_rows. Qed.
Print Assumptions C16_source_rows.

Theorem C16_source_row1 : forall (rows : img) (fiber : Z),
  row1 rows fiber = if (gen_img_row fiber <? 0)%Z then None else nth_error rows (Z.to_nat (gen_img_row fiber)).
Proof. exact src_row1. Qed.
Print Assumptions C16_source_row1.

(* spec_append: the offsets, the common width and the two slice assignments of the source are the model's *)
Theorem C16_source_spec_append : forall (a b : img) (s n1 n2 w1 w2 : Z),
  Z.of_nat (nadd1_of s) = gen_sa_nadd1 s /\ Z.of_nat (nadd2_of s) = gen_sa_nadd2 s /\
  Z.of_nat (Nat.max (width a + nadd1_of s) (width b + nadd2_of s)) = gen_sa_maxpix (Z.of_nat (width a)) (Z.of_nat (width b)) s /\
  gen_sa_block1 n1 n2 w1 w2 s = (0, n1, gen_sa_nadd1 s, gen_sa_nadd1 s + w1)%Z /\
  gen_sa_block2 n1 n2 w1 w2 s = (n1, n1 + n2, gen_sa_nadd2 s, gen_sa_nadd2 s + w2)%Z /\
  gen_sa_nrows n1 n2 = (n1 + n2)%Z.
Proof.
  exact (fun a b s n1 n2 w1 w2 =>
           conj (proj1 (src_nadd s)) (conj (proj2 (src_nadd s)) (conj (src_maxpix a b s) (src_blocks n1 n2 w1 w2 s)))).
Qed.
Print Assumptions C16_source_spec_append.

(* znum (repaired in /repo 8f0f102): the spZall row the SOURCE reads, gen_z_row (gen_znum_fiber ...), is the
   0-based row (fiber-1)*nper + znum - 1, and that is the row the model selects *)
Theorem C16_source_znum_row : forall (c : nat) (znum : Z) (f : file) (fiber : Z),
  gen_z_row (gen_znum_fiber fiber (f_nper f) znum) = ((fiber - 1) * f_nper f + znum - 1)%Z /\
  ext1 (WZall c znum) f fiber =
    (let i := gen_z_row (gen_znum_fiber fiber (f_nper f) znum) in
     if (i <? 0)%Z then None else nth_error (nth c (f_zall f) []) (Z.to_nat i)).
Proof. exact (fun c znum f fiber => conj (src_znum_row fiber (f_nper f) znum) (src_zall_row c znum f fiber)). Qed.
Print Assumptions C16_source_znum_row.

(* number_of_fibers constants and the format strings / environment variable names of spec_path and readspec *)
Theorem C16_source_nfiber_constants : gen_nfiber_boss_mjd = boss_first_mjd /\ gen_nfiber_sdss = sdss_nfiber.
Proof. exact src_nfiber. Qed.
Print Assumptions C16_source_nfiber_constants.

Theorem C16_source_formats :
  gen_dir_plate_width = plate_width /\ gen_pmjd_plate_width = plate_width /\ gen_pmjd_mjd_width = mjd_width /\
  gen_pmjd_sep = [dash] /\
  (gen_pre_spplate, gen_suf_spplate) = (pre_spplate, dot_fits) /\
  (gen_pre_spzbest, gen_suf_spzbest) = (pre_spzbest, dot_fits) /\
  (gen_pre_spzall, gen_suf_spzall) = (pre_spzall, dot_fits) /\
  (gen_pre_photoplate, gen_suf_photoplate) = (pre_photoplate, dot_fits) /\
  gen_env_int_run2d = name_SPECTRO_REDUX /\ gen_env_other_run2d = name_BOSS_SPECTRO_REDUX.
Proof. exact src_formats. Qed.
Print Assumptions C16_source_formats.

(* ---------------------------------------------------------------- fiber=None: number_of_fibers and the expansion *)

(* every plate before MJD 55025: 640 fibres each *)
Theorem C16_number_of_fibers_sdss : forall sv pl r2 r1 plates,
  (forall p, In p plates -> (latest_mjd sv p < boss_first_mjd)%Z) ->
  number_of_fibers sv pl r2 r1 plates = Some (map (fun _ => sdss_nfiber) plates).
Proof. exact number_of_fibers_sdss. Qed.
Print Assumptions C16_number_of_fibers_sdss.

(* otherwise every plate gets N_TOTAL of the platelist row with its plate, its latest MJD and the call's RUN2D / RUN1D *)
Theorem C16_number_of_fibers_boss : forall sv pl r2 r1 plates nf p0,
  In p0 plates -> (boss_first_mjd <= latest_mjd sv p0)%Z ->
  number_of_fibers sv pl r2 r1 plates = Some nf ->
  length nf = length plates /\
  forall i p, nth_error plates i = Some p ->
    exists n, ntotal_lookup pl p (latest_mjd sv p) r2 r1 = Some n /\ nth_error nf i = Some n.
Proof. exact number_of_fibers_boss. Qed.
Print Assumptions C16_number_of_fibers_boss.

Theorem C16_ntotal_lookup_spec : forall pl p m r2 r1 n,
  ntotal_lookup pl p m r2 r1 = Some n ->
  exists r, In r pl /\ pl_plate r = p /\ pl_mjd r = m /\ pl_run2d r = r2 /\ pl_run1d r = r1 /\ pl_ntotal r = n.
Proof. exact ntotal_lookup_spec. Qed.
Print Assumptions C16_ntotal_lookup_spec.

(* the expanded request list: plates in increasing order, each with its latest MJD and fibres 1..nfiber in order *)
Theorem C16_all_fibers_requests : forall sv pl r2 r1 plates nf,
  NoDup plates ->
  number_of_fibers sv pl r2 r1 plates = Some nf -> (forall n, In n nf -> (0 <= n)%Z) ->
  request_vectors_all sv pl r2 r1 (Ar plates) None =
  Some (flat_map (fun p => map (fun f => (p, latest_mjd sv p, Z.of_nat f)) (seq 1 (Z.to_nat (nf_first plates nf p))))
                 (usort plates)).
Proof. exact all_fibers_requests. Qed.
Print Assumptions C16_all_fibers_requests.

Theorem C16_all_fibers_requests_scalar : forall sv pl r2 r1 p n,
  number_of_fibers sv pl r2 r1 [p] = Some [n] -> (0 <= n)%Z ->
  request_vectors_all sv pl r2 r1 (Sc p) None = Some (map (fun f => (p, latest_mjd sv p, Z.of_nat f)) (seq 1 (Z.to_nat n))).
Proof. exact all_fibers_requests_scalar. Qed.
Print Assumptions C16_all_fibers_requests_scalar.

(* nfiber(p) in the theorem above is the entry of number_of_fibers at p's position *)
Theorem C16_nf_first_nodup : forall plates nfibers i p n,
  NoDup plates -> nth_error plates i = Some p -> nth_error nfibers i = Some n -> nf_first plates nfibers p = n.
Proof. exact nf_first_nodup. Qed.
Print Assumptions C16_nf_first_nodup.

Theorem C16_readspec_model_all_eq_S : forall sv pl r2 r1 plate mjd znum reqs,
  wf_survey sv = true ->
  request_vectors_all sv pl r2 r1 plate mjd = Some reqs ->
  (forall r, In r reqs -> valid_req r) ->
  readspec_model_all sv pl r2 r1 plate mjd znum = readspec_S sv reqs znum.
Proof. exact readspec_model_all_eq_S. Qed.
Print Assumptions C16_readspec_model_all_eq_S.

(* ---------------------------------------------------------------- spec_path and file names *)

(* '{0:0Wd}'.format(n): digits only, at least W of them, and the number can be read back *)
Theorem C16_fmt_spec : forall (w : nat) (n : Z), (0 <= n)%Z ->
  dvalue (fmt w n) = n /\ forallb is_digit (fmt w n) = true /\ w <= length (fmt w n).
Proof. exact (fun w n H => conj (fmt_value w n H) (conj (fmt_digits w n H) (fmt_min_length w n))). Qed.
Print Assumptions C16_fmt_spec.

(* different (plate, mjd) never give the same file name ... *)
Theorem C16_file_name_injective : forall prefix p m p' m',
  (0 <= p)%Z -> (0 <= m)%Z -> (0 <= p')%Z -> (0 <= m')%Z ->
  file_name prefix p m = file_name prefix p' m' -> p = p' /\ m = m'.
Proof. exact file_name_injective. Qed.
Print Assumptions C16_file_name_injective.

(* ... nor the same spPlate / spZbest / spZall path within one location and reduction *)
Theorem C16_spplate_file_injective : forall l r p m p' m',
  (0 <= p)%Z -> (0 <= m)%Z -> (0 <= p')%Z -> (0 <= m')%Z ->
  spplate_file l r p m = spplate_file l r p' m' -> p = p' /\ m = m'.
Proof. exact spplate_file_injective. Qed.
Print Assumptions C16_spplate_file_injective.

Theorem C16_spz_file_injective : forall l r r1 prefix p m p' m',
  (0 <= p)%Z -> (0 <= m)%Z -> (0 <= p')%Z -> (0 <= m')%Z ->
  spz_file l r r1 prefix p m = spz_file l r r1 prefix p' m' -> p = p' /\ m = m'.
Proof. exact spz_file_injective. Qed.
Print Assumptions C16_spz_file_injective.

Theorem C16_plate_dir_injective : forall t r p p',
  (0 <= p)%Z -> (0 <= p')%Z -> plate_dir (LTop t) r p = plate_dir (LTop t) r p' -> p = p'.
Proof. exact plate_dir_injective. Qed.
Print Assumptions C16_plate_dir_injective.

(* the same request names the same file whether the top directory comes from topdir= or from the environment
   variable selected by run2d; topdir= wins over the environment; the file name does not depend on the convention;
   path= wins over everything *)
Theorem C16_convention_independent : forall env r t p m,
  env_top env r = Some t ->
  resolve_loc None None env r = resolve_loc None (Some t) env r /\
  (forall env', resolve_loc None (Some t) env' r = Some (LTop t)) /\
  (forall l, last (spplate_file l r p m) [] = file_name pre_spplate p m) /\
  (forall d topdir env', resolve_loc (Some d) topdir env' r = Some (LPath d)).
Proof. exact convention_independent. Qed.
Print Assumptions C16_convention_independent.

(* SPECIFICATION OF THE HISTORY GROUPS: several trees / reductions with pairwise different (directory | top
   directory, run2d) mounted in one file system; a request looked up through the location and run2d of tree t finds
   exactly what t's own survey holds for (plate, mjd), whatever else is mounted and whatever was read before *)
Theorem C16_mount_lookup : forall trees t p m,
  NoDup (map tkey trees) -> (forall t', In t' trees -> nonneg_survey (t_survey t')) ->
  In t trees -> (0 <= p)%Z -> (0 <= m)%Z ->
  fs_find (mount trees) (spplate_file (t_loc t) (t_run2d t) p m) = find_file (t_survey t) p m.
Proof. exact mount_lookup. Qed.
Print Assumptions C16_mount_lookup.

(* ---------------------------------------------------------------- non-vacuity *)

Definition ex_file (p m : Z) (npix : nat) (base : Z) : file :=
  mkFile p m npix 3670016 105
    [map (fun f => map (fun x => (base + 100 * Z.of_nat f + Z.of_nat x)%Z) (seq 0 npix)) (seq 1 3)]
    [map (fun f => [(base + 100 * Z.of_nat f + 50)%Z]) (seq 1 3)] [] 1%Z [].
Definition ex_survey : survey := [ex_file 266 51602 2 1000; ex_file 266 51630 3 2000; ex_file 300 51700 2 3000]%Z.

Example C16_ex_scrambled :
  readspec_model ex_survey (Ar [300; 266; 266; 300]%Z) (Some (Ar [51700; 51630; 51602; 51700]%Z)) (Ar [2; 3; 1; 2]%Z) None
  = Some [ [[3200; 3201; 0]; [2300; 2301; 2302]; [1100; 1101; 0]; [3200; 3201; 0]];
           [[3670016; 3670121; 0]; [3670016; 3670121; 3670226]; [3670016; 3670121; 0]; [3670016; 3670121; 0]];
           [[3250]; [2350]; [1150]; [3250]] ]%Z.
Proof. exact eq_refl. Qed.

Example C16_ex_hypotheses :
  wf_survey ex_survey = true /\
  request_vectors ex_survey (Ar [300; 266; 266; 300]%Z) (Some (Ar [51700; 51630; 51602; 51700]%Z)) (Ar [2; 3; 1; 2]%Z)
  = Some [(300, 51700, 2); (266, 51630, 3); (266, 51602, 1); (300, 51700, 2)]%Z.
Proof. exact (conj eq_refl eq_refl). Qed.

Example C16_ex_append :
  spec_append [[1; 1; 1]; [1; 1; 1]]%Z [[2; 2; 2; 2; 2]]%Z (-2) = [[0; 0; 1; 1; 1]; [0; 0; 1; 1; 1]; [2; 2; 2; 2; 2]]%Z /\
  spec_append [[1; 1; 1; 1; 1]]%Z [[2; 2; 2; 2]]%Z 1 = [[1; 1; 1; 1; 1]; [0; 2; 2; 2; 2]]%Z /\
  spec_append [[1; 1; 1; 1; 1]]%Z [[2; 2; 2; 2]]%Z 3 = [[1; 1; 1; 1; 1; 0; 0]; [0; 0; 0; 2; 2; 2; 2]]%Z.
Proof. exact (conj eq_refl (conj eq_refl eq_refl)). Qed.

Example C16_ex_paths :
  spplate_file (LTop [84]%Z) [118; 53]%Z 266 51602 =
    [[84]; [118; 53]; [48; 50; 54; 54]; [115; 112; 80; 108; 97; 116; 101; 45; 48; 50; 54; 54; 45; 53; 49; 54; 48; 50; 46; 102; 105; 116; 115]]%Z /\
  fmt 4 12345 = [49; 50; 51; 52; 53]%Z /\ fmt 4 0 = [48; 48; 48; 48]%Z.
Proof. exact (conj eq_refl (conj eq_refl eq_refl)). Qed.

Example C16_ex_all_fibers :
  request_vectors_all ex_survey [mkPl 300 51700 1 1 2]%Z 1 1 (Ar [300; 266]%Z) None = Some (map (fun f => (266, 51630, f)) (map Z.of_nat (seq 1 640)) ++ map (fun f => (300, 51700, f)) (map Z.of_nat (seq 1 640)))%Z.
Proof. exact eq_refl. Qed.

(* ---------------------------------------------------------------- storage types (round 5)
   The integer types readspec computes in.  gen_t_... (Generated/Readspec.v) are the TYPED expressions of the request
   normalisation (one list entry per route: vector, scalar + np.zeros broadcast, fiber=None via np.arange) and of every
   index computed from them; Typed.peval is NumPy 2 arithmetic (array (op) Python int keeps the array type and wraps,
   OverflowError for a Python int that does not fit, np.array(x, dtype) is a wrapping cast), tied to NumPy on every run by
   the CTyped correspondence cases. *)

(* the range analysis is sound: when pcheck accepts an expression for given variable ranges, its evaluation in machine
   types equals the evaluation over unbounded integers, whatever the storage types of the inputs *)
Theorem C16_typed_range_analysis_sound : forall (ivs : vtab) (e : pexpr) (k : kind) (lo hi : Z),
  pcheck ivs e = Some (k, lo, hi) ->
  forall env, penv_ok ivs env ->
  exists k', peval env e = PVal k' (pzeval (map snd env) e) /\ kind_ok k k' /\ (lo <= pzeval (map snd env) e <= hi)%Z.
Proof. exact pcheck_sound. Qed.
Print Assumptions C16_typed_range_analysis_sound.

(* documented ranges (fibre 1..1000, DIMS0 and znum 1..1000, plate with at most five digits, MJD below 2^16), any
   storage type of the caller's arrays that holds the values: a valid environment of the analysis *)
Theorem C16_storage_ranges : forall tf fiber nper znum tp plate tm mjd ta a bigmjd,
  fits tf fiber = true -> (1 <= fiber <= 1000)%Z -> (1 <= nper <= 1000)%Z -> (1 <= znum <= 1000)%Z ->
  fits tp plate = true -> (0 <= plate <= 99999)%Z -> fits tm mjd = true -> (0 <= mjd <= 65535)%Z ->
  fits ta a = true -> (0 <= a <= 999)%Z -> (0 <= bigmjd <= 65535)%Z ->
  penv_ok c16_tab (c16_env tf fiber nper znum tp plate tm mjd ta a bigmjd).
Proof. exact c16_env_ok. Qed.
Print Assumptions C16_storage_ranges.

(* fibre numbers given by the caller, every route of the source: the fibre vector holds the fibre number, and the row
   indices of spPlate / photoPlate / spZbest (fiber-1) and of spZall ((fiber-1)*nper+znum-1) are computed without any
   intermediate result leaving its machine type.  FAILS TO COMPILE when a route stores fibre numbers in 16 bits. *)
Theorem C16_storage_rows_given : forall f env, In f gen_t_fiber_given -> penv_ok c16_tab env ->
  let fiber := nth 0 (map snd env) 0%Z in
  let nper := nth 1 (map snd env) 0%Z in
  let znum := nth 2 (map snd env) 0%Z in
  typed_is env f fiber /\
  typed_is env (gen_t_img_row f) (fiber - 1)%Z /\
  typed_is env (gen_t_photo_row f) (fiber - 1)%Z /\
  typed_is env (gen_t_z_row (gen_t_zbest_fiber f)) (fiber - 1)%Z /\
  typed_is env (gen_t_z_row (gen_t_znum_fiber f)) ((fiber - 1) * nper + znum - 1)%Z.
Proof. exact storage_rows_given. Qed.
Print Assumptions C16_storage_rows_given.

(* fiber=None: fibre numbers np.arange(n)+1 written into the fibervec buffer (variable 5 = element of the arange) *)
Theorem C16_storage_rows_all : forall f env, In f gen_t_fiber_all -> penv_ok c16_tab env ->
  let fiber := (nth 5 (map snd env) 0 + 1)%Z in
  let nper := nth 1 (map snd env) 0%Z in
  let znum := nth 2 (map snd env) 0%Z in
  typed_is env f fiber /\
  typed_is env (gen_t_img_row f) (fiber - 1)%Z /\
  typed_is env (gen_t_photo_row f) (fiber - 1)%Z /\
  typed_is env (gen_t_z_row (gen_t_zbest_fiber f)) (fiber - 1)%Z /\
  typed_is env (gen_t_z_row (gen_t_znum_fiber f)) ((fiber - 1) * nper + znum - 1)%Z.
Proof. exact storage_rows_all. Qed.
Print Assumptions C16_storage_rows_all.

(* every (platevec route, mjdvec route): the uint64 key computed by the source is the model's key, and >>16, &0xffff
   in uint64 give back plate and MJD *)
Theorem C16_storage_key : forall pv mv env, In pv plate_routes -> In mv mjd_routes -> penv_ok c16_tab env ->
  let plate := nth 3 (map snd env) 0%Z in
  let mjd := pzeval (map snd env) mv in
  (0 <= mjd < 2 ^ 16)%Z /\
  typed_is env (gen_t_key pv mv) (key plate mjd) /\
  typed_is env (gen_t_key_plate (gen_t_key pv mv)) plate /\
  typed_is env (gen_t_key_mjd (gen_t_key pv mv)) mjd.
Proof. exact storage_key. Qed.
Print Assumptions C16_storage_key.

(* what every route denotes, and that the typed index expressions erase to the untyped generated ones *)
Theorem C16_storage_routes_denote : forall env,
  (forall f, In f gen_t_fiber_given -> pzeval env f = nth 0 env 0%Z) /\
  (forall f, In f gen_t_fiber_all -> pzeval env f = (nth 5 env 0 + 1)%Z) /\
  (forall pv, In pv plate_routes -> pzeval env pv = nth 3 env 0%Z) /\
  (forall mv, In mv gen_t_mjd_given -> pzeval env mv = nth 4 env 0%Z) /\
  (forall mv, In mv gen_t_mjd_latest -> pzeval env mv = nth 6 env 0%Z) /\
  (forall f, pzeval env (gen_t_z_row (gen_t_znum_fiber f)) = gen_z_row (gen_znum_fiber (pzeval env f) (nth 1 env 0%Z) (nth 2 env 0%Z))) /\
  (forall pv mv, pzeval env (gen_t_key pv mv) = gen_key (pzeval env pv) (pzeval env mv)).
Proof.
  exact (fun env => conj (fun f H => fiber_given_denotes f env H) (conj (fun f H => fiber_all_denotes f env H)
         (conj (fun pv H => plate_denotes pv env H) (conj (fun mv H => mjd_given_denotes mv env H)
         (conj (fun mv H => mjd_latest_denotes mv env H)
         (conj (fun f => proj2 (proj2 (proj2 (erase_rows f env)))) (fun pv mv => proj1 (erase_key pv mv env)))))))).
Qed.
Print Assumptions C16_storage_routes_denote.

(* non-vacuity: a realistic environment (fibre 1000 held in an int16 array by the caller, 134 fits per fibre, five-digit
   plate) is covered; the routes exist; and the analysis discriminates -- fibre numbers KEPT in int16 are rejected, and
   the spZall row of fibre 246, znum 134 then wraps to a negative index (a row of another fibre) *)
Example C16_ex_storage :
  penv_ok c16_tab (c16_env I16 1000 134 134 I32 10000 U16 65535 I64 999 65535) /\
  (gen_t_fiber_given <> [] /\ gen_t_fiber_all <> [] /\ plate_routes <> [] /\ mjd_routes <> []) /\
  all_checked c16_tab c16_index_exprs = true /\
  all_checked c16_tab [gen_t_z_row (gen_t_znum_fiber (PCast I16 (PArr 0)))] = false /\
  peval (c16_env I64 246 134 134 I32 4055 I32 55359 I64 0 0) (gen_t_z_row (gen_t_znum_fiber (PCast I16 (PArr 0))))
    = PVal (Some I16) (-32573)%Z /\
  peval (c16_env I64 246 134 134 I32 4055 I32 55359 I64 0 0) (gen_t_z_row (gen_t_znum_fiber (PCast I32 (PArr 0))))
    = PVal (Some I32) 32963%Z.
Proof. exact ex_storage. Qed.

(* ---------------------------------------------------------------- align=True: pixel shift from the wavelength solutions (round 5)
   align_step / align_chain (C16/AlignModel.v) transliterate the align branch with an INTEGER shift; the real code passes
   the float64 np.floor(...) on to spec_append and raises TypeError whenever two files differ in COEFF0 (notes/C16.md,
   fixes/C16-align-float-pixshift.diff), so these theorems are about the intended algorithm and are tied to the source
   text by the extracted pieces (C16_source_align), not by runs of the unrepaired code. *)

(* the rounding rule: the shift is the integer nearest to (COEFF0 - min COEFF0)/COEFF1, ties up; on a common grid of
   step COEFF1 it is exactly the difference of the grid indices *)
Theorem C16_align_pixshift_rounding : forall c0 min0 c1 : Z, (0 < c1)%Z ->
  let ps := pixshift_of c0 min0 c1 in (2 * ps * c1 <= 2 * (c0 - min0) + c1 < 2 * (ps + 1) * c1)%Z.
Proof. exact pixshift_rounding. Qed.
Print Assumptions C16_align_pixshift_rounding.

Theorem C16_align_pixshift_on_grid : forall g k m c1 : Z, (0 < c1)%Z -> pixshift_of (g + k * c1) (g + m * c1) c1 = (k - m)%Z.
Proof. exact pixshift_on_grid. Qed.
Print Assumptions C16_align_pixshift_on_grid.

(* rounding + spec_append composition: for ANY blocks (rectangular, non-empty; any order, repeated COEFF0) whose COEFF0
   lie on the grid g + k*c1, the aligned accumulation returns the rows of the blocks in order, each stored at a column
   offset with  origin + c1*offset = its own COEFF0  (origin = the one value recorded for every row, the smallest
   COEFF0: some row has offset 0), inside a common width *)
Theorem C16_align_chain_unshifted : forall (c1 g : Z) (blocks : list (img * Z)),
  (0 < c1)%Z -> blocks <> [] -> (forall bk, In bk blocks -> wf_block bk) ->
  exists W m entries,
    align_chain c1 (map (fun bk => (fst bk, g + snd bk * c1)%Z) blocks)
    = Some (rows_of entries W, repeat (g + m * c1)%Z (length entries)) /\
    map (fun e => (e_row e, e_c0 e)) entries = rows_with_c0 (map (fun bk => (fst bk, g + snd bk * c1)%Z) blocks) /\
    aligned c1 (g + m * c1)%Z W entries.
Proof. exact align_chain_unshifted. Qed.
Print Assumptions C16_align_chain_unshifted.

(* pixel level ("unshifted"): pixel p of stored row i sits in column offset+p, the wavelength of that column computed
   from the common origin is the pixel's own wavelength COEFF0 + COEFF1*p, and the rest of the row is zero *)
Theorem C16_aligned_pixels : forall (c1 origin : Z) (W : nat) (entries : list entry) (i : nat) (e : entry),
  aligned c1 origin W entries -> nth_error entries i = Some e ->
  exists o, nth_error (rows_of entries W) i = Some o /\ length o = W /\
    (forall p v, nth_error (e_row e) p = Some v ->
       nth_error o (e_off e + p) = Some v /\
       (origin + c1 * Z.of_nat (e_off e + p) = e_c0 e + c1 * Z.of_nat p)%Z) /\
    (forall j, j < W -> (j < e_off e \/ e_off e + length (e_row e) <= j) -> nth_error o j = Some 0%Z).
Proof. exact aligned_pixels. Qed.
Print Assumptions C16_aligned_pixels.

(* tie to the source text: np.floor((coeff0[0] - mincoeff0)/coeff1[0] + 0.5) over the rationals is pixshift_of, and the
   COEFF0 updates of align_step are the extracted ones *)
Theorem C16_source_align : forall c1 : Z,
  (forall c0 min0, (0 < c1)%Z -> gen_align_ps c0 min0 c1 = pixshift_of c0 min0 c1) /\
  (forall acc all0 b c0,
     align_step c1 (acc, all0) (b, c0) =
     let ps := pixshift_of c0 (list_min_Z 0%Z all0) c1 in
     (spec_append acc b ps,
      (if gen_align_shift_new ps then all0 else map (fun a => gen_align_old_c0 a ps c1) all0)
      ++ repeat (if gen_align_shift_new ps then gen_align_new_c0 c0 ps c1 else c0) (length b))).
Proof. exact (fun c1 => conj (fun c0 min0 H => src_align_ps c0 min0 c1 H) (src_align_step c1)). Qed.
Print Assumptions C16_source_align.

Example C16_ex_align :
  align_chain 2 [([[1; 2; 3]], 10); ([[4; 5]; [6; 7]], 6); ([[8; 9; 10]], 14)]%Z
  = Some ([[0; 0; 1; 2; 3; 0; 0]; [4; 5; 0; 0; 0; 0; 0]; [6; 7; 0; 0; 0; 0; 0]; [0; 0; 0; 0; 8; 9; 10]], [6; 6; 6; 6])%Z.
Proof. exact align_chain_example. Qed.
