(* C19 -- Wavelength, photometric-system and band-flux conversions are self-consistent.
   Property theorems only; each is closed by `exact` and followed by Print Assumptions.
   airtovac_*_R/_Q, vactoair_*, flux2ab_*, filter_norm are GENERATED from /repo on every run
   (Generated/AstroConsts.v); airtovac_R, vactoair_R, filter_band, mask_interp compose them (C19/Model.v). *)
From Coq Require Import Reals QArith Qreals List Bool ZArith Qabs Lra.
Import ListNotations.
From PV Require Import C19.Spec Generated.AstroConsts C19.Model C19.WmeanProofs C19.AirVacProofs C19.FluxProofs C19.LinkProofs
  C19.InterpProofs C19.SwitchProofs.

(* ---- air <-> vacuum (over R, wavelengths in Angstrom) ---- *)
Open Scope R_scope.

Theorem C19_below_2000_unchanged : forall a, a < 2000 -> airtovac_R a = a /\ vactoair_R a = a.
Proof. exact below_2000_unchanged. Qed.
Print Assumptions C19_below_2000_unchanged.

Theorem C19_vacuum_gt_air : forall a, 2000 <= a -> a < airtovac_R a /\ vactoair_R a < a.
Proof. exact vacuum_gt_air. Qed.
Print Assumptions C19_vacuum_gt_air.

(* mutual inverses to better than 1e-6 A, from 2000 A to 30 um:
   vactoair(airtovac(a)) = a for a >= 2000 A, and airtovac(vactoair(v)) = v wherever vactoair(v) >= 2000 A *)
Theorem C19_mutual_inverse :
  (forall a, 2000 <= a <= 300000 -> Rabs (vactoair_R (airtovac_R a) - a) <= 1 / 1000000) /\
  (forall v, 2000 <= vactoair_R v -> v <= 300000 -> Rabs (airtovac_R (vactoair_R v) - v) <= 1 / 1000000).
Proof. exact mutual_inverse. Qed.
Print Assumptions C19_mutual_inverse.

(* ---- across the 2000 A switch (round 5) ---- *)

(* air -> vacuum -> air for EVERY wavelength up to 30 um, the identity branch below 2000 A included *)
Theorem C19_roundtrip_all_wavelengths : forall a, a <= 300000 -> Rabs (vactoair_R (airtovac_R a) - a) <= 1 / 1000000.
Proof. exact roundtrip_all. Qed.
Print Assumptions C19_roundtrip_all_wavelengths.

(* the restriction "wherever vactoair(v) >= 2000 A" of the other direction cannot be dropped: just above the switch the
   round trip is off by more than half an Angstrom *)
Theorem C19_second_direction_gap : forall v, 2000 <= v <= 2000 + 1 / 2 ->
  vactoair_R v < 2000 /\ airtovac_R (vactoair_R v) = vactoair_R v /\ 1 / 2 < v - airtovac_R (vactoair_R v).
Proof. exact second_direction_gap. Qed.
Print Assumptions C19_second_direction_gap.

(* airtovac is strictly increasing on all wavelengths, across the switch too *)
Theorem C19_airtovac_increasing : forall x y, x < y -> airtovac_R x < airtovac_R y.
Proof. exact airtovac_increasing. Qed.
Print Assumptions C19_airtovac_increasing.

Theorem C19_vactoair_increasing_above : forall x y, 2000 <= x -> x < y -> vactoair_R x < vactoair_R y.
Proof. exact vactoair_increasing_above. Qed.
Print Assumptions C19_vactoair_increasing_above.

(* full statement "vactoair is increasing on all wavelengths" is FALSE of the faithful model (and of the code): *)
Theorem C19_vactoair_monotone_across_switch_refuted : vactoair_R 2000 < vactoair_R (2000 - 1 / 10).
Proof. exact vactoair_not_monotone_at_switch. Qed.
Print Assumptions C19_vactoair_monotone_across_switch_refuted.

(* the executable Q model run against the implementation is the R model of the theorems above *)
Theorem C19_Q_model_is_R_model : forall a : Q,
  Q2R (airtovac_Q a) = airtovac_R (Q2R a) /\ Q2R (vactoair_Q a) = vactoair_R (Q2R a).
Proof. exact Q_models_are_R_models. Qed.
Print Assumptions C19_Q_model_is_R_model.

(* ---- sdssflux2ab ---- *)

Theorem C19_flux2ab_ivar_consistent : forall c,
  flux2ab_ivar_factor (flux2ab_factor c) * (flux2ab_factor c * flux2ab_factor c) = 1.
Proof. exact flux2ab_ivar_consistent. Qed.
Print Assumptions C19_flux2ab_ivar_consistent.

Theorem C19_flux2ab_mag_consistent : forall c f, 0 < f ->
  - (5 / 2) * log10 (flux2ab_flux f (flux2ab_factor c)) = flux2ab_mag (- (5 / 2) * log10 f) c.
Proof. exact flux2ab_mag_consistent. Qed.
Print Assumptions C19_flux2ab_mag_consistent.

(* the three forms apply the documented offset of the band *)
Theorem C19_flux2ab_is_spec : forall b x, (b < 5)%nat ->
  let c := Q2R (nth b flux2ab_correction 0%Q) in
  flux2ab_flux x (flux2ab_factor c) = ab_flux b x /\
  flux2ab_mag x c = ab_mag b x /\
  flux2ab_flux x (flux2ab_ivar_factor (flux2ab_factor c)) = ab_ivar b x.
Proof. exact flux2ab_is_spec. Qed.
Print Assumptions C19_flux2ab_is_spec.

Close Scope R_scope.

(* ---- filter_thru: response-weighted mean (over Q, any number of pixels) ---- *)
Open Scope Q_scope.

Theorem C19_wmean_linear : forall a b l,
  filter_band (plin a b l) == a * filter_band (pf l) + b * filter_band (pg l).
Proof. exact filter_band_linear. Qed.
Print Assumptions C19_wmean_linear.

Theorem C19_wmean_const : forall c ws, 0 < sumw (pconst c ws) -> filter_band (pconst c ws) == c.
Proof. exact filter_band_const. Qed.
Print Assumptions C19_wmean_const.

Theorem C19_wmean_bounds : forall lo hi l, nonneg_weights l -> flux_within lo hi l -> 0 < sumw l ->
  lo <= filter_band l <= hi.
Proof. exact filter_band_bounds. Qed.
Print Assumptions C19_wmean_bounds.

Theorem C19_filter_no_overlap : forall l, nonneg_weights l -> sumw l <= 0 -> filter_band l == 0.
Proof. exact filter_band_no_overlap. Qed.
Print Assumptions C19_filter_no_overlap.

(* when the band overlaps the spectrum, the generated normalisation is the weighted mean *)
Theorem C19_filter_is_wmean : forall l, 0 < sumw l -> filter_band l == wmean l.
Proof. exact filter_is_wmean. Qed.
Print Assumptions C19_filter_is_wmean.

(* the weight expression regenerated from the source (pixel width post-processing and product with the response) *)
Theorem C19_weights_nonneg : forall fitted resp, 0 <= resp -> 0 <= filter_weight (filter_logdiff fitted) resp.
Proof. exact weights_nonneg. Qed.
Print Assumptions C19_weights_nonneg.

Theorem C19_weight_is_spec : forall fitted resp, filter_weight (filter_logdiff fitted) resp == weight_S fitted resp.
Proof. exact weight_is_spec. Qed.
Print Assumptions C19_weight_is_spec.

(* from the raw ingredients (fitted d log lambda of either sign, response >= 0, flux): within the flux range; 0 without overlap *)
Theorem C19_filter_thru_band_bounds : forall lo hi l, resp_nonneg l -> flux_within3 lo hi l -> 0 < sumw (band_pairs l) ->
  lo <= filter_thru_band l <= hi.
Proof. exact filter_thru_band_bounds. Qed.
Print Assumptions C19_filter_thru_band_bounds.

Theorem C19_filter_thru_band_no_overlap : forall l, resp_nonneg l -> sumw (band_pairs l) <= 0 -> filter_thru_band l == 0.
Proof. exact filter_thru_band_no_overlap. Qed.
Print Assumptions C19_filter_thru_band_no_overlap.

(* values of masked pixels do not enter, whatever interpolation fills them from the unmasked ones *)
Theorem C19_filter_mask_indep : forall (interp : list (Z * Q) -> Z -> Q) ws fl fl',
  Forall2 agree fl fl' ->
  filter_band (combine ws (mask_interp interp fl)) = filter_band (combine ws (mask_interp interp fl')).
Proof. exact filter_mask_indep. Qed.
Print Assumptions C19_filter_mask_indep.

(* ---- masked pixels: djs_maskinterp1 with the good / bad tests and the dispatch REGENERATED from image.py (round 5) ---- *)

(* the two tests of the source partition the mask values, and "bad" is the documented "mask is non-zero" -- for every
   rational mask value: -1, a sign bit, 2^63, 1/2.  A source that fills only `mask > 0` pixels breaks this obligation. *)
Theorem C19_mask_tests_are_spec : forall m,
  maskinterp_bad m = negb (maskinterp_good m) /\ maskinterp_bad m = bad_S m /\ (maskinterp_bad m = true <-> ~ m == 0).
Proof. exact (fun m => conj (mask_partition m) (conj (mask_bad_is_spec m) (mask_bad_iff m))). Qed.
Print Assumptions C19_mask_tests_are_spec.

(* two rows with the same mask that agree on the good pixels are interpolated to the same row, when there is a good pixel *)
Theorem C19_maskinterp_indep : forall l l', Forall2 agree_m l l' -> has_good l -> mi_row l = mi_row l'.
Proof. exact mi_row_indep. Qed.
Print Assumptions C19_maskinterp_indep.

(* full statement (no "has a good pixel") is FALSE of the faithful model: a row without good pixels is handed back as it is *)
Theorem C19_maskinterp_indep_all_bad_refuted : exists l l', Forall2 agree_m l l' /\ all_bad l /\ mi_row l <> mi_row l'.
Proof. exact mi_row_all_bad_refuted. Qed.
Print Assumptions C19_maskinterp_indep_all_bad_refuted.

Theorem C19_maskinterp_all_bad_is_input : forall l, all_bad l -> mi_row l = map fst l.
Proof. exact mi_row_all_bad_is_input. Qed.
Print Assumptions C19_maskinterp_all_bad_is_input.

(* every pixel of the interpolated row lies within the range of the good values *)
Theorem C19_maskinterp_bounds : forall lo hi l, has_good l -> good_within lo hi l -> forall x, In x (mi_row l) -> lo <= x <= hi.
Proof. exact mi_row_bounds. Qed.
Print Assumptions C19_maskinterp_bounds.

(* one (trace, band) of filter_thru(flux, mask=...): independent of the bad pixels' values, within the good pixels' range,
   c for a spectrum that is c on the good pixels *)
Theorem C19_filter_trace_mask_indep : forall ws l l', Forall2 agree_m l l' -> has_good l -> filter_trace ws l = filter_trace ws l'.
Proof. exact filter_trace_mask_indep. Qed.
Print Assumptions C19_filter_trace_mask_indep.

Theorem C19_filter_trace_bounds : forall lo hi ws l, (forall w, In w ws -> 0 <= w) -> has_good l -> good_within lo hi l ->
  0 < sumw (combine ws (mi_row l)) -> lo <= filter_trace ws l <= hi.
Proof. exact filter_trace_bounds. Qed.
Print Assumptions C19_filter_trace_bounds.

Theorem C19_filter_trace_const : forall c ws l, (forall w, In w ws -> 0 <= w) -> has_good l -> good_within c c l ->
  0 < sumw (combine ws (mi_row l)) -> filter_trace ws l == c.
Proof. exact filter_trace_const. Qed.
Print Assumptions C19_filter_trace_const.

(* np.interp never leaves the range of the sample values, whatever the abscissae *)
Theorem C19_np_interp_bounds : forall lo hi x l, l <> [] -> vals_within lo hi l -> lo <= np_interp x l <= hi.
Proof. exact np_interp_bounds. Qed.
Print Assumptions C19_np_interp_bounds.

(* a spectrum stored red to blue gives the same band value as the same pixels stored blue to red *)
Theorem C19_filter_band_reversal : forall l, filter_band (rev l) == filter_band l.
Proof. exact filter_band_rev. Qed.
Print Assumptions C19_filter_band_reversal.

(* the response curves REGENERATED from data/filters: within [0, 1] at every wavelength, so that the band value computed
   from (fitted d log lambda, wavelength, flux) needs no hypothesis on the response any more *)
Theorem C19_response_range : forall b lam, 0 <= filter_response b lam <= 1.
Proof. exact response_range. Qed.
Print Assumptions C19_response_range.

Theorem C19_filter_thru_lam_bounds : forall b lo hi l, flux_within3 lo hi l -> 0 < sumw (band_pairs (resp_tr b l)) ->
  lo <= filter_thru_lam b l <= hi.
Proof. exact filter_thru_lam_bounds. Qed.
Print Assumptions C19_filter_thru_lam_bounds.

Theorem C19_filter_thru_lam_no_overlap : forall b l, sumw (band_pairs (resp_tr b l)) <= 0 -> filter_thru_lam b l == 0.
Proof. exact filter_thru_lam_no_overlap. Qed.
Print Assumptions C19_filter_thru_lam_no_overlap.

(* the run-time row checker S is sound *)
Theorem C19_fill_ok_sound : forall l r tol g0 gs, fill_ok l r tol = true -> good_vals l = g0 :: gs ->
  Forall2 (fun (p : Q * Q) (x : Q) =>
             if bad_S (snd p) then lmin gs g0 - tol <= x <= lmax gs g0 + tol else x == fst p) l r.
Proof. exact fill_ok_sound. Qed.
Print Assumptions C19_fill_ok_sound.

(* the run-time checker S used on the implementation's outputs is sound *)
Theorem C19_wmean_ok_sound : forall l r tol, wmean_ok l r tol = true -> l <> [] ->
  nonneg_weights l /\ (0 < sumw l -> Qabs (r - wmean l) <= tol) /\ (sumw l <= 0 -> r == 0).
Proof. exact wmean_ok_sound. Qed.
Print Assumptions C19_wmean_ok_sound.

(* non-vacuity *)
Example C19_witness_air : Qred (vactoair_Q (2000 # 1)) = (2757481878800000000 # 1379187366458949).
Proof. vm_compute. reflexivity. Qed.
Example C19_witness_band : filter_thru_band [((-1) # 2, 1 # 1, 3 # 1); (1 # 2, 1 # 1, 5 # 1)] == 4.
Proof. vm_compute. reflexivity. Qed.
(* round 5 *)
Example C19_witness_mask_negative : map Qred (mi_row [(1, 0); (900, (-1) # 1); (900, (-2147483648) # 1); (4, 0); (900, 1 # 2)]) = [1; 2; 3; 4; 4].
Proof. vm_compute. reflexivity. Qed.
Example C19_witness_mask_indep : has_good [(1, 0); (900, (-1) # 1); (4, 0)] /\
  Forall2 agree_m [(1, 0); (900, (-1) # 1); (4, 0)] [(1, 0); (7, (-1) # 1); (4, 0)].
Proof.
  split. exists (1, 0). split; [left; reflexivity | reflexivity].
  repeat constructor; cbn; discriminate.
Qed.
Example C19_witness_single_good : map Qred (mi_row [(9, 1); (9, (-1) # 1); (5, 0); (7, 1 # 2)]) = [5; 5; 5; 5].
Proof. vm_compute. reflexivity. Qed.
Example C19_witness_response : Qred (filter_response 0 (3017 # 1)) = (73 # 250000) /\ Qred (filter_response 2 (6230 # 1)) = (4819 # 10000).
Proof. split; vm_compute; reflexivity. Qed.
Example C19_witness_lam_overlap : 0 < sumw (band_pairs (resp_tr 1 [((-1) # 1000, 4700 # 1, 3 # 1); (1 # 1000, 4800 # 1, 5 # 1)])).
Proof. vm_compute. reflexivity. Qed.
Example C19_witness_fill_ok : fill_ok [(1, 0); (900, (-1) # 1); (4, 0)] [1; 5 # 2; 4] 0 = true /\
                              fill_ok [(1, 0); (900, (-1) # 1); (4, 0)] [1; 900; 4] 0 = false.
Proof. split; vm_compute; reflexivity. Qed.
Example C19_witness_gap_domain : (2000 <= 2000 + 1 / 4 <= 2000 + 1 / 2)%R.
Proof. split; lra. Qed.
