(* C02 -- proofs.  The per-freedom lemmas are in Yanny/LayoutFacts.v (reusable by C03); this file restates
   the ones that mention the document-level predicates. *)
From Coq Require Import NArith ZArith List Bool Lia.
Import ListNotations.
From PV Require Import Yanny.Bytes Yanny.BytesFacts Yanny.Types Yanny.Parse Yanny.Render
  Yanny.TokenFacts Yanny.RowFacts Yanny.TypeFacts Yanny.DocFacts Yanny.LayoutFacts C02.Model.
Open Scope N_scope.

(* a data line of a well-formed table means the same under any letter case of the table name *)
Lemma rowname_case_indep_doc es t r sy st name' :
  forallb enum_ok es = true -> table_ok es t = true -> In r (t_rows t) ->
  assoc (upper (t_name t)) sy = Some (tcols_of es (t_cols t)) ->
  name' <> [] -> forallb is_word name' = true -> upper name' = upper (t_name t) ->
  process_line sy st (render_row_line name' r)
  = Some (mkst (st_pairs st) (assoc_app (upper (t_name t)) r (st_rows st))).
Proof.
  intros Hes Ht Hr Hsy Hn Hw Hu. destruct (table_ok_parts es t Ht) as [Hid [_ [Hc [_ Hrows]]]].
  rewrite forallb_forall in Hrows. specialize (Hrows r Hr). apply andb_true_iff in Hrows as [Hrow _].
  rewrite <- Hu. apply (row_line_roundtrip sy st name' (tcols_of es (t_cols t)) r); auto.
  - now rewrite Hu.
  - apply row_ok_fits; auto. now apply enums_ok_names.
Qed.

