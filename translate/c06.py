"""C06 extractor: bit-layout expressions and range checks of the four SDSS ID
functions -> coq/Generated/SdssIds.v.  Fail-closed: any unrecognised shape
makes `recognised` false and a *stub* file is emitted (so the rest of the
development still builds, with the obligations about the generated terms
then failing in Props) -- see DESIGN.md section 1.
"""
import ast
import os

from . import pyexpr as P

OBJID_ARGS = ['skyversion', 'rerun', 'run', 'camcol', 'firstfield', 'field', 'objnum']
SPEC_ARGS = ['plate', 'fiber', 'mjd', 'run2d', 'line', 'index']
UNWRAP_OBJID_FIELDS = ['skyversion', 'rerun', 'run', 'camcol', 'firstfield', 'frame', 'id']


def fold(node):
    """Constant-fold integer sub-expressions so that 2**14 - 1 becomes a literal."""
    class F(ast.NodeTransformer):
        def visit_BinOp(self, n):
            self.generic_visit(n)
            try:
                return ast.copy_location(ast.Constant(P.const_value(n)), n)
            except P.Unrecognised:
                return n
    return F().visit(node)


def strip_tolist(node):
    if isinstance(node, ast.Call) and isinstance(node.func, ast.Attribute) and node.func.attr == 'tolist' and not node.args:
        return node.func.value
    return node


def final_assign(fn, target):
    """Last top-level assignment `target = ...` in function fn."""
    found = None
    for st in fn.body:
        if isinstance(st, ast.Assign) and len(st.targets) == 1 and isinstance(st.targets[0], ast.Name) \
                and st.targets[0].id == target:
            found = st
    if found is None:
        raise P.Unrecognised('no assignment to %s' % target)
    return found


def checks_of(fn, args):
    out = []
    for st in fn.body:
        rc = P.range_check(st)
        if rc is not None:
            name, lo, hi, exc = rc
            if name not in args:
                raise P.Unrecognised('range check on unknown name %s' % name)
            out.append((args.index(name), lo, hi, exc))
    if sorted(set(c[0] for c in out)) != list(range(len(args))):
        # the checks are not written in the idiom this extractor understands (e.g. moved into a helper):
        # say so instead of emitting a model without range checks; the correspondence run then decides alone
        raise P.Unrecognised('range checks found for fields %s only' % sorted(set(args[c[0]] for c in out)))
    return out


def mjd_offsets(fn):
    """(scalar_offset, array_offset): what is subtracted from mjd on each path."""
    for st in fn.body:
        if isinstance(st, ast.If) and isinstance(st.test, ast.Call) and isinstance(st.test.func, ast.Name) \
                and st.test.func.id == 'isinstance' and isinstance(st.test.args[0], ast.Name) \
                and st.test.args[0].id == 'mjd':
            def off(stmts):
                o = 0
                for s in stmts:
                    if isinstance(s, ast.Assign) and isinstance(s.targets[0], ast.Name) and s.targets[0].id == 'mjd':
                        v = s.value
                        if isinstance(v, ast.BinOp) and isinstance(v.op, ast.Sub):
                            o += P.const_value(v.right)
                        elif isinstance(v, ast.BinOp) and isinstance(v.op, ast.Add):
                            o -= P.const_value(v.right)
                    elif isinstance(s, ast.AugAssign) and isinstance(s.target, ast.Name) and s.target.id == 'mjd':
                        if isinstance(s.op, ast.Sub):
                            o += P.const_value(s.value)
                        elif isinstance(s.op, ast.Add):
                            o -= P.const_value(s.value)
                        else:
                            raise P.Unrecognised('mjd aug-assign')
                return o
            return off(st.body), off(st.orelse)
    raise P.Unrecognised('isinstance(mjd, int) branch not found')


def run2d_formula(fn):
    for n in ast.walk(fn):
        if isinstance(n, ast.ExceptHandler):
            for s in ast.walk(n):
                if isinstance(s, ast.Assign) and isinstance(s.targets[0], ast.Name) and s.targets[0].id == 'run2d':
                    v = s.value
                    # np.array([expr], dtype=...)
                    if isinstance(v, ast.Call) and v.args and isinstance(v.args[0], ast.List) and len(v.args[0].elts) == 1:
                        e = fold(v.args[0].elts[0])
                        return P.to_gallina(e, {'N': 'N', 'M': 'M', 'P': 'P'})
    raise P.Unrecognised('run2d vN_M_P formula not found')


def unwrap_fields(fn, idname, attr_targets):
    """attribute assignments  unwrap.<attr> = expr(tempobjid) ; returns {attr: gallina}"""
    res = {}
    locals_ = {}
    for st in fn.body:
        if isinstance(st, ast.Assign) and len(st.targets) == 1:
            t = st.targets[0]
            val = fold(strip_tolist(st.value))
            env = dict(locals_)
            env['tempobjid'] = idname
            if isinstance(t, ast.Attribute) and isinstance(t.value, ast.Name) and t.value.id == 'unwrap':
                try:
                    res[t.attr] = P.to_gallina(val, env)
                except P.Unrecognised:
                    if t.attr in attr_targets:
                        raise
            elif isinstance(t, ast.Subscript) and isinstance(t.value, ast.Name) and t.value.id == 'unwrap':
                res['line'] = P.to_gallina(val, env)
            elif isinstance(t, ast.Name) and t.id in ('run2d',):
                g = P.to_gallina(val, env)
                locals_[t.id] = g
                res['run2d_int'] = g
        elif isinstance(st, ast.If):
            # N/M/P formulas live in the else branch of `if run2d_integer`
            for s in st.orelse:
                if isinstance(s, ast.Assign) and isinstance(s.targets[0], ast.Name) and s.targets[0].id in ('N', 'M', 'P'):
                    res['run2d_' + s.targets[0].id] = P.to_gallina(fold(strip_tolist(s.value)), {'run2d': 'r'})
    return res


ITY = {'int8': 'I8', 'uint8': 'U8', 'int16': 'I16', 'uint16': 'U16', 'int32': 'I32', 'uint32': 'U32',
       'int64': 'I64', 'uint64': 'U64'}


def to_texpr(node, env, subst=None):
    """Typed form (Lib/NumpyInt.texpr) of a packing expression: keeps the astype casts that to_gallina erases.
    env: python name -> index; subst: python name -> texpr text replacing the variable (for composed assignments)."""
    subst = subst or {}
    if isinstance(node, ast.Name):
        if node.id in subst:
            return subst[node.id]
        if node.id in env:
            return '(TVar %d%%nat)' % env[node.id]
        raise P.Unrecognised('free name %s' % node.id)
    if isinstance(node, ast.BinOp):
        if isinstance(node.op, ast.LShift):
            return '(TShl %s %s)' % (to_texpr(node.left, env, subst), P.zlit(P.const_value(node.right)))
        if isinstance(node.op, ast.BitOr):
            return '(TOr %s %s)' % (to_texpr(node.left, env, subst), to_texpr(node.right, env, subst))
        if isinstance(node.op, ast.Sub):
            return '(TSubLit %s %s)' % (to_texpr(node.left, env, subst), P.zlit(P.const_value(node.right)))
        raise P.Unrecognised('typed operator %s' % type(node.op).__name__)
    if isinstance(node, ast.Call):
        f = node.func
        if isinstance(f, ast.Attribute) and f.attr == 'astype' and len(node.args) == 1 and not node.keywords:
            a = node.args[0]
            if isinstance(a, ast.Attribute) and a.attr in ITY:
                return '(TCast %s %s)' % (ITY[a.attr], to_texpr(f.value, env, subst))
            raise P.Unrecognised('astype target')
        if isinstance(f, ast.Attribute) and f.attr == 'bitwise_or' and len(node.args) == 2:
            return '(TOr %s %s)' % (to_texpr(node.args[0], env, subst), to_texpr(node.args[1], env, subst))
        raise P.Unrecognised('typed call %s' % ast.dump(f)[:60])
    raise P.Unrecognised('typed node %s' % type(node).__name__)


def mjd_array_texpr(fn, env):
    """What the array branch of `if isinstance(mjd, int)` does to mjd, as a typed expression of the argument."""
    for st in fn.body:
        if isinstance(st, ast.If) and isinstance(st.test, ast.Call) and isinstance(st.test.func, ast.Name) \
                and st.test.func.id == 'isinstance' and isinstance(st.test.args[0], ast.Name) \
                and st.test.args[0].id == 'mjd':
            cur = '(TVar %d%%nat)' % env['mjd']
            for s in st.orelse:
                if isinstance(s, ast.Assign) and len(s.targets) == 1 and isinstance(s.targets[0], ast.Name) \
                        and s.targets[0].id == 'mjd':
                    cur = to_texpr(fold(s.value), env, {'mjd': cur})
                elif isinstance(s, ast.AugAssign) and isinstance(s.target, ast.Name) and s.target.id == 'mjd' \
                        and isinstance(s.op, ast.Sub):
                    cur = '(TSubLit %s %s)' % (cur, P.zlit(P.const_value(s.value)))
                elif isinstance(s, ast.Pass):
                    pass
                else:
                    raise P.Unrecognised('statement in the array branch of the mjd conversion')
            return cur
    raise P.Unrecognised('isinstance(mjd, int) branch not found')


# ------------------------------------------------------------------------------------------------------------
# Round 5: glue regenerated from the source -- defaults and broadcasting of sdss_objid, shape checks, line/index
# exclusivity, the record dtypes and typed field expressions of the unwrap functions, the input/str conversion
# types, the run2d tag pattern / checks / format string.

DT = {'i1': 'I8', 'u1': 'U8', 'i2': 'I16', 'u2': 'U16', 'i4': 'I32', 'u4': 'U32', 'i8': 'I64', 'u8': 'U64'}


def chars_lit(text):
    return '[' + '; '.join('%d' % ord(ch) for ch in text) + ']'


def const_or_defaultsky(node, dsky):
    """Integer constant, or a call default_skyversion() (resolved to the constant that function returns)."""
    if isinstance(node, ast.Call) and isinstance(node.func, ast.Name) and node.func.id == 'default_skyversion' \
            and not node.args and not node.keywords:
        return dsky
    return P.const_value(node)


def default_skyversion_value(tree):
    fn = P.find_function(tree, 'default_skyversion')
    body = [st for st in fn.body if not (isinstance(st, ast.Expr) and isinstance(st.value, ast.Constant))]
    if len(body) == 1 and isinstance(body[0], ast.Return):
        return P.const_value(body[0].value)
    raise P.Unrecognised('default_skyversion is not a single return of a constant')


def is_isinstance_int(test, name=None):
    return (isinstance(test, ast.Call) and isinstance(test.func, ast.Name) and test.func.id == 'isinstance'
            and len(test.args) == 2 and isinstance(test.args[0], ast.Name)
            and (name is None or test.args[0].id == name)
            and isinstance(test.args[1], ast.Name) and test.args[1].id == 'int')


def is_int64_array_call(node, name):
    return (isinstance(node, ast.Call) and isinstance(node.func, ast.Name) and node.func.id == '_int64_array'
            and len(node.args) == 1 and isinstance(node.args[0], ast.Name) and node.args[0].id == name)


def zeros_fill(node):
    """np.zeros(run.shape, dtype=np.int64) [+ c]  ->  c   (the value every element gets)"""
    def is_zeros(n):
        return (isinstance(n, ast.Call) and isinstance(n.func, ast.Attribute) and n.func.attr == 'zeros'
                and len(n.args) == 1 and isinstance(n.args[0], ast.Attribute) and n.args[0].attr == 'shape'
                and isinstance(n.args[0].value, ast.Name) and n.args[0].value.id == 'run'
                and len(n.keywords) == 1 and n.keywords[0].arg == 'dtype'
                and isinstance(n.keywords[0].value, ast.Attribute) and n.keywords[0].value.attr == 'int64')
    if is_zeros(node):
        return ('const', 0)
    if isinstance(node, ast.BinOp) and isinstance(node.op, ast.Add) and is_zeros(node.left):
        return ('node', node.right)
    raise P.Unrecognised('broadcast of a default is not np.zeros(run.shape, dtype=np.int64) + c')


def objid_glue(fn, dsky):
    """Signature defaults, None replacements, scalar promotion / broadcasting, shape checks of sdss_objid."""
    args = [a.arg for a in fn.args.args]
    if args != ['run', 'camcol', 'field', 'objnum', 'rerun', 'skyversion', 'firstfield']:
        raise P.Unrecognised('sdss_objid signature %s' % args)
    nd = len(fn.args.defaults)
    sig = {}
    for a, d in zip(args[-nd:], fn.args.defaults):
        if isinstance(d, ast.Constant) and d.value is None:
            sig[a] = None
        else:
            sig[a] = P.const_value(d)
    if sorted(sig) != ['firstfield', 'rerun', 'skyversion']:
        raise P.Unrecognised('sdss_objid optional arguments %s' % sorted(sig))
    none_vals, promoted, bcast, shapes = {}, [], {}, []
    for st in fn.body:
        if not isinstance(st, ast.If):
            continue
        t = st.test
        # if X is None: X = value
        if isinstance(t, ast.Compare) and len(t.ops) == 1 and isinstance(t.ops[0], ast.Is) and isinstance(t.left, ast.Name) \
                and isinstance(t.comparators[0], ast.Constant) and t.comparators[0].value is None:
            nm = t.left.id
            if not (len(st.body) == 1 and not st.orelse and isinstance(st.body[0], ast.Assign)
                    and isinstance(st.body[0].targets[0], ast.Name) and st.body[0].targets[0].id == nm):
                raise P.Unrecognised('None replacement of %s' % nm)
            none_vals[nm] = const_or_defaultsky(st.body[0].value, dsky)
        elif is_isinstance_int(t):
            nm = t.args[0].id
            if st.orelse:
                raise P.Unrecognised('else branch on isinstance(%s, int)' % nm)
            if len(st.body) == 1 and isinstance(st.body[0], ast.Assign) and is_int64_array_call(st.body[0].value, nm) \
                    and isinstance(st.body[0].targets[0], ast.Name) and st.body[0].targets[0].id == nm:
                promoted.append(nm)
            elif len(st.body) == 1 and isinstance(st.body[0], ast.If):
                inner = st.body[0]
                c = inner.test
                if not (isinstance(c, ast.Compare) and len(c.ops) == 1 and isinstance(c.ops[0], ast.Eq)
                        and isinstance(c.left, ast.Name) and c.left.id == nm):
                    raise P.Unrecognised('broadcast test of %s' % nm)
                cmpv = const_or_defaultsky(c.comparators[0], dsky)
                if not (len(inner.body) == 1 and isinstance(inner.body[0], ast.Assign) and len(inner.orelse) == 1
                        and isinstance(inner.orelse[0], ast.Assign) and is_int64_array_call(inner.orelse[0].value, nm)
                        and inner.body[0].targets[0].id == nm and inner.orelse[0].targets[0].id == nm):
                    raise P.Unrecognised('broadcast branches of %s' % nm)
                kind, v = zeros_fill(inner.body[0].value)
                fill = v if kind == 'const' else const_or_defaultsky(v, dsky)
                promoted.append(nm)
                bcast[nm] = (cmpv, fill)
            else:
                raise P.Unrecognised('scalar promotion of %s' % nm)
        elif isinstance(t, ast.Compare) and len(t.ops) == 1 and isinstance(t.ops[0], ast.NotEq) \
                and isinstance(t.left, ast.Attribute) and t.left.attr == 'shape':
            r = t.comparators[0]
            if not (isinstance(t.left.value, ast.Name) and t.left.value.id == 'run' and isinstance(r, ast.Attribute)
                    and r.attr == 'shape' and isinstance(r.value, ast.Name) and len(st.body) == 1
                    and isinstance(st.body[0], ast.Raise) and isinstance(st.body[0].exc, ast.Call)
                    and isinstance(st.body[0].exc.func, ast.Name) and st.body[0].exc.func.id == 'ValueError'):
                raise P.Unrecognised('shape check idiom')
            shapes.append(r.value.id)
    return sig, none_vals, promoted, bcast, shapes


def spec_glue(fn):
    """line/index exclusivity (must be the first statement) and the shape checks of sdss_specobjid."""
    body = [st for st in fn.body if not (isinstance(st, ast.Expr) and isinstance(st.value, ast.Constant))]
    excl = False
    st = body[0]
    if isinstance(st, ast.If) and isinstance(st.test, ast.BoolOp) and isinstance(st.test.op, ast.And) and len(st.test.values) == 2:
        names = []
        for v in st.test.values:
            if isinstance(v, ast.Compare) and len(v.ops) == 1 and isinstance(v.ops[0], ast.IsNot) and isinstance(v.left, ast.Name) \
                    and isinstance(v.comparators[0], ast.Constant) and v.comparators[0].value is None:
                names.append(v.left.id)
        if sorted(names) == ['index', 'line'] and len(st.body) == 1 and isinstance(st.body[0], ast.Raise) \
                and isinstance(st.body[0].exc, ast.Call) and getattr(st.body[0].exc.func, 'id', None) == 'ValueError':
            excl = True
    shapes = []
    for st in body:
        if isinstance(st, ast.If) and isinstance(st.test, ast.Compare) and len(st.test.ops) == 1 \
                and isinstance(st.test.ops[0], ast.NotEq) and isinstance(st.test.left, ast.Attribute) and st.test.left.attr == 'shape':
            t = st.test
            r = t.comparators[0]
            if not (isinstance(t.left.value, ast.Name) and t.left.value.id == 'plate' and isinstance(r, ast.Attribute)
                    and r.attr == 'shape' and isinstance(r.value, ast.Name) and len(st.body) == 1
                    and isinstance(st.body[0], ast.Raise) and isinstance(st.body[0].exc, ast.Call)
                    and getattr(st.body[0].exc.func, 'id', None) == 'ValueError'):
                raise P.Unrecognised('shape check idiom (specobjid)')
            shapes.append(r.value.id)
    return excl, shapes


def regex_pieces(pat):
    """Pattern made of literal characters and (\\d+) groups -> list of ('lit', text) / ('digits',)."""
    out, i, lit = [], 0, ''
    while i < len(pat):
        if pat.startswith(r'(\d+)', i):
            if lit:
                out.append(('lit', lit))
                lit = ''
            out.append(('digits',))
            i += 5
        elif pat[i] in '.^$*+?{}[]\\|()':
            raise P.Unrecognised('regex element %r' % pat[i:i + 4])
        else:
            lit += pat[i]
            i += 1
    if lit:
        out.append(('lit', lit))
    for a, b in zip(out, out[1:]):
        if a[0] == 'digits' and (b[0] == 'digits' or b[1][0].isdigit()):
            raise P.Unrecognised('a (\\d+) group followed by something that can start with a digit')
    return out


def run2d_string_branch(fn):
    """The `except ValueError:` branch that decodes a 'vN_M_P' tag."""
    for n in ast.walk(fn):
        if not isinstance(n, ast.ExceptHandler):
            continue
        if not (isinstance(n.type, ast.Name) and n.type.id == 'ValueError'):
            raise P.Unrecognised('run2d handler catches something else than ValueError')
        res = {'checks': [], 'groups': None}
        for st in n.body:
            if isinstance(st, ast.Assign) and isinstance(st.targets[0], ast.Name) and st.targets[0].id == 'm':
                c = st.value
                if not (isinstance(c, ast.Call) and isinstance(c.func, ast.Attribute) and isinstance(c.func.value, ast.Name)
                        and c.func.value.id == 're' and c.func.attr in ('match', 'fullmatch') and len(c.args) == 2
                        and isinstance(c.args[0], ast.Constant) and isinstance(c.args[0].value, str)
                        and isinstance(c.args[1], ast.Name) and c.args[1].id == 'run2d' and not c.keywords):
                    raise P.Unrecognised('run2d regex call')
                res['anchored'] = c.func.attr == 'fullmatch'
                res['pieces'] = regex_pieces(c.args[0].value)
            elif isinstance(st, ast.If) and isinstance(st.test, ast.Compare) and isinstance(st.test.left, ast.Name) \
                    and st.test.left.id == 'm' and isinstance(st.test.ops[0], ast.Is):
                if not (len(st.body) == 1 and isinstance(st.body[0], ast.Raise) and isinstance(st.body[0].exc, ast.Call)
                        and getattr(st.body[0].exc.func, 'id', None) == 'ValueError'):
                    raise P.Unrecognised('no-match branch of the run2d tag')
                if not (len(st.orelse) == 1 and isinstance(st.orelse[0], ast.Assign)
                        and isinstance(st.orelse[0].targets[0], ast.Tuple)):
                    raise P.Unrecognised('group assignment of the run2d tag')
                res['groups'] = [e.id for e in st.orelse[0].targets[0].elts]
                v = st.orelse[0].value
                ok = (isinstance(v, ast.Call) and isinstance(v.func, ast.Attribute) and v.func.attr == 'groups') or \
                     (isinstance(v, ast.ListComp) and isinstance(v.elt, ast.Call) and getattr(v.elt.func, 'id', None) == 'int'
                      and isinstance(v.generators[0].iter, ast.Call) and getattr(v.generators[0].iter.func, 'attr', None) == 'groups')
                if not ok:
                    raise P.Unrecognised('group assignment value of the run2d tag')
            elif isinstance(st, ast.If) and isinstance(st.test, ast.UnaryOp) and isinstance(st.test.op, ast.Not) \
                    and isinstance(st.test.operand, ast.BoolOp) and isinstance(st.test.operand.op, ast.And):
                if not (len(st.body) == 1 and not st.orelse and isinstance(st.body[0], ast.Raise)
                        and isinstance(st.body[0].exc, ast.Call) and getattr(st.body[0].exc.func, 'id', None) == 'ValueError'):
                    raise P.Unrecognised('tag range check does not raise ValueError')
                for cmpn in st.test.operand.values:
                    if not (isinstance(cmpn, ast.Compare) and len(cmpn.ops) == 2 and all(isinstance(o, ast.LtE) for o in cmpn.ops)):
                        raise P.Unrecognised('tag range check shape')
                    mid = cmpn.comparators[0]
                    if isinstance(mid, ast.Call) and getattr(mid.func, 'id', None) == 'int' and len(mid.args) == 1:
                        mid = mid.args[0]
                    if not isinstance(mid, ast.Name):
                        raise P.Unrecognised('tag range check operand')
                    res['checks'].append((mid.id, P.const_value(cmpn.left), P.const_value(cmpn.comparators[1])))
            elif isinstance(st, ast.Assign) and isinstance(st.targets[0], ast.Name) and st.targets[0].id == 'run2d':
                v = st.value
                if not (isinstance(v, ast.Call) and isinstance(v.func, ast.Attribute) and v.func.attr == 'array' and len(v.args) == 1
                        and isinstance(v.args[0], ast.List) and len(v.args[0].elts) == 1 and len(v.keywords) == 1
                        and v.keywords[0].arg == 'dtype' and isinstance(v.keywords[0].value, ast.Attribute)
                        and v.keywords[0].value.attr in ITY):
                    raise P.Unrecognised('run2d tag array construction')
                res['dtype'] = ITY[v.keywords[0].value.attr]
            else:
                raise P.Unrecognised('statement in the run2d tag branch: %s' % type(st).__name__)
        if res['groups'] is None or 'pieces' not in res or 'dtype' not in res:
            raise P.Unrecognised('run2d tag branch incomplete')
        if len([p for p in res['pieces'] if p[0] == 'digits']) != len(res['groups']):
            raise P.Unrecognised('run2d tag: groups and names differ in number')
        if res['groups'] != ['N', 'M', 'P']:
            raise P.Unrecognised('run2d tag group names %s' % res['groups'])
        res['checks'] = [(res['groups'].index(nm), lo, hi) for nm, lo, hi in res['checks']]
        return res
    raise P.Unrecognised('run2d tag branch not found')


def to_uexpr(node, var, subst=None):
    """Typed form (Lib/NumpyInt.uexpr) of an expression of ONE array variable."""
    subst = subst or {}
    node = strip_tolist(node)
    if isinstance(node, ast.Name):
        if node.id == var:
            return 'UVar'
        if node.id in subst:
            return subst[node.id]
        raise P.Unrecognised('free name %s' % node.id)
    if isinstance(node, ast.BinOp):
        ops = {ast.RShift: 'UShr', ast.BitAnd: 'UAndLit', ast.Add: 'UAddLit', ast.FloorDiv: 'UDivLit', ast.Mod: 'UModLit'}
        k = ops.get(type(node.op))
        if k is None:
            raise P.Unrecognised('unwrap operator %s' % type(node.op).__name__)
        return '(%s %s %s)' % (k, to_uexpr(node.left, var, subst), P.zlit(P.const_value(node.right)))
    if isinstance(node, ast.Call) and isinstance(node.func, ast.Attribute) and node.func.attr == 'bitwise_and' and len(node.args) == 2:
        return '(UAndLit %s %s)' % (to_uexpr(node.args[0], var, subst), P.zlit(P.const_value(node.args[1])))
    raise P.Unrecognised('unwrap node %s' % type(node).__name__)


def unwrap_typed(fn, argname):
    """Input-type dispatch, record dtype and typed field expressions of an unwrap function."""
    info = {'strings': {}, 'fields': [], 'locals': {}, 'nmp': {}}
    # --- input dispatch
    disp = None
    for st in fn.body:
        if isinstance(st, ast.If) and any(isinstance(x, ast.Attribute) and x.attr == 'dtype' for x in ast.walk(st.test)):
            disp = st
            break
    if disp is None:
        raise P.Unrecognised('dtype dispatch not found')

    def single_assign(stmts):
        if len(stmts) == 1 and isinstance(stmts[0], ast.Assign) and isinstance(stmts[0].targets[0], ast.Name) \
                and stmts[0].targets[0].id == 'tempobjid':
            return stmts[0].value
        raise P.Unrecognised('dispatch branch is not a single assignment to tempobjid')
    v = single_assign(disp.body)
    if not (isinstance(v, ast.Call) and isinstance(v.func, ast.Attribute) and v.func.attr == 'astype'
            and isinstance(v.func.value, ast.Name) and v.func.value.id == argname and len(v.args) == 1
            and isinstance(v.args[0], ast.Attribute) and v.args[0].attr in ITY and not v.keywords):
        raise P.Unrecognised('string branch is not %s.astype(np.<inttype>)' % argname)
    info['strtype'] = ITY[v.args[0].attr]
    tests = [x.attr for x in ast.walk(disp.test) if isinstance(x, ast.Attribute) and x.attr in ('np_string', 'np_unicode')] + \
            [x.id for x in ast.walk(disp.test) if isinstance(x, ast.Name) and x.id in ('np_string', 'np_unicode')]
    if sorted(tests) != ['np_string', 'np_unicode'] or not isinstance(disp.test, ast.BoolOp) or not isinstance(disp.test.op, ast.Or):
        raise P.Unrecognised('string test does not cover both bytes and str arrays')
    if not (len(disp.orelse) == 1 and isinstance(disp.orelse[0], ast.If)):
        raise P.Unrecognised('integer branch of the dispatch')
    el = disp.orelse[0]
    t = el.test
    if not (isinstance(t, ast.Compare) and len(t.ops) == 1 and isinstance(t.ops[0], ast.Is)
            and isinstance(t.comparators[0], ast.Attribute) and t.comparators[0].attr in ITY):
        raise P.Unrecognised('integer type test')
    info['intype'] = ITY[t.comparators[0].attr]
    v = single_assign(el.body)
    if not (isinstance(v, ast.Call) and isinstance(v.func, ast.Attribute) and v.func.attr == 'copy'
            and isinstance(v.func.value, ast.Name) and v.func.value.id == argname and not v.args):
        raise P.Unrecognised('integer branch is not %s.copy()' % argname)
    if not (len(el.orelse) == 1 and isinstance(el.orelse[0], ast.Raise) and isinstance(el.orelse[0].exc, ast.Call)
            and getattr(el.orelse[0].exc.func, 'id', None) == 'ValueError'):
        raise P.Unrecognised('other input types do not raise ValueError')
    # --- local string switches (run2d_dtype = 'U8'; if run2d_integer: run2d_dtype = 'i4')
    switches = {}
    for st in fn.body:
        if isinstance(st, ast.Assign) and isinstance(st.targets[0], ast.Name) and isinstance(st.value, ast.Constant) \
                and isinstance(st.value.value, str):
            switches[st.targets[0].id] = {'default': st.value.value}
        elif isinstance(st, ast.If) and isinstance(st.test, ast.Name) and len(st.body) == 1 and isinstance(st.body[0], ast.Assign) \
                and isinstance(st.body[0].targets[0], ast.Name) and st.body[0].targets[0].id in switches \
                and isinstance(st.body[0].value, ast.Constant) and not st.orelse:
            switches[st.body[0].targets[0].id][st.test.id] = st.body[0].value.value
    info['switches'] = switches
    # --- record dtype
    rec = None
    for st in fn.body:
        if isinstance(st, ast.Assign) and isinstance(st.targets[0], ast.Name) and st.targets[0].id == 'unwrap' \
                and isinstance(st.value, ast.Call) and getattr(st.value.func, 'attr', None) == 'recarray':
            rec = st.value
    if rec is None:
        raise P.Unrecognised('np.recarray call not found')
    sh = rec.args[0]
    if not (isinstance(sh, ast.Attribute) and sh.attr == 'shape' and isinstance(sh.value, ast.Name) and sh.value.id == argname):
        raise P.Unrecognised('record array does not have the shape of the input')
    dt = [k.value for k in rec.keywords if k.arg == 'dtype']
    if len(dt) != 1 or not isinstance(dt[0], ast.List):
        raise P.Unrecognised('record dtype')
    descr = []
    for e in dt[0].elts:
        if not (isinstance(e, ast.Tuple) and len(e.elts) == 2):
            raise P.Unrecognised('record dtype entry')
        parts = []
        for x in e.elts:
            if isinstance(x, ast.Constant) and isinstance(x.value, str):
                parts.append(('const', x.value))
            elif isinstance(x, ast.Name) and x.id in switches:
                parts.append(('switch', x.id))
            else:
                raise P.Unrecognised('record dtype entry element')
        descr.append(tuple(parts))
    info['descr'] = descr
    # --- field expressions
    exprs = {}
    local = {}
    for st in fn.body:
        if isinstance(st, ast.Assign) and len(st.targets) == 1:
            t = st.targets[0]
            if isinstance(t, ast.Attribute) and isinstance(t.value, ast.Name) and t.value.id == 'unwrap':
                exprs[('const', t.attr)] = to_uexpr(fold(st.value), 'tempobjid', local)
            elif isinstance(t, ast.Subscript) and isinstance(t.value, ast.Name) and t.value.id == 'unwrap' \
                    and isinstance(t.slice, ast.Name) and t.slice.id in switches:
                exprs[('switch', t.slice.id)] = to_uexpr(fold(st.value), 'tempobjid', local)
            elif isinstance(t, ast.Name) and t.id == 'run2d':
                local['run2d'] = to_uexpr(fold(st.value), 'tempobjid', local)
        elif isinstance(st, ast.If) and isinstance(st.test, ast.Name) and st.test.id == 'run2d_integer' and st.orelse:
            # if run2d_integer: unwrap.run2d = run2d  else: N, M, P = ..., unwrap.run2d = [fmt.format(...) ...]
            b = st.body
            if not (len(b) == 1 and isinstance(b[0], ast.Assign) and isinstance(b[0].targets[0], ast.Attribute)
                    and b[0].targets[0].attr == 'run2d' and isinstance(b[0].value, ast.Name) and b[0].value.id == 'run2d'):
                raise P.Unrecognised('integer run2d assignment')
            exprs[('const', 'run2d')] = local['run2d']
            for s_ in st.orelse:
                if isinstance(s_, ast.Assign) and isinstance(s_.targets[0], ast.Name) and s_.targets[0].id in ('N', 'M', 'P'):
                    info['nmp'][s_.targets[0].id] = to_uexpr(fold(s_.value), 'tempobjid', local)
                elif isinstance(s_, ast.Assign) and isinstance(s_.targets[0], ast.Attribute) and s_.targets[0].attr == 'run2d':
                    lc = s_.value
                    if not (isinstance(lc, ast.ListComp) and isinstance(lc.elt, ast.Call) and isinstance(lc.elt.func, ast.Attribute)
                            and lc.elt.func.attr == 'format' and isinstance(lc.elt.func.value, ast.Constant)
                            and [getattr(a, 'id', None) for a in lc.elt.args] == ['n', 'm', 'p']):
                        raise P.Unrecognised('run2d tag formatting')
                    g = lc.generators[0]
                    if not (isinstance(g.target, ast.Tuple) and [e.id for e in g.target.elts] == ['n', 'm', 'p']
                            and isinstance(g.iter, ast.Call) and getattr(g.iter.func, 'id', None) == 'zip'
                            and [getattr(a, 'id', None) for a in g.iter.args] == ['N', 'M', 'P']):
                        raise P.Unrecognised('run2d tag formatting loop')
                    info['format'] = format_pieces(lc.elt.func.value.value)
                else:
                    raise P.Unrecognised('statement in the string run2d branch')
    info['exprs'] = exprs
    return info


# ------------------------------------------------------------------------------------------------------------
# Round 6: the private helpers reachable from the four anchored functions (_int64_array, _python_int), the scalar
# promotions of sdss_specobjid, and a closed statement inventory of both packers: a top-level statement that is none
# of the recognised kinds makes the source unrecognised (fail closed) instead of being skipped.

EXC = {'ValueError': 'EValueError', 'OverflowError': 'EOverflowError', 'TypeError': 'ETypeError'}


def body_of(fn):
    return [st for st in fn.body if not (isinstance(st, ast.Expr) and isinstance(st.value, ast.Constant))]


def np_array1(node, name):
    """np.array([name]) -> None (type inferred by numpy);  np.array([name], dtype=np.<t>) -> ity text."""
    if not (isinstance(node, ast.Call) and isinstance(node.func, ast.Attribute) and node.func.attr == 'array'
            and isinstance(node.func.value, ast.Name) and node.func.value.id == 'np' and len(node.args) == 1
            and isinstance(node.args[0], ast.List) and len(node.args[0].elts) == 1
            and isinstance(node.args[0].elts[0], ast.Name) and node.args[0].elts[0].id == name):
        raise P.Unrecognised('not np.array([%s], ...)' % name)
    if not node.keywords:
        return None
    if len(node.keywords) == 1 and node.keywords[0].arg == 'dtype' and isinstance(node.keywords[0].value, ast.Attribute) \
            and isinstance(node.keywords[0].value.value, ast.Name) and node.keywords[0].value.value.id == 'np' \
            and node.keywords[0].value.attr in ITY:
        return ITY[node.keywords[0].value.attr]
    raise P.Unrecognised('keywords of np.array([%s], ...)' % name)


def promoter_lit(dtype, handlers):
    return '{| pr_dtype := %s; pr_handlers := [%s] |}' % (
        'None' if dtype is None else 'Some %s' % dtype, '; '.join('(%s, %s)' % h for h in handlers))


def int64_array_helper(tree):
    """_int64_array(value): `return np.array([value], dtype=np.T)`, possibly inside try/except E: raise E2(...)."""
    fn = P.find_function(tree, '_int64_array')
    if [a.arg for a in fn.args.args] != ['value'] or fn.args.defaults or fn.args.vararg or fn.args.kwarg or fn.args.kwonlyargs:
        raise P.Unrecognised('_int64_array signature')
    body = body_of(fn)
    if len(body) != 1:
        raise P.Unrecognised('_int64_array has %d statements' % len(body))
    st = body[0]
    handlers = []
    if isinstance(st, ast.Try):
        if st.orelse or st.finalbody or len(st.body) != 1:
            raise P.Unrecognised('_int64_array try statement')
        for h in st.handlers:
            if not (isinstance(h.type, ast.Name) and h.type.id in EXC and h.name is None and len(h.body) == 1
                    and isinstance(h.body[0], ast.Raise) and isinstance(h.body[0].exc, ast.Call)
                    and isinstance(h.body[0].exc.func, ast.Name) and h.body[0].exc.func.id in EXC and h.body[0].cause is None):
                raise P.Unrecognised('_int64_array exception handler')
            handlers.append((EXC[h.type.id], EXC[h.body[0].exc.func.id]))
        st = st.body[0]
    if not isinstance(st, ast.Return) or st.value is None:
        raise P.Unrecognised('_int64_array does not return the array directly')
    return np_array1(st.value, 'value'), handlers


def python_int_helper(tree):
    """_python_int(value): `if <class test>: return int(value)` ... `return value`.  None when the helper is absent."""
    try:
        fn = P.find_function(tree, '_python_int')
    except P.Unrecognised:
        return None
    if [a.arg for a in fn.args.args] != ['value'] or fn.args.defaults or fn.args.vararg or fn.args.kwarg or fn.args.kwonlyargs:
        raise P.Unrecognised('_python_int signature')
    body = body_of(fn)
    if not body or not (isinstance(body[-1], ast.Return) and isinstance(body[-1].value, ast.Name) and body[-1].value.id == 'value'):
        raise P.Unrecognised('_python_int does not end with `return value`')

    def np_attr(n, names):
        return isinstance(n, ast.Attribute) and isinstance(n.value, ast.Name) and n.value.id == 'np' and n.attr in names

    def is_inst(t, names):
        """isinstance(value, np.X) / isinstance(value, (np.X, np.Y)) -> list of attrs"""
        if not (isinstance(t, ast.Call) and isinstance(t.func, ast.Name) and t.func.id == 'isinstance' and len(t.args) == 2
                and not t.keywords and isinstance(t.args[0], ast.Name) and t.args[0].id == 'value'):
            return None
        c = t.args[1]
        elts = c.elts if isinstance(c, ast.Tuple) else [c]
        if all(np_attr(e, names) for e in elts):
            return [e.attr for e in elts]
        return None
    classes = []
    for st in body[:-1]:
        if not (isinstance(st, ast.If) and not st.orelse and len(st.body) == 1 and isinstance(st.body[0], ast.Return)
                and isinstance(st.body[0].value, ast.Call) and isinstance(st.body[0].value.func, ast.Name)
                and st.body[0].value.func.id == 'int' and len(st.body[0].value.args) == 1 and not st.body[0].value.keywords
                and isinstance(st.body[0].value.args[0], ast.Name) and st.body[0].value.args[0].id == 'value'):
            raise P.Unrecognised('_python_int: statement that is not `if ...: return int(value)`')
        t = st.test
        got = is_inst(t, ('integer', 'bool_'))
        if got is not None:
            classes += [{'integer': 'NpIntegerScalar', 'bool_': 'NpBoolScalar'}[g] for g in got]
            continue
        # isinstance(value, np.ndarray) and value.ndim == 0 and value.dtype.kind in 'biu'
        if isinstance(t, ast.BoolOp) and isinstance(t.op, ast.And) and len(t.values) == 3 and is_inst(t.values[0], ('ndarray',)) == ['ndarray']:
            b, c = t.values[1], t.values[2]
            ok_b = (isinstance(b, ast.Compare) and len(b.ops) == 1 and isinstance(b.ops[0], ast.Eq) and isinstance(b.left, ast.Attribute)
                    and b.left.attr == 'ndim' and isinstance(b.left.value, ast.Name) and b.left.value.id == 'value'
                    and isinstance(b.comparators[0], ast.Constant) and b.comparators[0].value == 0
                    and not isinstance(b.comparators[0].value, bool))
            ok_c = (isinstance(c, ast.Compare) and len(c.ops) == 1 and isinstance(c.ops[0], ast.In) and isinstance(c.left, ast.Attribute)
                    and c.left.attr == 'kind' and isinstance(c.left.value, ast.Attribute) and c.left.value.attr == 'dtype'
                    and isinstance(c.left.value.value, ast.Name) and c.left.value.value.id == 'value'
                    and isinstance(c.comparators[0], ast.Constant) and isinstance(c.comparators[0].value, str)
                    and sorted(c.comparators[0].value) == ['b', 'i', 'u'])
            if ok_b and ok_c:
                classes.append('ZeroDimArray')
                continue
        raise P.Unrecognised('_python_int: class test')
    return classes


def is_normalise_stmt(st):
    """X = _python_int(X) -> 'X'"""
    if isinstance(st, ast.Assign) and len(st.targets) == 1 and isinstance(st.targets[0], ast.Name) \
            and isinstance(st.value, ast.Call) and isinstance(st.value.func, ast.Name) and st.value.func.id == '_python_int' \
            and len(st.value.args) == 1 and not st.value.keywords and isinstance(st.value.args[0], ast.Name) \
            and st.value.args[0].id == st.targets[0].id:
        return st.targets[0].id
    return None


def is_none_test(t, name=None, positive=True):
    return (isinstance(t, ast.Compare) and len(t.ops) == 1 and isinstance(t.ops[0], ast.Is if positive else ast.IsNot)
            and isinstance(t.left, ast.Name) and (name is None or t.left.id == name)
            and isinstance(t.comparators[0], ast.Constant) and t.comparators[0].value is None)


def is_shape_check(st):
    t = st.test
    return (isinstance(st, ast.If) and isinstance(t, ast.Compare) and len(t.ops) == 1 and isinstance(t.ops[0], ast.NotEq)
            and isinstance(t.left, ast.Attribute) and t.left.attr == 'shape')


def statement_inventory(fn, result, other_if):
    """Every top-level statement must be: a normalisation X = _python_int(X), an `if` of a recognised kind (range check,
    shape check, or accepted by other_if), the final `result = <packing expression>` or `return result`.
    Returns (normalised names, index of the first `if isinstance(...)`)."""
    body = body_of(fn)
    normalised, first_promotion, last_norm = [], None, -1
    for k, st in enumerate(body):
        nm = is_normalise_stmt(st)
        if nm is not None:
            normalised.append(nm)
            last_norm = k
        elif isinstance(st, ast.If):
            if P.range_check(st) is not None or is_shape_check(st):
                continue
            kind = other_if(st, k)
            if kind == 'promotion' and first_promotion is None:
                first_promotion = k
            elif kind is None:
                raise P.Unrecognised('%s: `if` statement of an unknown kind at line %d' % (fn.name, st.lineno))
        elif isinstance(st, ast.Assign) and len(st.targets) == 1 and isinstance(st.targets[0], ast.Name) \
                and st.targets[0].id == result and k == len(body) - 2:
            continue
        elif isinstance(st, ast.Return) and isinstance(st.value, ast.Name) and st.value.id == result and k == len(body) - 1:
            continue
        else:
            raise P.Unrecognised('%s: statement of an unknown kind at line %d' % (fn.name, st.lineno))
    if first_promotion is not None and last_norm > first_promotion:
        raise P.Unrecognised('%s: a scalar is normalised after the isinstance(..., int) tests' % fn.name)
    if len(set(normalised)) != len(normalised):
        raise P.Unrecognised('%s: argument normalised twice' % fn.name)
    return normalised


def objid_inventory(fn):
    def other(st, k):
        if is_none_test(st.test):
            return 'none'
        if is_isinstance_int(st.test):
            return 'promotion'
        return None
    return statement_inventory(fn, 'objid', other)


def spec_inventory(fn):
    """Statement inventory of sdss_specobjid + its scalar promotions `X = np.array([X])` (type inferred by numpy)."""
    promoted, dtypes = [], []

    def simple_promotion(st, nm):
        """if isinstance(nm, int): nm = np.array([nm])   (no else)"""
        if not (is_isinstance_int(st.test, nm) and len(st.body) == 1 and isinstance(st.body[0], ast.Assign)
                and len(st.body[0].targets) == 1 and isinstance(st.body[0].targets[0], ast.Name) and st.body[0].targets[0].id == nm):
            raise P.Unrecognised('scalar promotion of %s' % nm)
        dtypes.append(np_array1(st.body[0].value, nm))
        promoted.append(nm)

    def is_isinstance_str(t, nm):
        return (isinstance(t, ast.Call) and isinstance(t.func, ast.Name) and t.func.id == 'isinstance' and len(t.args) == 2
                and isinstance(t.args[0], ast.Name) and t.args[0].id == nm and isinstance(t.args[1], ast.Name) and t.args[1].id == 'str')

    def other(st, k):
        t = st.test
        if k == 0 and isinstance(t, ast.BoolOp):
            return 'exclusive'          # checked by spec_glue
        if is_isinstance_int(t) and t.args[0].id in ('plate', 'fiber'):
            if st.orelse:
                raise P.Unrecognised('else branch on isinstance(%s, int)' % t.args[0].id)
            simple_promotion(st, t.args[0].id)
            return 'promotion'
        if is_isinstance_int(t, 'mjd'):
            # mjd = np.array([mjd]) - c   /  else: mjd = <array expression>   (constants read by mjd_offsets / mjd_array_texpr)
            if not (len(st.body) == 1 and isinstance(st.body[0], ast.Assign) and isinstance(st.body[0].targets[0], ast.Name)
                    and st.body[0].targets[0].id == 'mjd' and isinstance(st.body[0].value, ast.BinOp)
                    and isinstance(st.body[0].value.op, (ast.Sub, ast.Add))):
                raise P.Unrecognised('scalar branch of the mjd conversion')
            dtypes.append(np_array1(st.body[0].value.left, 'mjd'))
            promoted.append('mjd')
            return 'promotion'
        if is_isinstance_str(t, 'run2d'):
            # if isinstance(run2d, str): try/except (read by run2d_string_branch)  elif isinstance(run2d, int): run2d = np.array([run2d])
            if not (len(st.body) == 1 and isinstance(st.body[0], ast.Try) and len(st.orelse) == 1 and isinstance(st.orelse[0], ast.If)
                    and not st.orelse[0].orelse):
                raise P.Unrecognised('run2d dispatch')
            tr = st.body[0]
            if not (len(tr.body) == 1 and isinstance(tr.body[0], ast.Assign) and isinstance(tr.body[0].targets[0], ast.Name)
                    and tr.body[0].targets[0].id == 'run2d' and len(tr.handlers) == 1 and not tr.orelse and not tr.finalbody):
                raise P.Unrecognised('run2d decimal-string branch')
            v = tr.body[0].value     # np.array([int(run2d)])
            if not (isinstance(v, ast.Call) and isinstance(v.func, ast.Attribute) and v.func.attr == 'array' and len(v.args) == 1
                    and not v.keywords and isinstance(v.args[0], ast.List) and len(v.args[0].elts) == 1
                    and isinstance(v.args[0].elts[0], ast.Call) and getattr(v.args[0].elts[0].func, 'id', None) == 'int'
                    and len(v.args[0].elts[0].args) == 1 and getattr(v.args[0].elts[0].args[0], 'id', None) == 'run2d'
                    and not v.args[0].elts[0].keywords):
                raise P.Unrecognised('run2d decimal-string conversion')
            simple_promotion(st.orelse[0], 'run2d')
            return 'promotion'
        if is_none_test(t) and t.left.id in ('line', 'index'):
            nm = t.left.id
            # X = np.zeros(plate.shape, dtype=plate.dtype)  else: if isinstance(X, int): X = np.array([X])
            z = st.body[0].value if len(st.body) == 1 and isinstance(st.body[0], ast.Assign) and \
                getattr(st.body[0].targets[0], 'id', None) == nm else None
            if not (isinstance(z, ast.Call) and isinstance(z.func, ast.Attribute) and z.func.attr == 'zeros' and len(z.args) == 1
                    and isinstance(z.args[0], ast.Attribute) and z.args[0].attr == 'shape' and getattr(z.args[0].value, 'id', None) == 'plate'
                    and len(z.keywords) == 1 and z.keywords[0].arg == 'dtype'):
                raise P.Unrecognised('default of %s is not np.zeros(plate.shape, dtype=...)' % nm)
            if not (len(st.orelse) == 1 and isinstance(st.orelse[0], ast.If) and not st.orelse[0].orelse):
                raise P.Unrecognised('else branch of `if %s is None`' % nm)
            simple_promotion(st.orelse[0], nm)
            return 'none'
        return None
    normalised = statement_inventory(fn, 'specObjID', other)
    if len(set(dtypes)) != 1:
        raise P.Unrecognised('scalar promotions of sdss_specobjid use different array constructions')
    return normalised, promoted, dtypes[0]


def format_pieces(fmt):
    """'v{0:d}_{1:d}_{2:d}' -> [('lit','v'), ('arg',0), ...]"""
    import re as _re
    out, pos = [], 0
    for m in _re.finditer(r'\{(\d+):d\}', fmt):
        if m.start() > pos:
            out.append(('lit', fmt[pos:m.start()]))
        out.append(('arg', int(m.group(1))))
        pos = m.end()
    if pos < len(fmt):
        out.append(('lit', fmt[pos:]))
    if any('{' in p[1] or '}' in p[1] for p in out if p[0] == 'lit'):
        raise P.Unrecognised('format string %r' % fmt)
    return out


def record_lit(descr, exprs, choose):
    """Coq list of (name chars, storage type, typed expression incl. the cast of the field assignment)."""
    rows, names = [], []
    for nm, ty in descr:
        name = nm[1] if nm[0] == 'const' else choose[nm[1]]
        tyv = ty[1] if ty[0] == 'const' else choose[ty[1]]
        if tyv not in DT:
            raise P.Unrecognised('record field type %r' % tyv)
        if nm not in exprs:
            raise P.Unrecognised('record field %s is never assigned' % name)
        rows.append('(%s, %s, (UCast %s %s)) (* %s *)' % (chars_lit(name), DT[tyv], DT[tyv], exprs[nm], name))
        names.append((name, tyv))
    return rows, names


def defn(name, args, body):
    return 'Definition %s (%s : Z) : Z :=\n  %s.\n' % (name, ' '.join(args), body)


def checks_lit(checks):
    return '[' + '; '.join('(%d%%nat, %s, %s)' % (i, P.zlit(lo), P.zlit(hi)) for i, lo, hi, _ in checks) + ']'


def generate(repo):
    info = {'recognised': True, 'detail': []}
    sdss_src = open(os.path.join(repo, 'pydl/pydlutils/sdss.py')).read()
    photo_src = open(os.path.join(repo, 'pydl/photoop/photoobj.py')).read()
    out = ['(* GENERATED by translate/c06.py from pydl/pydlutils/sdss.py and pydl/photoop/photoobj.py -- do not edit *)',
           'From Coq Require Import ZArith List.', 'From PV Require Import Lib.NumpyInt C06.Strings.', 'Import ListNotations.', 'Open Scope Z_scope.', '']
    try:
        t1 = ast.parse(sdss_src)
        t2 = ast.parse(photo_src)
        f_obj = P.find_function(t1, 'sdss_objid')
        f_spec = P.find_function(t1, 'sdss_specobjid')
        f_uspec = P.find_function(t1, 'unwrap_specobjid')
        f_uobj = P.find_function(t2, 'unwrap_objid')

        a = final_assign(f_obj, 'objid')
        casts = []
        out.append('(* sdss_objid, source line %d *)' % a.lineno)
        out.append(defn('objid_expr', OBJID_ARGS, P.to_gallina(fold(a.value), {x: x for x in OBJID_ARGS}, casts)))
        out.append('Definition objid_texpr : texpr :=\n  %s.\n' % to_texpr(fold(a.value), {x: i for i, x in enumerate(OBJID_ARGS)}))
        ch = checks_of(f_obj, OBJID_ARGS)
        out.append('Definition objid_checks : list (nat * Z * Z) := %s.\n' % checks_lit(ch))
        info['objid_check_exceptions'] = sorted(set(c[3] for c in ch))

        a = final_assign(f_spec, 'specObjID')
        casts = []
        out.append('(* sdss_specobjid, source line %d *)' % a.lineno)
        out.append(defn('specobjid_expr', SPEC_ARGS, P.to_gallina(fold(a.value), {x: x for x in SPEC_ARGS}, casts)))
        senv = {x: i for i, x in enumerate(SPEC_ARGS)}
        out.append('Definition specobjid_texpr : texpr :=\n  %s.\n' % to_texpr(fold(a.value), senv))
        out.append('(* the array branch of the MJD conversion, as a typed expression of the mjd argument *)')
        out.append('Definition mjd_array_texpr : texpr :=\n  %s.\n' % mjd_array_texpr(f_spec, senv))
        ch = checks_of(f_spec, SPEC_ARGS)
        out.append('Definition specobjid_checks : list (nat * Z * Z) := %s.\n' % checks_lit(ch))
        info['specobjid_check_exceptions'] = sorted(set(c[3] for c in ch))
        info['specobjid_casts'] = sorted(set(casts))
        so, ao = mjd_offsets(f_spec)
        out.append('Definition mjd_offset_scalar : Z := %s.' % P.zlit(so))
        out.append('Definition mjd_offset_array : Z := %s.\n' % P.zlit(ao))
        out.append(defn('run2d_of_NMP', ['N', 'M', 'P'], run2d_formula(f_spec)))

        uf = unwrap_fields(f_uobj, 'id', UNWRAP_OBJID_FIELDS)
        for k in UNWRAP_OBJID_FIELDS:
            if k not in uf:
                raise P.Unrecognised('unwrap_objid field %s' % k)
            out.append(defn('unwrap_objid_' + k, ['id'], uf[k]))
        us = unwrap_fields(f_uspec, 'id', ['plate', 'fiber', 'mjd'])
        for k in ['plate', 'fiber', 'mjd', 'run2d_int', 'line']:
            if k not in us:
                raise P.Unrecognised('unwrap_specobjid field %s' % k)
            out.append(defn('unwrap_spec_' + k, ['id'], us[k]))
        for k in ['run2d_N', 'run2d_M', 'run2d_P']:
            if k not in us:
                raise P.Unrecognised('unwrap_specobjid %s' % k)
            out.append(defn(k, ['r'], us[k]))
        # ---- round 5: glue ----
        dsky = default_skyversion_value(t1)
        sig, none_vals, promoted, bcast, shapes = objid_glue(f_obj, dsky)
        ix = {x: i for i, x in enumerate(OBJID_ARGS)}
        out.append('(* ---- glue regenerated from the source (round 5) ---- *)')
        out.append('Definition default_skyversion_value : Z := %s.' % P.zlit(dsky))
        out.append('Definition objid_sig_defaults : list (nat * option Z) := [%s].' % '; '.join(
            '(%d%%nat, %s)' % (ix[k], 'None' if sig[k] is None else 'Some %s' % P.zlit(sig[k])) for k in ('rerun', 'skyversion', 'firstfield')))
        out.append('Definition objid_none_values : list (nat * Z) := [%s].' % '; '.join(
            '(%d%%nat, %s)' % (ix[k], P.zlit(v)) for k, v in none_vals.items()))
        out.append('Definition objid_scalar_promoted : list nat := [%s].' % '; '.join('%d%%nat' % ix[k] for k in promoted))
        out.append('Definition objid_broadcast : list (nat * (Z * Z)) := [%s].' % '; '.join(
            '(%d%%nat, (%s, %s))' % (ix[k], P.zlit(c), P.zlit(f)) for k, (c, f) in bcast.items()))
        out.append('Definition objid_shape_checked : list nat := [%s].' % '; '.join('%d%%nat' % ix[k] for k in shapes))
        excl, sshapes = spec_glue(f_spec)
        out.append('Definition specobjid_line_index_exclusive : bool := %s.' % ('true' if excl else 'false'))
        out.append('Definition specobjid_shape_checked : list nat := [%s].\n' % '; '.join('%d%%nat' % senv[k] for k in sshapes))
        info['objid_glue'] = {'signature_defaults': sig, 'none_values': none_vals, 'broadcast': bcast, 'shape_checked': shapes}

        # ---- round 6: private helpers, scalar promotions of sdss_specobjid, closed statement inventories ----
        out.append('(* ---- private helpers and scalar handling (round 6) ---- *)')
        dt64, handlers = int64_array_helper(t1)
        out.append('Definition int64_array_promoter : promoter := %s.' % promoter_lit(dt64, handlers))
        classes = python_int_helper(t1)
        out.append('Definition numpy_scalar_normaliser : option (list scalar_class) := %s.' % (
            'None' if classes is None else 'Some [%s]' % '; '.join(classes)))
        onorm = objid_inventory(f_obj)
        snorm, spromoted, sdt = spec_inventory(f_spec)
        if (onorm or snorm) and classes is None:
            raise P.Unrecognised('_python_int is called but not defined in sdss.py')
        for nm in onorm:
            if nm not in ix:
                raise P.Unrecognised('sdss_objid normalises %s' % nm)
        for nm in snorm + spromoted:
            if nm not in senv:
                raise P.Unrecognised('sdss_specobjid normalises/promotes %s' % nm)
        out.append('Definition objid_scalar_normalised : list nat := [%s].' % '; '.join('%d%%nat' % ix[k] for k in onorm))
        out.append('Definition specobjid_scalar_normalised : list nat := [%s].' % '; '.join('%d%%nat' % senv[k] for k in snorm))
        out.append('Definition specobjid_scalar_promoted : list nat := [%s].' % '; '.join('%d%%nat' % senv[k] for k in spromoted))
        out.append('Definition specobjid_promoter : promoter := %s.\n' % promoter_lit(sdt, []))
        info['scalar_handling'] = {'int64_array': [dt64, handlers], 'normaliser': classes, 'objid_normalised': onorm,
                                   'specobjid_normalised': snorm, 'specobjid_promoted': spromoted, 'specobjid_promotion_dtype': sdt}

        tag = run2d_string_branch(f_spec)

        def pieces_lit(ps, lit, other):
            return '[' + '; '.join('%s %s' % (lit, chars_lit(p[1])) if p[0] == 'lit' else other(p) for p in ps) + ']'
        out.append('Definition run2d_pattern : list ppiece := %s.' % pieces_lit(tag['pieces'], 'PLit', lambda p: 'PDigits'))
        out.append('Definition run2d_pattern_anchored : bool := %s.' % ('true' if tag['anchored'] else 'false'))
        out.append('Definition run2d_tag_checks : list (nat * Z * Z) := [%s].' % '; '.join(
            '(%d%%nat, %s, %s)' % (i, P.zlit(lo), P.zlit(hi)) for i, lo, hi in tag['checks']))
        out.append('Definition run2d_tag_dtype : ity := %s.\n' % tag['dtype'])
        info['run2d_tag'] = {'anchored': tag['anchored'], 'checks': tag['checks'], 'dtype': tag['dtype']}

        uo = unwrap_typed(f_uobj, 'objid')
        rows, names = record_lit(uo['descr'], uo['exprs'], {})
        out.append('Definition unwrap_objid_intype : ity := %s.' % uo['intype'])
        out.append('Definition unwrap_objid_strtype : ity := %s.' % uo['strtype'])
        out.append('Definition unwrap_objid_record : list (list Z * ity * uexpr) :=\n  [%s\n  ].\n' % ';\n   '.join(rows).replace(' (* ', '\n   (* ').replace(');\n   \n', ');\n'))
        info['unwrap_objid_dtype'] = names
        usp = unwrap_typed(f_uspec, 'specObjID')
        sw = usp['switches']
        if sorted(sw) != ['line', 'run2d_dtype'] or 'run2d_integer' not in sw['run2d_dtype'] or 'specLineIndex' not in sw['line']:
            raise P.Unrecognised('unwrap_specobjid switches %s' % sw)
        if 'format' not in usp or sorted(usp['nmp']) != ['M', 'N', 'P']:
            raise P.Unrecognised('unwrap_specobjid string run2d branch')
        rows, names = record_lit(usp['descr'], usp['exprs'], {'run2d_dtype': sw['run2d_dtype']['run2d_integer'], 'line': sw['line']['default']})
        out.append('Definition unwrap_spec_intype : ity := %s.' % usp['intype'])
        out.append('Definition unwrap_spec_strtype : ity := %s.' % usp['strtype'])
        out.append('(* the record of unwrap_specobjid(..., run2d_integer=True) *)')
        out.append('Definition unwrap_spec_record : list (list Z * ity * uexpr) :=\n  [%s\n  ].\n' % ';\n   '.join(rows).replace(' (* ', '\n   (* ').replace(');\n   \n', ');\n'))
        info['unwrap_spec_dtype_integer'] = names
        sdt = sw['run2d_dtype']['default']
        if not (sdt.startswith('U') and sdt[1:].isdigit()):
            raise P.Unrecognised('string run2d dtype %r' % sdt)
        out.append('Definition unwrap_spec_line_names : list Z * list Z := (%s, %s).' % (chars_lit(sw['line']['default']), chars_lit(sw['line']['specLineIndex'])))
        out.append('Definition unwrap_spec_run2d_str_width : Z := %s.' % sdt[1:])
        out.append('Definition unwrap_spec_NMP : list uexpr := [%s].' % '; '.join(usp['nmp'][k] for k in ('N', 'M', 'P')))
        out.append('Definition run2d_format : list fpiece := %s.\n' % pieces_lit(usp['format'], 'FLit', lambda p: 'FArg %d%%nat' % p[1]))
        info['unwrap_spec_dtype_string'] = [(n, (sdt if n == 'run2d' else t)) for n, t in names]
        info['unwrap_spec_line_names'] = [sw['line']['default'], sw['line']['specLineIndex']]
        out.append('Definition sdssids_recognised : bool := true.')
    except (P.Unrecognised, SyntaxError) as e:
        info['recognised'] = False
        info['detail'].append('%s: %s' % (type(e).__name__, e))
        return None, info
    return '\n'.join(out) + '\n', info


if __name__ == '__main__':
    import sys
    text, info = generate(sys.argv[1] if len(sys.argv) > 1 else '/repo')
    print(info)
    print(text)
