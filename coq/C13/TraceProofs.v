(* C13: converting positions to a trace set and evaluating it at the same positions returns the fitted values;
   the default grid is xmin, xmin+1, ... with floor(xmax-xmin+1) columns. *)
From Coq Require Import QArith Qabs Qround Qminmax Lqa List Bool Lia ZArith.
From PV Require Import Lib.WLS C13.LinAlg C13.LinAlgProofs Generated.Trace C13.Model C13.FitProofs C13.FitProofs2 C13.FitGenProofs.
Import ListNotations.
Open Scope Q_scope.

Lemma dot_zeros_r r k : dot r (zeros k) == 0.
Proof. rewrite dot_comm. apply dot_zeros_l. Qed.

Lemma dot_app u v u' v' : length u = length v -> dot (u ++ u') (v ++ v') == dot u v + dot u' v'.
Proof.
  revert v; induction u as [|a u IH]; intros [|b v] H; simpl in *; try discriminate; [ring|].
  rewrite IH by lia. ring.
Qed.

Lemma map_all_zero {A : Type} (g : A -> Q) xs : (forall x, g x == 0) -> veq (map g xs) (zeros (length xs)).
Proof. intros H. induction xs; simpl; constructor; auto. Qed.
Lemma map_all_const {A : Type} (g : A -> Q) c xs : (forall x, g x == c) -> veq (map g xs) (repeat c (length xs)).
Proof. intros H. induction xs; simpl; constructor; auto. Qed.
Lemma map_veq {A : Type} (g h : A -> Q) xs : (forall x, g x == h x) -> veq (map g xs) (map h xs).
Proof. intros H. induction xs; simpl; constructor; auto. Qed.

Lemma basis_0 f x : f <> ChebSplit -> basis f 0 x = 1.
Proof. destruct f; intros H; try reflexivity. contradiction H; reflexivity. Qed.

Lemma basis_row_split f a b x : basis_row f (a + b) x = basis_row f a x ++ map (fun k => basis f k x) (seq a b).
Proof. unfold basis_row. rewrite seq_app, map_app. reflexivity. Qed.

Lemma all_true_length n : length (all_true n) = n.
Proof. apply repeat_length. Qed.

(* evaluating the full coefficient vector with the ncoeff-term basis reproduces the fitted values *)
Lemma func_fit_eval f xv y w ncoeff res yfit :
  func_fit_ref f xv y w ncoeff (all_true ncoeff) [] None = Some (res, yfit) ->
  f <> ChebSplit -> (1 <= ncoeff)%nat ->
  veq (map (fun x => dot (basis_row f ncoeff x) res) xv) yfit.
Proof.
  intros H Hf Hn.
  destruct (le_lt_dec 2 (ngood_of y w)) as [Hg|Hg].
  - (* main branch *)
    destruct (func_fit_main _ _ _ _ _ _ _ _ _ _ H Hg) as [resf [Hc Hres]]. subst res.
    set (ncfit := Nat.min (ngood_of y w) ncoeff) in *.
    unfold scale_rows in Hc. unfold fit_core in Hc.
    destruct (wls_solve _ _) as [sol|]; [|discriminate]. inversion Hc as [[E1 E2]]; clear Hc.
    rewrite map_map.
    assert (Lr : length (scatter 0 (firstn ncfit (all_true ncoeff)) sol []) = ncfit).
    { rewrite scatter_length. apply firstn_length_le. rewrite all_true_length. unfold ncfit. lia. }
    apply map_veq. intros x.
    replace ncoeff with (ncfit + (ncoeff - ncfit))%nat at 1 by (unfold ncfit; lia).
    rewrite basis_row_split. rewrite dot_app.
    + rewrite dot_zeros_r. ring.
    + rewrite basis_row_length. symmetry. exact Lr.
  - (* no or one good point *)
    unfold func_fit_ref in H. unfold ngood_of in Hg.
    destruct (length (filter (fun p => Qlt_bool 0 (snd p)) (combine y w))) as [|[|k]] eqn:E; try lia.
    + inversion H; subst. apply map_all_zero. intros x. apply dot_zeros_r.
    + inversion H; subst. apply map_all_const. intros x.
      destruct ncoeff as [|k]; [lia|]. simpl. rewrite Nat.sub_0_r.
      change (basis_row f (S k) x) with (basis f 0 x :: map (fun j => basis f j x) (seq 1 k)).
      simpl. rewrite basis_0 by exact Hf. rewrite dot_zeros_r. ring.
Qed.

(* ------------------------------------------------------------------ the trace set *)
Lemma opt_all_map_eval {T : Type} (F : T -> option (vec * vec)) (X : T -> vec) (G : vec -> vec -> vec) :
  forall (ts : list T) l,
  opt_all (map F ts) = Some l ->
  (forall t res yf, In t ts -> F t = Some (res, yf) -> veq (G (X t) res) yf) ->
  meq (map2 G (map X ts) (map fst l)) (map snd l).
Proof.
  induction ts as [|t ts IH]; intros l H HG; simpl in *.
  - inversion H; subst. constructor.
  - destruct (F t) as [[res yf]|] eqn:E; [|discriminate].
    destruct (opt_all (map F ts)) as [l'|] eqn:E'; [|discriminate].
    inversion H; subst; clear H. simpl. constructor.
    + apply (HG t); auto.
    + apply IH; auto.
Qed.

Lemma combine4_fst (xs ys ws : mat) (ms : list (list bool)) :
  length ys = length xs -> length ws = length xs -> length ms = length xs ->
  map (fun t : vec * vec * vec * list bool => fst (fst (fst t))) (combine (combine (combine xs ys) ws) ms) = xs.
Proof.
  revert ys ws ms; induction xs as [|x xs IH]; intros [|y ys] [|w ws] [|m ms] H1 H2 H3; simpl in *; try discriminate; try reflexivity.
  f_equal. apply IH; lia.
Qed.

(* the jump handed to xnorm while fitting is the jump handed to xnorm while evaluating (ignore_jump = False):
   breaks if __init__ or xy pass a different jump argument, or if do_jump / has_jump change *)
Lemma jump_args_consistent j : xy_jump j false = fit_jump j.
Proof. destruct j; reflexivity. Qed.

(* xnorm assembled from the source's expressions = the reference form used by the checkers *)
Lemma xnorm_is_spec xmin xmax j x : xnorm xmin xmax j x = xnorm_spec xmin xmax j x.
Proof. destruct j as [[[lo hi] val]|]; reflexivity. Qed.
Lemma ts_nx_is_spec t : ts_nx t = ts_nx_spec t.
Proof. reflexivity. Qed.

(* traceset_fit_eval_consistent: xy (fit xpos ypos) xpos = (xpos, yfit), for every trace, with and without jump
   (the jump j is whatever the trace set was built with) *)
Theorem traceset_fit_eval_consistent f ncoeff oxmin oxmax j xpos ypos ivar inmask t yfit :
  ts_fit f ncoeff oxmin oxmax j xpos ypos ivar inmask = Some (t, yfit) ->
  f <> ChebSplit -> (1 <= ncoeff)%nat ->
  length ypos = length xpos -> length ivar = length xpos -> length inmask = length xpos ->
  exists ys, ts_xy t (Some xpos) false = Some (xpos, ys) /\ meq ys yfit.
Proof.
  intros H Hf Hn L1 L2 L3. unfold ts_fit in H.
  set (xmin := match oxmin with Some v => v | None => mat_min xpos end) in *.
  set (xmax := match oxmax with Some v => v | None => mat_max xpos end) in *.
  match type of H with match opt_all (map ?F0 ?T0) with _ => _ end = _ => set (F := F0) in *; set (T := T0) in * end.
  destruct (opt_all (map F T)) as [l|] eqn:E; [|discriminate].
  inversion H; subst t yfit; clear H.
  unfold ts_xy. simpl ts_func. assert (Hs : xy_supported f = true) by (destruct f; try reflexivity; contradiction Hf; reflexivity).
  rewrite Hs. eexists. split; [reflexivity|]. simpl ts_coeff.
  rewrite <- (combine4_fst xpos ypos ivar inmask L1 L2 L3) at 1. fold T.
  apply (opt_all_map_eval F) with (l := l); [exact E|].
  intros [[[xr yr] wr] mr] res yf _ HF. simpl. unfold ts_eval_row. simpl.
  replace (match xy_func f with Some g => g | None => f end) with f by (destruct f; reflexivity).
  unfold F in HF. rewrite func_fit_eq_ref in HF. rewrite jump_args_consistent.
  pose proof (func_fit_eval _ _ _ _ _ _ _ HF Hf Hn) as HE. rewrite map_map in HE. exact HE.
Qed.

(* ------------------------------------------------------------------ default grid *)
Theorem default_grid_spec t ig : xy_supported (ts_func t) = true ->
  exists ys, ts_xy t None ig = Some (default_grid t, ys) /\
    length (default_grid t) = length (ts_coeff t) /\
    forall i row, nth_error (default_grid t) i = Some row ->
      length row = Z.to_nat (Qfloor (ts_xmax t - ts_xmin t + 1)) /\
      forall k v, nth_error row k = Some v -> v = inject_Z (Z.of_nat k) + ts_xmin t.
Proof.
  intros Hs. unfold ts_xy. rewrite Hs. eexists. split; [reflexivity|]. split.
  - unfold default_grid. apply map_length.
  - intros i row Hrow. unfold default_grid in Hrow.
    apply nth_error_In in Hrow. apply in_map_iff in Hrow. destruct Hrow as [c [E _]]. subst row. split.
    + rewrite map_length, seq_length. reflexivity.
    + intros k v Hv. rewrite nth_error_map in Hv.
      destruct (nth_error (seq 0 (ts_nx t)) k) as [k'|] eqn:Ek; [|discriminate].
      simpl in Hv. inversion Hv; subst.
      assert (k' = k).
      { pose proof Ek as Ek2. apply nth_error_nth with (d := O) in Ek2.
        assert (k < length (seq 0 (ts_nx t)))%nat by (apply nth_error_Some; congruence).
        rewrite seq_length in H. rewrite seq_nth in Ek2 by exact H. simpl in Ek2. congruence. }
      subst. reflexivity.
Qed.

(* the jump fraction (expression from the source) is clamped to [0, 1] *)
Lemma jfrac_range x lo hi : 0 <= g_jfrac x lo hi <= 1.
Proof.
  unfold g_jfrac. split.
  - apply Q.min_glb; [apply Q.le_max_r | unfold Qle; simpl; lia].
  - apply Q.le_min_r.
Qed.

(* ------------------------------------------------------------------ TraceSet.__init__ as the source writes it *)
(* tempivar = invvar * inmask (expression from the source) is the reference weight vector *)
Lemma tempivar_gen_is_mask_w iv m : tempivar_gen iv m = mask_w iv m.
Proof. reflexivity. Qed.

(* the rejection loop `while (not qdone) and (iIter <= maxiter)` around func_fit / djs_reject-without-criteria runs its
   body exactly once when maxiter >= 0: one weighted fit, nothing rejected *)
Lemma fit_loop_single fit y tw maxiter mask0 : (0 <= maxiter)%Z ->
  fit_loop (Z.to_nat (maxiter + 2)) fit y tw maxiter g_iiter0 g_qdone0 mask0 None
  = match fit tw with Some ry => Some (fst ry, snd ry, repeat true (length y)) | None => None end.
Proof.
  intros H. replace (Z.to_nat (maxiter + 2)) with (S (S (Z.to_nat maxiter))) by lia.
  cbn [fit_loop]. unfold g_loop_continue at 1. unfold g_iiter0, g_qdone0.
  replace (Z.leb 0 maxiter) with true by (symmetry; apply Z.leb_le; exact H). cbn [negb andb].
  unfold g_fit_weight. destruct (fit tw) as [ry|]; [|reflexivity].
  unfold reject_nocrit. unfold g_loop_continue. cbn [negb andb]. reflexivity.
Qed.

(* a negative maxiter never enters the loop: `ycurfit` is unbound and the constructor raises *)
Lemma fit_loop_negative fuel fit y tw maxiter mask0 : (maxiter < 0)%Z ->
  fit_loop fuel fit y tw maxiter g_iiter0 g_qdone0 mask0 None = None.
Proof.
  intros H. destruct fuel; cbn [fit_loop]; unfold g_loop_continue, g_iiter0, g_qdone0;
    replace (Z.leb 0 maxiter) with false by (symmetry; apply Z.leb_gt; exact H); reflexivity.
Qed.

Lemma opt_all_decorate {T A B C : Type} (F : T -> option (A * B)) (M : T -> C) (G : T -> option (A * B * C)) :
  (forall t, G t = match F t with Some ry => Some (fst ry, snd ry, M t) | None => None end) ->
  forall ts,
  match opt_all (map F ts) with
  | Some l => exists l', opt_all (map G ts) = Some l' /\ map (fun r => fst (fst r)) l' = map fst l /\
                         map (fun r => snd (fst r)) l' = map snd l /\ map snd l' = map M ts
  | None => opt_all (map G ts) = None
  end.
Proof.
  intros HG. induction ts as [|t ts IH]; cbn [map opt_all].
  - exists []. repeat split.
  - rewrite HG. destruct (F t) as [ry|]; [|reflexivity].
    destruct (opt_all (map F ts)) as [l|].
    + destruct IH as [l' [E [E1 [E2 E3]]]]. rewrite E. eexists. split; [reflexivity|].
      cbn [map fst snd]. rewrite E1, E2, E3. repeat split.
    + rewrite IH. reflexivity.
Qed.

(* with every keyword given and maxiter >= 0, the constructor of the source (defaults, tempivar, rejection loop) is the
   reference form ts_fit (one weighted fit per trace with weights invvar*inmask) and outmask is all True *)
Theorem ts_fit_src_is_ref f ncoeff maxiter oxmin oxmax j xpos ypos ivar inmask : (0 <= maxiter)%Z ->
  ts_fit_src (Some f) (Some ncoeff) (Some maxiter) oxmin oxmax j xpos ypos (Some ivar) (Some inmask)
  = match ts_fit f ncoeff oxmin oxmax j xpos ypos ivar inmask with
    | Some (t, yfit) =>
        Some (t, yfit, map (fun q : vec * vec * vec * list bool => repeat true (length (snd (fst (fst q)))))
                           (combine (combine (combine xpos ypos) ivar) inmask))
    | None => None
    end.
Proof.
  intros Hm. unfold ts_fit_src, ts_fit.
  change (extremum_of g_xmin_default xpos) with (mat_min xpos). change (extremum_of g_xmax_default xpos) with (mat_max xpos).
  set (xmin := match oxmin with Some v => v | None => mat_min xpos end).
  set (xmax := match oxmax with Some v => v | None => mat_max xpos end).
  set (T := combine (combine (combine xpos ypos) ivar) inmask).
  match goal with |- match opt_all (map ?G0 T) with _ => _ end = match match opt_all (map ?F0 T) with _ => _ end with _ => _ end =>
    set (G := G0); set (F := F0) end.
  pose proof (opt_all_decorate F (fun q : vec * vec * vec * list bool => repeat true (length (snd (fst (fst q))))) G) as D.
  assert (HG : forall t, G t = match F t with Some ry => Some (fst ry, snd ry, repeat true (length (snd (fst (fst t))))) | None => None end).
  { intros [[[xr yr] wr] mr]. unfold G, F. rewrite fit_loop_single by exact Hm. rewrite tempivar_gen_is_mask_w. reflexivity. }
  specialize (D HG T).
  destruct (opt_all (map F T)) as [l|].
  - destruct D as [l' [E [E1 [E2 E3]]]]. rewrite E, E1, E2, E3. reflexivity.
  - rewrite D. reflexivity.
Qed.

(* absent keywords mean func='legendre', ncoeff=3, maxiter=10, invvar=1, inmask=True (read from the source) *)
Theorem ts_fit_src_defaults oxmin oxmax j xpos ypos :
  ts_fit_src None None None oxmin oxmax j xpos ypos None None
  = ts_fit_src (Some Legendre) (Some 3%nat) (Some 10%Z) oxmin oxmax j xpos ypos
               (Some (map (map (fun _ => 1)) xpos)) (Some (map (map (fun _ => true)) xpos)).
Proof. reflexivity. Qed.

(* fit -> evaluate consistency for the constructor as the source writes it (any maxiter >= 0, any inmask / invvar) *)
Theorem traceset_src_fit_eval_consistent f ncoeff maxiter oxmin oxmax j xpos ypos ivar inmask t yfit om :
  ts_fit_src (Some f) (Some ncoeff) (Some maxiter) oxmin oxmax j xpos ypos (Some ivar) (Some inmask) = Some (t, yfit, om) ->
  (0 <= maxiter)%Z -> f <> ChebSplit -> (1 <= ncoeff)%nat ->
  length ypos = length xpos -> length ivar = length xpos -> length inmask = length xpos ->
  (exists ys, ts_xy t (Some xpos) false = Some (xpos, ys) /\ meq ys yfit) /\
  Forall (Forall (fun b => b = true)) om.
Proof.
  intros H Hm Hf Hn L1 L2 L3. rewrite ts_fit_src_is_ref in H by exact Hm.
  destruct (ts_fit f ncoeff oxmin oxmax j xpos ypos ivar inmask) as [[t0 y0]|] eqn:E; [|discriminate].
  inversion H; subst t0 y0 om; clear H. split.
  - exact (traceset_fit_eval_consistent _ _ _ _ _ _ _ _ _ _ _ E Hf Hn L1 L2 L3).
  - apply Forall_forall. intros r Hr. apply in_map_iff in Hr. destruct Hr as [q [Eq _]]. subst r.
    apply Forall_forall. intros b Hb. apply repeat_spec in Hb. exact Hb.
Qed.

(* ------------------------------------------------------------------ function tables and order guards *)
Lemma fit_func_is_name f : fit_func f = f.
Proof. destruct f; reflexivity. Qed.
Lemma xy_func_is_name f : xy_func f = match f with ChebSplit => None | _ => Some f end.
Proof. destruct f; reflexivity. Qed.
Lemma min_order_is_spec f : min_order f = min_order_spec f.
Proof. destruct f; reflexivity. Qed.
(* a basis call answers iff m >= the documented minimum order, with one row per order and one column per abscissa *)
Lemma basis_call_spec f m xs :
  basis_call f m xs = if Nat.ltb m (min_order_spec f) then None
                      else Some (map (fun k => map (basis f k) xs) (seq 0 m)).
Proof. unfold basis_call. rewrite min_order_is_spec. reflexivity. Qed.
