(* C11 -- combine1fiber, flux path: lengths, aesthetics support, constant splines stay constant. Proofs only. *)
From Coq Require Import QArith Qround Qabs Lqa List Bool Arith Lia Setoid Morphisms.
Import ListNotations.
From PV Require Import Lib.WLS BSpline.Eval BSpline.EvalProofs BSpline.CoxDeBoor BSpline.BasisProofs
  BSpline.KnotsProofs C11.Model C11.Proofs.
Open Scope Q_scope.

(* ================================================================== generic list facts *)
Lemma nth_map_lt {A B} (f : A -> B) (da : A) (db : B) : forall l q, (q < length l)%nat ->
  nth q (map f l) db = f (nth q l da).
Proof. induction l as [|a l IH]; intros [|q] H; cbn [length map nth] in *; try lia; auto. apply IH. lia. Qed.

Lemma nth_combine_lt {A B} (da : A) (db : B) : forall a b q, (q < length a)%nat -> (q < length b)%nat ->
  nth q (combine a b) (da, db) = (nth q a da, nth q b db).
Proof.
  induction a as [|x a IH]; intros [|y b] [|q] Ha Hb; cbn [length combine nth] in *; try lia; auto.
  apply IH; lia.
Qed.

Lemma nth_map_combine_in {A B C} (f : A * B -> C) (da : A) (db : B) (dc : C) :
  forall a b q, (q < length a)%nat -> (q < length b)%nat ->
  nth q (map f (combine a b)) dc = f (nth q a da, nth q b db).
Proof.
  intros a b q Ha Hb. rewrite (nth_map_lt f (da, db) dc) by (rewrite combine_length; lia).
  rewrite nth_combine_lt by assumption. reflexivity.
Qed.

Lemma nth_map_combine_out {A B C} (f : A * B -> C) (dc : C) :
  forall a b q, (length a <= q \/ length b <= q)%nat -> nth q (map f (combine a b)) dc = dc.
Proof. intros a b q H. apply nth_overflow. rewrite map_length, combine_length. lia. Qed.

Lemma nth_const_map {A B} (b : B) : forall (l : list A) q, nth q (map (fun _ => b) l) b = b.
Proof. induction l as [|a l IH]; intros [|q]; cbn [map nth]; auto. Qed.

Lemma Forall_skipn' {A} (P : A -> Prop) : forall n l, Forall P l -> Forall P (skipn n l).
Proof.
  induction n as [|n IH]; intros l H; [exact H|]. destruct l as [|a l]; [exact H|].
  cbn [skipn]. apply IH. inversion H; assumption.
Qed.

Lemma nthQ_overflow_zero l q : ~ nthQ l q == 0 -> (q < length l)%nat.
Proof.
  intros H. destruct (Nat.lt_ge_cases q (length l)) as [L|L]; [exact L|].
  exfalso. apply H. unfold nthQ. rewrite nth_overflow by exact L. reflexivity.
Qed.

(* ================================================================== PART A -- lengths *)
Lemma step_group_lengths k il nl s g :
  length (s_flux s) = length nl -> length (s_mask s) = length nl ->
  length (s_flux (step_group k il nl s g)) = length nl /\
  length (s_mask (step_group k il nl s g)) = length nl.
Proof.
  intros Hf Hm. destruct g as [ss f0]. unfold step_group. cbv zeta.
  destruct (usable ss f0) as [g|]; cbn [s_flux s_mask].
  - rewrite !map_length, !combine_length, !map_length. lia.
  - auto.
Qed.

Lemma fold_step_lengths k il nl gs : forall s,
  length (s_flux s) = length nl -> length (s_mask s) = length nl ->
  length (s_flux (fold_left (step_group k il nl) gs s)) = length nl /\
  length (s_mask (fold_left (step_group k il nl) gs s)) = length nl.
Proof.
  induction gs as [|g gs IH]; intros s Hf Hm; cbn [fold_left]; [auto|].
  destruct (step_group_lengths k il nl s g Hf Hm). apply IH; assumption.
Qed.

Definition stage_groups (c : cin) (fits : list (option gfit)) : list (list nat * option gfit) :=
  combine (groups (c_maxsep c) (c_inloglam c) (c_isort c)) fits.
Definition stage_s0 (c : cin) : st :=
  mkSt (map (fun _ => 0) (c_newloglam c)) (map (fun _ => false) (c_newloglam c))
       (map (fun _ => false) (c_inloglam c)).
Definition exposure_term (c : cin) (s : st) (j : nat) : list Q :=
  ivar_of_exposure (c_inloglam c) (weights c) (s_comb s)
    (filter (fun i => (nth i (c_specnum c) O =? j)%nat) (seq 0 (length (c_inloglam c))))
    (c_newloglam c) (s_mask s).

Lemma stages_fst c fits :
  fst (stages c fits) =
  fold_left (step_group (c_k c) (c_inloglam c) (c_newloglam c)) (stage_groups c fits) (stage_s0 c).
Proof. reflexivity. Qed.

Lemma stages_snd c fits :
  snd (stages c fits) =
  fold_left (fun acc j => vsum acc (exposure_term c (fst (stages c fits)) j))
            (seq 0 (c_nspec c)) (map (fun _ => 0) (c_newloglam c)).
Proof. reflexivity. Qed.

Lemma ivar_of_exposure_length il w comb these nl mask :
  length (ivar_of_exposure il w comb these nl mask) = Nat.min (length nl) (length mask).
Proof. unfold ivar_of_exposure. cbv zeta. rewrite map_length, combine_length. reflexivity. Qed.

Lemma vsum_length a b : length (vsum a b) = Nat.min (length a) (length b).
Proof. unfold vsum. rewrite map_length, combine_length. reflexivity. Qed.

Lemma fold_vsum_length {J} (t : J -> list Q) n js : forall acc,
  length acc = n -> (forall j, length (t j) = n) ->
  length (fold_left (fun a j => vsum a (t j)) js acc) = n.
Proof.
  induction js as [|j js IH]; intros acc Ha Ht; cbn [fold_left]; [exact Ha|].
  apply IH; [|exact Ht]. rewrite vsum_length, Ha, Ht. lia.
Qed.

Lemma stages_lengths c fits :
  length (s_flux (fst (stages c fits))) = length (c_newloglam c) /\
  length (s_mask (fst (stages c fits))) = length (c_newloglam c) /\
  length (snd (stages c fits)) = length (c_newloglam c).
Proof.
  assert (H : length (s_flux (fst (stages c fits))) = length (c_newloglam c) /\
              length (s_mask (fst (stages c fits))) = length (c_newloglam c)).
  { rewrite stages_fst. apply fold_step_lengths; unfold stage_s0; cbn [s_flux s_mask]; apply map_length. }
  destruct H as [Hf Hm]. split; [exact Hf|]. split; [exact Hm|].
  rewrite stages_snd. apply fold_vsum_length; [apply map_length|].
  intro j. unfold exposure_term. rewrite ivar_of_exposure_length, Hm. lia.
Qed.

Lemma maskinterp_idx_length ys bad : length bad = length ys -> length (maskinterp_idx ys bad) = length ys.
Proof.
  intros H. unfold maskinterp_idx. destruct (forallb negb bad); [reflexivity|].
  destruct (good_table 0 ys bad) as [|g [|g' t]]; [reflexivity | apply map_length |].
  rewrite map_length, !combine_length, seq_length. lia.
Qed.

Lemma aesthetics_length m flux iv : length iv = length flux ->
  length (aesthetics_model m flux iv) = length flux.
Proof.
  intros H. unfold aesthetics_model. destruct (forallb _ _); [reflexivity|]. unfold aesthetics_core. cbv zeta.
  destruct (existsb _ _); [|reflexivity].
  destruct m; try reflexivity; try (apply maskinterp_idx_length; rewrite map_length; exact H).
  rewrite map_length, combine_length. lia.
Qed.

Lemma combine1fiber_full_eq c fits : good_index c <> [] ->
  combine1fiber_full c fits =
  (aesthetics_model (c_method c) (s_flux (fst (stages c fits))) (grow (snd (stages c fits))),
   grow (snd (stages c fits)), s_comb (fst (stages c fits))).
Proof.
  intros H. unfold combine1fiber_full. destruct (good_index c) as [|i r]; [contradiction|].
  destruct (stages c fits) as [s iv]. reflexivity.
Qed.

Lemma combine1fiber_full_empty c fits : good_index c = [] ->
  combine1fiber_full c fits =
  (map (fun _ => 0) (c_newloglam c), map (fun _ => 0) (c_newloglam c), map (fun _ => false) (c_inloglam c)).
Proof. intros H. unfold combine1fiber_full. rewrite H. reflexivity. Qed.

Theorem lengths c fits :
  length (fst (combine1fiber_model c fits)) = length (c_newloglam c) /\
  length (snd (combine1fiber_model c fits)) = length (c_newloglam c).
Proof.
  unfold combine1fiber_model.
  destruct (good_index c) as [|i r] eqn:E.
  - rewrite combine1fiber_full_empty by exact E. cbn [fst snd]. split; apply map_length.
  - rewrite combine1fiber_full_eq by (rewrite E; discriminate). cbn [fst snd].
    destruct (stages_lengths c fits) as (Hf & Hm & Hi).
    split.
    + rewrite aesthetics_length; [exact Hf|]. rewrite grow_length, Hi, Hf. reflexivity.
    + rewrite grow_length. exact Hi.
Qed.

(* ================================================================== PART B -- aesthetics support *)
Lemma good_table_In : forall ys bad i q, (q < length ys)%nat -> (q < length bad)%nat ->
  nth q bad false = false -> In (qnat (i + q), nthQ ys q) (good_table i ys bad).
Proof.
  unfold nthQ.
  induction ys as [|y ys IH]; intros [|b bad] i [|q] Hy Hb Hq; cbn [length nth good_table] in *; try lia.
  - subst b. left. rewrite Nat.add_0_r. reflexivity.
  - replace (i + S q)%nat with (S i + q)%nat by lia.
    destruct b; [|right]; apply IH; try lia; exact Hq.
Qed.

Lemma Qeq_bool_false_of_neq a : ~ a == 0 -> Qeq_bool a 0 = false.
Proof. intro H. destruct (Qeq_bool a 0) eqn:E; [|reflexivity]. apply Qeq_bool_iff in E. contradiction. Qed.

Lemma maskinterp_support ys bad q : (q < length ys)%nat -> (q < length bad)%nat ->
  nth q bad false = false -> nthQ (maskinterp_idx ys bad) q = nthQ ys q.
Proof.
  intros Hy Hb Hq. unfold maskinterp_idx. destruct (forallb negb bad); [reflexivity|].
  pose proof (good_table_In ys bad 0 q Hy Hb Hq) as HIn.
  destruct (good_table 0 ys bad) as [|g [|g' t]] eqn:E; [reflexivity | |].
  - destruct HIn as [HIn|[]]. subst g. unfold nthQ. rewrite (nth_map_lt _ 0 0) by exact Hy. reflexivity.
  - unfold nthQ.
    rewrite (nth_map_combine_in _ 0%nat (0, false) 0)
      by (rewrite ?seq_length, ?combine_length; lia).
    rewrite nth_combine_lt by assumption. cbn [fst snd]. rewrite Hq. reflexivity.
Qed.

(* DEVIATION: for method Mean the implementation (and the model) replaces every pixel with ivar <= 0 -- the test is
   `newivar > 0` -- so a pixel with NEGATIVE inverse variance is overwritten by the mean; the statement as asked
   (only ~ iv_q == 0) is false for Mean.  Added hypothesis: for Mean, 0 <= iv_q.
   Original:  length iv = length flux -> forall q, ~ nthQ iv q == 0 ->
              nthQ (aesthetics_model m flux iv) q = nthQ flux q. *)
Theorem aesthetics_support m flux iv : length iv = length flux ->
  forall q, ~ nthQ iv q == 0 -> (m = Mean -> 0 <= nthQ iv q) ->
  nthQ (aesthetics_model m flux iv) q = nthQ flux q.
Proof.
  intros Hlen q Hq HM.
  pose proof (nthQ_overflow_zero iv q Hq) as Hql.
  unfold aesthetics_model. destruct (forallb _ _); [reflexivity|]. unfold aesthetics_core.
  cbv zeta. destruct (existsb _ _); [|reflexivity].
  assert (Hbad : nth q (map (fun v => Qeq_bool v 0) iv) false = false).
  { rewrite (nth_map_lt _ 0 false) by exact Hql. apply Qeq_bool_false_of_neq. exact Hq. }
  destruct m; try reflexivity;
    try (apply maskinterp_support; [lia | rewrite map_length; lia | exact Hbad]).
  unfold nthQ. rewrite (nth_map_combine_in _ 0 0 0) by lia. cbn [fst snd].
  assert (Hpos : Qltb 0 (nth q iv 0) = true).
  { apply Qltb_lt. specialize (HM eq_refl). unfold nthQ in *.
    destruct (Qle_lt_or_eq _ _ HM) as [L|L]; [exact L|]. exfalso. apply Hq. symmetry. exact L. }
  rewrite Hpos. reflexivity.
Qed.

Corollary aesthetics_support_pos m flux iv : length iv = length flux ->
  forall q, 0 < nthQ iv q -> nthQ (aesthetics_model m flux iv) q = nthQ flux q.
Proof.
  intros Hlen q Hq. apply aesthetics_support; [exact Hlen| |].
  - intro E. rewrite E in Hq. apply (Qlt_irrefl 0). exact Hq.
  - intros _. apply Qlt_le_weak. exact Hq.
Qed.

(* ================================================================== PART C -- constant splines *)
Lemma dot_const u c : forall v, (length u <= length v)%nat -> Forall (fun a => a == c) v ->
  dot u v == c * sumQ u.
Proof.
  induction u as [|a u IH]; intros v Hl Hv; cbn [dot sumQ]; [ring|].
  destruct v as [|b v]; [cbn in Hl; lia|].
  inversion Hv as [|b' v' Hb Hv']; subst.
  rewrite (IH v); [ | cbn [length] in Hl; lia | exact Hv'].
  rewrite Hb. ring.
Qed.

(* C1 *)
Theorem eval_at_constant gb k gc x l c :
  nondecr gb -> (1 <= k)%nat -> (k - 1 <= l)%nat -> (l + k <= length gb)%nat ->
  nthQ gb l < nthQ gb (S l) -> (l - (k - 1) + k <= length gc)%nat ->
  Forall (fun a => a == c) gc -> eval_at gb k gc x l == c.
Proof.
  intros Hnd Hk Hl Hlen Hlt Hgc Hc. unfold eval_at. rewrite Qred_correct.
  rewrite (dot_const _ c).
  - rewrite bsplvn_partition_of_unity by assumption. ring.
  - rewrite bsplvn_length by assumption. rewrite skipn_length. lia.
  - apply Forall_skipn'. exact Hc.
Qed.

(* C2 *)
Theorem eval1_constant gb k gc x c :
  incr gb -> (1 <= k)%nat -> (2 * k <= length gb)%nat -> length gc = (length gb - k)%nat ->
  Forall (fun a => a == c) gc -> eval1 gb k gc x == c.
Proof.
  intros Hi Hk Hlen Hgc Hc. unfold eval1.
  destruct (intrv1_spec gb k x Hk Hlen) as [Hl _]. cbv zeta in Hl.
  apply eval_at_constant; try assumption; try lia.
  - apply incr_nondecr. exact Hi.
  - apply Hi. lia.
Qed.

(* C3 *)
Definition fit_constant (k : nat) (c0 : Q) (g : gfit) : Prop :=
  let gb := select (g_bkmask g) (g_bk g) in
  let gc := select (skipn k (g_bkmask g)) (g_coeff g) in
  incr gb /\ (2 * k <= length gb)%nat /\ length gc = (length gb - k)%nat /\ Forall (fun a => a == c0) gc.

Definition fits_constant (c : cin) (c0 : Q) (fits : list (option gfit)) : Prop :=
  forall g, In (Some g) fits -> fit_constant (c_k c) c0 g.

Lemma usable_some ss f0 g : usable ss f0 = Some g -> f0 = Some g.
Proof.
  unfold usable. destruct (length ss <=? 2)%nat; [discriminate|].
  destruct f0 as [g0|]; [|discriminate]. destruct (all_zero_coeff (g_coeff g0)); [discriminate|]. auto.
Qed.

Definition upd_of (k : nat) (il nl : list Q) (ss : list nat) (g : gfit) : list (option (Q * bool)) :=
  map (fun p => if inside_b (lminQ (map (nthQ il) ss)) (lmaxQ (map (nthQ il) ss)) p
                then Some (spline_at k g p) else None) nl.

Lemma step_group_some k il nl s ss f0 g : usable ss f0 = Some g ->
  s_flux (step_group k il nl s (ss, f0)) =
    map (fun t : Q * option (Q * bool) => match snd t with Some v => fst v | None => fst t end)
        (combine (s_flux s) (upd_of k il nl ss g)) /\
  s_mask (step_group k il nl s (ss, f0)) =
    map (fun t : bool * option (Q * bool) => match snd t with Some v => if snd v then true else fst t | None => fst t end)
        (combine (s_mask s) (upd_of k il nl ss g)).
Proof. intros E. unfold step_group. cbv zeta. rewrite E. split; reflexivity. Qed.

Lemma step_group_none k il nl s ss f0 : usable ss f0 = None ->
  s_flux (step_group k il nl s (ss, f0)) = s_flux s /\ s_mask (step_group k il nl s (ss, f0)) = s_mask s.
Proof. intros E. unfold step_group. cbv zeta. rewrite E. split; reflexivity. Qed.

Definition flux_inv (c0 : Q) (nl : list Q) (s : st) : Prop :=
  length (s_flux s) = length nl /\ length (s_mask s) = length nl /\
  forall q, nth q (s_mask s) false = true -> nthQ (s_flux s) q == c0.

Lemma step_group_inv k il nl c0 s grp : (1 <= k)%nat ->
  (forall g, snd grp = Some g -> fit_constant k c0 g) ->
  flux_inv c0 nl s -> flux_inv c0 nl (step_group k il nl s grp).
Proof.
  intros Hk Hfit (Hf & Hm & Hinv).
  destruct (step_group_lengths k il nl s grp Hf Hm) as [Hf' Hm'].
  split; [exact Hf'|]. split; [exact Hm'|].
  destruct grp as [ss f0]. cbn [snd] in Hfit.
  destruct (usable ss f0) as [g|] eqn:E.
  - destruct (step_group_some k il nl s ss f0 g E) as [Ef Em]. rewrite Ef, Em.
    pose proof (Hfit g (usable_some ss f0 g E)) as (Hi & Hlen & Hgc & Hc).
    assert (Hu : length (upd_of k il nl ss g) = length nl) by (unfold upd_of; apply map_length).
    intros q Hq.
    destruct (Nat.lt_ge_cases q (length nl)) as [L|L].
    + unfold nthQ. rewrite (nth_map_combine_in _ 0 None 0) by lia.
      rewrite (nth_map_combine_in _ false None false) in Hq by lia.
      cbn [fst snd] in *.
      unfold upd_of in *. rewrite (nth_map_lt _ 0 None) in * by exact L.
      destruct (inside_b _ _ _).
      * unfold spline_at. cbn [fst]. apply Nat.leb_le in Hlen. rewrite Hlen. apply Nat.leb_le in Hlen. apply eval1_constant; assumption.
      * apply Hinv. exact Hq.
    + rewrite nth_map_combine_out in Hq by lia. discriminate.
  - destruct (step_group_none k il nl s ss f0 E) as [Ef Em]. rewrite Ef, Em. exact Hinv.
Qed.

Lemma fold_step_inv k il nl c0 gs : (1 <= k)%nat ->
  (forall grp, In grp gs -> forall g, snd grp = Some g -> fit_constant k c0 g) ->
  forall s, flux_inv c0 nl s -> flux_inv c0 nl (fold_left (step_group k il nl) gs s).
Proof.
  intros Hk. induction gs as [|grp gs IH]; intros Hfit s Hs; cbn [fold_left]; [exact Hs|].
  apply IH.
  - intros grp' Hin. apply Hfit. right. exact Hin.
  - apply step_group_inv; [exact Hk | apply Hfit; left; reflexivity | exact Hs].
Qed.

Theorem constant_stays_constant c c0 fits :
  fits_constant c c0 fits -> (1 <= c_k c)%nat ->
  forall q, nth q (s_mask (fst (stages c fits))) false = true ->
            nthQ (s_flux (fst (stages c fits))) q == c0.
Proof.
  intros Hfit Hk. rewrite stages_fst.
  apply (fold_step_inv (c_k c) (c_inloglam c) (c_newloglam c) c0 (stage_groups c fits) Hk).
  - intros [ss f0] Hin g Hg. cbn [snd] in Hg. subst f0. apply Hfit.
    unfold stage_groups in Hin. apply in_combine_r in Hin. exact Hin.
  - unfold flux_inv, stage_s0. cbn [s_flux s_mask]. rewrite !map_length.
    split; [reflexivity|]. split; [reflexivity|].
    intros q Hq. rewrite nth_const_map in Hq. discriminate.
Qed.

(* C4 *)
Lemma ivar_of_exposure_masked il w comb these nl mask q :
  nth q mask false = false -> nthQ (ivar_of_exposure il w comb these nl mask) q == 0.
Proof.
  intros Hm. unfold ivar_of_exposure. cbv zeta. unfold nthQ.
  destruct (Nat.lt_ge_cases q (length nl)) as [H1|H1]; [destruct (Nat.lt_ge_cases q (length mask)) as [H2|H2]|].
  - rewrite (nth_map_combine_in _ 0 false 0) by assumption. cbv beta iota. rewrite Hm.
    destruct (_ && _); [cbn [b2q]; ring | reflexivity].
  - rewrite nth_map_combine_out by lia. reflexivity.
  - rewrite nth_map_combine_out by lia. reflexivity.
Qed.

Lemma vsum_zero_at a b q : nthQ a q == 0 -> nthQ b q == 0 -> nthQ (vsum a b) q == 0.
Proof.
  unfold vsum, nthQ. intros Ha Hb.
  destruct (Nat.lt_ge_cases q (length a)) as [H1|H1]; [destruct (Nat.lt_ge_cases q (length b)) as [H2|H2]|].
  - rewrite (nth_map_combine_in _ 0 0 0) by assumption. cbn [fst snd]. rewrite Qred_correct, Ha, Hb. ring.
  - rewrite nth_map_combine_out by lia. reflexivity.
  - rewrite nth_map_combine_out by lia. reflexivity.
Qed.

Lemma fold_vsum_zero_at {J} (t : J -> list Q) q js : forall acc,
  nthQ acc q == 0 -> (forall j, nthQ (t j) q == 0) ->
  nthQ (fold_left (fun a j => vsum a (t j)) js acc) q == 0.
Proof.
  induction js as [|j js IH]; intros acc Ha Ht; cbn [fold_left]; [exact Ha|].
  apply IH; [|exact Ht]. apply vsum_zero_at; [exact Ha | apply Ht].
Qed.

Theorem newivar_nonzero_needs_mask c fits q :
  ~ nthQ (snd (stages c fits)) q == 0 -> nth q (s_mask (fst (stages c fits))) false = true.
Proof.
  intros Hnz. destruct (nth q (s_mask (fst (stages c fits))) false) eqn:E; [reflexivity|].
  exfalso. apply Hnz. rewrite stages_snd. apply fold_vsum_zero_at.
  - unfold nthQ. rewrite nth_const_map. reflexivity.
  - intro j. unfold exposure_term. apply ivar_of_exposure_masked. exact E.
Qed.

Lemma set_nth_cases {A} (v d : A) : forall l i j,
  nth j (set_nth i v l) d = v \/ nth j (set_nth i v l) d = nth j l d.
Proof. induction l as [|a l IH]; intros [|i] [|j]; cbn [set_nth nth]; auto. Qed.

Lemma set_many_zero_cases {I} (z : I -> Q) (Hz : forall i, z i = 0) : forall (idx : list nat) (vi : list I) (l : list Q) q,
  nthQ (set_many idx (map z vi) l) q = 0 \/
  nthQ (set_many idx (map z vi) l) q = nthQ l q.
Proof.
  induction idx as [|i idx IH]; intros vi l q; cbn [set_many]; [right; reflexivity|].
  destruct vi as [|v vi]; cbn [map]; [right; reflexivity|].
  destruct (IH vi (set_nth i (z v) l) q) as [H|H]; [left; exact H|].
  rewrite H. unfold nthQ. rewrite Hz. apply set_nth_cases.
Qed.

Lemma grow_cases v q : nthQ (grow v) q = 0 \/ nthQ (grow v) q = nthQ v q.
Proof.
  unfold grow. cbv zeta.
  match goal with
  | |- context [set_many ?u (map ?z ?u) (set_many ?lo (map ?z' ?lo) v)] =>
      destruct (set_many_zero_cases z (fun _ => eq_refl) u u (set_many lo (map z' lo) v) q) as [H|H];
      [left; exact H|]; rewrite H;
      apply (set_many_zero_cases z' (fun _ => eq_refl))
  end.
Qed.

(* DEVIATION (inherited from aesthetics_support): for method Mean a pixel with negative output inverse variance
   is overwritten by the mean, so for Mean the pixel's inverse variance is required to be >= 0.
   Original: fits_constant c0 fits -> (1 <= c_k c)%nat -> good_index c <> [] ->
             forall q, ~ nthQ (snd (combine1fiber_model c fits)) q == 0 -> nthQ (fst (combine1fiber_model c fits)) q == c0 *)
Theorem constant_spectrum_stays_constant c c0 fits :
  fits_constant c c0 fits -> (1 <= c_k c)%nat -> good_index c <> [] ->
  forall q, ~ nthQ (snd (combine1fiber_model c fits)) q == 0 ->
            (c_method c = Mean -> 0 <= nthQ (snd (combine1fiber_model c fits)) q) ->
            nthQ (fst (combine1fiber_model c fits)) q == c0.
Proof.
  intros Hfit Hk Hgood q. unfold combine1fiber_model.
  rewrite combine1fiber_full_eq by exact Hgood. cbn [fst snd]. intros Hnz HM.
  destruct (stages_lengths c fits) as (Hf & Hm & Hi).
  rewrite aesthetics_support; [ | rewrite grow_length, Hi, Hf; reflexivity | exact Hnz | exact HM].
  apply constant_stays_constant; [exact Hfit | exact Hk |].
  apply newivar_nonzero_needs_mask.
  destruct (grow_cases (snd (stages c fits)) q) as [H|H]; rewrite H in Hnz; [|exact Hnz].
  exfalso. apply Hnz. reflexivity.
Qed.

Corollary constant_spectrum_stays_constant_pos c c0 fits :
  fits_constant c c0 fits -> (1 <= c_k c)%nat -> good_index c <> [] ->
  forall q, 0 < nthQ (snd (combine1fiber_model c fits)) q -> nthQ (fst (combine1fiber_model c fits)) q == c0.
Proof.
  intros Hfit Hk Hgood q Hq. apply constant_spectrum_stays_constant; try assumption.
  - intro E. rewrite E in Hq. apply (Qlt_irrefl 0). exact Hq.
  - intros _. apply Qlt_le_weak. exact Hq.
Qed.

(* ================================================================== PART B (second half) -- aesthetics_constant *)
Lemma Forall_of_nthQ (c : Q) l : (forall q, (q < length l)%nat -> nthQ l q == c) -> Forall (fun a => a == c) l.
Proof.
  intros H. apply Forall_nth. intros i d Hi. rewrite (nth_indep l d 0) by exact Hi. apply H. exact Hi.
Qed.

Lemma existsb_id_false : forall l, existsb (fun b : bool => b) l = false -> forall q, nth q l false = false.
Proof.
  induction l as [|b l IH]; intros H [|q]; cbn [existsb nth] in *; try reflexivity.
  - destruct b; [discriminate|reflexivity].
  - apply IH. destruct b; [discriminate|exact H].
Qed.

Lemma forallb_negb_true : forall l, forallb negb l = true -> forall q, nth q l false = false.
Proof.
  induction l as [|b l IH]; intros H [|q]; cbn [forallb nth] in *; try reflexivity.
  - destruct b; [discriminate|reflexivity].
  - apply IH. destruct b; [discriminate|exact H].
Qed.

Lemma interp_from_const c : forall rest x0 y0 x, y0 == c -> Forall (fun g : Q * Q => snd g == c) rest ->
  interp_from x0 y0 rest x == c.
Proof.
  induction rest as [|[x1 y1] rest IH]; intros x0 y0 x H0 Hr; cbn [interp_from]; [exact H0|].
  inversion Hr as [|g r H1 Hr']; subst. cbn [snd] in H1.
  destruct (Qltb x x1).
  - rewrite H0, H1. ring.
  - apply IH; assumption.
Qed.

Lemma interp_const c pts x : pts <> [] -> Forall (fun g : Q * Q => snd g == c) pts -> interp pts x == c.
Proof.
  intros Hne H. destruct pts as [|[x0 y0] rest]; [contradiction|]. cbn [interp].
  inversion H as [|g r H0 Hr]; subst. cbn [snd] in H0.
  destruct (Qle_bool x x0); [exact H0|]. apply interp_from_const; assumption.
Qed.

Lemma good_table_Forall c : forall ys bad i,
  (forall q, (q < length ys)%nat -> (q < length bad)%nat -> nth q bad false = false -> nthQ ys q == c) ->
  Forall (fun g : Q * Q => snd g == c) (good_table i ys bad).
Proof.
  induction ys as [|y ys IH]; intros [|b bad] i H; cbn [good_table]; try constructor.
  assert (H' : forall q, (q < length ys)%nat -> (q < length bad)%nat -> nth q bad false = false -> nthQ ys q == c).
  { intros q Hy Hb Hq. apply (H (S q)); cbn [length nth]; try lia. exact Hq. }
  destruct b; [apply IH; exact H'|]. constructor; [|apply IH; exact H'].
  cbn [snd]. apply (H 0%nat); cbn [length nth]; try lia; reflexivity.
Qed.

Lemma maskinterp_constant ys bad c : length bad = length ys ->
  (forall q, (q < length ys)%nat -> nth q bad false = false -> nthQ ys q == c) ->
  (exists q, (q < length ys)%nat /\ nth q bad false = false) ->
  Forall (fun a => a == c) (maskinterp_idx ys bad).
Proof.
  intros Hlen Hgood [q0 [Hq0 Hb0]]. unfold maskinterp_idx.
  destruct (forallb negb bad) eqn:Eall.
  - apply Forall_of_nthQ. intros q Hq. apply Hgood; [exact Hq|]. apply forallb_negb_true. exact Eall.
  - pose proof (good_table_In ys bad 0 q0 Hq0 ltac:(lia) Hb0) as HIn.
    assert (HF : Forall (fun g : Q * Q => snd g == c) (good_table 0 ys bad)).
    { apply good_table_Forall. intros q Hy _ Hq. apply Hgood; assumption. }
    destruct (good_table 0 ys bad) as [|g [|g' t]] eqn:E; [destruct HIn | |].
    + inversion HF as [|g0 r Hg _]; subst.
      apply Forall_of_nthQ. rewrite map_length. intros q Hq. unfold nthQ.
      rewrite (nth_map_lt _ 0 0) by exact Hq. exact Hg.
    + apply Forall_of_nthQ. rewrite map_length, !combine_length, seq_length.
      intros q Hq. unfold nthQ.
      rewrite (nth_map_combine_in _ 0%nat (0, false) 0)
        by (rewrite ?seq_length, ?combine_length; lia).
      rewrite nth_combine_lt by lia. cbn [fst snd].
      destruct (nth q bad false) eqn:Eb.
      * rewrite Qred_correct. apply interp_const; [discriminate | exact HF].
      * apply Hgood; [lia | exact Eb].
Qed.

Lemma select_Forall {A} (P : A -> Prop) (d : A) : forall m l,
  (forall q, (q < length m)%nat -> (q < length l)%nat -> nth q m false = true -> P (nth q l d)) ->
  Forall P (select m l).
Proof.
  induction m as [|b m IH]; intros [|a l] H; cbn [select]; try constructor.
  assert (H' : forall q, (q < length m)%nat -> (q < length l)%nat -> nth q m false = true -> P (nth q l d)).
  { intros q Hm Hl Hq. apply (H (S q)); cbn [length nth]; try lia. exact Hq. }
  destruct b; [constructor|]; try (apply IH; exact H').
  apply (H 0%nat); cbn [length nth]; try lia; reflexivity.
Qed.

Lemma select_nonempty {A} : forall m (l : list A) q, (q < length m)%nat -> (q < length l)%nat ->
  nth q m false = true -> (0 < length (select m l))%nat.
Proof.
  induction m as [|b m IH]; intros [|a l] [|q] Hm Hl Hq; cbn [length nth select] in *; try lia.
  - subst b. cbn [length]. lia.
  - destruct b; cbn [length]; [lia|]. apply (IH l q); try lia. exact Hq.
Qed.

Lemma qnat_S n : qnat (S n) == qnat n + 1.
Proof. unfold qnat. apply injZ_S. Qed.

Lemma fold_red_const c : forall l a, Forall (fun v => v == c) l ->
  fold_left (fun acc v => Qred (acc + v)) l a == a + c * qnat (length l).
Proof.
  induction l as [|v l IH]; intros a H; cbn [fold_left length].
  - unfold qnat. cbn. ring.
  - inversion H as [|v' l' Hv Hl]; subst. rewrite IH by exact Hl.
    rewrite Qred_correct, qnat_S, Hv. ring.
Qed.

(* every flux entry of a pixel with non-zero inverse variance is == c  ==>  every output entry is == c
   (Traditional, Noconst, Mean).  The hypothesis "all iv entries >= 0" of the request is not needed. *)
Theorem aesthetics_constant m flux iv c : length iv = length flux -> m <> Nothing ->
  (forall q, (q < length flux)%nat -> ~ nthQ iv q == 0 -> nthQ flux q == c) ->
  (exists q, 0 < nthQ iv q) ->
  Forall (fun a => a == c) (aesthetics_model m flux iv).
Proof.
  intros Hlen Hm Hgood [q0 Hq0].
  assert (Hnz0 : ~ nthQ iv q0 == 0).
  { intro E. rewrite E in Hq0. apply (Qlt_irrefl 0). exact Hq0. }
  pose proof (nthQ_overflow_zero iv q0 Hnz0) as Hl0.
  assert (Hbadnth : forall q, (q < length iv)%nat ->
            nth q (map (fun v => Qeq_bool v 0) iv) false = false -> ~ nthQ iv q == 0).
  { intros q Hq Hb E. rewrite (nth_map_lt _ 0 false) in Hb by exact Hq.
    apply Qeq_bool_iff in E. unfold nthQ in E. congruence. }
  unfold aesthetics_model. destruct (forallb _ _) eqn:Eall.
  { exfalso. rewrite forallb_forall in Eall.
    specialize (Eall (Qeq_bool (nth q0 iv 0) 0)).
    assert (Hin : In (Qeq_bool (nth q0 iv 0) 0) (map (fun v => Qeq_bool v 0) iv)).
    { apply (in_map (fun v => Qeq_bool v 0)). apply nth_In. exact Hl0. }
    specialize (Eall Hin). apply Hnz0. unfold nthQ. apply Qeq_bool_iff. exact Eall. }
  unfold aesthetics_core. cbv zeta. destruct (existsb _ _) eqn:Eex.
  - assert (HT : Forall (fun a => a == c) (maskinterp_idx flux (map (fun v => Qeq_bool v 0) iv))).
    { apply maskinterp_constant.
      - rewrite map_length. exact Hlen.
      - intros q Hq Hb. apply Hgood; [exact Hq|]. apply Hbadnth; [lia | exact Hb].
      - exists q0. split; [lia|]. rewrite (nth_map_lt _ 0 false) by exact Hl0.
        apply Qeq_bool_false_of_neq. exact Hnz0. }
    destruct m; [exact HT | exact HT | | contradiction].
    set (gs := select (map (fun v => Qltb 0 v) iv) flux).
    assert (Hgs : Forall (fun a => a == c) gs).
    { apply (select_Forall _ 0). rewrite map_length. intros q Hq Hf Hb.
      rewrite (nth_map_lt _ 0 false) in Hb by exact Hq. apply Qltb_lt in Hb.
      apply Hgood; [exact Hf|]. unfold nthQ. intro E. rewrite E in Hb. apply (Qlt_irrefl 0). exact Hb. }
    assert (Hne : (0 < length gs)%nat).
    { apply (select_nonempty _ _ q0); [rewrite map_length; exact Hl0 | lia |].
      rewrite (nth_map_lt _ 0 false) by exact Hl0. apply Qltb_lt. exact Hq0. }
    assert (Hmu : Qred (qsum_red gs / qnat (length gs)) == c).
    { rewrite Qred_correct. unfold qsum_red. rewrite (fold_red_const c) by exact Hgs.
      pose proof (injZ_pos (length gs) Hne) as Hpos. fold (qnat (length gs)) in Hpos.
      field. intro E. rewrite E in Hpos. apply (Qlt_irrefl 0). exact Hpos. }
    apply Forall_of_nthQ. rewrite map_length, combine_length. intros q Hq. unfold nthQ.
    rewrite (nth_map_combine_in _ 0 0 0) by lia. cbn [fst snd].
    destruct (Qltb 0 (nth q iv 0)) eqn:Ep; [|exact Hmu].
    apply Qltb_lt in Ep. apply Hgood; [lia|]. unfold nthQ. intro E. rewrite E in Ep.
    apply (Qlt_irrefl 0). exact Ep.
  - apply Forall_of_nthQ. intros q Hq. apply Hgood; [exact Hq|].
    apply Hbadnth; [lia|]. apply existsb_id_false. exact Eex.
Qed.

Print Assumptions lengths.
Print Assumptions aesthetics_support.
Print Assumptions aesthetics_constant.
Print Assumptions eval1_constant.
Print Assumptions constant_spectrum_stays_constant.
