(* Bridge between the hand-written reference models (BSpline/Eval.v, Fit.v, Iter.v) and the definitions that
   translate/c08.py regenerates from pydl/pydlutils/bspline.py on every run (Generated/BSpline.v):
   every lemma says "the reference model is built from exactly this generated piece".  A source edit that changes a
   piece (`>` -> `>=` in intrv, nord vs nord-1 padding, a dropped +1 in ict, `<=` -> `<` in maskpoints, a changed loop
   condition ...) changes the generated definition and the lemma no longer checks. *)
From Coq Require Import QArith Qround ZArith List Bool Arith Lia String Lqa.
Import ListNotations.
From PV Require Import Lib.WLS BSpline.Eval BSpline.Fit BSpline.Iter Generated.BSpline.
Open Scope Q_scope.

(* ------------------------------------------------------------------ bspline.__init__ *)
Lemma gen_raw_bkspace s xs :
  raw_bkpt (OBkspace s) xs =
  equispaced (bs_nbkpts_of_bkspace (lmaxQ xs - lminQ xs) s) (lminQ xs) (lmaxQ xs - lminQ xs).
Proof. reflexivity. Qed.

Lemma gen_equispaced nb startx rangex :
  equispaced nb startx rangex =
  map (fun i => Qred (bs_equi_point i (bs_nbkpts_clamp nb) startx rangex)) (seq 0 (bs_nbkpts_clamp nb)).
Proof. reflexivity. Qed.

Lemma gen_raw_everyn e xs :
  raw_bkpt (OEveryn e) xs =
  let nx := List.length xs in
  let nb := bs_everyn_nb nx e in
  if bs_everyn_single nb then [nthQ xs 0] else map (fun i => nthQ xs (bs_everyn_pos nx nb i)) (seq 0 nb).
Proof. reflexivity. Qed.

Lemma gen_raw_placed p xs :
  raw_bkpt (OPlaced p) xs =
  let startx := lminQ xs in
  let rangex := lmaxQ xs - startx in
  let w := filter (bs_placed_keep startx rangex) p in
  if bs_placed_too_few (List.length w) then [Qred startx; Qred (rangex + startx)] else w.
Proof. reflexivity. Qed.

(* the two coverage repairs are independent `if`s, each with its own comparison *)
Lemma gen_cover b xmin xmax :
  bs_cover_independent = true /\
  cover b xmin xmax =
  match b with
  | [] => []
  | a :: r =>
      let imin := argminQ r 1 0 a in
      let imax := argmaxQ r 1 0 a in
      let b1 := if bs_cover_lo xmin (nthQ b imin) then set_nth imin xmin b else b in
      if bs_cover_hi xmax (nthQ b1 imax) then set_nth imax xmax b1 else b1
  end.
Proof. split; reflexivity. Qed.

(* padding: one extra knot each side for every i in arange(1, nord), i.e. nord-1 of them *)
Lemma gen_pad b k s :
  pad b k s =
  let sp := if bs_pad_single (List.length b) then s else bs_pad_spacing (nthQ b 0) (nthQ b 1) s in
  let idx := seq bs_pad_first (bs_pad_stop k - bs_pad_first) in
  map (fun i => Qred (bs_pad_lo (nthQ b 0) sp (inject_Z (Z.of_nat i)))) (rev idx)
  ++ b ++
  map (fun i => Qred (bs_pad_hi (nthQ b (List.length b - 1)) sp (inject_Z (Z.of_nat i)))) idx.
Proof. destruct b as [|a [|c r]]; reflexivity. Qed.

Lemma gen_pad_count k : List.length (seq bs_pad_first (bs_pad_stop k - bs_pad_first)) = (k - 1)%nat.
Proof. rewrite seq_length. reflexivity. Qed.

(* ------------------------------------------------------------------ intrv *)
Lemma gen_intrv gb k xs :
  intrv gb k xs = intrv_walk gb (bs_intrv_n (List.length gb) k) xs (bs_intrv_start k).
Proof. reflexivity. Qed.

Lemma gen_advance f gb n x i :
  advance (S f) gb n x i =
  if bs_intrv_advance x (nthQ gb (bs_intrv_next i)) i n then advance f gb n x (bs_intrv_next i) else i.
Proof.
  unfold bs_intrv_advance, bs_intrv_next. cbn [advance].
  replace (i + 1)%nat with (S i) by lia.
  replace (i <? n - 1)%nat with (S i <? n)%nat; [reflexivity|].
  destruct (S i <? n)%nat eqn:E; symmetry.
  - apply Nat.ltb_lt in E. apply Nat.ltb_lt. lia.
  - apply Nat.ltb_ge in E. apply Nat.ltb_ge. lia.
Qed.

(* ------------------------------------------------------------------ bsplvn *)
Lemma gen_bsplvn_steps j k : bs_bsplvn_continue j k = true <-> (j < k - 1)%nat.
Proof. unfold bs_bsplvn_continue. apply Nat.ltb_lt. Qed.

Lemma gen_bsplvn_loop s j gb x l v dp dmr :
  bsplvn_loop (S s) j gb x l v dp dmr =
  let dp' := dp ++ [bs_deltap (nthQ gb (bs_ipj l j)) x] in
  let dmr' := bs_deltam (nthQ gb (bs_imj l j)) x :: dmr in
  bsplvn_loop s (S j) gb x l (pass v dp' dmr' 0) dp' dmr'.
Proof. reflexivity. Qed.

Lemma gen_pass_step a v p dp m dmr prev :
  pass (a :: v) (p :: dp) (m :: dmr) prev =
  Qred (bs_vnew (Qred (bs_vm a p m)) p prev) :: pass v dp dmr (Qred (bs_vmprev (Qred (bs_vm a p m)) m)).
Proof. reflexivity. Qed.

(* position l of the inner loop pairs deltap[l] with deltam[j-l] (the model keeps deltam reversed), over j+1 entries *)
Lemma gen_bsplvn_indices j l : bs_dm_index j l = (j - l)%nat /\ bs_inner_count j = S j.
Proof. unfold bs_dm_index, bs_inner_count. split; lia. Qed.

(* ------------------------------------------------------------------ action / value *)
Lemma gen_action_slot s k : (1 <= k)%nat ->
  bs_action_slot (Z.of_nat (s + (k - 1))) (Z.of_nat k) = Z.of_nat s.
Proof. unfold bs_action_slot. lia. Qed.

Lemma gen_action_defaults n k :
  bs_action_upper_default = (-1)%Z /\ bs_action_nseg n k = (n - k + 1)%nat /\
  (forall nbkpt, bs_action_too_few nbkpt k = (nbkpt <? 2 * k)%nat).
Proof. repeat split. Qed.

Lemma gen_action_lower_pos nx bb : (bb < nx)%nat ->
  bs_action_lower_pos (Z.of_nat nx) (Z.of_nat bb) = Z.of_nat (nx - 1 - bb).
Proof. unfold bs_action_lower_pos. lia. Qed.

(* a segment holds points iff lower <= upper; the empty default (0, -1) does not *)
Lemma gen_value_ict lo hi :
  bs_value_ict_nonempty (bs_value_ict hi lo) = (lo <=? hi)%Z /\ bs_value_slice_stop hi = (hi + 1)%Z.
Proof.
  unfold bs_value_ict_nonempty, bs_value_ict, bs_value_slice_stop. split; [|reflexivity].
  destruct (lo <=? hi)%Z eqn:E; [apply Z.leb_le in E; apply Z.ltb_lt; lia | apply Z.leb_gt in E; apply Z.ltb_ge; lia].
Qed.

Lemma gen_fit_ict lo hi : bs_fit_ict_nonempty (bs_fit_ict hi lo) = (lo <=? hi)%Z.
Proof.
  unfold bs_fit_ict_nonempty, bs_fit_ict.
  destruct (lo <=? hi)%Z eqn:E; [apply Z.leb_le in E; apply Z.ltb_lt; lia | apply Z.leb_gt in E; apply Z.ltb_ge; lia].
Qed.

Lemma gen_in_range gb k x :
  in_range_mask gb k x =
  negb (bs_value_outside x (nthQ gb (bs_value_lo_index k)) (nthQ gb (bs_value_hi_index (bs_value_n (List.length gb) k)))).
Proof. reflexivity. Qed.

Lemma gen_value_unsort : bs_value_unsort_is_scatter = true.
Proof. reflexivity. Qed.

(* ------------------------------------------------------------------ fit *)
Lemma gen_fit_too_few nn k : bs_fit_too_few nn k = (nn <? k)%nat.
Proof. reflexivity. Qed.

(* block k of bi/bo has bw-k entries; entry i reads work[k][k+i] and adds it to alpha[i][itop+k]
   (flat row-major indices of a bw x bw array resp. of alpha.T) -- the scatter of band_add_point with a = k+i, b = k *)
Lemma gen_fit_bibo bw k i :
  bs_fit_block_len bw k = (bw - k)%nat /\
  bs_fit_bi bw k i = (bw * k + (k + i))%nat /\ bs_fit_bo bw k i = (bw * k + i)%nat.
Proof. unfold bs_fit_block_len, bs_fit_bi, bs_fit_bo. repeat split; lia. Qed.

Lemma gen_fit_beta_slice itop nfull bw : (itop <= nfull)%nat -> (1 <= bw)%nat ->
  bs_fit_beta_start itop = itop /\
  (bs_fit_beta_stop (bs_fit_ibottom itop nfull bw) - bs_fit_beta_start itop = bw)%nat /\
  bs_fit_alpha_offset itop bw = (itop * bw)%nat.
Proof. unfold bs_fit_beta_start, bs_fit_beta_stop, bs_fit_ibottom, bs_fit_alpha_offset. repeat split; lia. Qed.

Lemma gen_fit_loops nn k npoly kk : bs_fit_nloop nn k = (nn - k + 1)%nat /\ bs_fit_itop kk npoly = (kk * npoly)%nat.
Proof. split; reflexivity. Qed.

Lemma gen_fit_mininf sumw nfull : bs_fit_mininf sumw nfull == (1 # 10000000000) * sumw / nfull.
Proof. reflexivity. Qed.

(* ------------------------------------------------------------------ maskpoints *)
Lemma gen_maskpoints_head nbkpt k err :
  maskpoints_model nbkpt k err =
  if bs_mp_give_up nbkpt k then ((-2)%Z, [])
  else
    let n := bs_mp_n nbkpt k in
    if existsb (fun h => bs_mp_beyond h n) err then ((-2)%Z, [])
    else
      let lo := ((k + 1) / 2)%nat in
      let hi := (k / 2)%nat in
      let test := flat_map (fun h => map (fun s => Nat.min ((h + s - lo) + k) (n - 1)) (seq 0 (lo + hi))) err in
      match nodup_nat test with
      | [] => ((-2)%Z, [])
      | t => ((-1)%Z, t)
      end.
Proof. reflexivity. Qed.

Lemma gen_maskpoints_jj k :
  (bs_mp_jj_start (Z.of_nat k) = - Z.of_nat ((k + 1) / 2))%Z /\
  (bs_mp_jj_stop (Z.of_nat k) = Z.of_nat (k / 2))%Z.
Proof.
  unfold bs_mp_jj_start, bs_mp_jj_stop. split.
  - rewrite Nat2Z.inj_div. f_equal. f_equal. lia.
  - rewrite Nat2Z.inj_div. reflexivity.
Qed.

(* the masked position for bad coefficient h and offset jj = s - lo *)
Lemma gen_maskpoints_clamp h s lo k n : (1 <= n)%nat ->
  Z.of_nat (Nat.min ((h + s - lo) + k) (n - 1)) =
  bs_mp_inside (bs_mp_foo (Z.of_nat h) (Z.of_nat s - Z.of_nat lo)) (Z.of_nat k) (Z.of_nat n).
Proof.
  intro Hn. unfold bs_mp_inside, bs_mp_foo.
  destruct (0 <? Z.of_nat h + (Z.of_nat s - Z.of_nat lo))%Z eqn:E1.
  - apply Z.ltb_lt in E1.
    destruct (Z.of_nat h + (Z.of_nat s - Z.of_nat lo) + Z.of_nat k <? Z.of_nat n - 1)%Z eqn:E2;
      [apply Z.ltb_lt in E2 | apply Z.ltb_ge in E2]; lia.
  - apply Z.ltb_ge in E1.
    destruct (0 + Z.of_nat k <? Z.of_nat n - 1)%Z eqn:E2;
      [apply Z.ltb_lt in E2 | apply Z.ltb_ge in E2]; lia.
Qed.

(* ------------------------------------------------------------------ cholesky_band *)
Lemma gen_cholesky_screen bmask k diag mininf :
  bs_chol_finite_whole_matrix = true /\
  (forall d, bs_chol_negative d mininf = Qle_bool d mininf) /\
  fit_status_model bmask k diag mininf =
  let nn := List.length (filter (fun b => b) (skipn k bmask)) in
  if bs_fit_too_few nn k then ((-2)%Z, bmask)
  else
    let bad := filter (fun j => bs_chol_negative (nthQ diag j) mininf) (seq 0 (List.length diag)) in
    match bad with
    | [] => (0%Z, bmask)
    | _ =>
        let good := good_positions bmask 0 in
        let '(st, targets) := maskpoints_model (List.length good) k bad in
        (st, mask_positions good targets bmask)
    end.
Proof. repeat split. Qed.

(* ------------------------------------------------------------------ iterfit *)
Lemma gen_iter_initial_mask ds : initial_mask ds = map (fun d => bs_iter_good (dw d)) ds.
Proof. reflexivity. Qed.

(* with no fit error the loop continues exactly while the mask changed and iiter <= maxiter; iiter starts at 0 and is
   incremented once per pass: at most maxiter + 1 passes, the fuel of iter_loop *)
Lemma gen_iter_continue iiter maxiter :
  bs_iter_init_iiter = 0%nat /\ bs_iter_init_error = 0%Z /\ bs_iter_init_qdone = false /\
  bs_iter_continue 0 false iiter maxiter = (iiter <=? maxiter)%nat /\
  bs_iter_continue 0 true iiter maxiter = false /\
  (forall e q, bs_iter_continue e q iiter maxiter = true -> (iiter <= maxiter)%nat).
Proof.
  repeat split; try reflexivity.
  intros e q H. unfold bs_iter_continue in H. apply andb_true_iff in H. destruct H as [_ H]. apply Nat.leb_le. exact H.
Qed.

Lemma gen_iter_fit_weight w m : bs_iter_fit_weight w m == (if m then w else 0).
Proof. unfold bs_iter_fit_weight. destruct m; ring. Qed.

(* outmask[xsort] = maskwork appears three times: before each of the two early returns and at the end *)
Lemma gen_iter_unsort :
  bs_iter_unsort_assignments = 3%nat /\ bs_iter_returns = 3%nat /\ bs_iter_returns_unsorted_first = 2%nat.
Proof. repeat split. Qed.

(* djs_reject(ywork, yfit, inmask=inmask (= the mask of the previous pass), outmask=maskwork, invvar=invwork,
   lower=lower, upper=upper, groupbadpix=...): data, model, the working mask twice, the ORIGINAL inverse variance *)
Definition expected_reject_args : list string :=
  ["ywork"; "yfit"; "inmask=inmask"; "outmask=maskwork"; "invvar=invwork"; "lower=lower"; "upper=upper";
   "groupbadpix=groupbadpix"]%string.
Lemma gen_iter_reject_args : bs_iter_reject_args = expected_reject_args.
Proof. reflexivity. Qed.

(* ------------------------------------------------------------------ round 5: guards of iterfit, gap logic of value, uniq *)
(* the early return "too few good points" fires for FEWER than nord good points -- not for exactly nord -- and sits in a branch
   that only warns, un-sorts the mask and returns; the spline set is built from the good points in sorted order *)
Definition expected_knots_from : string := "xdata[xsort[maskwork]]"%string.
Lemma gen_iter_too_few sv maxiter lower upper gb k ds perm :
  (forall n, bs_iter_too_few n k = (n <? k)%nat) /\
  bs_iter_knots_from = expected_knots_from /\
  iterfit_guarded_with sv maxiter lower upper gb k ds perm =
  let sorted := apply_perm d0 perm ds in
  let m0 := map (fun d => bs_iter_good (dw d)) sorted in
  if bs_iter_too_few (ngood m0) k then GaveUp (unsort false perm m0)
  else match iter_loop sv (S maxiter) gb k lower upper sorted m0 with
       | None => NoModel
       | Some (c, mw) => Fitted c (unsort false perm mw)
       end.
Proof. repeat split. Qed.

(* the other guards: a fit status of -2 ends iterfit, rejection runs exactly after a successful fit (status 0; after -1 the
   loop simply refits with the reduced breakpoint set), and the loop gives up (coeff = 0) with at most ONE good point left *)
Lemma gen_iter_status e n anybk :
  bs_iter_abort e = (e =? -2)%Z /\ bs_iter_reject_when e = (e =? 0)%Z /\
  bs_iter_give_up n anybk = ((n <=? 1)%nat || negb anybk).
Proof. repeat split. Qed.

(* value(): consecutive good breakpoint positions a, b more than 2 apart mask the closed interval [bk[a], bk[b-1]] *)
Lemma gen_value_gaps bk a b r :
  gaps bk (a :: b :: r) =
  if bs_value_gap_test a b then (nthQ bk a, nthQ bk (bs_value_gap_hi_index b)) :: gaps bk (b :: r) else gaps bk (b :: r).
Proof. reflexivity. Qed.

Lemma gen_value_gap_inside bk bmask k x :
  point_mask bk bmask k x =
  in_range_mask (select bmask bk) k x &&
  forallb (fun g => negb (bs_value_gap_inside x (fst g) (snd g))) (gaps bk (good_positions bmask 0)).
Proof. reflexivity. Qed.

(* uniq(), as action() uses it, tells neighbours apart with exact inequality of the (integer) interval indices and compares each
   item with its SUCCESSOR (roll by -1): position p ends a run iff idx[p] <> idx[p+1]; this is what first_pos/last_pos of
   action_ranges compute (ActionProofs.action_ranges_spec) *)
Lemma gen_uniq_differs a b : bs_uniq_differs (Z.of_nat a) (Z.of_nat b) = negb (a =? b)%nat /\ bs_uniq_shift = (-1)%Z.
Proof.
  split; [|reflexivity]. unfold bs_uniq_differs. f_equal.
  destruct (a =? b)%nat eqn:E; [apply Nat.eqb_eq in E; apply Z.eqb_eq; lia | apply Nat.eqb_neq in E; apply Z.eqb_neq; lia].
Qed.
