#!/usr/bin/env python3
"""Print a markdown table of the seeded breaking changes and what the checks reported for each."""
import json, os, sys
HERE = os.path.dirname(os.path.dirname(os.path.abspath(__file__)))
S = os.path.join(HERE, 'seeded')
rows = []
for d in sorted(os.listdir(S)):
    p = os.path.join(S, d)
    if not os.path.isdir(p) or not os.path.exists(os.path.join(p, 'meta.json')):
        continue
    m = json.load(open(os.path.join(p, 'meta.json')))
    r = json.load(open(os.path.join(p, 'result.json'))) if os.path.exists(os.path.join(p, 'result.json')) else {}
    if not r:
        verdict = 'not run yet'
    elif not r.get('applied', True):
        verdict = 'patch no longer applies'
    elif r.get('detected') and r.get('with_failing_input'):
        verdict = 'VIOLATION with failing input'
    elif r.get('detected'):
        verdict = 'VIOLATION, no-failing-input-found'
    else:
        verdict = '**missed**'
    rows.append('| %s | %s | %s | %s |' % (d, m.get('summary', '').replace('|', '/')[:170], m.get('needs', '').replace('|', '/')[:150], verdict))
print('| id | change | needs | `./check` on the patched tree |\n|---|---|---|---|')
print('\n'.join(rows))
