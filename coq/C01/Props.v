(* C01 -- yanny: tables and header pairs written to a file read back unchanged.
   Property theorems only; each is closed by `exact` and followed by Print Assumptions.
   Models: Yanny/Render.v (writer `render_checked`, specification `sem`, domain `doc_ok`, `str_ok`, `elt_ok`),
   Yanny/Parse.v (reader).  Floats are TEXT in the model (numpy's formatting is an oracle checked by the harness). *)
From Coq Require Import String.
From Coq Require Import NArith ZArith List Bool.
Import ListNotations.
From PV Require Import Yanny.Bytes Yanny.BytesFacts Yanny.Types Yanny.Parse Yanny.Render
  Yanny.TokenFacts Yanny.RowFacts Yanny.TypeFacts Yanny.DocFacts Yanny.RoundTrip C01.Model C01.Proofs.
Open Scope N_scope.

(* a protected string followed by any run of blanks and further text is read back as the string *)
Theorem C01_protect_token_roundtrip : forall s w rest,
  str_ok s = true -> w <> [] -> all_ws w = true -> head_not_ws rest ->
  get_token (protect s ++ w ++ rest) = Some (s, rest).
Proof. exact protect_token_roundtrip. Qed.
Print Assumptions C01_protect_token_roundtrip.

(* ... and at the end of a line *)
Theorem C01_protect_token_roundtrip_eol : forall s, str_ok s = true -> get_token (protect s) = Some (s, []).
Proof. exact protect_token_roundtrip_eol. Qed.
Print Assumptions C01_protect_token_roundtrip_eol.

(* a string array: the brace token is isolated, then split into exactly the elements *)
Theorem C01_array_roundtrip : forall xs w rest,
  forallb elt_ok xs = true -> all_ws w = true -> head_not_ws rest ->
  let data := join [SP] (map protect xs) in
  get_token (render_array (map STok xs) ++ w ++ rest) = Some (data, rest) /\
  split_array (S (length data)) data = Some xs.
Proof. exact array_roundtrip. Qed.
Print Assumptions C01_array_roundtrip.

(* quote parity: trailing_comment leaves every rendered row of a well-formed table intact *)
Theorem C01_row_comment_free : forall es t r,
  forallb enum_ok es = true -> table_ok es t = true -> In r (t_rows t) ->
  trailing_comment (render_row_line (upper (t_name t)) r) = render_row_line (upper (t_name t)) r.
Proof. exact row_comment_free_doc. Qed.
Print Assumptions C01_row_comment_free.

(* integers: decimal text and back, no range loss in the declared width, never quoted *)
Theorem C01_int_cell_roundtrip : forall t z, In t [TShort; TInt; TLong] -> int_range t z = true ->
  parse_Z (show_Z z) = Some z /\ conv_sval (np_of_int t) (SInt z) = Some (SInt z) /\ render_sval (SInt z) = show_Z z.
Proof. exact int_cell_roundtrip. Qed.
Print Assumptions C01_int_cell_roundtrip.

(* the cells of a rendered row come back, given each cell fits the kind of its column *)
Theorem C01_row_cells_roundtrip : forall cols r, row_fits cols r = true ->
  parse_cells cols (join [SP] (map render_cell r)) = Some r.
Proof. exact parse_cells_render. Qed.
Print Assumptions C01_row_cells_roundtrip.

(* a whole data line of a well-formed table: survives strip / trailing_comment / the double-brace rewrite,
   dispatches on the upper-cased table name, and appends exactly its cells to that table *)
Theorem C01_row_roundtrip : forall es t r sy st,
  forallb enum_ok es = true -> table_ok es t = true -> In r (t_rows t) ->
  assoc (upper (t_name t)) sy = Some (tcols_of es (t_cols t)) ->
  process_line sy st (render_row_line (upper (t_name t)) r)
  = Some (mkst (st_pairs st) (assoc_app (upper (t_name t)) r (st_rows st))).
Proof. exact row_roundtrip. Qed.
Print Assumptions C01_row_roundtrip.

(* the declaration the writer emits for a column classifies as the column's kind and array-ness *)
Theorem C01_column_type_roundtrip : forall es c, col_names_ok es -> wkind es c <> None ->
  classify (typ_of es c) = kind_of (c_type c) /\ isarray (typ_of es c) = is_arr c.
Proof. exact typ_of_facts. Qed.
Print Assumptions C01_column_type_roundtrip.

(* unsupported scalar types are refused: no text is produced at all *)
Theorem C01_unsupported_refused : forall d t c code,
  In t (d_tables d) -> In c (t_cols t) -> c_type c = TUnsup code -> lookup code dtmap = None ->
  render_checked d = None.
Proof. exact unsupported_refused. Qed.
Print Assumptions C01_unsupported_refused.

Theorem C01_unsupported_codes :
  forallb (fun code => match lookup code dtmap with None => true | Some _ => false end)
    (map bs ["u1"; "u2"; "u4"; "u8"; "i1"; "b1"; "f2"; "f16"; "c8"; "c16"; "c32"; "O"; "M8[ns]"; "m8[ns]"]%string) = true.
Proof. exact unsupported_codes. Qed.
Print Assumptions C01_unsupported_codes.

(* THE PROPERTY, for every document of the domain doc_ok (any number of tables, zero-row tables, enum
   columns, scalar and array columns, header pairs): the writer produces a file, and reading that file --
   through a text-mode read or a binary file object -- returns exactly the document's meaning sem d:
   pairs in order with their text, the typedef texts, upper-cased table names in order, every column with
   its declared type text / numpy kind / array length, every row in order with every cell.
   Floats are carried as TEXT (numpy formatting and float() are oracles checked on every run by the harness). *)
Theorem C01_file_roundtrip : forall d, doc_ok d = true ->
  exists b p, render_checked d = Some b /\ sem d = Some p /\ parse b = Some p /\ parse_binary b = Some p.
Proof. exact file_roundtrip. Qed.
Print Assumptions C01_file_roundtrip.

(* non-vacuity: a two-table document (one name a prefix of the other, a string with # and blanks, an
   empty string, an array column, a zero-row table) lies in the domain, and the theorem's conclusion computes *)
Definition example_doc : doc :=
  mkdoc [bs "c"%string] [(bs "k"%string, bs "v w"%string)] []
    [mktable (bs "FOO"%string) [mkcol (bs "x"%string) TInt None; mkcol (bs "s"%string) (TChar 5) (Some 2)]
       [[Sc (SInt (-7)%Z); Ar [STok (bs "a #b"%string); STok []]]];
     mktable (bs "foobar"%string) [mkcol (bs "foo"%string) TDouble None] []].
Example C01_example_in_domain : doc_ok example_doc = true.
Proof. vm_compute. reflexivity. Qed.
Example C01_example_roundtrip :
  match render_checked example_doc with Some b => parse b = sem example_doc | None => False end.
Proof. vm_compute. reflexivity. Qed.

(* ---- tie of the hand-written scanners to the literals of the CURRENT source (Generated/YannyLits.v is
   regenerated from yanny.py on every run by translate/c01.py) ---- *)
From PV Require Import Generated.YannyLits C01.Lits.

(* the source uses exactly the regular expressions the scanners of Yanny/Parse.v were written for *)
Theorem C01_source_regexes_are_the_scanners : yanny_regexes = scanner_regexes.
Proof. exact regexes_are_the_scanners. Qed.
Print Assumptions C01_source_regexes_are_the_scanners.

(* ... and the same type-name tables, integer/float classes and quoting condition *)
Theorem C01_source_tables_are_the_scanners :
  yanny_dtmap_write = scanner_dtmap_write /\ yanny_dtmap_read = scanner_dtmap_read /\
  yanny_int_types = scanner_int_types /\ yanny_float_types = scanner_float_types /\
  yanny_protect_condition = scanner_protect_condition.
Proof. exact tables_are_the_scanners. Qed.
Print Assumptions C01_source_tables_are_the_scanners.

Theorem C01_source_type_names_are_keywords :
  map (fun p => bs (snd p)) yanny_dtmap_write = [KW_SHORT; KW_INT; KW_LONG; KW_FLOAT; KW_DOUBLE] /\
  map (fun p => bs (fst p)) yanny_dtmap_read = [KW_SHORT; KW_INT; KW_LONG; KW_FLOAT; KW_DOUBLE] /\
  map bs yanny_int_types = [KW_SHORT; KW_INT; KW_LONG] /\ map bs yanny_float_types = [KW_FLOAT; KW_DOUBLE].
Proof. exact type_names_are_keywords. Qed.
Print Assumptions C01_source_type_names_are_keywords.

(* ---- the float oracle as explicit hypotheses (C01/Floats.v, Section FloatOracle) ----
   show_f = str(np.float32 / np.float64), parse_f = np.float32(float(.)) / float(.).  The two facts the harness validates
   on every run are premises here, so every statement about float VALUES shows what it assumes of numpy. *)
From PV Require Import C01.Floats.

(* oracle hypothesis 1 (the printed text is a bare token) is exactly what puts a float cell inside the domain doc_ok *)
Theorem C01_float_cells_in_domain : forall (F : Type) (show_f : btype -> F -> bytes),
  (forall t x, bare_ok (show_f t x) = true) ->
  forall es c inarr x, c_type c = TFloat \/ c_type c = TDouble ->
  sval_ok es c inarr (txt_sval F show_f (c_type c) (VFlt F x)) = true.
Proof. exact float_cell_in_domain. Qed.
Print Assumptions C01_float_cells_in_domain.

(* oracle hypothesis 2 (reading the printed text gives the value back): a document of integer, string and floating-point
   VALUES, written with show_f and read back with parse_f, returns every table with its original values *)
Theorem C01_file_roundtrip_floats : forall (F : Type) (show_f : btype -> F -> bytes) (parse_f : btype -> bytes -> option F),
  (forall t x, parse_f t (show_f t x) = Some x) ->
  forall d : vdoc F, doc_ok (txt_doc F show_f d) = true -> forallb (vtable_typed F) (vd_tables F d) = true ->
  exists b p, render_checked (txt_doc F show_f d) = Some b /\ parse b = Some p /\ parse_binary b = Some p /\
              pd_pairs p = vd_pairs F d /\
              omap (val_table F parse_f) (pd_tables p) = Some (map (vt_rows F) (vd_tables F d)).
Proof. exact file_roundtrip_floats. Qed.
Print Assumptions C01_file_roundtrip_floats.

(* ================================================================== round 5: the writer's decision logic regenerated from
   the source.  Generated/YannyWriter.v is produced on every run by translate/c01.py (generate_writer): protect(),
   dtype_to_struct() (enum block, declaration line of a column: type word by dtmap / char / enum type, the [n] suffix rule
   for arrays, the [w] suffix rule for character columns, the struct block), write() (header comments, pair lines, enum and
   struct blocks and when they are emitted, the datum of a scalar / array cell, the row line, the order of the parts),
   convert() (which conversion for which class of type names) and the default structure names of write_ndarray_to_yanny,
   each translated statement by statement into Gallina over byte strings (runtime C01/PyRt.v).  The theorems below oblige
   every generated piece to BE the corresponding piece of the hand-written writer model Yanny/Render.v (C01/Bridge.v). *)
From PV Require Import C01.PyRt Generated.YannyWriter C01.GenWriter C01.Bridge.

Theorem C01_generated_protect : forall s, gen_protect s = protect s.
Proof. exact gen_protect_is_protect. Qed.
Print Assumptions C01_generated_protect.

Theorem C01_generated_enum_block : forall e, gen_enum_text (e_tname e) (e_labels e) = render_enum e.
Proof. exact gen_enum_text_is_render_enum. Qed.
Print Assumptions C01_generated_enum_block.

(* one declaration line, for the numpy type code of the column (S<w> or U<w> for character columns), its array length
   (0 = scalar) and the enums= dictionary; None = KeyError in dtmap on both sides *)
Theorem C01_generated_declaration_line : forall es c u, wtype_ok (c_type c) = true ->
  gen_decl_line (enums_dict es) (c_name c) (code_of u (c_type c)) (arr_len c) = decl_line es c.
Proof. exact gen_decl_line_is_decl_line. Qed.
Print Assumptions C01_generated_declaration_line.

Theorem C01_generated_struct_block : forall es t, forallb (fun c => wtype_ok (c_type c)) (t_cols t) = true ->
  gen_struct_of es t = render_struct es t.
Proof. exact gen_struct_is_render_struct. Qed.
Print Assumptions C01_generated_struct_block.

Theorem C01_generated_cell_and_row : forall name r,
  gen_row name (map (fun c => gen_datum (fst (fst c)) (snd (fst c)) (snd c)) (map gcell r)) = render_row name r.
Proof. exact gen_row_is_render_row. Qed.
Print Assumptions C01_generated_cell_and_row.

(* THE WRITER: write_ndarray_to_yanny's glue over the generated pieces (gen_render) is the writer model render_checked --
   for every document whose column types a caller can hand over (no reader-only char[], unsupported codes included) *)
Theorem C01_generated_writer_is_render : forall d, writer_types_ok d = true -> gen_render d = render_checked d.
Proof. exact generated_writer_is_render. Qed.
Print Assumptions C01_generated_writer_is_render.

(* unsupported scalar types: the generated dtype_to_struct raises KeyError in dtmap -- nothing is written *)
Theorem C01_generated_writer_refuses : forall d t c code, In t (d_tables d) -> In c (t_cols t) -> c_type c = TUnsup code ->
  py_head_in code (bs "SU"%string) = false -> lookup code dtmap = None -> gen_render d = None.
Proof. exact generated_writer_refuses. Qed.
Print Assumptions C01_generated_writer_refuses.

(* convert(): int() for short / int / long, float() for float / double, the text otherwise = Parse.classify *)
Theorem C01_generated_convert : forall typ,
  gen_convert_class (basetype typ) = match classify typ with KInt => 1 | KFloat => 2 | KOther => 0 end.
Proof. exact gen_convert_is_classify. Qed.
Print Assumptions C01_generated_convert.

(* write_table_yanny hands the string 'Table' to write(): the string branch of the comment handling gives the same text as
   the one-element list the model carries *)
Theorem C01_generated_table_comment : gen_comments_str (bs "Table"%string) = gen_comments_list [bs "Table"%string].
Proof. exact gen_comments_str_table. Qed.
Print Assumptions C01_generated_table_comment.

(* THE PROPERTY through the generated writer: what the statements of the CURRENT source assemble for a document of the
   domain, read back by the reader model (text or binary), is the document's meaning *)
Theorem C01_generated_file_roundtrip : forall d, doc_ok d = true ->
  exists b p, gen_render d = Some b /\ sem d = Some p /\ parse b = Some p /\ parse_binary b = Some p.
Proof. exact generated_file_roundtrip. Qed.
Print Assumptions C01_generated_file_roundtrip.

Example C01_generated_example :
  match gen_render example_doc, render_checked example_doc with Some a, Some b => a = b | _, _ => False end.
Proof. vm_compute. reflexivity. Qed.
Example C01_generated_default_names : default_names 2 = [bs "MYSTRUCT0"%string; bs "MYSTRUCT1"%string].
Proof. exact default_names_example. Qed.

(* ================================================================== round 5: the float oracle discharged on a fragment.
   C01/FloatFrag.v models numpy's text and Python's float() for NaN, the infinities and every signed integer-valued number
   (nan, inf, -inf, <digits>.0, -0.0): on this fragment both oracle hypotheses are THEOREMS, so the file-level round trip of
   float VALUES holds there without any assumption; show_frag / parse_frag are tied to numpy / CPython by correspondence
   (case CFloatText) on every run. *)
From PV Require Import C01.FloatFrag.

Theorem C01_float_fragment_text_is_bare : forall t x, bare_ok (show_frag t x) = true.
Proof. exact frag_show_bare. Qed.
Print Assumptions C01_float_fragment_text_is_bare.

Theorem C01_float_fragment_reads_back : forall t x, parse_frag t (show_frag t x) = Some x.
Proof. exact frag_parse_show. Qed.
Print Assumptions C01_float_fragment_reads_back.

Theorem C01_file_roundtrip_float_fragment : forall d : vdoc ffrag,
  doc_ok (txt_doc ffrag show_frag d) = true -> forallb (vtable_typed ffrag) (vd_tables ffrag d) = true ->
  exists b p, render_checked (txt_doc ffrag show_frag d) = Some b /\ parse b = Some p /\ parse_binary b = Some p /\
              pd_pairs p = vd_pairs ffrag d /\
              omap (val_table ffrag parse_frag) (pd_tables p) = Some (map (vt_rows ffrag) (vd_tables ffrag d)).
Proof. exact file_roundtrip_frag. Qed.
Print Assumptions C01_file_roundtrip_float_fragment.

Example C01_float_fragment_example : doc_ok (txt_doc ffrag show_frag frag_example_doc) = true /\
  forallb (vtable_typed ffrag) (vd_tables ffrag frag_example_doc) = true.
Proof. exact frag_example_ok. Qed.
