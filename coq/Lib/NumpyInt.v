(* Fixed-width integer arithmetic of NumPy arrays, as far as the SDSS ID code uses it.

   An array element has a storage type (ity) and a value that fits it.  The operations modelled are the ones the
   packing code applies element-wise:
     - astype(T)            : C cast, wraps modulo 2^bits (TCast)
     - a << k, k a Python int: result keeps the type of a (NumPy 2 "weak scalar" rule), wraps (TShl)
     - a - c,  c a Python int: result keeps the type of a and wraps; a literal that does not fit the type of a
                               raises OverflowError (NumPy >= 2) (TSubLit)
     - a | b                : same-typed operands only; NumPy's promotion of mixed operand types is NOT modelled
                              (TUnmodelled), which is enough because the code under study casts every operand of
                              `|` to one 64-bit type first -- and the theorems about it fail if it stops doing so.
   Comparisons of an array with a Python int are exact in NumPy 2 (no wrap), so range checks are on the value.
   Definitions and small lemmas only; tied to NumPy by the C06 correspondence (typed cases). *)
From Coq Require Import ZArith List Bool Lia.
Import ListNotations.
Open Scope Z_scope.

Inductive ity := I8 | U8 | I16 | U16 | I32 | U32 | I64 | U64.

Definition bits (t : ity) : Z :=
  match t with I8 | U8 => 8 | I16 | U16 => 16 | I32 | U32 => 32 | I64 | U64 => 64 end.
Definition signed (t : ity) : bool :=
  match t with I8 | I16 | I32 | I64 => true | _ => false end.
Definition tmin (t : ity) : Z := if signed t then - 2 ^ (bits t - 1) else 0.
Definition tmax (t : ity) : Z := if signed t then 2 ^ (bits t - 1) - 1 else 2 ^ bits t - 1.
Definition fits (t : ity) (z : Z) : bool := (tmin t <=? z) && (z <=? tmax t).

Definition wrap (t : ity) (z : Z) : Z :=
  if signed t then (z + 2 ^ (bits t - 1)) mod 2 ^ bits t - 2 ^ (bits t - 1) else z mod 2 ^ bits t.

Definition ity_eqb (a b : ity) : bool :=
  match a, b with
  | I8, I8 | U8, U8 | I16, I16 | U16, U16 | I32, I32 | U32, U32 | I64, I64 | U64, U64 => true
  | _, _ => false
  end.

Inductive texpr :=
| TVar (i : nat)
| TCast (t : ity) (e : texpr)
| TShl (e : texpr) (k : Z)
| TOr (a b : texpr)
| TSubLit (e : texpr) (c : Z).

Inductive tres :=
| TVal (t : ity) (z : Z)
| TOverflow        (* a Python int literal does not fit the array type: OverflowError *)
| TUnmodelled.     (* operands of different types: NumPy promotion is not modelled *)

Fixpoint teval (env : list (ity * Z)) (e : texpr) : tres :=
  match e with
  | TVar i => match nth_error env i with Some (t, z) => TVal t z | None => TUnmodelled end
  | TCast t e => match teval env e with TVal _ z => TVal t (wrap t z) | r => r end
  | TShl e k => match teval env e with TVal t z => TVal t (wrap t (z * 2 ^ k)) | r => r end
  | TOr a b =>
      match teval env a, teval env b with
      | TVal ta za, TVal tb zb => if ity_eqb ta tb then TVal ta (Z.lor za zb) else TUnmodelled
      | TVal _ _, r => r
      | r, _ => r
      end
  | TSubLit e c =>
      match teval env e with
      | TVal t z => if fits t c then TVal t (wrap t (z - c)) else TOverflow
      | r => r
      end
  end.

(* erasure: the same expression over unbounded integers (what the rest of the C06 development reasons about) *)
Fixpoint zeval (env : list Z) (e : texpr) : Z :=
  match e with
  | TVar i => nth i env 0
  | TCast _ e => zeval env e
  | TShl e k => Z.shiftl (zeval env e) k
  | TOr a b => Z.lor (zeval env a) (zeval env b)
  | TSubLit e c => zeval env e - c
  end.

(* ---- lemmas ---- *)

Lemma wrap_small t z : fits t z = true -> wrap t z = z.
Proof.
  unfold fits, wrap, tmin, tmax. intros H. apply andb_prop in H. destruct H as [Hlo Hhi].
  apply Z.leb_le in Hlo. apply Z.leb_le in Hhi.
  destruct t; cbn [signed bits] in *;
    change (2 ^ (8 - 1)) with 128 in *; change (2 ^ 8) with 256 in *;
    change (2 ^ (16 - 1)) with 32768 in *; change (2 ^ 16) with 65536 in *;
    change (2 ^ (32 - 1)) with 2147483648 in *; change (2 ^ 32) with 4294967296 in *;
    change (2 ^ (64 - 1)) with 9223372036854775808 in *; change (2 ^ 64) with 18446744073709551616 in *;
    try (rewrite Z.mod_small by lia; lia).
Qed.

Lemma wrap_I64_small z : - 2 ^ 63 <= z < 2 ^ 63 -> wrap I64 z = z.
Proof. intros H. apply wrap_small. unfold fits, tmin, tmax; cbn [signed bits]. change (64 - 1) with 63.
  apply andb_true_intro; split; apply Z.leb_le; lia. Qed.

Lemma wrap_U64_small z : 0 <= z < 2 ^ 64 -> wrap U64 z = z.
Proof. intros H. apply wrap_small. unfold fits, tmin, tmax; cbn [signed bits].
  apply andb_true_intro; split; apply Z.leb_le; lia. Qed.

(* a wrapped value differs from the original by a multiple of 2^64 and lies in the type's range *)
Lemma wrap_I64_spec z : exists k, wrap I64 z = z + k * 2 ^ 64 /\ - 2 ^ 63 <= wrap I64 z < 2 ^ 63.
Proof.
  unfold wrap; cbn [signed bits]. change (64 - 1) with 63.
  exists (- ((z + 2 ^ 63) / 2 ^ 64)).
  pose proof (Z.div_mod (z + 2 ^ 63) (2 ^ 64) ltac:(lia)) as E.
  pose proof (Z.mod_pos_bound (z + 2 ^ 63) (2 ^ 64) ltac:(lia)) as B.
  split; lia.
Qed.

Lemma wrap_U64_spec z : exists k, wrap U64 z = z + k * 2 ^ 64 /\ 0 <= wrap U64 z < 2 ^ 64.
Proof.
  unfold wrap; cbn [signed bits].
  exists (- (z / 2 ^ 64)).
  pose proof (Z.div_mod z (2 ^ 64) ltac:(lia)) as E.
  pose proof (Z.mod_pos_bound z (2 ^ 64) ltac:(lia)) as B.
  split; lia.
Qed.

Lemma fits_bounds t z : fits t z = true -> - 2 ^ 63 <= z < 2 ^ 64.
Proof.
  unfold fits, tmin, tmax. intros H. apply andb_prop in H. destruct H as [Hlo Hhi].
  apply Z.leb_le in Hlo. apply Z.leb_le in Hhi.
  destruct t; cbn [signed bits] in *;
    change (2 ^ (8 - 1)) with 128 in *; change (2 ^ 8) with 256 in *;
    change (2 ^ (16 - 1)) with 32768 in *; change (2 ^ 16) with 65536 in *;
    change (2 ^ (32 - 1)) with 2147483648 in *; change (2 ^ 32) with 4294967296 in *;
    change (2 ^ (64 - 1)) with 9223372036854775808 in *; change (2 ^ 64) with 18446744073709551616 in *;
    change (2 ^ 63) with 9223372036854775808; lia.
Qed.

(* ---- a small verified range analysis: when does the typed evaluation agree with unbounded arithmetic? ----

   ivs gives an interval for every variable (for the ID code: the accepted range of each field, i.e. its range check);
   the storage type of a variable is unknown (any ity whose range holds the value).  tcheck returns the static type of
   the expression (None = the unknown type of a variable) and an interval for its unbounded value, or fails when some
   intermediate result could leave the range of the type it is computed in, when an operation is applied to a value of
   unknown type (other than a cast), or when `|` would mix types. *)

Definition in_type (t : ity) (lo hi : Z) : bool := (tmin t <=? lo) && (hi <=? tmax t).

Fixpoint tcheck (ivs : list (Z * Z)) (e : texpr) : option (option ity * Z * Z) :=
  match e with
  | TVar i => match nth_error ivs i with Some (lo, hi) => Some (None, lo, hi) | None => None end
  | TCast t e =>
      match tcheck ivs e with
      | Some (_, lo, hi) => if in_type t lo hi then Some (Some t, lo, hi) else None
      | None => None
      end
  | TShl e k =>
      match tcheck ivs e with
      | Some (Some t, lo, hi) =>
          if (0 <=? k) && in_type t (lo * 2 ^ k) (hi * 2 ^ k) then Some (Some t, lo * 2 ^ k, hi * 2 ^ k) else None
      | _ => None
      end
  | TOr a b =>
      match tcheck ivs a, tcheck ivs b with
      | Some (Some ta, la, ha), Some (Some tb, lb, hb) =>
          if ity_eqb ta tb && (0 <=? la) && (0 <=? lb) && (ha <=? tmax ta) && (hb <=? tmax ta)
          then Some (Some ta, 0, tmax ta) else None
      | _, _ => None
      end
  | TSubLit e c =>
      match tcheck ivs e with
      | Some (Some t, lo, hi) =>
          if fits t c && in_type t (lo - c) (hi - c) then Some (Some t, lo - c, hi - c) else None
      | _ => None
      end
  end.

Definition env_ok (ivs : list (Z * Z)) (env : list (ity * Z)) : Prop :=
  Forall2 (fun iv tv => fits (fst tv) (snd tv) = true /\ fst iv <= snd tv <= snd iv) ivs env.

Lemma ity_eqb_eq a b : ity_eqb a b = true -> a = b.
Proof. destruct a, b; simpl; congruence. Qed.

Lemma in_type_fits t lo hi z : in_type t lo hi = true -> lo <= z <= hi -> fits t z = true.
Proof.
  unfold in_type, fits. intros H Hz. apply andb_prop in H. destruct H as [H1 H2].
  apply Z.leb_le in H1. apply Z.leb_le in H2. apply andb_true_intro; split; apply Z.leb_le; lia.
Qed.

Lemma env_ok_nth ivs env : env_ok ivs env -> forall i lo hi, nth_error ivs i = Some (lo, hi) ->
  exists t z, nth_error env i = Some (t, z) /\ nth i (map snd env) 0 = z /\ fits t z = true /\ lo <= z <= hi.
Proof.
  induction 1 as [|iv tv ivs env [Hf Hr] _ IH]; intros i lo hi Hn.
  - destruct i; discriminate Hn.
  - destruct i as [|i]; cbn [nth_error] in Hn.
    + inversion Hn; subst iv. destruct tv as [t z]. exists t, z. cbn in *. repeat split; try assumption; lia.
    + destruct (IH i lo hi Hn) as (t & z & E1 & E2 & E3 & E4). exists t, z. cbn [nth_error map nth]. auto.
Qed.

Definition hibits (t : ity) : Z := if signed t then bits t - 1 else bits t.
Lemma tmax_hibits t : tmax t = 2 ^ hibits t - 1 /\ 0 < hibits t.
Proof. destruct t; unfold tmax, hibits; cbn [signed bits]; split; lia. Qed.

Lemma lt_pow2_log2 a n : 0 < n -> 0 <= a < 2 ^ n -> Z.log2 a < n.
Proof.
  intros Hn [H0 H1]. destruct (Z.eq_dec a 0) as [->|Hne]; [rewrite Z.log2_nonpos; lia|].
  apply Z.log2_lt_pow2; lia.
Qed.

Lemma lor_lt_pow2 a b n : 0 < n -> 0 <= a < 2 ^ n -> 0 <= b < 2 ^ n -> 0 <= Z.lor a b < 2 ^ n.
Proof.
  intros Hn Ha Hb. assert (N : 0 <= Z.lor a b) by (apply Z.lor_nonneg; lia). split; [exact N|].
  destruct (Z.eq_dec (Z.lor a b) 0) as [E|Hne]; [rewrite E; apply Z.pow_pos_nonneg; lia|].
  apply Z.log2_lt_pow2; [lia|]. rewrite Z.log2_lor by lia.
  pose proof (lt_pow2_log2 a n Hn Ha). pose proof (lt_pow2_log2 b n Hn Hb). lia.
Qed.

Theorem tcheck_sound ivs e : forall st lo hi, tcheck ivs e = Some (st, lo, hi) ->
  forall env, env_ok ivs env ->
  exists t, teval env e = TVal t (zeval (map snd env) e)
            /\ match st with Some T => t = T | None => True end
            /\ lo <= zeval (map snd env) e <= hi.
Proof.
  induction e as [i | t e IH | e IH k | a IHa b IHb | e IH c]; intros st lo hi H env Henv; cbn [tcheck] in H.
  - destruct (nth_error ivs i) as [[l h]|] eqn:En; [|discriminate H]. inversion H; subst st lo hi.
    destruct (env_ok_nth _ _ Henv _ _ _ En) as (t & z & E1 & E2 & _ & E4).
    exists t. cbn [teval zeval]. rewrite E1, E2. auto.
  - destruct (tcheck ivs e) as [[[st' l] h]|] eqn:Ec; [|discriminate H].
    destruct (in_type t l h) eqn:Ei; [|discriminate H]. inversion H; subst st lo hi.
    destruct (IH _ _ _ eq_refl env Henv) as (t' & Ev & _ & Hr).
    exists t. cbn [teval zeval]. rewrite Ev. rewrite wrap_small by (eapply in_type_fits; eauto). auto.
  - destruct (tcheck ivs e) as [[[[T|] l] h]|] eqn:Ec; try discriminate H.
    destruct ((0 <=? k) && in_type T (l * 2 ^ k) (h * 2 ^ k)) eqn:Ei; [|discriminate H].
    inversion H; subst st lo hi. apply andb_prop in Ei. destruct Ei as [Hk Ei]. apply Z.leb_le in Hk.
    destruct (IH _ _ _ eq_refl env Henv) as (t' & Ev & Ht & Hr). subst t'.
    exists T. cbn [teval zeval]. rewrite Ev. rewrite Z.shiftl_mul_pow2 by exact Hk.
    assert (P : 0 < 2 ^ k) by (apply Z.pow_pos_nonneg; lia).
    assert (R : l * 2 ^ k <= zeval (map snd env) e * 2 ^ k <= h * 2 ^ k) by nia.
    rewrite wrap_small by (eapply in_type_fits; eauto). auto.
  - destruct (tcheck ivs a) as [[[[Ta|] la] ha]|] eqn:Eca; try discriminate H.
    destruct (tcheck ivs b) as [[[[Tb|] lb] hb]|] eqn:Ecb; try discriminate H.
    destruct (ity_eqb Ta Tb && (0 <=? la) && (0 <=? lb) && (ha <=? tmax Ta) && (hb <=? tmax Ta)) eqn:Ei; [|discriminate H].
    inversion H; subst st lo hi.
    apply andb_prop in Ei. destruct Ei as [Ei Hhb]. apply andb_prop in Ei. destruct Ei as [Ei Hha].
    apply andb_prop in Ei. destruct Ei as [Ei Hlb]. apply andb_prop in Ei. destruct Ei as [Et Hla].
    apply Z.leb_le in Hla. apply Z.leb_le in Hlb. apply Z.leb_le in Hha. apply Z.leb_le in Hhb.
    apply ity_eqb_eq in Et. subst Tb.
    destruct (IHa _ _ _ eq_refl env Henv) as (t1 & Ev1 & Ht1 & Hr1). subst t1.
    destruct (IHb _ _ _ eq_refl env Henv) as (t2 & Ev2 & Ht2 & Hr2). subst t2.
    exists Ta. cbn [teval zeval]. rewrite Ev1, Ev2.
    replace (ity_eqb Ta Ta) with true by (destruct Ta; reflexivity).
    destruct (tmax_hibits Ta) as [Em Hm].
    pose proof (lor_lt_pow2 (zeval (map snd env) a) (zeval (map snd env) b) (hibits Ta) Hm ltac:(lia) ltac:(lia)).
    repeat split; try lia.
  - destruct (tcheck ivs e) as [[[[T|] l] h]|] eqn:Ec; try discriminate H.
    destruct (fits T c && in_type T (l - c) (h - c)) eqn:Ei; [|discriminate H].
    inversion H; subst st lo hi. apply andb_prop in Ei. destruct Ei as [Hc Ei].
    destruct (IH _ _ _ eq_refl env Henv) as (t' & Ev & Ht & Hr). subst t'.
    exists T. cbn [teval zeval]. rewrite Ev, Hc.
    rewrite wrap_small by (eapply in_type_fits; [exact Ei | lia]). repeat split; lia.
Qed.

(* ================================================================================================================
   Round 5 (added; nothing above is changed): expressions of ONE array variable in the unwrap direction.

     - a >> k, k a Python int : keeps the type of a; arithmetic shift (floor) for signed types (UShr)
     - a & m,  m a Python int : keeps the type of a (NumPy 2 weak scalar); a literal that does not fit raises
                                OverflowError (UAndLit)
     - a + c, a // c, a % c   : keep the type of a and wrap; floor division / Python modulo (UAddLit, UDivLit, UModLit)
     - field assignment / astype(T): C cast, wraps (UCast) -- this is what `rec.field = expr` does for a record
                                field of storage type T ('i4' = I32)
   ueval evaluates on a (storage type, value) pair, uzeval is the erasure over Z, ucheck a verified range analysis:
   if it accepts an expression for a variable of type t with values in [lo, hi], then for every such value the
   fixed-width evaluation is the unbounded one, of the reported type, inside the reported interval.           *)

Inductive uexpr :=
| UVar
| UShr (e : uexpr) (k : Z)
| UAndLit (e : uexpr) (m : Z)
| UAddLit (e : uexpr) (c : Z)
| UDivLit (e : uexpr) (c : Z)
| UModLit (e : uexpr) (c : Z)
| UCast (t : ity) (e : uexpr).

Fixpoint ueval (v : ity * Z) (e : uexpr) : tres :=
  match e with
  | UVar => TVal (fst v) (snd v)
  | UShr e k => match ueval v e with TVal t z => TVal t (wrap t (Z.shiftr z k)) | r => r end
  | UAndLit e m => match ueval v e with
                   | TVal t z => if fits t m then TVal t (wrap t (Z.land z m)) else TOverflow
                   | r => r end
  | UAddLit e c => match ueval v e with
                   | TVal t z => if fits t c then TVal t (wrap t (z + c)) else TOverflow
                   | r => r end
  | UDivLit e c => match ueval v e with
                   | TVal t z => if fits t c then TVal t (wrap t (z / c)) else TOverflow
                   | r => r end
  | UModLit e c => match ueval v e with
                   | TVal t z => if fits t c then TVal t (wrap t (z mod c)) else TOverflow
                   | r => r end
  | UCast t e => match ueval v e with TVal _ z => TVal t (wrap t z) | r => r end
  end.

Fixpoint uzeval (z : Z) (e : uexpr) : Z :=
  match e with
  | UVar => z
  | UShr e k => Z.shiftr (uzeval z e) k
  | UAndLit e m => Z.land (uzeval z e) m
  | UAddLit e c => uzeval z e + c
  | UDivLit e c => uzeval z e / c
  | UModLit e c => uzeval z e mod c
  | UCast _ e => uzeval z e
  end.

(* is m of the form 2^k - 1 with k >= 0 ?  (the masks of the ID code) *)
Definition mask_width (m : Z) : option Z :=
  let k := Z.log2 (m + 1) in if (0 <=? m) && (m =? 2 ^ k - 1) then Some k else None.

Fixpoint ucheck (t : ity) (lo hi : Z) (e : uexpr) : option (ity * Z * Z) :=
  match e with
  | UVar => if in_type t lo hi then Some (t, lo, hi) else None
  | UShr e k =>
      match ucheck t lo hi e with
      | Some (T, l, h) =>
          if (0 <=? k) && in_type T (l / 2 ^ k) (h / 2 ^ k) then Some (T, l / 2 ^ k, h / 2 ^ k) else None
      | None => None
      end
  | UAndLit e m =>
      match ucheck t lo hi e, mask_width m with
      | Some (T, _, _), Some _ => if fits T m then Some (T, 0, m) else None
      | _, _ => None
      end
  | UAddLit e c =>
      match ucheck t lo hi e with
      | Some (T, l, h) => if fits T c && in_type T (l + c) (h + c) then Some (T, l + c, h + c) else None
      | None => None
      end
  | UDivLit e c =>
      match ucheck t lo hi e with
      | Some (T, l, h) =>
          if (0 <? c) && fits T c && in_type T (l / c) (h / c) then Some (T, l / c, h / c) else None
      | None => None
      end
  | UModLit e c =>
      match ucheck t lo hi e with
      | Some (T, l, h) => if (0 <? c) && fits T c then Some (T, 0, c - 1) else None
      | None => None
      end
  | UCast T' e =>
      match ucheck t lo hi e with
      | Some (_, l, h) => if in_type T' l h then Some (T', l, h) else None
      | None => None
      end
  end.

Lemma mask_width_ok m k : mask_width m = Some k -> 0 <= k /\ m = 2 ^ k - 1.
Proof.
  unfold mask_width. destruct ((0 <=? m) && (m =? 2 ^ Z.log2 (m + 1) - 1)) eqn:E; [|discriminate].
  intros H. inversion H; subst k. apply andb_prop in E. destruct E as [_ E2]. apply Z.eqb_eq in E2.
  split; [apply Z.log2_nonneg | exact E2].
Qed.

Lemma land_mask_bounds z k : 0 <= k -> 0 <= Z.land z (2 ^ k - 1) <= 2 ^ k - 1.
Proof.
  intros Hk. replace (2 ^ k - 1) with (Z.ones k) by (rewrite Z.ones_equiv; lia).
  rewrite Z.land_ones by exact Hk.
  pose proof (Z.mod_pos_bound z (2 ^ k) ltac:(apply Z.pow_pos_nonneg; lia)). rewrite Z.ones_equiv. lia.
Qed.

Lemma fits_in_type t z : fits t z = true -> in_type t z z = true.
Proof. unfold fits, in_type. auto. Qed.

Theorem ucheck_sound t lo hi e : forall T l h, ucheck t lo hi e = Some (T, l, h) ->
  forall z, fits t z = true -> lo <= z <= hi ->
  ueval (t, z) e = TVal T (uzeval z e) /\ l <= uzeval z e <= h /\ in_type T l h = true.
Proof.
  induction e as [ | e IH k | e IH m | e IH c | e IH c | e IH c | T' e IH]; intros T l h H z Fz Rz; cbn [ucheck] in H.
  - destruct (in_type t lo hi) eqn:Ei; [|discriminate H]. inversion H; subst T l h.
    cbn [ueval uzeval fst snd]. auto.
  - destruct (ucheck t lo hi e) as [[[T0 l0] h0]|] eqn:Ec; [|discriminate H].
    destruct ((0 <=? k) && in_type T0 (l0 / 2 ^ k) (h0 / 2 ^ k)) eqn:Ei; [|discriminate H].
    inversion H; subst T l h. apply andb_prop in Ei. destruct Ei as [Hk Ei]. apply Z.leb_le in Hk.
    destruct (IH _ _ _ eq_refl z Fz Rz) as (Ev & Hr & _).
    cbn [ueval uzeval]. rewrite Ev. rewrite Z.shiftr_div_pow2 by exact Hk.
    assert (P : 0 < 2 ^ k) by (apply Z.pow_pos_nonneg; lia).
    assert (R : l0 / 2 ^ k <= uzeval z e / 2 ^ k <= h0 / 2 ^ k)
      by (split; apply Z.div_le_mono; lia).
    rewrite wrap_small by (eapply in_type_fits; eauto). auto.
  - destruct (ucheck t lo hi e) as [[[T0 l0] h0]|] eqn:Ec; [|discriminate H].
    destruct (mask_width m) as [k|] eqn:Em; [|discriminate H].
    destruct (fits T0 m) eqn:Ef; [|discriminate H]. inversion H; subst T l h.
    destruct (mask_width_ok _ _ Em) as [Hk Hm].
    destruct (IH _ _ _ eq_refl z Fz Rz) as (Ev & _ & It).
    cbn [ueval uzeval]. rewrite Ev, Ef.
    pose proof (land_mask_bounds (uzeval z e) k Hk) as B. rewrite <- Hm in B.
    assert (I0 : in_type T0 0 m = true).
    { unfold in_type. apply andb_true_intro. unfold fits in Ef. apply andb_prop in Ef. destruct Ef as [_ E2].
      split; [|exact E2]. apply Z.leb_le. unfold tmin. destruct (signed T0); [|lia].
      assert (0 < 2 ^ (bits T0 - 1)) by (apply Z.pow_pos_nonneg; destruct T0; cbn; lia). lia. }
    rewrite wrap_small by (eapply in_type_fits; eauto). auto.
  - destruct (ucheck t lo hi e) as [[[T0 l0] h0]|] eqn:Ec; [|discriminate H].
    destruct (fits T0 c && in_type T0 (l0 + c) (h0 + c)) eqn:Ei; [|discriminate H].
    inversion H; subst T l h. apply andb_prop in Ei. destruct Ei as [Hc Ei].
    destruct (IH _ _ _ eq_refl z Fz Rz) as (Ev & Hr & _).
    cbn [ueval uzeval]. rewrite Ev, Hc.
    rewrite wrap_small by (eapply in_type_fits; [exact Ei | lia]). repeat split; try lia. exact Ei.
  - destruct (ucheck t lo hi e) as [[[T0 l0] h0]|] eqn:Ec; [|discriminate H].
    destruct ((0 <? c) && fits T0 c && in_type T0 (l0 / c) (h0 / c)) eqn:Ei; [|discriminate H].
    inversion H; subst T l h. apply andb_prop in Ei. destruct Ei as [Ei Ei3]. apply andb_prop in Ei.
    destruct Ei as [Hc Hf]. apply Z.ltb_lt in Hc.
    destruct (IH _ _ _ eq_refl z Fz Rz) as (Ev & Hr & _).
    cbn [ueval uzeval]. rewrite Ev, Hf.
    assert (R : l0 / c <= uzeval z e / c <= h0 / c) by (split; apply Z.div_le_mono; lia).
    rewrite wrap_small by (eapply in_type_fits; eauto). auto.
  - destruct (ucheck t lo hi e) as [[[T0 l0] h0]|] eqn:Ec; [|discriminate H].
    destruct ((0 <? c) && fits T0 c) eqn:Ei; [|discriminate H].
    inversion H; subst T l h. apply andb_prop in Ei. destruct Ei as [Hc Hf]. apply Z.ltb_lt in Hc.
    destruct (IH _ _ _ eq_refl z Fz Rz) as (Ev & _ & _).
    cbn [ueval uzeval]. rewrite Ev, Hf.
    pose proof (Z.mod_pos_bound (uzeval z e) c Hc) as B.
    assert (I0 : in_type T0 0 (c - 1) = true).
    { unfold in_type. apply andb_true_intro. unfold fits in Hf. apply andb_prop in Hf. destruct Hf as [_ E2].
      apply Z.leb_le in E2. split; [|apply Z.leb_le; lia]. apply Z.leb_le. unfold tmin. destruct (signed T0); [|lia].
      assert (0 < 2 ^ (bits T0 - 1)) by (apply Z.pow_pos_nonneg; destruct T0; cbn; lia). lia. }
    rewrite wrap_small by (eapply in_type_fits; [exact I0 | lia]). repeat split; try lia. exact I0.
  - destruct (ucheck t lo hi e) as [[[T0 l0] h0]|] eqn:Ec; [|discriminate H].
    destruct (in_type T' l0 h0) eqn:Ei; [|discriminate H]. inversion H; subst T l h.
    destruct (IH _ _ _ eq_refl z Fz Rz) as (Ev & Hr & _).
    cbn [ueval uzeval]. rewrite Ev.
    rewrite wrap_small by (eapply in_type_fits; eauto). auto.
Qed.

(* ------------------------------------------------------------------------------------------------------------
   Round 6 (appended): promotion of ONE Python integer to a one-element array, `np.array([v], dtype=t)` or
   `np.array([v])`, as the private helpers of the SDSS ID packers do it, and the classes of scalar arguments
   (Python int, Python bool, NumPy integer / boolean scalar, zero-dimensional array) a caller may hand in.
   NumPy 2 behaviour modelled:
     - np.array([v], dtype=t): [v] when v fits t, OverflowError otherwise (never a wrapped value);
     - np.array([v]) for a Python bool is a BOOLEAN array (its integer meaning, 0/1, is kept by astype / << / <);
       for a Python int it is int64 when v fits, else uint64 when v fits, else an object array holding v exactly.
   Tied to NumPy by the C06 correspondence families (scalar forms, beyond-64-bit scalars). *)

Inductive pyerr := EValueError | EOverflowError | ETypeError | EOtherError.

Definition pyerr_eqb (a b : pyerr) : bool :=
  match a, b with
  | EValueError, EValueError | EOverflowError, EOverflowError | ETypeError, ETypeError | EOtherError, EOtherError => true
  | _, _ => false
  end.

(* how the Python integer was spelled: bool is a subclass of int with the values 0 and 1 *)
Inductive pyint_kind := KInt | KBool.

Inductive promo :=
| PrArr (t : ity) (l : list Z)      (* integer array of type t *)
| PrBoolArr (l : list Z)            (* boolean array, elements given by their integer meaning *)
| PrObjArr (l : list Z)             (* object array of exact Python integers *)
| PrErr (e : pyerr).

Definition np_array1_dtype (t : ity) (v : Z) : promo :=
  if fits t v then PrArr t [v] else PrErr EOverflowError.

Definition np_array1_inferred (k : pyint_kind) (v : Z) : promo :=
  match k with
  | KBool => PrBoolArr [v]
  | KInt => if fits I64 v then PrArr I64 [v] else if fits U64 v then PrArr U64 [v] else PrObjArr [v]
  end.

(* a promotion helper as read from the source: explicit dtype or inferred; `except X: raise Y` handlers *)
Record promoter := { pr_dtype : option ity; pr_handlers : list (pyerr * pyerr) }.

Definition run_promoter (p : promoter) (k : pyint_kind) (v : Z) : promo :=
  match (match pr_dtype p with Some t => np_array1_dtype t v | None => np_array1_inferred k v end) with
  | PrErr e => match find (fun h => pyerr_eqb (fst h) e) (pr_handlers p) with
              | Some h => PrErr (snd h)
              | None => PrErr e
              end
  | r => r
  end.

(* the integers an array holds, whatever its storage class *)
Definition promo_values (r : promo) : option (list Z) :=
  match r with PrArr _ l | PrBoolArr l | PrObjArr l => Some l | PrErr _ => None end.

(* classes of scalar arguments that a normalising helper turns into Python integers *)
Inductive scalar_class := NpIntegerScalar | NpBoolScalar | ZeroDimArray.

Definition scalar_class_eqb (a b : scalar_class) : bool :=
  match a, b with
  | NpIntegerScalar, NpIntegerScalar | NpBoolScalar, NpBoolScalar | ZeroDimArray, ZeroDimArray => true
  | _, _ => false
  end.

Lemma np_array1_dtype_exact t v :
  np_array1_dtype t v = if fits t v then PrArr t [v] else PrErr EOverflowError.
Proof. reflexivity. Qed.

Lemma np_array1_inferred_values k v : promo_values (np_array1_inferred k v) = Some [v].
Proof. destruct k; unfold np_array1_inferred; [|reflexivity]. destruct (fits I64 v); [reflexivity|]. destruct (fits U64 v); reflexivity. Qed.
