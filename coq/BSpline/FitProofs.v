(* Proofs about the weighted least-squares fit model of BSpline/Fit.v:
   the checked dense solver returns THE minimiser of chi2 (optimality + uniqueness), the fit is linear in
   the data y, ignores y where the weight is zero, reproduces exactly-representable data, and a zero
   diagonal entry of the normal matrix means a zero (weighted) design column. *)
From Coq Require Import QArith Qround Qabs List Bool Arith Lia Lqa Setoid Morphisms.
Import ListNotations.
From PV Require Import Lib.WLS BSpline.Eval BSpline.Fit.
Open Scope Q_scope.

Local Notation Veq := (Forall2 Qeq).

Definition rows_len (m : nat) (D : list obs) := Forall (fun o : obs => length (fst (fst o)) = m) D.

(* ------------------------------------------------------------------ Forall2 Qeq is an equivalence *)
Lemma Veq_refl u : Veq u u.
Proof. induction u; constructor; [reflexivity | assumption]. Qed.

Lemma Veq_sym u v : Veq u v -> Veq v u.
Proof. induction 1; constructor; [symmetry |]; assumption. Qed.

Lemma Veq_trans u v w : Veq u v -> Veq v w -> Veq u w.
Proof.
  intros H; revert w; induction H; intros w0 Hw; inversion Hw; subst; constructor.
  - etransitivity; eauto.
  - auto.
Qed.

Lemma Veq_length u v : Veq u v -> length u = length v.
Proof. induction 1; cbn [length]; congruence. Qed.

Lemma Veq_nth u v : Veq u v -> forall i, nth i u 0 == nth i v 0.
Proof. induction 1; intros [|i]; cbn [nth]; try reflexivity; auto. Qed.

Lemma nth_Veq u v : length u = length v -> (forall i, nth i u 0 == nth i v 0) -> Veq u v.
Proof.
  revert v; induction u as [|a u IH]; intros [|b v] L H; try discriminate; constructor.
  - apply (H O).
  - apply IH; [cbn [length] in L; congruence | intro i; apply (H (S i))].
Qed.

(* ------------------------------------------------------------------ lengths *)
Lemma length_vadd u v : length u = length v -> length (vadd u v) = length u.
Proof.
  revert v; induction u as [|a u IH]; intros [|b v] L; try discriminate; cbn [vadd length] in *; auto.
Qed.

Lemma length_vscale c u : length (vscale c u) = length u.
Proof. apply map_length. Qed.

Lemma length_vred u : length (vred u) = length u.
Proof. apply map_length. Qed.

Lemma length_zeros m : length (zeros m) = m.
Proof. apply repeat_length. Qed.

Lemma length_unit m j : length (unit m j) = m.
Proof.
  revert j; induction m as [|m IH]; intros [|j]; cbn [unit length]; auto.
  now rewrite length_zeros.
Qed.

Lemma length_vsub u v : length u = length v -> length (vsub u v) = length u.
Proof. intros L. unfold vsub. apply length_vadd. now rewrite length_vscale. Qed.

Lemma vscale_cons c a u : vscale c (a :: u) = c * a :: vscale c u.
Proof. reflexivity. Qed.

(* ------------------------------------------------------------------ components *)
Lemma nth_vadd u v i : length u = length v -> nth i (vadd u v) 0 == nth i u 0 + nth i v 0.
Proof.
  revert v i; induction u as [|a u IH]; intros [|b v] i L; try discriminate.
  - destruct i; cbn [vadd nth]; ring.
  - destruct i; cbn [vadd nth]; [reflexivity |]. apply IH. cbn [length] in L; congruence.
Qed.

Lemma nth_vscale c u i : nth i (vscale c u) 0 == c * nth i u 0.
Proof.
  revert i; induction u as [|a u IH]; intros [|i]; rewrite ?vscale_cons; cbn [vscale map nth]; try ring.
  apply IH.
Qed.

Lemma nth_vred u i : nth i (vred u) 0 == nth i u 0.
Proof.
  unfold vred. revert i; induction u as [|a u IH]; intros [|i]; cbn [map nth]; try reflexivity.
  - apply Qred_correct.
  - apply IH.
Qed.

Lemma nth_zeros m i : nth i (zeros m) 0 == 0.
Proof.
  unfold zeros. revert i; induction m as [|m IH]; intros [|i]; cbn [repeat nth]; try reflexivity. apply IH.
Qed.

Lemma vred_Veq u : Veq (vred u) u.
Proof. apply nth_Veq; [apply length_vred | intro i; apply nth_vred]. Qed.

Lemma allzero_nth d : (forall j, (j < length d)%nat -> nth j d 0 == 0) -> Forall (fun a => a == 0) d.
Proof.
  induction d as [|a d IH]; intros H; constructor.
  - apply (H O). cbn [length]; lia.
  - apply IH. intros j Hj. apply (H (S j)). cbn [length]; lia.
Qed.

Lemma nth_allzero d : Forall (fun a => a == 0) d -> forall j, nth j d 0 == 0.
Proof. induction 1; intros [|j]; cbn [nth]; try reflexivity; auto. Qed.

(* ------------------------------------------------------------------ dot *)
Lemma dot_comm u v : dot u v == dot v u.
Proof.
  revert v; induction u as [|a u IH]; intros [|b v]; cbn [dot]; try reflexivity. rewrite IH. ring.
Qed.

Lemma dot_Veq_l u u' v : Veq u u' -> dot u v == dot u' v.
Proof.
  intros H; revert v; induction H as [|a a' u u' Ha Hu IH]; intros [|b v]; cbn [dot]; try reflexivity.
  rewrite Ha, IH. reflexivity.
Qed.

Lemma dot_Veq_r u v v' : Veq v v' -> dot u v == dot u v'.
Proof. intros H. rewrite (dot_comm u v), (dot_comm u v'). now apply dot_Veq_l. Qed.

(* no condition on d: dot truncates *)
Lemma dot_vadd_l u v d : length u = length v -> dot (vadd u v) d == dot u d + dot v d.
Proof.
  revert v d; induction u as [|a u IH]; intros [|b v] [|c d] L; try discriminate; cbn [vadd dot]; try ring.
  rewrite IH by (cbn [length] in L; congruence). ring.
Qed.

Lemma dot_vscale_l c u d : dot (vscale c u) d == c * dot u d.
Proof.
  revert d; induction u as [|a u IH]; intros [|b d]; rewrite ?vscale_cons; cbn [vscale map dot]; try ring.
  rewrite IH. ring.
Qed.

Lemma dot_vscale_r c u d : dot u (vscale c d) == c * dot u d.
Proof. rewrite dot_comm, dot_vscale_l, dot_comm. reflexivity. Qed.

Lemma dot_allzero_l u d : Forall (fun g => g == 0) u -> dot u d == 0.
Proof.
  intros H; revert d; induction H as [|a u Ha Hu IH]; intros [|b d]; cbn [dot]; try reflexivity.
  rewrite Ha, IH. ring.
Qed.

Lemma zeros_allzero m : Forall (fun g => g == 0) (zeros m).
Proof. apply allzero_nth. intros j _. apply nth_zeros. Qed.

Lemma dot_zeros_l m d : dot (zeros m) d == 0.
Proof. apply dot_allzero_l, zeros_allzero. Qed.

Lemma dot_unit m j d : length d = m -> dot (unit m j) d == nth j d 0.
Proof.
  revert j d; induction m as [|m IH]; intros j [|b d] L; try discriminate.
  - destruct j; reflexivity.
  - destruct j as [|j]; cbn [unit dot nth].
    + rewrite dot_zeros_l. ring.
    + rewrite IH by (cbn [length] in L; congruence). ring.
Qed.

(* ------------------------------------------------------------------ components of grad / Avec *)
Fixpoint gcomp (i : nat) (D : list obs) (x : list Q) : Q :=
  match D with [] => 0 | o :: D' => let '(r, w, y) := o in w * resid x o * nth i r 0 + gcomp i D' x end.
Fixpoint acomp (i : nat) (D : list obs) (u : list Q) : Q :=
  match D with [] => 0 | o :: D' => let '(r, w, y) := o in w * dot r u * nth i r 0 + acomp i D' u end.

Lemma length_grad m D x : rows_len m D -> length (grad m D x) = m.
Proof.
  induction 1 as [|[[r w] y] D Hr HD IH]; cbn [grad].
  - apply length_zeros.
  - cbn [fst] in Hr. rewrite length_vred, length_vadd; rewrite length_vscale; congruence.
Qed.

Lemma length_Avec m D u : rows_len m D -> length (Avec m D u) = m.
Proof.
  induction 1 as [|[[r w] y] D Hr HD IH]; cbn [Avec].
  - apply length_zeros.
  - cbn [fst] in Hr. rewrite length_vred, length_vadd; rewrite length_vscale; congruence.
Qed.

Lemma nth_grad m D x i : rows_len m D -> nth i (grad m D x) 0 == gcomp i D x.
Proof.
  induction 1 as [|[[r w] y] D Hr HD IH]; cbn [grad gcomp].
  - apply nth_zeros.
  - cbn [fst] in Hr. rewrite nth_vred, nth_vadd, nth_vscale, IH; [reflexivity |].
    rewrite length_vscale, length_grad; auto.
Qed.

Lemma nth_Avec m D u i : rows_len m D -> nth i (Avec m D u) 0 == acomp i D u.
Proof.
  induction 1 as [|[[r w] y] D Hr HD IH]; cbn [Avec acomp].
  - apply nth_zeros.
  - cbn [fst] in Hr. rewrite nth_vred, nth_vadd, nth_vscale, IH; [reflexivity |].
    rewrite length_vscale, length_Avec; auto.
Qed.

Lemma wf_rows_len m D : wf m D -> rows_len m D.
Proof. apply Forall_impl. intros o [H _]; exact H. Qed.

(* ------------------------------------------------------------------ 1. gdot is the gradient contracted with d *)
Lemma gdot_grad_gen m D x d : rows_len m D -> gdot D x d == dot (grad m D x) d.
Proof.
  induction 1 as [|[[r w] y] D Hr HD IH]; cbn [grad gdot].
  - rewrite dot_zeros_l. reflexivity.
  - cbn [fst] in Hr. rewrite (dot_Veq_l _ _ d (vred_Veq _)).
    rewrite dot_vadd_l by (rewrite length_vscale, length_grad; auto).
    rewrite dot_vscale_l, IH. reflexivity.
Qed.

Theorem gdot_grad m D x d : rows_len m D -> length d = m -> gdot D x d == dot (grad m D x) d.
Proof. intros H _. now apply gdot_grad_gen. Qed.

(* ------------------------------------------------------------------ 2. the quadratic form of A = sum w r r^T *)
Fixpoint qform (D : list obs) (u d : list Q) : Q :=
  match D with [] => 0 | (r, w, y) :: D' => w * dot r u * dot r d + qform D' u d end.

Lemma qform_sym D u d : qform D u d == qform D d u.
Proof. induction D as [|[[r w] y] D IH]; cbn [qform]; [reflexivity | rewrite IH; ring]. Qed.

(* no condition on the length of u or d *)
Lemma qform_Avec_gen m D u d : rows_len m D -> qform D u d == dot (Avec m D u) d.
Proof.
  induction 1 as [|[[r w] y] D Hr HD IH]; cbn [Avec qform].
  - rewrite dot_zeros_l. reflexivity.
  - cbn [fst] in Hr. rewrite (dot_Veq_l _ _ d (vred_Veq _)).
    rewrite dot_vadd_l by (rewrite length_vscale, length_Avec; auto).
    rewrite dot_vscale_l, IH. reflexivity.
Qed.

Theorem Avec_quadratic_sym m D u d :
  qform D u d == qform D d u /\
  (rows_len m D -> length d = m -> qform D u d == dot (Avec m D u) d).
Proof. split; [apply qform_sym | intros H _; now apply qform_Avec_gen]. Qed.

(* ------------------------------------------------------------------ 3. grad is affine with linear part A *)
Lemma gcomp_vadd m D x d i : rows_len m D -> length x = m -> length d = m ->
  gcomp i D (vadd x d) == gcomp i D x + acomp i D d.
Proof.
  intros HD Hx Hd. induction HD as [|[[r w] y] D Hr HD IH]; cbn [gcomp acomp resid].
  - ring.
  - cbn [fst] in Hr. rewrite IH, (dot_vadd r x d) by congruence. ring.
Qed.

Theorem grad_vadd m D x d : rows_len m D -> length x = m -> length d = m ->
  Forall2 Qeq (grad m D (vadd x d)) (vadd (grad m D x) (Avec m D d)).
Proof.
  intros HD Hx Hd. apply nth_Veq.
  - rewrite length_vadd; rewrite !length_grad by auto; [reflexivity |]. now rewrite length_Avec.
  - intro i. rewrite nth_vadd by (rewrite length_grad, length_Avec; auto).
    rewrite !(nth_grad m), (nth_Avec m) by auto. now apply (gcomp_vadd m).
Qed.

(* ------------------------------------------------------------------ 4. the checks of fit_dense *)
Lemma veq_bool_Veq u v : veq_bool u v = true -> Veq u v.
Proof.
  unfold veq_bool. revert v; induction u as [|a u IH]; intros [|b v] H; cbn [all2] in H;
    try discriminate; constructor; apply andb_true_iff in H; destruct H as [H1 H2].
  - now apply Qeq_bool_iff.
  - now apply IH.
Qed.

Lemma all_zero_Forall u : all_zero u = true -> Forall (fun g => g == 0) u.
Proof.
  unfold all_zero. intros H. apply Forall_forall. intros a Ha.
  apply Qeq_bool_iff. revert a Ha. now apply forallb_forall.
Qed.

Definition has_inverse (m : nat) (D : list obs) :=
  exists Binv : list (list Q), length Binv = m /\
    forall j, (j < m)%nat -> Forall2 Qeq (Avec m D (nth j Binv [])) (unit m j).

Theorem fit_dense_sound m D x : fit_dense m D = Some x ->
  length x = m /\ Forall (fun g => g == 0) (grad m D x) /\
  (exists Binv : list (list Q), length Binv = m /\
     forall j, (j < m)%nat -> Forall2 Qeq (Avec m D (nth j Binv [])) (unit m j)).
Proof.
  unfold fit_dense. destruct (gj_inverse m (normal_matrix m D)) as [Binv|]; [| discriminate].
  destruct ((length Binv =? m)%nat &&
            forallb (fun j => veq_bool (Avec m D (nth j Binv [])) (unit m j)) (seq 0 m)) eqn:E1;
    [| discriminate].
  cbv zeta.
  destruct ((length (matvec Binv (rhs m D)) =? m)%nat &&
            all_zero (grad m D (matvec Binv (rhs m D)))) eqn:E2; [| discriminate].
  intros H; injection H as <-.
  apply andb_true_iff in E1; destruct E1 as [L1 C1].
  apply andb_true_iff in E2; destruct E2 as [L2 C2].
  apply Nat.eqb_eq in L1, L2.
  split; [exact L2 |]. split; [now apply all_zero_Forall |].
  exists Binv. split; [exact L1 |]. intros j Hj.
  apply veq_bool_Veq. rewrite forallb_forall in C1. apply C1. apply in_seq. lia.
Qed.

Lemma solve_checked_sound m D x0 x : solve_checked m D x0 = Some x ->
  length x = m /\ Forall (fun g => g == 0) (grad m D x).
Proof.
  unfold solve_checked.
  destruct ((length x0 =? m)%nat && all_zero (grad m D x0)) eqn:E; [| discriminate].
  intros H; injection H as <-.
  apply andb_true_iff in E; destruct E as [L C]. apply Nat.eqb_eq in L.
  split; [exact L | now apply all_zero_Forall].
Qed.

(* ------------------------------------------------------------------ 5. optimality *)
Lemma chi2_Veq D x x' : Veq x x' -> chi2 D x == chi2 D x'.
Proof.
  intros H. induction D as [|[[r w] y] D IH]; cbn [chi2 resid]; [reflexivity |].
  rewrite IH, (dot_Veq_r r x x' H). reflexivity.
Qed.

Lemma vadd_vsub x z : length z = length x -> Veq (vadd x (vsub z x)) z.
Proof.
  intros L. apply nth_Veq.
  - rewrite length_vadd; rewrite ?length_vsub; auto.
  - intro i. rewrite nth_vadd by (rewrite length_vsub; auto).
    unfold vsub. rewrite nth_vadd by (rewrite length_vscale; auto). rewrite nth_vscale. ring.
Qed.

Lemma grad_zero_optimal m D x : wf m D -> length x = m -> Forall (fun g => g == 0) (grad m D x) ->
  forall z, length z = m -> chi2 D x <= chi2 D z.
Proof.
  intros HD Hx Hg z Hz.
  rewrite <- (chi2_Veq D _ _ (vadd_vsub x z ltac:(congruence))).
  apply (normal_eq_optimal m); auto.
  - intros d Hd. rewrite (gdot_grad m D x d (wf_rows_len _ _ HD) Hd). now apply dot_allzero_l.
  - rewrite length_vsub; congruence.
Qed.

Theorem fit_optimal m D x : wf m D -> fit_dense m D = Some x ->
  forall z, length z = m -> chi2 D x <= chi2 D z.
Proof.
  intros HD Hf. destruct (fit_dense_sound _ _ _ Hf) as [Hx [Hg _]]. now apply (grad_zero_optimal m).
Qed.

Theorem solve_checked_optimal m D x0 x : wf m D -> solve_checked m D x0 = Some x ->
  forall z, length z = m -> chi2 D x <= chi2 D z.
Proof.
  intros HD Hf. destruct (solve_checked_sound _ _ _ _ Hf) as [Hx Hg]. now apply (grad_zero_optimal m).
Qed.

(* ------------------------------------------------------------------ 6. a right inverse makes A injective *)
Theorem Avec_injective m D d : rows_len m D ->
  (exists Binv : list (list Q), length Binv = m /\
     forall j, (j < m)%nat -> Forall2 Qeq (Avec m D (nth j Binv [])) (unit m j)) ->
  length d = m -> Forall (fun g => g == 0) (Avec m D d) -> Forall (fun a => a == 0) d.
Proof.
  intros HD [Binv [_ HB]] Hd Hz. apply allzero_nth. intros j Hj. rewrite Hd in Hj.
  rewrite <- (dot_unit m j d Hd).
  rewrite <- (dot_Veq_l _ _ d (HB j Hj)).
  rewrite <- (qform_Avec_gen m D _ d HD), qform_sym, (qform_Avec_gen m D d _ HD).
  now apply dot_allzero_l.
Qed.

(* ------------------------------------------------------------------ 7. uniqueness *)
Lemma gcomp_Veq i D x x' : Veq x x' -> gcomp i D x == gcomp i D x'.
Proof.
  intros H. induction D as [|[[r w] y] D IH]; cbn [gcomp resid]; [reflexivity |].
  rewrite IH, (dot_Veq_r r x x' H). reflexivity.
Qed.

Lemma grad_Veq m D x x' : rows_len m D -> Veq x x' -> Veq (grad m D x) (grad m D x').
Proof.
  intros HD H. apply nth_Veq.
  - now rewrite !length_grad.
  - intro i. rewrite !(nth_grad m) by auto. now apply gcomp_Veq.
Qed.

Lemma grad_zero_unique m D x z : rows_len m D -> has_inverse m D ->
  length x = m -> Forall (fun g => g == 0) (grad m D x) ->
  length z = m -> Forall (fun g => g == 0) (grad m D z) -> Forall2 Qeq z x.
Proof.
  intros HD HB Hx Hgx Hz Hgz.
  assert (Ld : length (vsub z x) = m) by (rewrite length_vsub; congruence).
  assert (Hd : Forall (fun a => a == 0) (vsub z x)).
  { apply (Avec_injective m D); auto.
    apply allzero_nth. intros i _.
    pose proof (Veq_nth _ _ (grad_vadd m D x (vsub z x) HD Hx Ld) i) as E.
    rewrite nth_vadd in E by (rewrite length_grad, length_Avec; auto).
    rewrite (Veq_nth _ _ (grad_Veq m D _ _ HD (vadd_vsub x z ltac:(congruence))) i) in E.
    rewrite (nth_allzero _ Hgz i), (nth_allzero _ Hgx i) in E.
    lra. }
  apply nth_Veq; [congruence |]. intro i.
  pose proof (nth_allzero _ Hd i) as E. unfold vsub in E.
  rewrite nth_vadd in E by (rewrite length_vscale; congruence). rewrite nth_vscale in E.
  lra.
Qed.

Theorem fit_unique m D x z : rows_len m D -> fit_dense m D = Some x ->
  length z = m -> Forall (fun g => g == 0) (grad m D z) -> Forall2 Qeq z x.
Proof.
  intros HD Hf Hz Hgz. destruct (fit_dense_sound _ _ _ Hf) as [Hx [Hgx HB]].
  now apply (grad_zero_unique m D).
Qed.

(* ------------------------------------------------------------------ 8. data given as rows / weights / y *)
Lemma rows_len_mk_obs m rows ws ys :
  Forall (fun r : list Q => length r = m) rows -> rows_len m (mk_obs rows ws ys).
Proof.
  intros H; revert ws ys; induction H as [|r rows Hr H IH]; intros ws ys; [constructor |].
  destruct ws as [|w ws]; [constructor |]. destruct ys as [|y ys]; [constructor |].
  cbn [mk_obs]. constructor; [exact Hr | apply IH].
Qed.

Lemma grad_zero_of_gcomp m D x : rows_len m D -> (forall i, gcomp i D x == 0) ->
  Forall (fun g => g == 0) (grad m D x).
Proof. intros HD H. apply allzero_nth. intros i _. rewrite (nth_grad m) by auto. apply H. Qed.

Lemma gcomp_zero_of_grad m D x i : rows_len m D -> Forall (fun g => g == 0) (grad m D x) ->
  gcomp i D x == 0.
Proof. intros HD H. rewrite <- (nth_grad m) by auto. now apply nth_allzero. Qed.

Lemma gcomp_linear m rows i a b x1 x2 :
  Forall (fun r : list Q => length r = m) rows -> length x1 = m -> length x2 = m ->
  forall ws y1 y2, length y1 = length y2 ->
  gcomp i (mk_obs rows ws (vadd (vscale a y1) (vscale b y2))) (vadd (vscale a x1) (vscale b x2))
  == a * gcomp i (mk_obs rows ws y1) x1 + b * gcomp i (mk_obs rows ws y2) x2.
Proof.
  intros H Hx1 Hx2. induction H as [|r rows Hr H IH]; intros ws y1 y2 L.
  - cbn [mk_obs gcomp]. ring.
  - destruct ws as [|w ws]; [cbn [mk_obs gcomp]; ring |].
    destruct y1 as [|q1 y1]; destruct y2 as [|q2 y2]; try discriminate.
    + cbn [vscale map vadd mk_obs gcomp]. ring.
    + rewrite !vscale_cons. cbn [vadd mk_obs gcomp resid].
      rewrite IH by (cbn [length] in L; congruence).
      rewrite dot_vadd by (rewrite !length_vscale; congruence).
      rewrite !dot_vscale_r. ring.
Qed.

(* lengths needed: every row has length m, and y1, y2 have the same length (mk_obs truncates to the
   shortest of rows / ws / ys, so nothing is needed about ws) *)
Theorem fit_linear_in_y m rows ws y1 y2 a b x1 x2 x3 :
  Forall (fun r : list Q => length r = m) rows -> length y1 = length y2 ->
  fit_dense m (mk_obs rows ws y1) = Some x1 ->
  fit_dense m (mk_obs rows ws y2) = Some x2 ->
  fit_dense m (mk_obs rows ws (vadd (vscale a y1) (vscale b y2))) = Some x3 ->
  Forall2 Qeq x3 (vadd (vscale a x1) (vscale b x2)).
Proof.
  intros Hr L F1 F2 F3.
  destruct (fit_dense_sound _ _ _ F1) as [Hx1 [Hg1 _]].
  destruct (fit_dense_sound _ _ _ F2) as [Hx2 [Hg2 _]].
  apply Veq_sym. apply (fit_unique m _ _ _ (rows_len_mk_obs m _ _ _ Hr) F3).
  - rewrite length_vadd; rewrite !length_vscale; congruence.
  - apply grad_zero_of_gcomp; [now apply rows_len_mk_obs |]. intro i.
    rewrite (gcomp_linear m) by auto.
    rewrite (gcomp_zero_of_grad m _ x1 i (rows_len_mk_obs m _ _ _ Hr) Hg1).
    rewrite (gcomp_zero_of_grad m _ x2 i (rows_len_mk_obs m _ _ _ Hr) Hg2). ring.
Qed.

Lemma gcomp_zero_weight rows i x :
  forall ws y1 y2, length y1 = length y2 ->
  (forall k, nth k ws 0 == 0 \/ nth k y1 0 == nth k y2 0) ->
  gcomp i (mk_obs rows ws y1) x == gcomp i (mk_obs rows ws y2) x.
Proof.
  induction rows as [|r rows IH]; intros ws y1 y2 L H; [reflexivity |].
  destruct ws as [|w ws]; [reflexivity |].
  destruct y1 as [|q1 y1]; destruct y2 as [|q2 y2]; try discriminate; [reflexivity |].
  cbn [mk_obs gcomp resid].
  rewrite (IH ws y1 y2) by (cbn [length] in L; try congruence; intro k; apply (H (S k))).
  destruct (H O) as [E | E]; cbn [nth] in E; rewrite E; ring.
Qed.

(* pointwise hypothesis phrased with nth (default 0), as in the request *)
Theorem fit_ignores_zero_weight_y m rows ws y1 y2 x1 x2 :
  Forall (fun r : list Q => length r = m) rows -> length y1 = length y2 ->
  (forall i, nth i ws 0 == 0 \/ nth i y1 0 == nth i y2 0) ->
  fit_dense m (mk_obs rows ws y1) = Some x1 ->
  fit_dense m (mk_obs rows ws y2) = Some x2 ->
  Forall2 Qeq x1 x2.
Proof.
  intros Hr L H F1 F2.
  destruct (fit_dense_sound _ _ _ F1) as [Hx1 [Hg1 _]].
  apply (fit_unique m _ _ _ (rows_len_mk_obs m _ _ _ Hr) F2 Hx1).
  apply grad_zero_of_gcomp; [now apply rows_len_mk_obs |]. intro i.
  rewrite <- (gcomp_zero_weight rows i x1 ws y1 y2 L H).
  now apply (gcomp_zero_of_grad m _ x1 i (rows_len_mk_obs m _ _ _ Hr)).
Qed.

Lemma gcomp_exact rows i c :
  forall ws ys, Veq ys (map (fun r => dot r c) rows) -> gcomp i (mk_obs rows ws ys) c == 0.
Proof.
  induction rows as [|r rows IH]; intros ws ys H; [reflexivity |].
  destruct ws as [|w ws]; [reflexivity |].
  cbn [map] in H. inversion H as [|q q' ys' t Hq Hys]; subst.
  cbn [mk_obs gcomp resid]. rewrite (IH ws ys' Hys), Hq. ring.
Qed.

(* the data hypothesis is pointwise ==; ys = map ... is the special case Veq_refl *)
Theorem fit_exact_recovery m rows ws ys c x :
  Forall (fun r : list Q => length r = m) rows -> length c = m ->
  Forall2 Qeq ys (map (fun r => dot r c) rows) ->
  fit_dense m (mk_obs rows ws ys) = Some x ->
  Forall2 Qeq x c.
Proof.
  intros Hr Hc Hy F. apply Veq_sym.
  apply (fit_unique m _ _ _ (rows_len_mk_obs m _ _ _ Hr) F Hc).
  apply grad_zero_of_gcomp; [now apply rows_len_mk_obs |]. intro i. now apply gcomp_exact.
Qed.

Corollary fit_exact_recovery_eq m rows ws c x :
  Forall (fun r : list Q => length r = m) rows -> length c = m ->
  fit_dense m (mk_obs rows ws (map (fun r => dot r c) rows)) = Some x ->
  Forall2 Qeq x c.
Proof. intros Hr Hc F. apply (fit_exact_recovery m rows ws _ c x Hr Hc (Veq_refl _) F). Qed.

(* ------------------------------------------------------------------ 9. zero diagonal => zero weighted column *)
Lemma acomp_unit_nonneg m D j : wf m D -> 0 <= acomp j D (unit m j).
Proof.
  induction 1 as [|[[r w] y] D [Hr Hw] HD IH]; cbn [acomp]; [lra |].
  cbn [fst snd] in Hr, Hw.
  rewrite dot_comm, (dot_unit m j r Hr).
  assert (0 <= w * nth j r 0 * nth j r 0).
  { rewrite <- Qmult_assoc. apply Qmult_le_0_compat; [exact Hw |]. generalize (nth j r 0); intro t. nra. }
  lra.
Qed.

Theorem zero_diagonal_singular m D j : wf m D -> (j < m)%nat ->
  nth j (Avec m D (unit m j)) 0 == 0 ->
  Forall (fun o : obs => let '(r, w, y) := o in w * (nth j r 0 * nth j r 0) == 0) D.
Proof.
  intros HD _ H. rewrite (nth_Avec m) in H by now apply wf_rows_len.
  induction HD as [|[[r w] y] D [Hr Hw] HD IH]; [constructor |].
  cbn [fst snd] in Hr, Hw. cbn [acomp] in H.
  rewrite dot_comm, (dot_unit m j r Hr) in H.
  pose proof (acomp_unit_nonneg m D j HD) as P.
  assert (0 <= w * (nth j r 0 * nth j r 0)) as T.
  { apply Qmult_le_0_compat; [exact Hw |]. generalize (nth j r 0); intro t. nra. }
  constructor.
  - lra.
  - apply IH. lra.
Qed.

Print Assumptions fit_optimal.
Print Assumptions fit_unique.
Print Assumptions fit_linear_in_y.
Print Assumptions fit_ignores_zero_weight_y.
Print Assumptions fit_exact_recovery.
Print Assumptions zero_diagonal_singular.
