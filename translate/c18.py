"""C18 extractor (fail-closed):

  pydl/goddard/astro.py   gcirc            -> coq/Generated/Gcirc.v
  pydl/pydlutils/coord.py munu_to_radec, radec_to_munu, stripe_to_eta, stripe_to_incl
  pydl/pydlutils/mangle.py angles_to_x, x_to_angles            -> coq/Generated/Coord.v

It also holds the small *real-expression* translator (`rexpr`) that C19's
extractor re-uses: Python float expressions over + - * / ** (small integer
exponent), unary minus, float literals (taken as the exact decimal rational
that `repr` prints) and the numpy calls sin, cos, sqrt, arcsin, arccos,
arctan2, deg2rad/radians, rad2deg/degrees are rewritten to Gallina terms over
R (Coq Reals) or over Q (no calls allowed).  Anything else raises
Unrecognised; the caller then keeps the previous generated file and reports
recognised: false.
"""
import ast
import fractions
import os

from .pyexpr import Unrecognised, find_function


# ----------------------------------------------------------------------------
# generic real-expression translator
# ----------------------------------------------------------------------------

def frac_of_const(v):
    if isinstance(v, bool):
        raise Unrecognised('bool constant')
    if isinstance(v, int):
        return fractions.Fraction(v)
    if isinstance(v, float):
        if v != v or v in (float('inf'), float('-inf')):
            raise Unrecognised('non-finite constant')
        return fractions.Fraction(repr(v))      # the decimal text of the literal, exactly
    raise Unrecognised('constant %r' % (v,))


def lit(fr, mode):
    fr = fractions.Fraction(fr)
    n, d = fr.numerator, fr.denominator
    if mode == 'Q':
        return '(%s # %d)' % (('(%d)' % n) if n < 0 else str(n), d)
    s = str(n) if n >= 0 else '(-%d)' % (-n)
    return s if d == 1 else '(%s / %d)' % (s, d)


NP_FUNCS_R = {
    'sin': 'sin', 'cos': 'cos', 'sqrt': 'sqrt', 'arcsin': 'asin', 'arccos': 'acos',
}


def call_name(f):
    """np.sin -> 'sin' ; sin -> 'sin'"""
    if isinstance(f, ast.Attribute) and isinstance(f.value, ast.Name) and f.value.id in ('np', 'numpy'):
        return f.attr
    if isinstance(f, ast.Name):
        return f.id
    return None


def rexpr(node, env, mode='R', hooks=None):
    """Translate a Python arithmetic expression.  env: python name -> Gallina text.
    hooks: optional function(node) -> text or None, tried first (for idioms such as
    `X.to(u.radian).value`)."""
    if hooks is not None:
        t = hooks(node)
        if t is not None:
            return t
    if isinstance(node, ast.Constant):
        return lit(frac_of_const(node.value), mode)
    if isinstance(node, ast.Name):
        if node.id in env:
            return env[node.id]
        raise Unrecognised('free name %s' % node.id)
    if isinstance(node, ast.UnaryOp) and isinstance(node.op, ast.USub):
        return '(- %s)' % rexpr(node.operand, env, mode, hooks)
    if isinstance(node, ast.UnaryOp) and isinstance(node.op, ast.UAdd):
        return rexpr(node.operand, env, mode, hooks)
    if isinstance(node, ast.BinOp):
        if isinstance(node.op, ast.Pow):
            if not (isinstance(node.right, ast.Constant) and isinstance(node.right.value, int)
                    and not isinstance(node.right.value, bool) and 1 <= node.right.value <= 4):
                raise Unrecognised('power with non-literal or large exponent')
            b = rexpr(node.left, env, mode, hooks)
            return '(' + ' * '.join([b] * node.right.value) + ')'
        ops = {ast.Add: '+', ast.Sub: '-', ast.Mult: '*', ast.Div: '/'}
        op = ops.get(type(node.op))
        if op is None:
            raise Unrecognised('operator %s' % type(node.op).__name__)
        return '(%s %s %s)' % (rexpr(node.left, env, mode, hooks), op, rexpr(node.right, env, mode, hooks))
    if isinstance(node, ast.Call) and not node.keywords:
        nm = call_name(node.func)
        if mode != 'R':
            raise Unrecognised('call %s in a rational expression' % nm)
        if nm in NP_FUNCS_R and len(node.args) == 1:
            return '(%s %s)' % (NP_FUNCS_R[nm], rexpr(node.args[0], env, mode, hooks))
        if nm in ('deg2rad', 'radians') and len(node.args) == 1:
            return '(%s * PI / 180)' % rexpr(node.args[0], env, mode, hooks)
        if nm in ('rad2deg', 'degrees') and len(node.args) == 1:
            return '(%s * 180 / PI)' % rexpr(node.args[0], env, mode, hooks)
        # guards against rounding: np.minimum / np.maximum / np.clip(x, lo, hi) are Rmin / Rmax over the reals (the theorems
        # then have to show that the guard is the identity on the exact value)
        if nm in ('minimum', 'maximum') and len(node.args) == 2:
            return '(%s %s %s)' % ('Rmin' if nm == 'minimum' else 'Rmax', rexpr(node.args[0], env, mode, hooks),
                                   rexpr(node.args[1], env, mode, hooks))
        if nm == 'clip' and len(node.args) == 3:
            return '(Rmax %s (Rmin %s %s))' % (rexpr(node.args[1], env, mode, hooks), rexpr(node.args[0], env, mode, hooks),
                                               rexpr(node.args[2], env, mode, hooks))
        if nm == 'arctan2' and len(node.args) == 2:
            if 'arctan2' not in env:
                raise Unrecognised('arctan2 not expected here')
            return '(%s %s %s)' % (env['arctan2'], rexpr(node.args[0], env, mode, hooks),
                                   rexpr(node.args[1], env, mode, hooks))
        raise Unrecognised('call %s' % nm)
    raise Unrecognised('node %s' % type(node).__name__)


class UnmodelledPath(Unrecognised):
    """the function has a code path that the generated model would not describe: a branch on the TYPE / shape of an argument, or a
    return that hands the call over to another function.  Still `Unrecognised` for every caller (C05 re-uses gen_gcirc), but
    `generate` lists it separately (info['unmodelled_paths']) and the C18 check reports it instead of silently keeping the old file."""


TYPE_TESTS = {'isinstance', 'issubclass', 'type', 'isscalar', 'ndim', 'hasattr', 'callable', 'iterable', 'issubdtype', 'shape', 'size',
              'result_type', 'can_cast', 'isrealobj', 'iscomplexobj', 'is_float', 'is_integer'}
TYPE_ATTRS = {'ndim', 'shape', 'size', 'dtype', '__class__', '__len__', '__iter__', 'flags', 'strides'}


def type_test_in(test):
    """does the expression look at the type / shape / storage of a value?  -> the name found, or None"""
    for n in ast.walk(test):
        if isinstance(n, ast.Call):
            nm = call_name(n.func) or (n.func.attr if isinstance(n.func, ast.Attribute) else None)
            if nm in TYPE_TESTS:
                return nm
        if isinstance(n, ast.Attribute) and n.attr in TYPE_ATTRS:
            return '.' + n.attr
    return None


def own_call_in(node, module_funcs):
    """a call of another function of the same module (or of a bare name that is not a builtin) inside `node` -> its name"""
    for n in ast.walk(node):
        if isinstance(n, ast.Call) and isinstance(n.func, ast.Name):
            if n.func.id in module_funcs or n.func.id.startswith('_'):
                return n.func.id
    return None


def module_functions(tree):
    return {n.name for n in tree.body if isinstance(n, (ast.FunctionDef, ast.AsyncFunctionDef))}


def reject_unmodelled_paths(fn, module_funcs, allowed_ifs=(), allowed_calls=()):
    """fail closed on everything that splits the calls of `fn` into several code paths by the type of the arguments:
       * an if / conditional expression / while / assert / match whose test inspects a type, shape or dtype (except the `allowed_ifs`,
         statements the extractor models explicitly);
       * a try statement (the path depends on whether an operation on the argument raises);
       * a return or an assignment that calls another function of the module (the arithmetic is then somewhere else), except
         `allowed_calls` (calls the extractor follows);
       * nested function definitions / lambdas."""
    for n in ast.walk(fn):
        if n is fn:
            continue
        if isinstance(n, (ast.If, ast.IfExp, ast.While, ast.Assert)) and n not in allowed_ifs:
            what = type_test_in(n.test)
            if what:
                raise UnmodelledPath('%s: line %d branches on the type/shape of an argument (%s): the generated model describes one path only'
                                     % (fn.name, n.lineno, what))
        if isinstance(n, (ast.Try, ast.FunctionDef, ast.Lambda, ast.AsyncFunctionDef)) or type(n).__name__ in ('Match', 'TryStar'):
            raise UnmodelledPath('%s: line %d %s statement: code path depends on more than the values' % (fn.name, n.lineno, type(n).__name__))
        if isinstance(n, (ast.Return, ast.Assign, ast.AugAssign, ast.Expr)) and getattr(n, 'value', None) is not None:
            nm = own_call_in(n.value, module_funcs - {fn.name})
            if nm and nm not in allowed_calls:
                raise UnmodelledPath('%s: line %d hands the computation over to %s(), which is not translated' % (fn.name, n.lineno, nm))
            if nm is None and own_call_in(n.value, {fn.name}):
                raise UnmodelledPath('%s: line %d calls itself' % (fn.name, n.lineno))


def only_statements(fn, ok, what):
    """every statement of the body (docstring apart) must be one the extractor models; anything else is an unrecognised shape,
    not silently skipped"""
    for st in fn.body:
        if isinstance(st, ast.Expr) and isinstance(st.value, ast.Constant) and isinstance(st.value.value, str):
            continue
        if not ok(st):
            raise Unrecognised('%s: statement at line %d (%s) is not part of the recognised shape of %s'
                               % (fn.name, st.lineno, type(st).__name__, what))


def simple_assigns(stmts):
    """[(name, value_node, lineno)] for top-level `name = expr` statements; other statements are skipped."""
    out = []
    for st in stmts:
        if isinstance(st, ast.Assign) and len(st.targets) == 1 and isinstance(st.targets[0], ast.Name):
            out.append((st.targets[0].id, st.value, st.lineno))
    return out


def names_in(node):
    return {n.id for n in ast.walk(node) if isinstance(n, ast.Name)}


def let_chain(assigns, env0, result, mode='R', hooks=None):
    """Gallina `let x := e in ... result` from an ordered list of (name, node)."""
    env = dict(env0)
    lets = []
    for name, node in assigns:
        lets.append('let %s := %s in' % (name, rexpr(node, env, mode, hooks)))
        env[name] = name
    return '\n  '.join(lets + [result])


# ----------------------------------------------------------------------------
# gcirc
# ----------------------------------------------------------------------------

GC_ARGS = ['ra1', 'dec1', 'ra2', 'dec2']


def units_test(test):
    """`units == k` -> k"""
    if isinstance(test, ast.Compare) and len(test.ops) == 1 and isinstance(test.ops[0], ast.Eq) \
            and isinstance(test.left, ast.Name) and test.left.id == 'units' \
            and isinstance(test.comparators[0], ast.Constant) and isinstance(test.comparators[0].value, int):
        return test.comparators[0].value
    raise Unrecognised('units test')


def gen_gcirc(src):
    """Two source shapes are recognised, both of the form
         if units == k: <four assignments from ra1, dec1, ra2, dec2> ... else: raise
         <straight-line assignments ending in dis = ...>
         if units == 0: return dis else: return <expr in dis>
       The four names assigned in the branches are free (rarad1, dcrad1, rarad2, dcrad2 in the original; dcrad1, dcrad2,
       deldec, delra when the differences are taken before the conversion to radians); they must be the same names, in the
       same order, in every branch."""
    tree = ast.parse(src)
    fn = find_function(tree, 'gcirc')
    if [a.arg for a in fn.args.args] != GC_ARGS + ['units']:
        raise Unrecognised('gcirc signature')
    reject_unmodelled_paths(fn, module_functions(tree))
    default_units = fn.args.defaults[-1].value if fn.args.defaults else None
    body = [s for s in fn.body if not (isinstance(s, ast.Expr) and isinstance(s.value, ast.Constant))]
    # a leading  ra1, dec1, ra2, dec2 = [np.asanyarray(c, dtype=np.float64) for c in (ra1, dec1, ra2, dec2)]  changes the
    # storage type only (the identity on the real numbers): recognised and skipped
    def is_storage_cast(st):
        if not (isinstance(st, ast.Assign) and len(st.targets) == 1 and isinstance(st.targets[0], ast.Tuple)
                and [getattr(e, 'id', None) for e in st.targets[0].elts] == GC_ARGS):
            return False
        v = st.value
        if isinstance(v, (ast.ListComp, ast.GeneratorExp)) and len(v.generators) == 1:
            g = v.generators[0]
            if isinstance(g.iter, ast.Tuple) and [getattr(e, 'id', None) for e in g.iter.elts] == GC_ARGS \
                    and isinstance(g.target, ast.Name) and not g.ifs and isinstance(v.elt, ast.Call) \
                    and call_name(v.elt.func) in ('asanyarray', 'asarray') and len(v.elt.args) == 1 \
                    and isinstance(v.elt.args[0], ast.Name) and v.elt.args[0].id == g.target.id:
                kw = {k.arg: k.value for k in v.elt.keywords}
                if set(kw) <= {'dtype'} and (not kw or (isinstance(kw['dtype'], ast.Attribute) and kw['dtype'].attr in ('float64', 'double'))
                                             or (isinstance(kw['dtype'], ast.Name) and kw['dtype'].id == 'float')):
                    return True
        raise Unrecognised('gcirc: unexpected re-assignment of the arguments')
    storage_cast = bool(body) and is_storage_cast(body[0])
    if storage_cast:
        body = body[1:]
    if not (len(body) >= 3 and isinstance(body[0], ast.If) and isinstance(body[-1], ast.If)):
        raise Unrecognised('gcirc body shape')
    # --- input conversion chain
    branches = []
    inner = None
    node = body[0]
    while True:
        k = units_test(node.test)
        asg = simple_assigns(node.body)
        names = [a[0] for a in asg]
        if len(asg) != len(node.body) or len(names) != 4 or len(set(names)) != 4 or set(names) & set(GC_ARGS + ['units']):
            raise Unrecognised('gcirc units branch %d' % k)
        if inner is None:
            inner = names
        elif names != inner:
            raise Unrecognised('gcirc units branch %d assigns %s, expected %s' % (k, names, inner))
        env = {a: a for a in GC_ARGS}
        branches.append((k, [rexpr(v, env) for _, v, _ in asg]))
        if len(node.orelse) == 1 and isinstance(node.orelse[0], ast.If):
            node = node.orelse[0]
            continue
        if not (len(node.orelse) == 1 and isinstance(node.orelse[0], ast.Raise)):
            raise Unrecognised('gcirc: final else must raise')
        break
    # --- straight-line part
    mid = body[1:-1]
    asg = simple_assigns(mid)
    if len(asg) != len(mid) or not asg or asg[-1][0] != 'dis':
        raise Unrecognised('gcirc middle part')
    env = {a: a for a in inner}
    chain = let_chain([(n, v) for n, v, _ in asg], env, 'dis')
    # sindis^2 (argument of the sqrt) as its own definition when sindis = np.sqrt(e)
    sq = None
    pre = []
    for n, v, _ in asg:
        if n == 'sindis':
            if not (isinstance(v, ast.Call) and call_name(v.func) == 'sqrt' and len(v.args) == 1):
                raise Unrecognised('sindis is not np.sqrt(...)')
            env2 = dict(env)
            env2.update({m: m for m, _ in pre})
            sq = let_chain(pre, env, rexpr(v.args[0], env2))
            break
        pre.append((n, v))
    if sq is None:
        raise Unrecognised('no sindis')
    # --- output conversion
    last = body[-1]
    k0 = units_test(last.test)
    if not (len(last.body) == 1 and isinstance(last.body[0], ast.Return) and len(last.orelse) == 1
            and isinstance(last.orelse[0], ast.Return)):
        raise Unrecognised('gcirc return shape')
    out_then = rexpr(last.body[0].value, {'dis': 'dis'})
    out_else = rexpr(last.orelse[0].value, {'dis': 'dis'})

    def tup(l):
        return '(' + ', '.join(l) + ')'
    conv = ''
    for k, exprs in branches:
        conv += 'if (units =? %d)%%Z then %s\n  else ' % (k, tup(exprs))
    conv += '(0, 0, 0, 0)'
    params = ' '.join(inner)
    out = ['(* GENERATED by translate/c18.py from pydl/goddard/astro.py (gcirc, line %d) -- do not edit *)' % fn.lineno,
           'From Coq Require Import Reals ZArith List.', 'Import ListNotations.', 'Open Scope R_scope.', '',
           'Definition gcirc_valid_units : list Z := %s.' % ('[' + '; '.join('%d%%Z' % k for k, _ in branches) + ']'),
           'Definition gcirc_default_units : Z := %s%%Z.' % (default_units if isinstance(default_units, int) else '(-1)'),
           'Definition gcirc_casts_input_to_float64 : bool := %s.' % ('true' if storage_cast else 'false'),
           '',
           '(* input conversion: %s; an invalid `units` raises ValueError in the source *)' % tup(inner),
           'Definition gcirc_in (units : Z) (ra1 dec1 ra2 dec2 : R) : R * R * R * R :=\n  %s.' % conv,
           '',
           '(* argument of the square root *)',
           'Definition gcirc_sindis2 (%s : R) : R :=\n  %s.' % (params, sq),
           '',
           'Definition gcirc_dis (%s : R) : R :=\n  %s.' % (params, chain),
           '',
           'Definition gcirc_out (units : Z) (dis : R) : R :=\n  if (units =? %d)%%Z then %s else %s.' % (k0, out_then, out_else),
           '',
           '(* the square-root argument and the result as functions of the caller\'s arguments *)',
           'Definition gcirc_h (units : Z) (ra1 dec1 ra2 dec2 : R) : R :=\n'
           '  let \'(p1, p2, p3, p4) := gcirc_in units ra1 dec1 ra2 dec2 in gcirc_sindis2 p1 p2 p3 p4.',
           'Definition gcirc_gen (units : Z) (ra1 dec1 ra2 dec2 : R) : R :=\n'
           '  let \'(p1, p2, p3, p4) := gcirc_in units ra1 dec1 ra2 dec2 in gcirc_out units (gcirc_dis p1 p2 p3 p4).',
           '']
    return '\n'.join(out)


# ----------------------------------------------------------------------------
# coord.py
# ----------------------------------------------------------------------------

def angle_hook(objs):
    """Recognise  X.to(u.radian).value  where X is built from attributes obj.attr (obj in objs) by + and -;
    returns the Gallina text for X with obj.attr -> attr."""
    def attr_expr(n):
        if isinstance(n, ast.Attribute) and isinstance(n.value, ast.Name) and n.value.id in objs:
            return n.attr
        if isinstance(n, ast.BinOp) and isinstance(n.op, (ast.Add, ast.Sub)):
            return '(%s %s %s)' % (attr_expr(n.left), '+' if isinstance(n.op, ast.Add) else '-', attr_expr(n.right))
        raise Unrecognised('angle expression')

    def hook(node):
        if isinstance(node, ast.Attribute) and node.attr == 'value' and isinstance(node.value, ast.Call):
            c = node.value
            if isinstance(c.func, ast.Attribute) and c.func.attr == 'to' and len(c.args) == 1:
                a = c.args[0]
                if isinstance(a, ast.Attribute) and a.attr in ('radian', 'rad'):
                    return attr_expr(c.func.value)
                raise Unrecognised('.to(%s)' % ast.dump(a)[:40])
        return None
    return hook


def angle_ctor(node):
    """ac.Angle(E, unit=u.radian) [+ obj.node]  ->  (E, plus_node: bool)"""
    plus = False
    if isinstance(node, ast.BinOp) and isinstance(node.op, ast.Add):
        r = node.right
        if not (isinstance(r, ast.Attribute) and r.attr == 'node'):
            raise Unrecognised('angle + something that is not .node')
        plus = True
        node = node.left
    if not (isinstance(node, ast.Call) and isinstance(node.func, ast.Attribute) and node.func.attr == 'Angle'
            and len(node.args) == 1):
        raise Unrecognised('Angle constructor')
    kw = {k.arg: k.value for k in node.keywords}
    if not ('unit' in kw and isinstance(kw['unit'], ast.Attribute) and kw['unit'].attr in ('radian', 'rad')):
        raise Unrecognised('Angle unit is not radian')
    return node.args[0], plus


def gen_rotation(fn, objs, trig_names, angle_vars, poly_names, lon_name, lat_name, prefix):
    """Common shape of munu_to_radec / radec_to_munu.
    trig_names: the sin/cos temporaries (in source order they must all be np.sin/np.cos of an angle idiom);
    poly_names: the polynomial temporaries; lon/lat: names assigned from Angle(arctan2(..))+node and Angle(arcsin(..))."""
    only_statements(fn, lambda st: (isinstance(st, ast.Assign) and len(st.targets) == 1 and isinstance(st.targets[0], ast.Name))
                    or (isinstance(st, ast.Return) and st is fn.body[-1]), 'a rotation (assignments, one return)')
    asg = simple_assigns(fn.body)
    seen = [a[0] for a in asg]
    hook = angle_hook(objs)
    trig = []
    for name, v, ln in asg:
        if name in trig_names:
            if not (isinstance(v, ast.Call) and call_name(v.func) in ('sin', 'cos') and len(v.args) == 1):
                raise Unrecognised('%s is not np.sin/np.cos(...)' % name)
            trig.append((name, call_name(v.func), rexpr(v.args[0], {}, 'R', hook)))
    if sorted(t[0] for t in trig) != sorted(trig_names):
        raise Unrecognised('%s: trig temporaries %s' % (prefix, seen))
    polys = [(n, v) for n, v, _ in asg if n in poly_names]
    if [p[0] for p in polys] != poly_names:
        raise Unrecognised('%s: polynomial temporaries %s' % (prefix, seen))
    lon = [v for n, v, _ in asg if n == lon_name]
    lat = [v for n, v, _ in asg if n == lat_name]
    if len(lon) != 1 or len(lat) != 1:
        raise Unrecognised('%s: lon/lat assignments' % prefix)
    lon_e, lon_plus = angle_ctor(lon[0])
    lat_e, lat_plus = angle_ctor(lat[0])
    if not lon_plus or lat_plus:
        raise Unrecognised('%s: node must be added to the longitude only' % prefix)
    if not (isinstance(lon_e, ast.Call) and call_name(lon_e.func) == 'arctan2' and len(lon_e.args) == 2
            and all(isinstance(a, ast.Name) for a in lon_e.args)):
        raise Unrecognised('%s: longitude is not arctan2(name, name)' % prefix)
    if not (isinstance(lat_e, ast.Call) and call_name(lat_e.func) == 'arcsin' and len(lat_e.args) == 1):
        raise Unrecognised('%s: latitude is not arcsin(...)' % prefix)
    zarg = lat_e.args[0]
    clipped = False
    if isinstance(zarg, ast.Call) and call_name(zarg.func) == 'clip' and len(zarg.args) == 3 and not zarg.keywords:
        # np.clip(z, -1.0, 1.0): the identity on the exact value (|z| <= 1 is C18 r2m_unit / m2r_unit); guards rounding
        lo, hi = zarg.args[1], zarg.args[2]
        try:
            lo_v = frac_of_const(lo.operand.value) * -1 if isinstance(lo, ast.UnaryOp) and isinstance(lo.op, ast.USub) \
                else frac_of_const(lo.value)
            hi_v = frac_of_const(hi.value)
        except AttributeError:
            raise Unrecognised('%s: clip bounds' % prefix)
        if (lo_v, hi_v) != (-1, 1):
            raise Unrecognised('%s: clip bounds are not -1, 1' % prefix)
        zarg = zarg.args[0]
        clipped = True
    if not isinstance(zarg, ast.Name):
        raise Unrecognised('%s: latitude is not arcsin(name)' % prefix)
    ynm, xnm, znm = lon_e.args[0].id, lon_e.args[1].id, zarg.id
    for nm in (ynm, xnm, znm):
        if nm not in poly_names:
            raise Unrecognised('%s: %s is not a component' % (prefix, nm))
    targs = ' '.join(trig_names)
    out = []
    env = {t: t for t in trig_names}
    # component polynomials as functions of the six sines/cosines
    chain = let_chain(polys, env, '(%s, %s, %s)' % (xnm, ynm, znm))
    out.append('(* %s, source line %d: components (x, y, z) = (%s, %s, %s) as polynomials in the sines and cosines *)'
               % (fn.name, fn.lineno, xnm, ynm, znm))
    out.append('Definition %s_poly (%s : R) : R * R * R :=\n  %s.\n' % (prefix, targs, chain))
    # the sines/cosines as functions of the angles
    av = ' '.join(angle_vars)
    lets = '\n  '.join('let %s := %s %s in' % (n, f, a) for n, f, a in trig)
    out.append('Definition %s_vec (%s : R) : R * R * R :=\n  %s\n  %s_poly %s.\n' % (prefix, av, lets, prefix, targs))
    out.append('(* angles returned: longitude = arctan2(%s, %s) + node, latitude = arcsin(%s) *)' % (ynm, xnm, znm))
    out.append('Definition %s_lon (arctan2 : R -> R -> R) (v : R * R * R) (node : R) : R :=\n'
               '  let \'(x, y, z) := v in arctan2 y x + node.' % prefix)
    if clipped:
        out.append('Definition %s_lat (v : R * R * R) : R :=\n  let \'(x, y, z) := v in asin (Rmax (-1) (Rmin z 1)).' % prefix)
    else:
        out.append('Definition %s_lat (v : R * R * R) : R :=\n  let \'(x, y, z) := v in asin z.' % prefix)
    out.append('Definition %s_lat_clipped : bool := %s.\n' % (prefix, 'true' if clipped else 'false'))
    return out


def gen_stripe(tree):
    """stripe_to_eta / stripe_to_incl over Q (stripe : Z)."""
    fe = find_function(tree, 'stripe_to_eta')
    fi = find_function(tree, 'stripe_to_incl')
    out = []
    # eta: assignments, one `if stripe > K: eta -= C`, return eta
    body = [s for s in fe.body if not (isinstance(s, ast.Expr) and isinstance(s.value, ast.Constant))]
    asg, cond, ret = [], None, None
    for st in body:
        if isinstance(st, ast.Assign):
            asg += simple_assigns([st])
        elif isinstance(st, ast.If):
            if cond is not None or st.orelse or len(st.body) != 1:
                raise Unrecognised('stripe_to_eta if')
            t = st.test
            if not (isinstance(t, ast.Compare) and len(t.ops) == 1 and isinstance(t.left, ast.Name)
                    and t.left.id == 'stripe' and isinstance(t.comparators[0], ast.Constant)):
                raise Unrecognised('stripe_to_eta test')
            opn = {ast.Gt: '>', ast.GtE: '>=', ast.Lt: '<', ast.LtE: '<='}.get(type(t.ops[0]))
            if opn is None:
                raise Unrecognised('stripe_to_eta comparison')
            a = st.body[0]
            if not (isinstance(a, ast.AugAssign) and isinstance(a.target, ast.Name) and a.target.id == 'eta'
                    and isinstance(a.op, (ast.Sub, ast.Add))):
                raise Unrecognised('stripe_to_eta wrap statement')
            delta = frac_of_const(a.value.value) if isinstance(a.value, ast.Constant) else None
            if delta is None:
                raise Unrecognised('stripe_to_eta wrap constant')
            if isinstance(a.op, ast.Sub):
                delta = -delta
            cond = (opn, frac_of_const(t.comparators[0].value), delta)
        elif isinstance(st, ast.Return):
            if not (isinstance(st.value, ast.Name) and st.value.id == 'eta'):
                raise Unrecognised('stripe_to_eta return')
            ret = True
        else:
            raise Unrecognised('stripe_to_eta statement %s' % type(st).__name__)
    if cond is None or not ret or not asg or asg[-1][0] != 'eta':
        raise Unrecognised('stripe_to_eta shape')
    chain = let_chain([(n, v) for n, v, _ in asg], {'stripe': '(inject_Z stripe)'}, 'eta', 'Q')
    opn, thr, delta = cond
    if thr.denominator != 1:
        raise Unrecognised('stripe threshold not an integer')
    ztest = {'>': '(%d <? stripe)%%Z', '>=': '(%d <=? stripe)%%Z', '<': '(stripe <? %d)%%Z', '<=': '(stripe <=? %d)%%Z'}[opn] % thr.numerator
    out.append('(* stripe_to_eta, source line %d *)' % fe.lineno)
    out.append('Definition stripe_to_eta_gen (stripe : Z) : Q :=\n  let eta0 :=\n  %s in\n  if %s then eta0 + %s else eta0.\n'
               % (chain, ztest, lit(delta, 'Q')))
    # incl: assignments with a call stripe_to_eta(stripe), return incl
    body = [s for s in fi.body if not (isinstance(s, ast.Expr) and isinstance(s.value, ast.Constant))]
    asg = simple_assigns(body)
    if len(asg) != len(body) - 1 or not isinstance(body[-1], ast.Return) or not isinstance(body[-1].value, ast.Name):
        raise Unrecognised('stripe_to_incl shape')

    def hook(node):
        if isinstance(node, ast.Call) and isinstance(node.func, ast.Name) and node.func.id == 'stripe_to_eta' \
                and len(node.args) == 1 and isinstance(node.args[0], ast.Name) and node.args[0].id == 'stripe':
            return '(stripe_to_eta_gen stripe)'
        return None
    env = {}
    lets = []
    for n, v, _ in asg:
        if isinstance(v, ast.Call):
            t = hook(v)
            if t is None:
                raise Unrecognised('stripe_to_incl call')
        else:
            t = rexpr(v, env, 'Q')
        lets.append('let %s := %s in' % (n, t))
        env[n] = n
    if body[-1].value.id not in env:
        raise Unrecognised('stripe_to_incl return name')
    out.append('(* stripe_to_incl, source line %d *)' % fi.lineno)
    out.append('Definition stripe_to_incl_gen (stripe : Z) : Q :=\n  %s\n  %s.\n' % ('\n  '.join(lets), body[-1].value.id))
    return out


def check_frame_class(tree):
    """class SDSSMuNu: the transforms read `munu.incl`; the generated model takes it to be stripe_to_incl(munu.stripe).  That holds for
    every frame object, however obtained, only if `incl` is a property computed from self.stripe on access
    (`return ac.Angle(stripe_to_incl(self.stripe), unit=u.deg)`).  A stored attribute (frame attribute, value set in __init__ / __new__)
    can go stale in frames derived by replicate / realize_frame: not this shape."""
    for n in ast.walk(tree):
        if isinstance(n, ast.ClassDef) and n.name == 'SDSSMuNu':
            incl = None
            for st in n.body:
                if isinstance(st, ast.FunctionDef) and st.name in ('__init__', '__new__', '__getattr__', '__getattribute__', '__setattr__',
                                                                   '__init_subclass__', 'replicate', 'realize_frame', '_replicate',
                                                                   'replicate_without_data', '__reduce__', '__getstate__', '__setstate__'):
                    raise UnmodelledPath('SDSSMuNu: line %d defines %s: frame objects are no longer plain astropy frames whose inclination is '
                                         'computed from the stripe on access' % (st.lineno, st.name))
                if isinstance(st, ast.FunctionDef) and st.name == 'incl':
                    incl = st
                if isinstance(st, (ast.Assign, ast.AnnAssign)):
                    tg = st.targets if isinstance(st, ast.Assign) else [st.target]
                    if any(isinstance(t, ast.Name) and t.id == 'incl' for t in tg):
                        raise UnmodelledPath('SDSSMuNu: line %d: incl is a stored class/frame attribute, not a property computed from the stripe'
                                             % st.lineno)
            if incl is None:
                raise UnmodelledPath('SDSSMuNu: no property incl')
            decs = [d.id for d in incl.decorator_list if isinstance(d, ast.Name)]
            body = [b for b in incl.body if not (isinstance(b, ast.Expr) and isinstance(b.value, ast.Constant))]
            okay = decs == ['property'] and len(body) == 1 and isinstance(body[0], ast.Return)
            if okay:
                v = body[0].value
                okay = (isinstance(v, ast.Call) and isinstance(v.func, ast.Attribute) and v.func.attr == 'Angle' and len(v.args) == 1
                        and isinstance(v.args[0], ast.Call) and isinstance(v.args[0].func, ast.Name) and v.args[0].func.id == 'stripe_to_incl'
                        and len(v.args[0].args) == 1 and isinstance(v.args[0].args[0], ast.Attribute) and v.args[0].args[0].attr == 'stripe'
                        and isinstance(v.args[0].args[0].value, ast.Name) and v.args[0].args[0].value.id == 'self'
                        and [k.arg for k in v.keywords] == ['unit'] and isinstance(v.keywords[0].value, ast.Attribute)
                        and v.keywords[0].value.attr in ('deg', 'degree'))
            if not okay:
                raise UnmodelledPath('SDSSMuNu.incl (line %d) is not `@property ... return Angle(stripe_to_incl(self.stripe), unit=u.deg)`'
                                     % incl.lineno)
            return
    raise Unrecognised('class SDSSMuNu not found')


def gen_node_default(tree):
    """node = ac.QuantityAttribute(default=ac.Angle(95.0, unit=u.deg), unit=u.deg) in class SDSSMuNu"""
    for n in ast.walk(tree):
        if isinstance(n, ast.ClassDef) and n.name == 'SDSSMuNu':
            for st in n.body:
                if isinstance(st, ast.Assign) and isinstance(st.targets[0], ast.Name) and st.targets[0].id == 'node':
                    v = st.value
                    kw = {k.arg: k.value for k in v.keywords} if isinstance(v, ast.Call) else {}
                    d = kw.get('default')
                    if isinstance(d, ast.Call) and d.args and isinstance(d.args[0], ast.Constant):
                        dk = {k.arg: k.value for k in d.keywords}
                        if isinstance(dk.get('unit'), ast.Attribute) and dk['unit'].attr in ('deg', 'degree'):
                            return frac_of_const(d.args[0].value)
    raise Unrecognised('SDSSMuNu.node default')


# ----------------------------------------------------------------------------
# mangle.py angles_to_x / x_to_angles
# ----------------------------------------------------------------------------

def col(node, var):
    """points[:, k] -> k"""
    if isinstance(node, ast.Subscript) and isinstance(node.value, ast.Name) and node.value.id == var:
        s = node.slice
        if isinstance(s, ast.Tuple) and len(s.elts) == 2 and isinstance(s.elts[0], ast.Slice) \
                and isinstance(s.elts[1], ast.Constant):
            return s.elts[1].value
    return None


def dtype_choice(st):
    """`if <test>: dtype = ... else: dtype = ...` -- chooses the storage type of the result only"""
    def only_dtype(stmts):
        # dtype = ...   or   x = np.zeros(...)  (allocation of the result with one storage type or another)
        def ok(x):
            if not (isinstance(x, ast.Assign) and len(x.targets) == 1 and isinstance(x.targets[0], ast.Name)):
                return False
            if x.targets[0].id == 'dtype':
                return True
            return x.targets[0].id == 'x' and isinstance(x.value, ast.Call) and call_name(x.value.func) in ('zeros', 'empty')
        return all(ok(x) for x in stmts)
    return isinstance(st, ast.If) and bool(st.body) and only_dtype(st.body) and only_dtype(st.orelse)


def gen_angles(src):
    tree = ast.parse(src)
    fa = find_function(tree, 'angles_to_x')
    fx = find_function(tree, 'x_to_angles')
    mf = module_functions(tree)
    for f in (fa, fx):
        # the storage type of the result may depend on the dtype of the argument (dtype_choice); nothing else may
        reject_unmodelled_paths(f, mf, allowed_ifs=[st for st in f.body if dtype_choice(st)])
        only_statements(f, lambda st: isinstance(st, (ast.Assign, ast.If)) or (isinstance(st, ast.Return) and st is f.body[-1]
                                                                               and isinstance(st.value, ast.Name)),
                        'assignments, the latitude / dtype choices and one return')
    out = []

    def pts_hook(names):
        def hook(node):
            k = col(node, 'points')
            if k is not None:
                if k >= len(names):
                    raise Unrecognised('column %d' % k)
                return names[k]
            # (points**2).sum(1)
            if isinstance(node, ast.Call) and isinstance(node.func, ast.Attribute) and node.func.attr == 'sum' \
                    and len(node.args) == 1 and isinstance(node.args[0], ast.Constant) and node.args[0].value == 1:
                b = node.func.value
                if isinstance(b, ast.BinOp) and isinstance(b.op, ast.Pow) and isinstance(b.left, ast.Name) \
                        and b.left.id == 'points' and isinstance(b.right, ast.Constant) and b.right.value == 2:
                    return '(' + ' + '.join('%s * %s' % (n, n) for n in names) + ')'
                raise Unrecognised('sum idiom')
            return None
        return hook

    # ---- angles_to_x
    hook = pts_hook(['phi_deg', 'theta_deg'])
    pre, th_true, th_false, comps = [], None, None, {}
    for st in fa.body:
        if isinstance(st, ast.Assign) and len(st.targets) == 1:
            t = st.targets[0]
            if isinstance(t, ast.Name) and t.id in ('phi', 'st'):
                pre.append((t.id, st.value))
            elif isinstance(t, ast.Name) and t.id == 'x':
                continue
            elif isinstance(t, ast.Tuple):
                continue
            else:
                k = col(t, 'x')
                if k is None:
                    raise Unrecognised('angles_to_x assignment')
                comps[k] = st.value
        elif isinstance(st, ast.If):
            if dtype_choice(st):
                continue
            if not (isinstance(st.test, ast.Name) and st.test.id == 'latitude' and len(st.body) == 1 and len(st.orelse) == 1):
                raise Unrecognised('angles_to_x if')
            a, b = simple_assigns(st.body), simple_assigns(st.orelse)
            if not (a and b and a[0][0] == 'theta' and b[0][0] == 'theta'):
                raise Unrecognised('angles_to_x theta')
            th_true, th_false = a[0][1], b[0][1]
    if sorted(comps) != [0, 1, 2] or th_true is None or [p[0] for p in pre] != ['phi', 'st']:
        raise Unrecognised('angles_to_x shape')
    env = {}
    phi_t = rexpr(pre[0][1], env, 'R', hook)
    tt, tf = rexpr(th_true, env, 'R', hook), rexpr(th_false, env, 'R', hook)
    env2 = {'phi': 'phi', 'theta': 'theta'}
    st_t = rexpr(pre[1][1], env2, 'R', hook)
    env3 = dict(env2, st='st')
    cs = [rexpr(comps[k], env3, 'R', hook) for k in range(3)]
    out.append('(* angles_to_x, pydl/pydlutils/mangle.py line %d *)' % fa.lineno)
    out.append('Definition angles_to_x_gen (latitude : bool) (phi_deg theta_deg : R) : R * R * R :=\n'
               '  let phi := %s in\n  let theta := if latitude then %s else %s in\n  let st := %s in\n  (%s, %s, %s).\n'
               % (phi_t, tt, tf, st_t, cs[0], cs[1], cs[2]))
    # ---- x_to_angles
    hook = pts_hook(['x0', 'x1', 'x2'])
    asg = {n: v for n, v, _ in simple_assigns(fx.body)}
    lat_fix = None
    for st in fx.body:
        if isinstance(st, ast.If):
            if dtype_choice(st):
                continue
            if not (isinstance(st.test, ast.Name) and st.test.id == 'latitude' and len(st.body) == 1 and not st.orelse):
                raise Unrecognised('x_to_angles if')
            a = simple_assigns(st.body)
            if not (a and a[0][0] == 'theta'):
                raise Unrecognised('x_to_angles latitude branch')
            lat_fix = a[0][1]
    if lat_fix is None or not all(k in asg for k in ('phi', 'r', 'theta')):
        raise Unrecognised('x_to_angles shape')
    env = {'arctan2': 'arctan2'}
    phi_t = rexpr(asg['phi'], env, 'R', hook)
    r_t = rexpr(asg['r'], env, 'R', hook)
    th_t = rexpr(asg['theta'], {'r': 'r'}, 'R', hook)
    fix_t = rexpr(lat_fix, {'theta': 'theta'}, 'R', hook)
    out.append('(* x_to_angles, pydl/pydlutils/mangle.py line %d *)' % fx.lineno)
    out.append('Definition x_to_angles_gen (arctan2 : R -> R -> R) (latitude : bool) (x0 x1 x2 : R) : R * R :=\n'
               '  let phi := %s in\n  let r := %s in\n  let theta := %s in\n  (phi, if latitude then %s else theta).\n'
               % (phi_t, r_t, th_t, fix_t))
    return out


def gen_coord(coord_src, mangle_src):
    tree = ast.parse(coord_src)
    f1 = find_function(tree, 'munu_to_radec')
    f2 = find_function(tree, 'radec_to_munu')
    mf = module_functions(tree)
    for f in (f1, f2):
        reject_unmodelled_paths(f, mf)
    reject_unmodelled_paths(find_function(tree, 'stripe_to_eta'), mf)
    reject_unmodelled_paths(find_function(tree, 'stripe_to_incl'), mf, allowed_calls=('stripe_to_eta',))
    check_frame_class(tree)
    out = ['(* GENERATED by translate/c18.py from pydl/pydlutils/coord.py and pydl/pydlutils/mangle.py -- do not edit *)',
           'From Coq Require Import Reals ZArith QArith List.', 'Import ListNotations.', '',
           'Open Scope R_scope.', '']
    out += gen_rotation(f1, ('munu',), ['sinnu', 'cosnu', 'sini', 'cosi', 'sinmu', 'cosmu'],
                        ['mu', 'nu', 'incl', 'node'], ['xx', 'yy', 'zz'], 'ra', 'dec', 'm2r')
    out += gen_rotation(f2, ('munu', 'icrs_frame'), ['sinra', 'cosra', 'sindec', 'cosdec', 'sini', 'cosi'],
                        ['ra', 'dec', 'incl', 'node'], ['x1', 'y1', 'z1', 'x2', 'y2', 'z2'], 'mu', 'nu', 'r2m')
    out += gen_angles(mangle_src)
    out += ['Close Scope R_scope.', 'Open Scope Q_scope.', '']
    out += gen_stripe(tree)
    out.append('Definition sdss_node_default_deg : Q := %s.' % lit(gen_node_default(tree), 'Q'))
    out.append('')
    return '\n'.join(out)


def generate(repo):
    """-> {filename: text or None}, info"""
    info = {'recognised': True, 'detail': [], 'files': {}}
    texts = {}
    try:
        texts['Gcirc.v'] = gen_gcirc(open(os.path.join(repo, 'pydl/goddard/astro.py')).read())
        info['files']['Gcirc.v'] = True
    except (Unrecognised, SyntaxError, OSError) as e:
        info['recognised'] = False
        info['files']['Gcirc.v'] = False
        info['detail'].append('gcirc: %s: %s' % (type(e).__name__, e))
        if isinstance(e, UnmodelledPath):
            info.setdefault('unmodelled_paths', []).append(str(e))
        texts['Gcirc.v'] = None
    try:
        texts['Coord.v'] = gen_coord(open(os.path.join(repo, 'pydl/pydlutils/coord.py')).read(),
                                     open(os.path.join(repo, 'pydl/pydlutils/mangle.py')).read())
        info['files']['Coord.v'] = True
    except (Unrecognised, SyntaxError, OSError) as e:
        info['recognised'] = False
        info['files']['Coord.v'] = False
        info['detail'].append('coord: %s: %s' % (type(e).__name__, e))
        if isinstance(e, UnmodelledPath):
            info.setdefault('unmodelled_paths', []).append(str(e))
        texts['Coord.v'] = None
    return texts, info


if __name__ == '__main__':
    import sys
    texts, info = generate(sys.argv[1] if len(sys.argv) > 1 else '/repo')
    print(info)
    for k, v in texts.items():
        print('=' * 20, k)
        print(v)
