(* C04 -- spherematch returns exactly the pairs closer than the match length.
   Property theorems only; each is closed by `exact` and followed by Print Assumptions.
   The property itself (C04_spherematch_spec) is CONDITIONAL: `coverage` (geometry of chunks.getbounds /
   chunks.get: every pair closer than L shares the cell looked up for the list-1 point) and
   `is_sorting_perm` (numpy argsort sorts) are explicit premises; the correspondence run checks the second
   on every case and searches for counterexamples to the first. *)
From Coq Require Import ZArith QArith List Bool Arith Sorted Permutation.
Import ListNotations.
From PV Require Import C04.Model C04.Proofs.
Close Scope Q_scope. Close Scope Z_scope. Open Scope nat_scope.

(* the certified checker decides the C04 statement, in both directions *)
Theorem C04_match_ok_iff : forall n1 n2 sep L k out,
  match_ok n1 n2 sep L k out = true <-> C04_statement n1 n2 sep L k out.
Proof. exact match_ok_iff. Qed.
Print Assumptions C04_match_ok_iff.

(* the two-counter maxmatch loops, for every k and every candidate list sorted by separation:
   sub-list of the candidates, still sorted, no point more than k times, a candidate is omitted only if one
   endpoint is already used k times by no-farther selected pairs; count pass = fill pass *)
Theorem C04_greedy_spec : forall k cs,
  StronglySorted Qle (map cd cs) ->
  let out := greedy k cs in
  (forall c, In c out -> In c cs) /\
  StronglySorted Qle (map cd out) /\
  (NoDup (map pairof cs) -> NoDup (map pairof out)) /\
  (forall i, cnt1 out i <= k) /\
  (forall j, cnt2 out j <= k) /\
  (forall c, In c cs -> ~ In (pairof c) (map pairof out) ->
     k <= used1 out (ci c) (cd c) \/ k <= used2 out (ck c) (cd c)) /\
  length out = greedy_count k zero zero cs.
Proof. exact greedy_spec. Qed.
Print Assumptions C04_greedy_spec.

(* maxmatch = 0: for ANY sorting permutation (argsort's tie order is irrelevant) *)
Theorem C04_select_all_sorted : forall s cs,
  is_sorting_perm s cs = true ->
  Permutation (select_all s cs) cs /\ StronglySorted Qle (map cd (select_all s cs)).
Proof. exact select_all_sorted. Qed.
Print Assumptions C04_select_all_sorted.

(* chunks.assign: no index twice in a cell, and exactly the cells getbounds named (after the RA wrap);
   chunkDone and its reset loop drop out *)
Theorem C04_assign_no_dup : forall nRa bs x, NoDup (clist (assign_model nRa bs) x).
Proof. exact assign_no_dup. Qed.
Print Assumptions C04_assign_no_dup.

Theorem C04_assign_exact : forall nRa bs x k,
  In k (clist (assign_model nRa bs) x) <->
  exists b, nth_error bs k = Some (Some b) /\ In x (fill_cells nRa b).
Proof. exact assign_exact. Qed.
Print Assumptions C04_assign_exact.

Theorem C04_candidates_eq_brute : forall nRa bs n1 cell_of sep L,
  coverage nRa bs n1 cell_of sep L ->
  Permutation (candidates n1 cell_of (clist (assign_model nRa bs)) sep L) (brute n1 (length bs) sep L).
Proof. exact candidates_eq_brute. Qed.
Print Assumptions C04_candidates_eq_brute.

(* the property, conditional on coverage *)
Theorem C04_spherematch_spec : forall maxmatch nRa bs n1 cell_of sep L s,
  coverage nRa bs n1 cell_of sep L ->
  is_sorting_perm s (candidates n1 cell_of (clist (assign_model nRa bs)) sep L) = true ->
  match_ok n1 (length bs) sep L maxmatch (spherematch_model maxmatch nRa bs n1 cell_of sep L s) = true.
Proof. exact spherematch_spec. Qed.
Print Assumptions C04_spherematch_spec.

(* non-vacuity: a 2 x 2 instance satisfying coverage; and coverage cannot be dropped *)
Example C04_example_covered :
  let nRa := fun _ : Z => 3%Z in
  let bs := [Some (0%Z, [(0%Z, 1%Z)]); Some (0%Z, [(2%Z, 3%Z)])] in
  let cell_of := fun i : nat => if Nat.eqb i 0 then (0%Z, 0%Z) else (0%Z, 2%Z) in
  let sep := fun i k : nat => if Nat.eqb i k then (1 # 4)%Q else (3 # 2)%Q in
  spherematch_model 0 nRa bs 2 cell_of sep 1%Q [1; 0] = [(1, 1, (1 # 4)%Q); (0, 0, (1 # 4)%Q)] /\
  match_ok 2 2 sep 1%Q 0 (spherematch_model 0 nRa bs 2 cell_of sep 1%Q [1; 0]) = true.
Proof. split; vm_compute; reflexivity. Qed.

Example C04_coverage_needed :
  let nRa := fun _ : Z => 3%Z in
  let bs := [Some (0%Z, [(0%Z, 0%Z)])] in
  let cell_of := fun _ : nat => (0%Z, 2%Z) in
  let sep := fun _ _ : nat => (1 # 2)%Q in
  match_ok 1 1 sep 1%Q 0 (spherematch_model 0 nRa bs 1 cell_of sep 1%Q []) = false.
Proof. exact coverage_needed_example. Qed.

(* ================================================================== towards `coverage` *)
From Coq Require Import Reals Qround.
From PV Require Import C04.Geometry C04.Bounds.
Close Scope R_scope. Close Scope Q_scope. Close Scope Z_scope. Open Scope nat_scope.

(* ---- (1) spherical geometry over the classical reals (axioms: see Print Assumptions) ----
   dotp dp ap dq aq = p.q for the unit vectors with (declination, right ascension) (dp, ap), (dq, aq);
   "separation <= m"  is  cos m <= p.q,  equivalently  hav <= sin^2(m/2)  as gcirc computes it (hav_le_iff). *)
Theorem C04_dec_margin_covers : forall dp ap dq aq m : R,
  (- (PI / 2) <= dp <= PI / 2)%R -> (- (PI / 2) <= dq <= PI / 2)%R -> (0 <= m <= PI)%R ->
  (cos m <= dotp dp ap dq aq)%R ->
  (Rabs (dp - dq) <= m)%R.
Proof. exact dec_margin_covers. Qed.
Print Assumptions C04_dec_margin_covers.

(* the tangent-meridian bound = raMargin of the repaired getbounds *)
Theorem C04_ra_margin_covers : forall dp ap dq aq m : R,
  (- (PI / 2) <= dp <= PI / 2)%R -> (- (PI / 2) < dq < PI / 2)%R -> (0 <= m <= PI / 2)%R ->
  (sin m < cos dq)%R ->
  (cos m <= dotp dp ap dq aq)%R ->
  (- PI <= ap - aq <= PI)%R ->
  (Rabs (ap - aq) <= asin (sin m / cos dq))%R.
Proof. exact ra_margin_covers. Qed.
Print Assumptions C04_ra_margin_covers.

Theorem C04_hav_le_iff : forall dp ap dq aq m : R,
  (hav dp ap dq aq <= (sin (m / 2))²)%R <-> (cos m <= dotp dp ap dq aq)%R.
Proof. exact hav_le_iff. Qed.
Print Assumptions C04_hav_le_iff.

(* ---- (2) the discrete half, exact rationals, bounds as data ---- *)
(* the slice walk of getbounds visits every declination slice holding a declination within m of dec *)
Theorem C04_dec_coverage : forall (B : list Q) (nDec : nat) (dec m : Q) (c0 s : nat) (d' : Q),
  mono B nDec -> c0 < nDec -> s < nDec ->
  (qbnd B s <= d' <= qbnd B (S s))%Q -> (dec - d' < m)%Q -> (d' - dec < m)%Q ->
  dec_down B dec m c0 <= s <= dec_up B dec m nDec nDec c0.
Proof. exact dec_coverage. Qed.
Print Assumptions C04_dec_coverage.

(* the cell walk inside a slice, without wrap, and through the single wrap cell at either end *)
Theorem C04_ra_coverage : forall (B : list Q) (n : nat) (ra mg : Q) (c0 s : nat) (ra' : Q),
  mono B n -> c0 < n -> s < n ->
  (qbnd B s <= ra' <= qbnd B (S s))%Q -> (ra - ra' < mg)%Q -> (ra' - ra < mg)%Q ->
  (ra_down B ra mg c0 <= Z.of_nat s <= ra_up B ra mg n n c0)%Z.
Proof. exact ra_coverage. Qed.
Print Assumptions C04_ra_coverage.

Theorem C04_ra_coverage_seam : forall (B : list Q) (n : nat) (ra mg : Q) (c0 : nat) (ra' : Q),
  mono B n -> c0 < n ->
  ((qbnd B c0 <= ra <= qbnd B n)%Q -> (ra' + (qbnd B n - qbnd B 0) - ra < mg)%Q -> (qbnd B 0 <= ra')%Q ->
     ra_up B ra mg n n c0 = Z.of_nat n) /\
  ((qbnd B 0 <= ra)%Q -> (ra + (qbnd B n - qbnd B 0) - ra' < mg)%Q -> (ra' <= qbnd B n)%Q ->
     ra_down B ra mg c0 = (-1)%Z).
Proof.
  exact (fun B n ra mg c0 ra' Hm Hc =>
    conj (fun H1 H2 H3 => ra_coverage_seam_up B n ra mg c0 ra' Hm Hc H1 H2 H3)
         (fun H1 H2 H3 => ra_coverage_seam_down B n ra mg c0 ra' Hm Hc H1 H2 H3)).
Qed.
Print Assumptions C04_ra_coverage_seam.

(* get_in_bounds: floor binning returns a valid index, namely the cell that contains the point; and the bounds
   built from list 1 (3 + floor(range/w) cells, centred, declination clamped to +-90) contain every list-1 point *)
Theorem C04_get_in_bounds : forall (x lo hi : Q) (n : nat), (lo < hi)%Q -> 0 < n -> (lo <= x < hi)%Q ->
  (0 <= cell_index x lo hi n < Z.of_nat n)%Z /\
  (ebnd lo hi n (Z.to_nat (cell_index x lo hi n)) <= x < ebnd lo hi n (S (Z.to_nat (cell_index x lo hi n))))%Q.
Proof. exact (fun x lo hi n H1 H2 H3 => conj (cell_index_valid x lo hi n H1 H2 H3) (cell_index_slice x lo hi n H1 H2 H3)). Qed.
Print Assumptions C04_get_in_bounds.

Theorem C04_bounds_contain_list1 : forall a b w x : Q, (0 < w)%Q -> (a <= x <= b)%Q ->
  (pad_lo a b w <= x < pad_hi a b w)%Q /\ 3 <= pad_n a b w /\
  ((-(90) < x < 90)%Q -> (dec_lo a b w <= x < dec_hi a b w)%Q).
Proof.
  exact (fun a b w x Hw Hx => conj (ra_pad_covers a b w x Hw Hx)
          (conj (proj2 (proj2 (pad_covers a b w Hw (Qle_trans _ _ _ (proj1 Hx) (proj2 Hx)))))
                (fun Hr => dec_pad_covers a b w x Hw Hx Hr))).
Qed.
Print Assumptions C04_bounds_contain_list1.

(* ---- (2') from the two margin facts to `coverage`, exact arithmetic, away from the 0/360 seam ---- *)
Theorem C04_coverage_exact_nowrap : forall (decB : list Q) (raB : list (list Q)) (ra dec m mg : Q) (b : bnd)
                                           (s r : nat) (dec1 ra1 : Q),
  let nDec := length decB - 1 in
  let B := nth s raB [] in
  let n := length B - 1 in
  mono decB nDec -> mono B n ->
  getbounds_model decB raB ra dec m mg = Some b ->
  s < nDec -> (qbnd decB s <= dec1 <= qbnd decB (S s))%Q -> (dec - dec1 < m)%Q -> (dec1 - dec < m)%Q ->
  r < n -> (qbnd B r <= ra1 <= qbnd B (S r))%Q -> (ra - ra1 < mg)%Q -> (ra1 - ra < mg)%Q ->
  In (Z.of_nat s, Z.of_nat r) (fill_cells (nRa_of_bounds raB) b).
Proof. exact coverage_exact_nowrap. Qed.
Print Assumptions C04_coverage_exact_nowrap.

(* ---- (3) the index arithmetic regenerated from the source on every run (Generated/Chunks.v) is the model's ---- *)
From PV Require Import Generated.Chunks C04.GenProofs.
Theorem C04_generated_index_arithmetic :
  chunks_recognised = true /\
  (forall nRa d lo hi,
     row_cells nRa 1 d lo hi =
       flat_map (fun r => let c := gen_reset_wrap (nRa d) r in if gen_reset_valid (nRa d) c then (d, c) :: nil else nil)
                (zrange (gen_reset_from lo hi) (Z.to_nat (gen_reset_to lo hi - gen_reset_from lo hi))) /\
     row_cells nRa 0 d lo hi =
       flat_map (fun r => let c := gen_fill_wrap (nRa d) r in if gen_fill_valid (nRa d) c then (d, c) :: nil else nil)
                (zrange (gen_fill_from lo hi) (Z.to_nat (gen_fill_to lo hi - gen_fill_from lo hi)))) /\
  (forall x lo hi n,
     gen_gb_dec_index x lo hi (inject_Z (Z.of_nat n)) = cell_index x lo hi n /\
     gen_gb_ra_index x lo hi (inject_Z (Z.of_nat n)) = cell_index x lo hi n /\
     gen_get_dec_index x lo hi (inject_Z (Z.of_nat n)) = cell_index x lo hi n /\
     gen_get_ra_index x lo hi (inject_Z (Z.of_nat n)) = cell_index x lo hi n) /\
  (forall B x m,
     (forall c, dec_down B x m (S c) = if gen_dec_down_test x (qbnd B (S c)) m && gen_dec_down_guard (Z.of_nat (S c)) 0
                                        then dec_down B x m c else S c) /\
     (forall nDec f c, dec_up B x m nDec (S f) c =
                       if gen_dec_up_test x (qbnd B (S c)) m && gen_dec_up_guard (Z.of_nat c) (Z.of_nat nDec)
                       then dec_up B x m nDec f (S c) else c) /\
     (forall c, ra_down B x m (S c) = if gen_ra_down_test x (qbnd B (S c)) m then ra_down B x m c else Z.of_nat (S c)) /\
     (forall n f c, ra_up B x m n (S f) c = if (c <? n)%nat && gen_ra_up_test x (qbnd B (S c)) m then ra_up B x m n f (S c) else Z.of_nat c)).
Proof. exact generated_index_arithmetic. Qed.
Print Assumptions C04_generated_index_arithmetic.


(* ---- (3') the two maxmatch passes of spherematch() as extracted on this run are the reference transliteration, and one
   iteration of the reference passes tests both counters BEFORE incrementing them, as greedy_count / greedy_fill do ---- *)
From Coq Require Import String.
From PV Require Import C05.Imp C04.GreedyRef.
Open Scope string_scope.
Theorem C04_generated_greedy_is_reference :
  gen_greedy_enabled = ref_greedy_enabled /\
  gen_greedy_count_from = ref_greedy_count_from /\
  gen_greedy_count_to = ref_greedy_count_to /\
  gen_greedy_count_step = ref_greedy_count_step /\
  gen_greedy_count_var = ref_greedy_count_var /\
  gen_greedy_count_body = ref_greedy_count_body /\
  gen_greedy_fill_from = ref_greedy_fill_from /\
  gen_greedy_fill_to = ref_greedy_fill_to /\
  gen_greedy_fill_step = ref_greedy_fill_step /\
  gen_greedy_fill_var = ref_greedy_fill_var /\
  gen_greedy_fill_body = ref_greedy_fill_body.
Proof. exact generated_greedy_is_reference. Qed.
Print Assumptions C04_generated_greedy_is_reference.

Theorem C04_greedy_pass_specs : forall s,
  let p := rd s "s" (sv s "i") in
  let a := rd s "omatch1" p in
  let b := rd s "omatch2" p in
  let take := ((rd s "gotten1" a <? sv s "maxmatch") && (rd s "gotten2" b <? sv s "maxmatch"))%Z in
  (let s' := ref_greedy_count_body s in
   (forall x, rd s' "gotten1" x = if take then zupd (rd s "gotten1") a (rd s "gotten1" a + 1)%Z x else rd s "gotten1" x) /\
   (forall x, rd s' "gotten2" x = if take then zupd (rd s "gotten2") b (rd s "gotten2" b + 1)%Z x else rd s "gotten2" x) /\
   sv s' "nmatch" = if take then (sv s "nmatch" + 1)%Z else sv s "nmatch") /\
  (let s' := ref_greedy_fill_body s in
   (forall x, rd s' "gotten1" x = if take then zupd (rd s "gotten1") a (rd s "gotten1" a + 1)%Z x else rd s "gotten1" x) /\
   (forall x, rd s' "gotten2" x = if take then zupd (rd s "gotten2") b (rd s "gotten2" b + 1)%Z x else rd s "gotten2" x) /\
   (forall x, rd s' "match1" x = if take then zupd (rd s "match1") (sv s "nmatch") a x else rd s "match1" x) /\
   (forall x, rd s' "match2" x = if take then zupd (rd s "match2") (sv s "nmatch") b x else rd s "match2" x) /\
   (forall x, rd s' "distance12" x = if take then zupd (rd s "distance12") (sv s "nmatch") (rd s "odistance12" p) x else rd s "distance12" x) /\
   sv s' "nmatch" = if take then (sv s "nmatch" + 1)%Z else sv s "nmatch") /\
  (ref_greedy_count_from s = 0%Z /\ ref_greedy_count_to s = sv s "omatch1_size" /\ ref_greedy_count_step s = 1%Z /\
   ref_greedy_fill_from s = 0%Z /\ ref_greedy_fill_to s = sv s "omatch1_size" /\ ref_greedy_fill_step s = 1%Z /\
   ref_greedy_count_var = "i" /\ ref_greedy_fill_var = "i" /\ ref_greedy_enabled s = (sv s "maxmatch" >? 0)%Z).
Proof. exact greedy_pass_specs. Qed.
Print Assumptions C04_greedy_pass_specs.
