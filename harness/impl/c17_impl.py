"""Runs djs_reject, djs_maskinterp, aesthetics, djs_median(reflect) and skymask of the repository under
test on a list of calls (stdin JSON).  Floats travel as JSON numbers (repr round-trips exactly)."""
import json
import os
import sys
import tempfile
import warnings

import numpy as np

import pydl
import pydl.pydlutils.sdss as sdss
from pydl.pydlutils.math import djs_reject, djs_median
from pydl.pydlutils.image import djs_maskinterp, djs_maskinterp1
from pydl.pydlspec2d.spec2d import aesthetics
from pydl.pydlspec2d.spec1d import skymask
from astropy.utils.data import get_pkg_data_filename

warnings.simplefilter('ignore')


def load_maskbits(bits):
    """The packaged maskbits file has no SPPIXMASK group; append one (SDSS bit numbers unless the call
    asks for other positions) and load the result through the real set_maskbits, exactly as the
    repository's own tests populate the cache."""
    base = open(get_pkg_data_filename('tests/t/testMaskbits.par', package='pydl.pydlutils')).read()
    extra = ['masktype SPPIXMASK 32 "Mask bits for an SDSS spectrum."',
             'maskbits SPPIXMASK  0 NOPLUG "Fiber not listed in plugmap file"',
             'maskbits SPPIXMASK 24 NODATA "No data available in combine B-spline (INVVAR=0)"',
             'maskbits SPPIXMASK 25 COMBINEREJ "Rejected in combine B-spline"',
             'maskbits SPPIXMASK %d BADSKYCHI "Relative chi^2 > 3 in sky residuals at this wavelength"' % bits[0],
             'maskbits SPPIXMASK %d REDMONSTER "Contiguous region of bad chi^2 in sky residuals"' % bits[1]]
    fd, path = tempfile.mkstemp(suffix='.par', prefix='c17maskbits')
    with os.fdopen(fd, 'w') as f:
        f.write(base + '\n' + '\n'.join(extra) + '\n')
    try:
        sdss.maskbits = sdss.set_maskbits(maskbits_file=path)
    finally:
        os.unlink(path)
    return [int(sdss.sdss_flagval('SPPIXMASK', 'BADSKYCHI')), int(sdss.sdss_flagval('SPPIXMASK', 'REDMONSTER'))]


def err(e):
    return {'err': type(e).__name__, 'msg': str(e)[:160]}


# ---------------------------------------------------------------------------------------------------------
# Every ndarray handed to pydl is registered: after the call it must be bit-identical to the snapshot taken
# when it was created (a caller-owned argument is never written), and the result is checked for memory
# shared with an argument.  A history runs several calls in one process on the SAME array objects
# ({"ref": name} in place of a value list); {"prev": k} passes the object returned by step k.
# ---------------------------------------------------------------------------------------------------------
class NotRun(Exception):
    pass


SHARED = {}     # name -> (array, snapshot bytes) for the history being run
USED = []       # (field, array, snapshot bytes) of the call being run
PREV = []       # results (python objects) of the previous steps of the history


def snap(a):
    return (a.dtype.str, a.shape, a.tobytes())


JUNK = 77


def mk(values, shape, dtype, readonly=False, layout=None):
    """the array with the given values, C-order shape -- in the requested MEMORY LAYOUT: contiguous, Fortran order,
    transposed view of a contiguous buffer, every second element of a longer buffer (last axis), reversed view"""
    if isinstance(values, list) and any(isinstance(v, str) for v in values):
        values = [float(v) if isinstance(v, str) else v for v in values]        # 'nan', 'inf', '-inf' travel as strings
    a = np.array(values, dtype=dtype).reshape(shape)
    if layout == 'be':                 # non-native byte order (what astropy.io.fits hands out)
        a = a.astype(a.dtype.newbyteorder('>' if sys.byteorder == 'little' else '<'))
    elif layout == 'f':
        a = np.asfortranarray(a)
    elif layout == 't':
        a = np.ascontiguousarray(a.T).T
    elif layout == 'strided' and a.ndim >= 1:
        shp = list(a.shape)
        shp[-1] *= 2
        base = np.full(shp, JUNK, dtype=a.dtype)
        base[..., ::2] = a
        a = base[..., ::2]
    elif layout == 'rev' and a.ndim >= 1:
        a = np.ascontiguousarray(a[::-1])[::-1]
    if readonly:
        a.setflags(write=False)
    return a


def arr(c, key, shape, dtype='d'):
    """the ndarray for field `key` of call c (None if absent)"""
    x = c.get(key)
    if x is None:
        return None
    if isinstance(x, dict) and 'ref' in x:
        a, s0 = SHARED[x['ref']]
    elif isinstance(x, dict) and 'prev' in x:
        a = PREV[x['prev']]
        if a is None:
            raise NotRun()
        s0 = snap(a)
    else:
        lay = c.get('layout')
        a = mk(x, shape, (c.get('dtypes') or {}).get(key, dtype), bool(c.get('readonly')),
               lay.get(key) if isinstance(lay, dict) else lay)
        s0 = snap(a)
    USED.append((key, a, s0))
    return a


def post(res, out_arrays):
    """generic post-conditions of one call: arguments untouched, result memory"""
    mutated = [k for k, a, s0 in USED if snap(a) != s0]
    aliased = sorted(set(k for k, a, _ in USED for o in out_arrays if isinstance(o, np.ndarray) and np.shares_memory(o, a)))
    res['mutated'] = mutated
    res['aliased'] = aliased
    return res


def call(c, keep=None):
    f = c['f']
    del USED[:]
    try:
        if f == 'reject':
            shape = tuple(c['shape'])
            kw = {}
            for k in ('lower', 'upper', 'maxdev'):
                if c.get(k) is not None:
                    kw[k] = c[k]
            style = c.get('argstyle')
            mdt = c.get('maskint', 'i8') if style == 'intmask' else 'bool'
            if c.get('sigma') is not None:
                kw['sigma'] = c['sigma'] if not isinstance(c['sigma'], (list, dict)) else arr(c, 'sigma', shape)
            if c.get('invvar') is not None:
                kw['invvar'] = arr(c, 'invvar', shape)
            if c.get('inmask_values') is not None:
                kw['inmask'] = arr(c, 'inmask_values', shape, mdt)
            elif c.get('inmask') is not None:
                kw['inmask'] = arr(c, 'inmask', shape, mdt)
            om = arr(c, 'outmask_values' if c.get('outmask_values') is not None else 'outmask', shape, mdt)
            if 'grow' in c:
                kw['grow'] = c['grow']
            if 'sticky' in c:
                kw['sticky'] = c['sticky']
            if style == 'intflags':
                kw['sticky'] = int(bool(c.get('sticky'))) if c.get('grow', 0) % 2 else np.bool_(bool(c.get('sticky')))
                kw['grow'] = np.int64(c.get('grow', 0))
            elif style == 'intlimits':
                for k in ('lower', 'upper', 'maxdev', 'sigma'):
                    if isinstance(kw.get(k), float) and kw[k] == int(kw[k]):
                        kw[k] = int(kw[k])
            elif style == 'explicit_none':
                for k in ('inmask', 'sigma', 'invvar', 'lower', 'upper', 'maxdev', 'maxrej', 'groupdim', 'groupsize'):
                    kw.setdefault(k, None)
                kw.setdefault('groupbadpix', False)
            data = arr(c, 'data', shape)
            model = arr(c, 'model', shape)
            mask, qdone = djs_reject(data, model, outmask=om, **kw)
            if keep is not None:
                keep.append(mask)
            # (a tree that combines the masks bitwise returns an integer mask for integer masks: read by truthiness)
            okdt = mask.dtype == np.bool_ or (style == 'intmask' and mask.dtype.kind in 'iu')
            if mask.shape != shape or not okdt or not isinstance(qdone, bool):
                return post({'err': 'BadResult', 'msg': '%s %s %r' % (mask.shape, mask.dtype, qdone)}, [mask])
            return post({'ok': {'mask': [bool(x) for x in mask.ravel()], 'qdone': qdone}}, [mask])
        if f == 'interp':
            shape = tuple(c['shape'])
            y = arr(c, 'y', shape)
            m = arr(c, 'mask', tuple(c.get('mshape') or shape), c.get('maskdtype', 'i4'))
            x = arr(c, 'xval', tuple(c.get('xshape') or shape))
            if c.get('direct1'):
                out = djs_maskinterp1(y, m, xval=x, const=bool(c.get('const')))
            else:
                out = djs_maskinterp(y, m, xval=x, axis=c.get('axis'), const=bool(c.get('const')))
            if keep is not None:
                keep.append(out)
            if out.shape != shape:
                return post({'err': 'BadResult', 'msg': str(out.shape)}, [out])
            nd = len(shape)
            ax = nd - 1 - (c.get('axis') or 0)
            idx = np.arange(y.size).reshape(shape)
            res = {'ok': [float(v) for v in out.ravel()], 'dtype': str(out.dtype)}
            if 0 <= ax < nd:
                res['np_lines'] = np.moveaxis(idx, ax, -1).reshape(-1, shape[ax]).tolist()
            return post(res, [out])
        if f == 'aesth':
            n = len(c['flux']) if isinstance(c['flux'], list) else None
            flux = arr(c, 'flux', (n,) if n is not None else None)
            iv = arr(c, 'invvar', (len(c['invvar']),) if isinstance(c['invvar'], list) else None)
            out = aesthetics(flux, iv, method=c['method'])
            if keep is not None:
                keep.append(out)
            return post({'ok': [float(v) for v in out], 'dtype': str(out.dtype)}, [out])
        if f == 'median':
            shape = tuple(c['shape'])
            a = arr(c, 'xs', shape)
            out = djs_median(a, width=c['width'], boundary='reflect')
            if keep is not None:
                keep.append(out)
            if out.shape != shape:
                return post({'err': 'BadResult', 'msg': str(out.shape)}, [out])
            return post({'ok': [float(v) for v in out.ravel()]}, [out])
        if f == 'sky':
            shape = tuple(c['shape'])
            iv = arr(c, 'invvar', shape)
            om = arr(c, 'mask', shape, c['dtype'])
            lay = c.get('layout')
            am = mk(np.zeros(shape), shape, c['dtype'], bool(c.get('readonly')), lay.get('andmask') if isinstance(lay, dict) else lay)
            USED.append(('andmask', am, snap(am)))
            kw = {}
            if c.get('ngrow') is not None:
                kw['ngrow'] = c['ngrow']
            out = skymask(iv, am, om, **kw)
            if keep is not None:
                keep.append(out)
            if out.shape != shape:
                return post({'err': 'BadResult', 'msg': str(out.shape)}, [out])
            return post({'ok': [float(v) for v in out.ravel()]}, [out])
        if f == 'history':
            return history(c)
        return {'err': 'BadCall'}
    except Exception as e:  # noqa: BLE001 - the error class is the observation
        r = err(e)
        if keep is not None:
            keep.append(None)
        try:
            return post(r, [])
        except Exception:  # noqa: BLE001
            return r


def history(h):
    """several calls in one process on the same array objects (the harness compares every step with the model's
    answer for the ORIGINAL values)"""
    SHARED.clear()
    del PREV[:]
    spec = h['arrays']
    for name, a in spec.items():
        x = mk(a['v'], tuple(a['shape']), a['dtype'], bool(a.get('readonly')), a.get('layout'))
        SHARED[name] = (x, snap(x))
    steps = []
    for st in h['steps']:
        if st.get('f') == 'mutate':
            # the CALLER overwrites one of the shared arrays in place between two calls; the snapshot moves with it
            x, _ = SHARED[st['name']]
            new = np.array(st['v'], dtype=x.dtype).reshape(x.shape)
            was_ro = not x.flags.writeable
            if was_ro:
                x.setflags(write=True)
            if st.get('how') == 'iadd':
                x += (new - x)
            else:
                x[...] = new
            if was_ro:
                x.setflags(write=False)
            SHARED[st['name']] = (x, snap(x))
            steps.append({'mutate': True, 'holds': bool(np.array_equal(x, new))})
            continue
        keep = []
        r = call(st, keep)
        PREV.append(keep[0] if keep else None)
        steps.append(r)
    SHARED.clear()
    return {'steps': steps}


def main():
    payload = json.load(sys.stdin)
    flags = load_maskbits(payload.get('bits', [27, 28]))
    out = {'pydl_file': pydl.__file__, 'flags': flags, 'numpy': np.__version__,
           'results': [call(c) for c in payload['calls']]}
    json.dump(out, sys.stdout)


if __name__ == '__main__':
    main()
