"""C20 fault-injection runner.

stdin JSON: {"target": "window_score"|"template_input", "workdir": ..., "vars": [...touched env var names...],
             "runs": [{"init": {VAR: value-or-null}, "fault": k-or-null, "args": {...}}]}
For each run: set the touched variables as `init` says, install a tracing os.environ, run the entry point
with an exception injected at the k-th *Python-level call made directly by the target function (or by the
helper template_metadata)*, and report outcome, environment diff (ALL variables), env-op trace on the
touched variables, and the number of injectable calls seen.  A run with fault = null is the fault-free run.

Attribution of os.environ operations: an operation belongs to the skeleton when the Python frame that performs it
(os.py wrappers such as os.getenv skipped) is the entry point or one of the helpers the translator inlined
(request key "inlined").  Operations performed by any other code (collaborators, which the skeleton models as an
opaque `Call`) are "foreign": foreign reads are ignored, foreign WRITES are reported (and put in the trace, where no
skeleton accepts them) -- whatever variable they hit.
"""
import json
import os
import pickle
import sys
import warnings

import numpy as np

warnings.filterwarnings('ignore')


class InjectedFault(Exception):
    pass


THIS_FILE = os.path.abspath(__file__)
OS_FILES = (os.path.abspath(os.__file__), '<frozen os>')


class CodeSet(object):
    """The code objects of the entry point and of the helpers inlined in its skeleton.  Helpers are given as
    'pydl/x/y.py:name' and matched by file and function name when first seen, so that nothing has to be imported to
    resolve them (a fresh-interpreter run must not import anything the user's script would not)."""

    def __init__(self, codes=(), specs=()):
        self.codes = set(codes)
        self.specs = set((os.path.normpath(s.split(':', 1)[0]), s.split(':', 1)[1]) for s in specs if '.' not in s.split(':', 1)[1])
        self.no = set()

    def add(self, code):
        self.codes.add(code)

    def __bool__(self):
        return True

    def __contains__(self, code):
        if code in self.codes:
            return True
        if code in self.no or not self.specs:
            return False
        fn = os.path.normpath(code.co_filename)
        for rel, name in self.specs:
            if code.co_name == name and fn.endswith(os.sep + rel) and code.co_qualname == name:
                self.codes.add(code)
                return True
        self.no.add(code)
        return False


class TracingEnviron(object):
    """Wraps the real os.environ mapping; records operations on the watched variables made by the target code and
    every write made by anybody else."""

    def __init__(self, real, watched, codes=()):
        object.__setattr__(self, '_real', real)
        object.__setattr__(self, '_watched', set(watched))
        object.__setattr__(self, '_codes', codes)
        object.__setattr__(self, 'trace', [])
        object.__setattr__(self, 'foreign_writes', [])

    def _rec(self, kind, key, ok):
        f = sys._getframe(1)
        while f is not None and (f.f_code.co_filename in OS_FILES or os.path.abspath(f.f_code.co_filename) in (THIS_FILE,) + OS_FILES):
            f = f.f_back
        own = f is not None and f.f_code in self._codes
        if own:
            if key in self._watched or kind != 'get':
                self.trace.append([kind, key, bool(ok)])
        elif kind != 'get':
            self.trace.append([kind, key, bool(ok)])
            self.foreign_writes.append([kind, key, '%s@%s:%d' % (f.f_code.co_name, os.path.basename(f.f_code.co_filename), f.f_lineno) if f is not None else '?'])

    def __getitem__(self, key):
        ok = key in self._real
        self._rec('get', key, ok)
        return self._real[key]

    def get(self, key, default=None):
        ok = key in self._real
        self._rec('get', key, ok)
        return self._real.get(key, default)

    def __contains__(self, key):
        ok = key in self._real
        self._rec('get', key, ok)
        return ok

    def __setitem__(self, key, value):
        self._real[key] = value      # may raise TypeError for a non-string: then nothing is recorded
        self._rec('set', key, True)

    def setdefault(self, key, value):
        if key not in self._real:
            self._real[key] = value
            self._rec('set', key, True)
        return self._real[key]

    def __delitem__(self, key):
        ok = key in self._real
        self._rec('del', key, ok)
        del self._real[key]

    def pop(self, key, *default):
        ok = key in self._real
        self._rec('del', key, ok)
        return self._real.pop(key, *default)

    def popitem(self):
        k, v = self._real.popitem()
        self._rec('del', k, True)
        return k, v

    def clear(self):
        for k in list(self._real):
            self._rec('del', k, True)
            del self._real[k]

    def update(self, *a, **k):
        d = dict(*a, **k)
        for kk, vv in d.items():
            self._real[kk] = vv
            self._rec('set', kk, True)

    def __getattr__(self, name):
        return getattr(self._real, name)

    def __iter__(self):
        return iter(self._real)

    def __len__(self):
        return len(self._real)


class Injector(object):
    """sys.settrace-based: raises InjectedFault inside the k-th call whose caller frame is a target code object."""

    def __init__(self, target_codes, k, k2=None, exc_class=None):
        self.codes = target_codes
        self.k = k
        self.k2 = k2              # second fault: the k2-th eligible call AFTER the first fault fired (handlers, finally blocks)
        self.exc_class = exc_class or InjectedFault
        self.count = 0
        self.after = 0            # eligible calls seen after the first fault (made by handlers / finally blocks)
        self.fired_at = None
        self.fired2_at = None
        self.names = []
        self.after_names = []

    def tracer(self, frame, event, arg):
        if event != 'call':
            return None
        back = frame.f_back
        if back is None or back.f_code not in self.codes:
            return None
        if frame.f_code in self.codes or frame.f_code.co_filename in (__file__, THIS_FILE):
            return None        # the helper itself is "inlined", calls made by it are counted instead
        if self.fired_at is not None:
            j = self.after
            self.after += 1
            self.after_names.append('%s@%s:%d' % (frame.f_code.co_name, os.path.basename(back.f_code.co_filename), back.f_lineno))
            if self.k2 is not None and j == self.k2 and self.fired2_at is None:
                self.fired2_at = self.after_names[-1]
                return self._raiser2
            return None
        idx = self.count
        self.count += 1
        self.names.append(frame.f_code.co_name)
        if self.k is not None and idx == self.k:
            self.fired_at = '%s@%s:%d' % (frame.f_code.co_name, os.path.basename(back.f_code.co_filename), back.f_lineno)
            # an exception raised by a trace function switches tracing off: a profile hook switches it on again at the
            # next event (the unwinding of the callee), so that calls made by handlers and finally blocks are still seen
            sys.setprofile(self._reinstall)
            return self._raiser
        return None

    def _reinstall(self, frame, event, arg):
        if sys.gettrace() is None:
            sys.settrace(self.tracer)
        sys.setprofile(None)

    def _raiser(self, frame, event, arg):
        # first 'line' event inside the callee: raise there, it propagates into the target function
        raise self.exc_class('injected at call #%d' % self.k)

    def _raiser2(self, frame, event, arg):
        raise InjectedFault('second fault, injected at call #%d after the first' % self.k2)


def optional_keywords(partext):
    """String keys that template_metadata / template_input look up in the parsed parameter file (`'k' in par`,
    `par['k']`, `par.get('k')`) and that the standard test file does not define."""
    import ast
    import inspect
    import textwrap
    import pydl.pydlspec2d.spec1d as S
    known = set(l.split()[0].lower() for l in partext.splitlines() if l.split() and not l.startswith(('typedef', '}', ' ', '#')))
    keys = []
    for fn in ('template_metadata', 'template_input', '_template_input'):
        f = getattr(S, fn, None)
        if f is None:
            continue
        try:
            tree = ast.parse(textwrap.dedent(inspect.getsource(f)))
        except (OSError, SyntaxError):
            continue
        for n in ast.walk(tree):
            k = None
            if isinstance(n, ast.Compare) and len(n.ops) == 1 and isinstance(n.ops[0], (ast.In, ast.NotIn)) \
                    and isinstance(n.left, ast.Constant) and isinstance(n.left.value, str) \
                    and isinstance(n.comparators[0], ast.Name) and n.comparators[0].id == 'par':
                k = n.left.value
            elif isinstance(n, ast.Subscript) and isinstance(n.value, ast.Name) and n.value.id == 'par' \
                    and isinstance(n.slice, ast.Constant) and isinstance(n.slice.value, str):
                k = n.slice.value
            elif isinstance(n, ast.Call) and isinstance(n.func, ast.Attribute) and n.func.attr == 'get' \
                    and isinstance(n.func.value, ast.Name) and n.func.value.id == 'par' and n.args \
                    and isinstance(n.args[0], ast.Constant) and isinstance(n.args[0].value, str):
                k = n.args[0].value
            if k and k.lower() not in known and k not in keys and k.replace('_', '').isalnum():
                keys.append(k)
    return keys


def make_inputs(workdir, fresh=False):
    """Small, valid inputs so that both entry points run to completion without faults.  fresh: nothing of pydl may be
    imported here (the files were made by an earlier, ordinary run)."""
    from astropy.io import fits
    os.makedirs(workdir, exist_ok=True)
    # window_flist.fits with every column sdss_score reads, and the fpFieldStat / psField files of each field under
    # a PHOTO_REDUX tree, so that the real scoring stage runs through sdss_name / sdss_path and opens real files
    resolve = os.path.join(workdir, 'resolve')
    os.makedirs(resolve, exist_ok=True)
    redux = os.path.join(workdir, 'redux')
    fl = os.path.join(resolve, 'window_flist.fits')
    fields = [(137, 4, 100), (752, 1, 373), (94, 6, 11)]
    if not os.path.exists(fl):
        n = len(fields)
        dt = [('RUN', 'i4'), ('CAMCOL', 'i4'), ('FIELD', 'i4'), ('RERUN', 'S3'),
              ('PHOTO_STATUS', 'i4'), ('PSP_STATUS', 'i4', (5,)), ('PSF_FWHM', 'f4', (5,)),
              ('SKYFLUX', 'f4', (5,)), ('XBIN', 'i4'), ('YBIN', 'i4'), ('CALIB_STATUS', 'i4', (5,)),
              ('IMAGE_STATUS', 'i4', (5,)), ('SUN_ANGLE', 'f4'), ('SCORE', 'f4'),
              ('SKY_FRAMES_SUB', 'f4', (5,)), ('SKY', 'f4', (5,)), ('SEEING', 'f4', (5,))]
        d = np.zeros(n, dtype=dt)
        d['RUN'] = [f[0] for f in fields]
        d['CAMCOL'] = [f[1] for f in fields]
        d['FIELD'] = [f[2] for f in fields]
        d['RERUN'] = '301'
        d['XBIN'] = 1
        d['YBIN'] = 1
        d['SUN_ANGLE'] = -20.0
        d['PSF_FWHM'] = 1.0
        d['SKYFLUX'] = 1.0
        tmp = fl + '.%d.tmp' % os.getpid()
        fits.HDUList([fits.PrimaryHDU(), fits.BinTableHDU(d)]).writeto(tmp, overwrite=True)
        os.replace(tmp, fl)
    for run, camcol, field in fields:
        ddir = os.path.join(redux, '301', '%d' % run, 'objcs', '%d' % camcol)
        os.makedirs(ddir, exist_ok=True)
        fp = os.path.join(ddir, 'fpFieldStat-%06d-%d-%04d.fit' % (run, camcol, field))
        if not os.path.exists(fp):
            t = np.zeros(1, dtype=[('status', 'i4')])
            fits.HDUList([fits.PrimaryHDU(), fits.BinTableHDU(t)]).writeto(fp + '.%d.tmp' % os.getpid(), overwrite=True)
            os.replace(fp + '.%d.tmp' % os.getpid(), fp)
        ps = os.path.join(ddir, 'psField-%06d-%d-%04d.fit' % (run, camcol, field))
        if not os.path.exists(ps):
            t = np.zeros(1, dtype=[('status', 'i4', (5,)), ('psf_width', 'f4', (5,)), ('sky', 'f4', (5,))])
            t['psf_width'] = 1.2
            t['sky'] = 2.0
            hdus = [fits.PrimaryHDU()] + [fits.BinTableHDU(np.zeros(1, dtype=[('x', 'i4')])) for _ in range(5)] + [fits.BinTableHDU(t)]
            fits.HDUList(hdus).writeto(ps + '.%d.tmp' % os.getpid(), overwrite=True)
            os.replace(ps + '.%d.tmp' % os.getpid(), ps)
    # template par + dump file
    par = os.path.join(workdir, 'tmpl.par')
    if not os.path.exists(par):
        rows = '\n'.join('EIGENOBJ %d %d %d %.4f' % (3587 + i // 3, 55182 + i // 3, 10 + i, 0.1 + 0.01 * i) for i in range(8))
        open(par, 'w').write('''object gal
method pca
wavemin 3000
wavemax 9000
snmax 100
niter 1
nkeep 4
minuse 3
aesthetics mean
run2d v9_9_9
run1d v8_8_8

typedef struct {
    int plate;
    int mjd;
    int fiberid;
    double zfit;
} EIGENOBJ;

''' + rows + '\n')
    par_hmf = os.path.join(workdir, 'tmpl_hmf.par')
    if not os.path.exists(par_hmf):
        txt = open(par).read().replace('method pca', 'method hmf').replace('run1d v8_8_8\n', 'run1d v8_8_8\nepsilon -1.0\nnonnegative 0\n')
        open(par_hmf, 'w').write(txt)
    # keywords the code looks up in the parameter file that the files above do not have (optional keywords):
    # a third file sets every one of them, so that code guarded by `'key' in par` runs too
    par_opt = os.path.join(workdir, 'tmpl_opt.par')
    opt = [] if fresh else optional_keywords(open(par).read())
    if not os.path.exists(par_opt) and not fresh:
        txt = open(par).read().replace('run1d v8_8_8\n', 'run1d v8_8_8\n' + ''.join('%s %s\n' % (k, workdir) for k in opt))
        open(par_opt, 'w').write(txt)
    dump = os.path.join(workdir, 'tmpl.dump')
    if not os.path.exists(dump):
        rng = np.random.RandomState(5)
        npix = 40
        loglam = 3.5 + 1.0e-4 * np.arange(npix)
        base = np.vstack([np.sin(np.arange(npix) / (3.0 + k)) + 2.0 for k in range(4)])
        coef = rng.uniform(0.5, 1.5, size=(8, 4))
        flux = coef.dot(base) + 0.01 * rng.normal(size=(8, npix))
        ivar = np.ones((8, npix)) * 100.0
        with open(dump, 'wb') as f:
            pickle.dump({'newflux': flux, 'newivar': ivar, 'newloglam': loglam}, f)
    return {'resolve': resolve, 'redux': redux, 'par': par, 'par_hmf': par_hmf, 'par_opt': par_opt, 'optional_keywords': opt, 'dump': dump}


def snapshot():
    return dict(os.environ._real if isinstance(os.environ, TracingEnviron) else os.environ)


_ORIG = {}

# initial values of a touched variable, by label (resolved here so that replay files and reports stay small and
# printable): lengths around typical fixed-width fields, characters that need care in a byte-for-byte comparison
VALUE_LABELS = {
    '@len1': 'x',
    '@len16': 'v5_13_2-abcdefgh',
    '@len17': 'v5_13_2-abcdefghi',
    '@len64': 'v5_13_2-' + 'templates-2024-rerun/' * 2 + 'abcdefghijklmn',
    '@len4096': 'L' * 4000 + '0123456789abcdef' * 6,
    '@nonascii': 'trunk-étoiles-αβγ-星-\U0001f52d',
    '@eqsp': 'a=b = c  d=',
    '@trail': 'v5_13_2 \t',
    '@lead': '  v5_13_2',
    '@newline': 'v5_13_2\nRUN2D=injected',
    '@bytes': 'v5-\udcff\udcfe-raw',          # bytes ff fe (not UTF-8) through surrogateescape
    '@zero': '0',
    '@none': 'None',
}
assert len(VALUE_LABELS['@len16']) == 16 and len(VALUE_LABELS['@len17']) == 17 and len(VALUE_LABELS['@len64']) == 64 \
    and len(VALUE_LABELS['@len4096']) == 4096


def show(v):
    """printable, bounded form of an environment value for reports (the comparison itself is on the real strings)"""
    if v is None:
        return None
    t = v.encode('ascii', 'backslashreplace').decode('ascii')
    return t if len(t) <= 120 else '%s...%s (length %d)' % (t[:40], t[-20:], len(v))


def resolve_function(spec):
    """'pydl/photoop/window.py:sdss_score' -> the function object (None if it is not a plain module-level function)"""
    import importlib
    rel, name = spec.split(':')
    modname = rel[:-3].replace('/', '.')
    if modname.endswith('.__init__'):
        modname = modname[:-9]
    try:
        obj = importlib.import_module(modname)
        for part in name.split('.'):
            obj = getattr(obj, part)
        return obj
    except Exception:   # noqa: BLE001
        return None


def exception_class(name, module=None):
    """the exception class a handler names: a builtin, or a name of the entry point's module (PhotoopException ...)"""
    import builtins
    for ns in (builtins, module):
        c = getattr(ns, name or '', None) if ns is not None else None
        if isinstance(c, type) and issubclass(c, Exception):
            try:
                c('probe')
            except Exception:   # noqa: BLE001
                continue
            return c
    return None


def damaged_copy(src, state, dst):
    """file states for natural failures: missing / empty / garbage / truncated / a directory in its place"""
    if os.path.isdir(dst) and not os.path.islink(dst):
        import shutil
        shutil.rmtree(dst)
    elif os.path.exists(dst):
        os.remove(dst)
    if state == 'missing':
        return dst
    if state == 'isdir':
        os.makedirs(dst)
        return dst
    data = open(src, 'rb').read()
    if state == 'empty':
        data = b''
    elif state == 'garbage':
        data = bytes((i * 37 + 11) % 256 for i in range(3000))
    elif state == 'truncated':
        data = data[:max(1, len(data) // 2 + 7)]
    elif state == 'text':
        data = b'this is not a parameter file { ;\n' * 3
    with open(dst, 'wb') as f:
        f.write(data)
    return dst


def par_variant(paths, kind, workdir):
    """parameter files that fail naturally: before the export (a required keyword missing, unparsable number, no file,
    a directory, an empty file, binary junk) or after it (HMF keywords missing or invalid, no EIGENOBJ rows used later)"""
    base = open(paths['par']).read()
    d = os.path.join(workdir, 'parvariants-%d' % os.getpid())
    os.makedirs(d, exist_ok=True)
    dst = os.path.join(d, kind + '.par')
    if kind in ('missing', 'isdir', 'empty', 'garbage', 'truncated'):
        return damaged_copy(paths['par'], kind, dst)
    if kind == 'early':
        txt = base.replace('niter 1\n', '')
    elif kind == 'badvalue':
        txt = base.replace('nkeep 4\n', 'nkeep four\n')
    elif kind == 'norun1d':
        txt = base.replace('run1d v8_8_8\n', '')
    elif kind == 'badhmf':
        txt = base.replace('method pca', 'method hmf').replace('run1d v8_8_8\n', 'run1d v8_8_8\nepsilon -1.0\n')
    elif kind == 'badhmfvalue':
        txt = base.replace('method pca', 'method hmf').replace('run1d v8_8_8\n', 'run1d v8_8_8\nnonnegative maybe\nepsilon -1.0\n')
    elif kind == 'badmethod':
        txt = base.replace('method pca', 'method nosuchmethod')
    elif kind == 'norows':
        txt = base[:base.index('EIGENOBJ 3')] if 'EIGENOBJ 3' in base else base
    else:
        raise ValueError(kind)
    open(dst, 'w').write(txt)
    return dst


def one_run(target, paths, watched, run, workdir, inlined=(), fresh=False):
    real_environ = os.environ
    args = run.get('args', {})
    if run.get('minimal_env'):
        keep = set(run.get('keep') or ()) | {'PATH', 'PYTHONPATH', 'PYTHONHASHSEED', 'HOME', 'MPLBACKEND', 'MPLCONFIGDIR', 'TMPDIR'}
        for k in list(real_environ):
            if k not in keep:
                del real_environ[k]
    # initial state of the touched variables and of the variables reachable code reads
    for v, val in run['init'].items():
        if val is None:
            real_environ.pop(v, None)
        else:
            real_environ[v] = val
    extra_report = {}
    if fresh:
        # a fresh interpreter: import ONLY the entry point's own module, the way a user's script does
        import importlib
        loaded0 = sorted(m for m in sys.modules if m == 'pydl' or m.startswith('pydl.'))
        env0 = dict(real_environ)
        mod = importlib.import_module(run['module'])
        env1 = dict(real_environ)
        extra_report['pydl_modules_before_import'] = loaded0
        extra_report['import_env_diff'] = dict((k, [show(env0.get(k)), show(env1.get(k))]) for k in set(env0) | set(env1) if env0.get(k) != env1.get(k))
        W = S = mod
        sd = sys.modules.get('pydl.pydlutils.sdss')
        if sd is not None and getattr(sd, 'maskbits', 1) is None:
            sd.maskbits = MASKBITS
    else:
        import pydl.photoop.window as W
        import pydl.pydlspec2d.spec1d as S
    if target in ('window_score', 'window_read'):
        if 'sdss_score' not in _ORIG:
            _ORIG['sdss_score'] = W.sdss_score
        W.sdss_score = _ORIG['sdss_score']
        codes = CodeSet([W.window_score.__code__])
        fstate = args.get('flist_state')
        if fstate and real_environ.get('PHOTO_RESOLVE'):
            bad = os.path.join(paths['resolve'], 'damaged-' + fstate)
            os.makedirs(bad, exist_ok=True)
            damaged_copy(os.path.join(paths['resolve'], 'window_flist.fits'), fstate, os.path.join(bad, 'window_flist.fits'))
            real_environ['PHOTO_RESOLVE'] = bad
        rescore_file = os.path.join(real_environ.get('PHOTO_RESOLVE') or paths['resolve'], 'window_flist_rescore.fits')
        if os.path.exists(rescore_file):
            os.remove(rescore_file)
        if target == 'window_score':
            kwargs = {'rescore': bool(args.get('rescore', False))}
            kwargs.update(args.get('kwargs') or {})
            call = lambda: W.window_score(**kwargs)   # noqa: E731
        else:
            codes.add(W.window_read.__code__)
            kwargs = {'flist': True, 'rescore': True}
            kwargs.update(args.get('kwargs') or {})
            call = lambda: W.window_read(**kwargs)   # noqa: E731
        # sdss_score in the repository calls a function that does not exist in numpy 2; give it a
        # chance to succeed so that the straight-line path is explored too (stub only when asked)
        if args.get('stub_score', True):
            W.sdss_score = lambda flist, silent=True: np.ones(len(flist[1].data), dtype='f4')
    else:
        codes = CodeSet([S.template_input.__code__, S.template_metadata.__code__])
        for extra in ('_template_input',):
            if hasattr(S, extra):
                codes.add(getattr(S, extra).__code__)
        parfile = paths['par_hmf'] if args.get('method') == 'hmf' else paths['par']
        if args.get('optional_keywords'):
            parfile = paths['par_opt']
        if args.get('parfile'):
            parfile = par_variant(paths, args['parfile'], workdir)
        # nodump: no intermediate file, the spectra are looked up through readspec (which reads the environment)
        dump = os.path.join(workdir, 'no-such-dump-%d' % os.getpid()) if args.get('nodump') else paths['dump']
        if args.get('dumpfile'):
            dump = damaged_copy(paths['dump'], args['dumpfile'], os.path.join(workdir, 'dump-%s-%d' % (args['dumpfile'], os.getpid())))
        kwargs = {'flux': bool(args.get('flux', False)), 'verbose': False}
        kwargs.update(args.get('kwargs') or {})
        call = lambda: S.template_input(parfile, dump, **kwargs)   # noqa: E731
    if fresh:
        codes.specs |= CodeSet((), inlined).specs
    else:
        for spec in inlined:
            f = resolve_function(spec)
            if f is not None and hasattr(f, '__code__'):
                codes.add(f.__code__)
    before = dict(real_environ)
    loaded1 = set(m for m in sys.modules if m == 'pydl' or m.startswith('pydl.'))
    tr = TracingEnviron(real_environ, watched, codes)
    inj = Injector(codes, run.get('fault'), run.get('fault2'), exception_class(run.get('fault_class'), S if target == 'template_input' else W))
    real_putenv, real_unsetenv = os.putenv, os.unsetenv

    def from_os_module():
        name = sys._getframe(2).f_code.co_filename
        return name in OS_FILES or os.path.abspath(name) in OS_FILES

    def traced_putenv(k, v):
        if not from_os_module():      # os.environ's own __setitem__ calls putenv: already recorded
            tr._rec('set', os.fsdecode(k), True)
        return real_putenv(k, v)

    def traced_unsetenv(k):
        if not from_os_module():
            tr._rec('del', os.fsdecode(k), True)
        return real_unsetenv(k)
    os.environ = tr
    os.putenv, os.unsetenv = traced_putenv, traced_unsetenv
    outcome = 'returned'
    exc = None
    cwd = os.getcwd()
    os.chdir(workdir)
    try:
        sys.settrace(inj.tracer)
        try:
            call()
        finally:
            sys.settrace(None)
            sys.setprofile(None)
    except BaseException as e:  # noqa: BLE001
        outcome = 'raised'
        exc = '%s: %s' % (type(e).__name__, show(str(e)[:100]))
    finally:
        os.environ = real_environ
        os.putenv, os.unsetenv = real_putenv, real_unsetenv
        os.chdir(cwd)
    after = dict(real_environ)
    # verbose=True switches the (process-wide) astropy logger to DEBUG: put it back for the next run of this process
    lg = sys.modules.get('astropy')
    if lg is not None and getattr(lg, 'log', None) is not None:
        try:
            lg.log.setLevel('INFO')
        except Exception:   # noqa: BLE001
            pass
    diff = {}
    for k in set(before) | set(after):
        if before.get(k) != after.get(k):      # str equality = byte equality (surrogateescape is a bijection)
            diff[k] = [show(before.get(k)), show(after.get(k))]
    if fresh:
        extra_report['pydl_modules_before_call'] = sorted(loaded1)
        extra_report['pydl_modules_imported_by_call'] = sorted(m for m in sys.modules if (m == 'pydl' or m.startswith('pydl.')) and m not in loaded1)
    res = {'outcome': outcome, 'exc': exc, 'env_diff': diff, 'trace': tr.trace, 'ncalls': inj.count,
           'foreign_writes': tr.foreign_writes, 'presence': dict((e[1], e[1] in before) for e in tr.trace),
           'fired_at': inj.fired_at, 'call_names': inj.names if run.get('want_names') else None,
           'ncalls_after': inj.after, 'after_names': inj.after_names[:8], 'fired2_at': inj.fired2_at}
    res.update(extra_report)
    return res


MASKBITS = {'IMAGE_STATUS': {'CLEAR': 0, 'CLOUDY': 1, 'UNKNOWN': 2, 'FF_PETALS': 3, 'DEAD_CCD': 4,
                             'NOISY_CCD': 5, 'BAD_ROTATOR': 6, 'BAD_ASTROM': 7, 'BAD_FOCUS': 8,
                             'SHUTTERS': 9}}


def main():
    # everything the code under test prints goes to stderr; the JSON answer goes to the real stdout
    real_out = os.fdopen(os.dup(1), 'w')
    os.dup2(2, 1)
    sys.stdout = sys.stderr
    req = json.load(sys.stdin)
    workdir = req['workdir']
    fresh = bool(req.get('fresh'))
    paths = make_inputs(workdir, fresh)
    # a private copy of the resolve directory for this process: window_score writes into it
    import shutil
    private = os.path.join(workdir, 'resolve-p%d' % os.getpid())
    os.makedirs(private, exist_ok=True)
    shutil.copy(os.path.join(paths['resolve'], 'window_flist.fits'), os.path.join(private, 'window_flist.fits'))
    paths = dict(paths, resolve=private)
    out = {'paths': paths, 'results': []}
    if fresh:
        # no pydl module may be loaded by the harness itself; the backend is chosen through the environment
        os.environ.setdefault('MPLBACKEND', 'Agg')
        assert not [m for m in sys.modules if m == 'pydl' or m.startswith('pydl.')], 'harness imported pydl before a fresh run'
    else:
        import pydl
        out['pydl_file'] = pydl.__file__
        import matplotlib
        matplotlib.use('Agg')
        # the scoring stage needs the IMAGE_STATUS maskbits, which pydl downloads on first use (no network here): give the
        # cache the documented bit numbers of that mask (best effort; without it the real sdss_score ends at the download)
        try:
            import pydl.pydlutils.sdss as SD
            if SD.maskbits is None:
                SD.maskbits = MASKBITS
        except Exception:   # noqa: BLE001
            pass
    for run in req['runs']:
        init = dict(run['init'])
        for v, val in list(init.items()):
            # '@dir': a usable directory; PHOTO_RESOLVE / PHOTO_REDUX point at the prepared trees
            if val == '@dir' or (v == 'PHOTO_RESOLVE' and val is not None):
                init[v] = paths['resolve'] if v == 'PHOTO_RESOLVE' else paths['redux'] if v == 'PHOTO_REDUX' \
                    else os.path.join(workdir, 'env', v.lower())
            elif val in VALUE_LABELS:
                init[v] = VALUE_LABELS[val]
        run = dict(run, init=init)
        if os.environ.get('C20_DEBUG'):
            open(os.path.join(workdir, 'current-%d.json' % os.getpid()), 'w').write(json.dumps([req['target'], run]))
        out['results'].append(one_run(req['target'], paths, req['vars'], run, workdir, req.get('inlined') or (), fresh))
    shutil.rmtree(private, ignore_errors=True)
    shutil.rmtree(os.path.join(workdir, 'parvariants-%d' % os.getpid()), ignore_errors=True)
    for f in os.listdir(workdir):
        if f.startswith('dump-') and f.endswith('-%d' % os.getpid()):
            q = os.path.join(workdir, f)
            shutil.rmtree(q, ignore_errors=True) if os.path.isdir(q) else os.remove(q)
    json.dump(out, real_out)
    real_out.flush()


if __name__ == '__main__':
    main()
