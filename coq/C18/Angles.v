(* C18 -- angles <-> unit vectors (pydl.pydlutils.mangle angles_to_x / x_to_angles): mutual inverses on the
   open domain, azimuth modulo 360 degrees.  atan2 is Spec.atan2 (numpy's arctan2 away from the origin). *)
From Coq Require Import Reals ZArith Lra Lia.
From PV Require Import C18.Spec C18.SpecProofs Generated.Coord.
Open Scope R_scope.

Lemma atan_ratio : forall rho psi, 0 < rho -> - (PI / 2) < psi < PI / 2 ->
  atan ((rho * sin psi) / (rho * cos psi)) = psi.
Proof.
  intros rho psi Hr Hp.
  assert (C : 0 < cos psi) by (apply cos_gt_0; lra).
  replace ((rho * sin psi) / (rho * cos psi)) with (tan psi) by (unfold tan; field; lra).
  apply atan_tan. exact Hp.
Qed.

Lemma atan2_polar : forall rho phi, 0 < rho -> - PI < phi <= PI ->
  atan2 (rho * sin phi) (rho * cos phi) = phi.
Proof.
  intros rho phi Hr [Hlo Hhi]. pose proof PI_RGT_0 as P. unfold atan2.
  destruct (Rlt_dec phi (- (PI / 2))) as [A|A].
  { (* third quadrant: phi = psi - PI, 0 < psi < PI/2 *)
    set (psi := phi + PI). assert (E : phi = psi - PI) by (unfold psi; ring).
    assert (Hpsi : 0 < psi < PI / 2) by (unfold psi; lra).
    assert (S : sin phi = - sin psi).
    { rewrite E. replace (psi - PI) with (- (PI - psi)) by ring. rewrite sin_neg, sin_PI_x. reflexivity. }
    assert (Cc : cos phi = - cos psi).
    { rewrite E. replace (psi - PI) with (- (PI - psi)) by ring. rewrite cos_neg.
      replace (PI - psi) with (- psi + PI) by ring. rewrite neg_cos, cos_neg. reflexivity. }
    assert (C : 0 < cos psi) by (apply cos_gt_0; lra).
    assert (Sp : 0 < sin psi) by (apply sin_gt_0; lra).
    rewrite S, Cc.
    destruct (Rlt_dec 0 (rho * - cos psi)) as [B|B]. { exfalso; nra. }
    destruct (Rlt_dec (rho * - cos psi) 0) as [B'|B']. 2:{ exfalso; nra. }
    destruct (Rle_dec 0 (rho * - sin psi)) as [D|D]. { exfalso; nra. }
    replace ((rho * - sin psi) / (rho * - cos psi)) with ((rho * sin psi) / (rho * cos psi)) by (field; lra).
    rewrite atan_ratio by lra. lra. }
  destruct (Req_dec phi (- (PI / 2))) as [->|A1].
  { rewrite cos_neg, sin_neg, cos_PI2, sin_PI2. rewrite Rmult_0_r.
    destruct (Rlt_dec 0 0) as [B|B]. { exfalso; lra. }
    destruct (Rlt_dec 0 (rho * - (1))) as [B1|B1]. { exfalso; lra. }
    destruct (Rlt_dec (rho * - (1)) 0) as [B2|B2]. reflexivity. exfalso; lra. }
  destruct (Rlt_dec phi (PI / 2)) as [A2|A2].
  { assert (C : 0 < cos phi) by (apply cos_gt_0; lra).
    destruct (Rlt_dec 0 (rho * cos phi)) as [B|B]. 2:{ exfalso; nra. }
    apply atan_ratio; lra. }
  destruct (Req_dec phi (PI / 2)) as [->|A3].
  { rewrite cos_PI2, sin_PI2, Rmult_0_r, Rmult_1_r.
    destruct (Rlt_dec 0 0) as [B|B]. { exfalso; lra. }
    destruct (Rlt_dec 0 rho) as [B1|B1]. reflexivity. exfalso; lra. }
  (* second quadrant: phi = psi + PI, -PI/2 < psi <= 0 *)
  set (psi := phi - PI). assert (E : phi = psi + PI) by (unfold psi; ring).
  assert (Hpsi : - (PI / 2) < psi <= 0) by (unfold psi; lra).
  assert (S : sin phi = - sin psi) by (rewrite E; apply neg_sin).
  assert (Cc : cos phi = - cos psi) by (rewrite E; apply neg_cos).
  assert (C : 0 < cos psi) by (apply cos_gt_0; lra).
  assert (Sp : sin psi <= 0).
  { replace psi with (- (- psi)) by ring. rewrite sin_neg.
    assert (0 <= sin (- psi)) by (apply sin_ge_0; lra). lra. }
  rewrite S, Cc.
  destruct (Rlt_dec 0 (rho * - cos psi)) as [B|B]. { exfalso; nra. }
  destruct (Rlt_dec (rho * - cos psi) 0) as [B'|B']. 2:{ exfalso; nra. }
  destruct (Rle_dec 0 (rho * - sin psi)) as [D|D]. 2:{ exfalso; nra. }
  replace ((rho * - sin psi) / (rho * - cos psi)) with ((rho * sin psi) / (rho * cos psi)) by (field; lra).
  rewrite atan_ratio by lra. lra.
Qed.

Lemma sin_cos_period_nat : forall x (n : nat), sin (x + 2 * INR n * PI) = sin x /\ cos (x + 2 * INR n * PI) = cos x.
Proof. intros. split. apply sin_period. apply cos_period. Qed.

Lemma sin_cos_period_Z : forall x k, sin (x + 2 * IZR k * PI) = sin x /\ cos (x + 2 * IZR k * PI) = cos x.
Proof.
  intros x k. destruct (Z_le_gt_dec 0 k) as [H|H].
  - rewrite <- (Z2Nat.id k H), <- INR_IZR_INZ. apply sin_cos_period_nat.
  - assert (H' : (0 <= - k)%Z) by lia.
    destruct (sin_cos_period_nat (x + 2 * IZR k * PI) (Z.to_nat (- k))) as [A B].
    rewrite INR_IZR_INZ, (Z2Nat.id _ H'), opp_IZR in A, B.
    replace (x + 2 * IZR k * PI + 2 * - IZR k * PI) with x in A, B by ring.
    split; congruence.
Qed.

Lemma angles_to_x_is_S : forall lat phi theta, angles_to_x_gen lat phi theta = angles_to_x_S lat phi theta.
Proof.
  intros [|] phi theta; unfold angles_to_x_gen, angles_to_x_S, vec, deg.
  - replace ((90 - theta) * PI / 180) with (PI / 2 - theta * PI / 180) by field.
    rewrite sin_shift, cos_shift. apply pair3_eq; ring.
  - reflexivity.
Qed.

(* core statement with the polar angle th (radians) in (0, PI) and the azimuth in radians *)
Lemma x_to_angles_core : forall lat phi0 th k,
  - PI < phi0 <= PI -> 0 < th < PI ->
  let phi := phi0 + 2 * IZR k * PI in
  x_to_angles_gen atan2 lat (cos phi * sin th) (sin phi * sin th) (cos th)
  = (phi0 * 180 / PI, if lat then 90 - th * 180 / PI else th * 180 / PI).
Proof.
  intros lat phi0 th k Hphi Hth phi. pose proof PI_RGT_0 as P.
  destruct (sin_cos_period_Z phi0 k) as [Sk Ck]. fold phi in Sk, Ck.
  assert (St : 0 < sin th) by (apply sin_gt_0; lra).
  unfold x_to_angles_gen. rewrite Sk, Ck.
  replace (sin phi0 * sin th) with (sin th * sin phi0) by ring.
  replace (cos phi0 * sin th) with (sin th * cos phi0) by ring.
  rewrite atan2_polar by assumption.
  assert (R1 : sin th * cos phi0 * (sin th * cos phi0) + sin th * sin phi0 * (sin th * sin phi0) + cos th * cos th = 1).
  { generalize (sc1 th) (sc1 phi0). intros. nra. }
  rewrite R1. replace (cos th / 1) with (cos th) by field. rewrite acos_cos by lra.
  reflexivity.
Qed.

Lemma angles_x_inverse : forall (lat : bool) phi theta k,
  -180 < phi - 360 * IZR k <= 180 ->
  (if lat then -90 < theta < 90 else 0 < theta < 180) ->
  x_to_angles_gen atan2 lat (fst (fst (angles_to_x_gen lat phi theta))) (snd (fst (angles_to_x_gen lat phi theta)))
                  (snd (angles_to_x_gen lat phi theta)) = (phi - 360 * IZR k, theta).
Proof.
  intros lat phi theta k Hphi Hth. pose proof PI_RGT_0 as P.
  set (phi0 := (phi - 360 * IZR k) * PI / 180).
  assert (Hphi0 : - PI < phi0 <= PI).
  { unfold phi0. split.
    - apply Rmult_lt_reg_r with (180 / PI). apply Rdiv_lt_0_compat; lra.
      replace ((phi - 360 * IZR k) * PI / 180 * (180 / PI)) with (phi - 360 * IZR k) by (field; lra).
      replace (- PI * (180 / PI)) with (-180) by (field; lra). lra.
    - apply Rmult_le_reg_r with (180 / PI). apply Rdiv_lt_0_compat; lra.
      replace ((phi - 360 * IZR k) * PI / 180 * (180 / PI)) with (phi - 360 * IZR k) by (field; lra).
      replace (PI * (180 / PI)) with 180 by (field; lra). lra. }
  assert (Ephi : phi * PI / 180 = phi0 + 2 * IZR k * PI) by (unfold phi0; field).
  set (th := if lat then (90 - theta) * PI / 180 else theta * PI / 180).
  assert (Hth' : 0 < th < PI).
  { unfold th. destruct lat; split.
    - apply Rmult_lt_reg_r with (180 / PI). apply Rdiv_lt_0_compat; lra.
      replace ((90 - theta) * PI / 180 * (180 / PI)) with (90 - theta) by (field; lra). lra.
    - apply Rmult_lt_reg_r with (180 / PI). apply Rdiv_lt_0_compat; lra.
      replace ((90 - theta) * PI / 180 * (180 / PI)) with (90 - theta) by (field; lra).
      replace (PI * (180 / PI)) with 180 by (field; lra). lra.
    - apply Rmult_lt_reg_r with (180 / PI). apply Rdiv_lt_0_compat; lra.
      replace (theta * PI / 180 * (180 / PI)) with theta by (field; lra). lra.
    - apply Rmult_lt_reg_r with (180 / PI). apply Rdiv_lt_0_compat; lra.
      replace (theta * PI / 180 * (180 / PI)) with theta by (field; lra).
      replace (PI * (180 / PI)) with 180 by (field; lra). lra. }
  assert (G : angles_to_x_gen lat phi theta
              = (cos (phi0 + 2 * IZR k * PI) * sin th, sin (phi0 + 2 * IZR k * PI) * sin th, cos th)).
  { unfold angles_to_x_gen. rewrite Ephi. fold th. reflexivity. }
  rewrite G. cbn [fst snd].
  rewrite (x_to_angles_core lat phi0 th k Hphi0 Hth').
  unfold phi0, th. destruct lat; f_equal; field; lra.
Qed.
