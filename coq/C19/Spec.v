(* C19 -- specification side (hand-written, independent of Generated/).  Definitions only.
   Documented behaviour:
     airtovac/vactoair: Ciddor (1996) refractivity of standard air, n - 1 = 5.792105e-2/(238.0185 - s2) +
       1.67917e-3/(57.362 - s2), s2 = (1e4/lambda[A])^2; wavelengths below 2000 A are not converted;
     sdssflux2ab: u,g,r,i,z AB offsets -0.042, +0.036, +0.015, +0.013, -0.002 mag (D. Hogg, sdss-calib/845);
     filter_thru: response-weighted mean of the flux. *)
From Coq Require Import Reals QArith List Bool ZArith Qabs.
Import ListNotations.

(* ---------- weighted mean over paired data (weight, flux) ---------- *)
Open Scope Q_scope.

Fixpoint sumw (l : list (Q * Q)) : Q := match l with [] => 0 | (w, _) :: t => w + sumw t end.
Fixpoint sumwf (l : list (Q * Q)) : Q := match l with [] => 0 | (w, f) :: t => w * f + sumwf t end.

(* the weighted mean the property talks about (defined when the weights do not sum to zero) *)
Definition wmean (l : list (Q * Q)) : Q := sumwf l / sumw l.

Definition nonneg_weights (l : list (Q * Q)) : Prop := forall w f, In (w, f) l -> 0 <= w.
Definition flux_within (lo hi : Q) (l : list (Q * Q)) : Prop := forall w f, In (w, f) l -> lo <= f <= hi.

(* boolean versions used by the run-time checker *)
Definition all_nonneg (l : list (Q * Q)) : bool := forallb (fun p => Qle_bool 0 (fst p)) l.
Fixpoint fmin (l : list (Q * Q)) (d : Q) : Q := match l with [] => d | (_, f) :: t => fmin t (if Qle_bool f d then f else d) end.
Fixpoint fmax (l : list (Q * Q)) (d : Q) : Q := match l with [] => d | (_, f) :: t => fmax t (if Qle_bool d f then f else d) end.

(* certified checker S for one (trace, band): r is acceptable as "response-weighted mean of f with weights w"
   iff the weights are >= 0 and, when they overlap the spectrum (sum > 0), r lies within [min f - tol, max f + tol]
   and |r * sum w - sum w f| <= tol * sum w; without overlap r = 0. *)
Definition wmean_ok (l : list (Q * Q)) (r tol : Q) : bool :=
  match l with
  | [] => Qeq_bool r 0
  | (_, f0) :: _ =>
    all_nonneg l &&
    (if Qle_bool (sumw l) 0 then Qeq_bool r 0
     else Qle_bool (fmin l f0 - tol) r && Qle_bool r (fmax l f0 + tol) &&
          Qle_bool (Qabs (r * sumw l - sumwf l)) (tol * sumw l))
  end.

(* the weight of a pixel in a band: its width in log-wavelength |d(log lambda)| (fitted; negative when the spectrum is stored
   red to blue) times the filter response interpolated at the pixel's wavelength *)
Definition weight_S (fitted resp : Q) : Q := Qabs fitted * resp.
Definition spec_pairs (l : list (Q * Q * Q)) : list (Q * Q) :=
  map (fun t : Q * Q * Q => (weight_S (fst (fst t)) (snd (fst t)), snd t)) l.

(* ---------- air <-> vacuum: what the property demands of one observed value ---------- *)
Definition threshold_A : Q := 2000.

Definition rel_close (a b tol : Q) : bool := Qle_bool (Qabs (a - b)) (tol * Qabs b).

(* x: input wavelength in Angstrom; r: output in Angstrom.  At or above the threshold vacuum > air strictly; below it the
   value is returned unchanged (1e-12 relative: a Quantity in nm or um makes a round trip through Angstrom) *)
Definition unchanged_tol : Q := 1 # 1000000000000.
Definition airtovac_ok (x r : Q) : bool :=
  if Qle_bool threshold_A x then negb (Qle_bool r x) else rel_close r x unchanged_tol.
Definition vactoair_ok (x r : Q) : bool :=
  if Qle_bool threshold_A x then negb (Qle_bool x r) else rel_close r x unchanged_tol.

Close Scope Q_scope.

(* ---------- masked pixels (documented: "Interpolate over pixels where mask is non-zero") ---------- *)
Open Scope Q_scope.
(* a pixel is bad iff its mask value is not zero: negative flag values (-1, the sign bit of a signed integer), any bit of
   any width, non-integer values alike *)
Definition bad_S (m : Q) : bool := negb (Qeq_bool m 0).

(* a row is a list of (flux value, mask value) *)
Fixpoint good_vals (l : list (Q * Q)) : list Q :=
  match l with [] => [] | (v, m) :: t => if bad_S m then good_vals t else v :: good_vals t end.
Fixpoint lmin (l : list Q) (d : Q) : Q := match l with [] => d | f :: t => lmin t (if Qle_bool f d then f else d) end.
Fixpoint lmax (l : list Q) (d : Q) : Q := match l with [] => d | f :: t => lmax t (if Qle_bool d f then f else d) end.

(* what the property demands of the row r that enters the band sums, given the caller's row l: good pixels keep their value
   exactly, bad pixels are replaced by something within [lo, hi] (the range of the good values) *)
Fixpoint fill_rows (l : list (Q * Q)) (r : list Q) (lo hi tol : Q) : bool :=
  match l, r with
  | [], [] => true
  | (v, m) :: t, x :: u =>
      (if bad_S m then Qle_bool (lo - tol) x && Qle_bool x (hi + tol) else Qeq_bool x v) && fill_rows t u lo hi tol
  | _, _ => false
  end.
(* certified checker S for one interpolated row; nothing can be demanded of a row without any good pixel *)
Definition fill_ok (l : list (Q * Q)) (r : list Q) (tol : Q) : bool :=
  match good_vals l with
  | [] => Nat.eqb (length l) (length r)
  | g0 :: gs => fill_rows l r (lmin gs g0) (lmax gs g0) tol
  end.
Close Scope Q_scope.

(* ---------- sdssflux2ab ---------- *)
Open Scope R_scope.
Definition ab_offset (band : nat) : R :=
  match band with
  | 0%nat => -42 / 1000 | 1%nat => 36 / 1000 | 2%nat => 15 / 1000 | 3%nat => 13 / 1000 | 4%nat => -2 / 1000 | _ => 0 end.
Definition log10 (x : R) : R := ln x / ln 10.
Definition pow10 (x : R) : R := exp (x * ln 10).
(* AB flux = flux * 10^(-offset/2.5); AB magnitude = magnitude + offset; inverse variance scales with 1/factor^2 *)
Definition ab_flux (band : nat) (f : R) : R := f * pow10 (- ab_offset band / (5 / 2)).
Definition ab_mag (band : nat) (m : R) : R := m + ab_offset band.
Definition ab_ivar (band : nat) (iv : R) : R := iv / (pow10 (- ab_offset band / (5 / 2)) * pow10 (- ab_offset band / (5 / 2))).
Close Scope R_scope.
