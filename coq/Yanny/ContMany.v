(* Yanny/ContMany.v -- ANY NUMBER of backslash continuations at file level (round 5).  ContFile.continuation_file removes one
   continuation; here a text cut at n places, each cut being a continuation (backslash, blanks, newline, indentation of the
   next line), reads like the text with the blanks instead -- and composed with the file-level layout theorem
   Skeleton.layout_file_skeleton: every file of that theorem with continuations put at any of its blank runs reads as the
   document. *)
From Coq Require Import String.
From Coq Require Import NArith ZArith List Bool Lia.
Import ListNotations.
From PV Require Import Yanny.Bytes Yanny.BytesFacts Yanny.Types Yanny.Parse Yanny.Render
  Yanny.TokenFacts Yanny.RowFacts Yanny.LayoutFacts Yanny.ScanFacts Yanny.FileFacts Yanny.ContFile
  Yanny.RoundTrip Yanny.LayoutFile Yanny.LayoutRow Yanny.LayoutFile2 Yanny.TypedefLayout Yanny.Skeleton.
Open Scope N_scope.

(* a text cut at n places: piece A, then a continuation (backslash, blanks w1, newline, indentation w2) *)
Fixpoint with_conts (segs : list (bytes * bytes * bytes)) (B : bytes) : bytes :=
  match segs with [] => B | (A, w1, w2) :: r => A ++ BSL :: w1 ++ NL :: w2 ++ with_conts r B end.
(* the same text with one blank + the indentation at every cut *)
Fixpoint with_blanks (segs : list (bytes * bytes * bytes)) (B : bytes) : bytes :=
  match segs with [] => B | (A, w1, w2) :: r => A ++ SP :: w2 ++ with_blanks r B end.
Definition cseg_ok (s : bytes * bytes * bytes) : Prop :=
  let '(A, w1, w2) := s in cont_okb A = true /\ all_ws w1 = true /\ all_ws w2 = true /\ mem NL w2 = false.
(* what follows every continuation starts with a non-blank *)
Fixpoint conts_heads_ok (segs : list (bytes * bytes * bytes)) (B : bytes) : Prop :=
  match segs with [] => True | _ :: r => head_not_ws (with_conts r B) /\ conts_heads_ok r B end.

(* sufficient: every piece after the first starts with a non-blank (or is empty: then the next backslash follows), and so does B *)
Lemma conts_heads_suff segs B : head_not_ws B -> Forall (fun s => head_not_ws (fst (fst s))) (tl segs) -> conts_heads_ok segs B.
Proof.
  intros HB. induction segs as [|s r IH]; intros H; [exact I|]. cbn [tl] in H. cbn [conts_heads_ok]. split.
  - destruct r as [|[[A w1] w2] r']; [exact HB|]. inversion H as [|x y Hx Hy]; subst. cbn [with_conts fst] in *.
    destruct A as [|c A]; [reflexivity|exact Hx].
  - apply IH. destruct r as [|s' r']; [constructor|]. inversion H; subst. cbn [tl]. assumption.
Qed.

Lemma join_conts segs B : Forall cseg_ok segs -> conts_heads_ok segs B ->
  join_cont (with_conts segs B) = join_cont (with_blanks segs B).
Proof.
  induction segs as [|[[A w1] w2] r IH]; intros Hs Hh; [reflexivity|].
  inversion Hs as [|x y Hx Hr]; subst. unfold cseg_ok in Hx. destruct Hx as [HA [H1 [H2 Hn]]]. destruct Hh as [Hh1 Hh2]. cbn [with_conts with_blanks].
  unfold join_cont in *. rewrite !join_cont_ok by auto. f_equal.
  pose proof (continuation_join [] w1 w2 (with_conts r B) eq_refl H1 H2 Hn Hh1) as C. unfold join_cont in C. cbn [app] in C. rewrite C.
  change (SP :: w2 ++ with_blanks r B) with ((SP :: w2) ++ with_blanks r B). rewrite join_cont_blanks by (cbn [all_ws forallb]; exact H2).
  cbn [app]. f_equal. f_equal. now apply IH.
Qed.

Lemma no_cr_blanks segs B : mem CR (with_conts segs B) = false -> mem CR (with_blanks segs B) = false.
Proof.
  induction segs as [|[[A w1] w2] r IH]; intros H; [exact H|]. cbn [with_conts with_blanks] in *.
  assert (MC : forall c x l, mem c (x :: l) = (c =? x) || mem c l) by reflexivity.
  rewrite mem_app, MC, mem_app, MC, mem_app in H.
  apply orb_false_iff in H as [HA H]. apply orb_false_iff in H as [_ H]. apply orb_false_iff in H as [_ H].
  apply orb_false_iff in H as [_ H]. apply orb_false_iff in H as [Hw2 HR].
  rewrite mem_app, MC, mem_app, HA, Hw2, (IH HR). reflexivity.
Qed.

(* CR-free texts: the read of a file with n continuations = the read of the file with blanks instead *)
Theorem continuations_file segs B : Forall cseg_ok segs -> conts_heads_ok segs B -> mem CR (with_conts segs B) = false ->
  parse (with_conts segs B) = parse (with_blanks segs B) /\ parse_binary (with_conts segs B) = parse_binary (with_blanks segs B).
Proof.
  intros Hs Hh Hcr. pose proof (no_cr_blanks _ _ Hcr) as Hcr'. unfold parse, parse_binary. rewrite !univ_nl_id by auto.
  split; apply parse_text_join; now apply join_conts.
Qed.

(* FILE LEVEL: any skeleton, any decoration (Skeleton.layout_file_skeleton), and continuations at any number of places where
   the laid-out text has a blank followed by blanks and a non-blank *)
Theorem layout_file_skeleton_conts d tws l Ds segs B : doc_ok d = true -> map fst tws = d_tables d -> tws_ok (d_enums d) tws ->
  skel_ok d tws l -> idec (sy_of (d_enums d) tws) Ds (map sk_item l) -> Ds <> [] ->
  Forall cseg_ok segs -> conts_heads_ok segs B -> mem CR (with_conts segs B) = false ->
  with_blanks segs B = items_text Ds ->
  exists p, sem d = Some p /\
    parse (with_conts segs B) = Some (with_texts p (map ebtext (sk_enums l)) (map btext (sk_structs l))) /\
    parse_binary (with_conts segs B) = Some (with_texts p (map ebtext (sk_enums l)) (map btext (sk_structs l))).
Proof.
  intros Hd Et Hok Hsk HD Hne Hs Hh Hcr E.
  destruct (continuations_file segs B Hs Hh Hcr) as [-> ->]. rewrite E.
  now apply (layout_file_skeleton d tws l Ds).
Qed.

(* non-vacuity: two continuations inside one data row *)
Definition conts_ex_segs : list (bytes * bytes * bytes) := [(bs "FOO 1"%string, [SP], [SP; SP]); (bs "2"%string, [], [TAB])].
Definition conts_ex_B : bytes := bs "3"%string ++ [NL].
Lemma conts_example : Forall cseg_ok conts_ex_segs /\ conts_heads_ok conts_ex_segs conts_ex_B /\
  mem CR (with_conts conts_ex_segs conts_ex_B) = false /\
  with_conts conts_ex_segs conts_ex_B = bs "FOO 1\ "%string ++ [NL] ++ bs "  2\"%string ++ [NL; TAB] ++ bs "3"%string ++ [NL] /\
  with_blanks conts_ex_segs conts_ex_B = bs "FOO 1   2 "%string ++ [TAB] ++ bs "3"%string ++ [NL].
Proof.
  split; [repeat constructor|]. split; [cbn; repeat split; reflexivity|]. split; [reflexivity|]. split; reflexivity.
Qed.
Print Assumptions continuations_file.
Print Assumptions layout_file_skeleton_conts.
