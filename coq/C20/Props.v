(* C20 -- a failing pipeline call leaves the process environment as it found it.
   window_score_skel / template_input_skel are GENERATED from /repo on every run (Generated/EnvSkeletons.v):
   the theorems below hold or fail with the source. *)
From Coq Require Import List Bool.
Import ListNotations.
From PV Require Import C20.Model C20.Proofs C20.Accepts Generated.EnvSkeletons.

(* soundness of the decision procedure, for every program, schedule (fault point, branch choices) and
   initial environment: if the check passes, EVERY environment variable is back to its entry value/absence *)
Theorem C20_environment_restored : forall vars p,
  restores_check vars p = true -> writes_within vars p = true ->
  forall env0 sc st' o sc', exec p sc (env0, fun _ => None) = (st', o, sc') ->
  forall v, fst st' v = env0 v.
Proof. exact environment_restored. Qed.
Print Assumptions C20_environment_restored.

(* the two entry points, as extracted from the current source *)
Theorem C20_window_score_restores :
  restores_check window_score_vars window_score_skel = true /\ writes_within window_score_vars window_score_skel = true.
Proof. exact (conj (eq_refl true) (eq_refl true)). Qed.
Print Assumptions C20_window_score_restores.

Theorem C20_template_input_restores :
  restores_check template_input_vars template_input_skel = true /\ writes_within template_input_vars template_input_skel = true.
Proof. exact (conj (eq_refl true) (eq_refl true)). Qed.
Print Assumptions C20_template_input_restores.

(* hence: for every fault point and every initial state of the variables *)
Theorem C20_window_score_env : forall env0 sc st' o sc',
  exec window_score_skel sc (env0, fun _ => None) = (st', o, sc') -> forall v, fst st' v = env0 v.
Proof. exact (environment_restored _ _ (proj1 C20_window_score_restores) (proj2 C20_window_score_restores)). Qed.
Print Assumptions C20_window_score_env.

Theorem C20_template_input_env : forall env0 sc st' o sc',
  exec template_input_skel sc (env0, fun _ => None) = (st', o, sc') -> forall v, fst st' v = env0 v.
Proof. exact (environment_restored _ _ (proj1 C20_template_input_restores) (proj2 C20_template_input_restores)). Qed.
Print Assumptions C20_template_input_env.

(* the trace matcher used by the correspondence run is complete: the os.environ operations of ANY execution of a
   skeleton (any fault schedule, any initial state) are accepted with the outcome class of that execution; so an
   observed run that is rejected is certainly not a behaviour of the generated skeleton *)
Theorem C20_accepts_complete : forall p sc st st' o sc',
  exec p sc st = (st', o, sc') ->
  accepts p (exec_ev p sc st) (match o with E => true | _ => false end) = true.
Proof. exact accepts_complete. Qed.
Print Assumptions C20_accepts_complete.

(* non-vacuity: the checker rejects a program that restores only on the straight-line path, and the
   semantics really leaves the variable deleted when the call in between fails *)
Example C20_checker_rejects_straight_line :
  restores_check [0] (Seq (I (SaveStrict 0 0)) (Seq (I (Del 0)) (Seq (I (Call 1)) (I (Restore 0 0))))) = false
  /\ fst (fst (fst (exec (Seq (I (SaveStrict 0 0)) (Seq (I (Del 0)) (Seq (I (Call 1)) (I (Restore 0 0)))))
                        [true] (fun _ => Some 7, fun _ => None)))) 0 = None.
Proof. split; reflexivity. Qed.
Example C20_checker_accepts_try_finally :
  restores_check [0] (Seq (I (SaveStrict 0 0)) (Seq (I (Del 0)) (TryFinally (I (Call 1)) (I (Restore 0 0))))) = true.
Proof. reflexivity. Qed.
