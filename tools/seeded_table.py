#!/usr/bin/env python3
"""Seeded breaking changes: write the full table to seeded/INDEX.md and print a compact per-property / per-wave
matrix (for DESIGN.md).  A cell reads  d/n  = detected / changes of that wave; `*` marks a wave in which some
detection came without a failing input; the exceptions are listed below the matrix."""
import json, os, re
HERE = os.path.dirname(os.path.dirname(os.path.abspath(__file__)))
S = os.path.join(HERE, 'seeded')


def key(d):
    m = re.match(r'C(\d+)-(\d+)$', d)
    return (int(m.group(1)), int(m.group(2))) if m else (999, 0)


rows, cells, notes = [], {}, []
for d in sorted((x for x in os.listdir(S) if os.path.isdir(os.path.join(S, x))), key=key):
    p = os.path.join(S, d)
    if not os.path.exists(os.path.join(p, 'meta.json')):
        continue
    m = json.load(open(os.path.join(p, 'meta.json')))
    r = json.load(open(os.path.join(p, 'result.json'))) if os.path.exists(os.path.join(p, 'result.json')) else {}
    if not r:
        verdict = 'not run yet'
    elif not r.get('applied', True):
        verdict = 'patch no longer applies'
    elif r.get('detected') and r.get('with_failing_input'):
        verdict = 'VIOLATION with failing input'
    elif r.get('detected'):
        verdict = 'VIOLATION, no-failing-input-found'
    else:
        verdict = '**missed**'
    summary = (m.get('summary') or m.get('change') or '').replace('|', '/').replace('\n', ' ')
    rows.append('| %s | %s | %s | %s | %s |' % (d, summary[:300], (m.get('needs') or '').replace('|', '/').replace('\n', ' ')[:260],
                                                 verdict, r.get('head', '')))
    pid, k = d.split('-')
    wave = (int(k) - 1) // 3 + 1
    if wave <= 2:
        wave = 1 if int(k) <= 3 else 2
    c = cells.setdefault((pid, wave), [0, 0, False])
    c[1] += 1
    if verdict.startswith('VIOLATION'):
        c[0] += 1
    if verdict != 'VIOLATION with failing input':
        c[2] = True
        notes.append('%s: %s — %s' % (d, verdict, summary[:140]))

with open(os.path.join(S, 'INDEX.md'), 'w') as f:
    f.write('# Seeded breaking changes and what `./check` reported on the patched tree (last run of each)\n\n')
    f.write('| id | change | needs | `./check` on the patched tree | /repo HEAD of that run |\n|---|---|---|---|---|\n')
    f.write('\n'.join(rows) + '\n')

waves = sorted(set(w for _, w in cells))
pids = sorted(set(p for p, _ in cells))
print('| property | ' + ' | '.join('wave %d' % w for w in waves) + ' |')
print('|---|' + '---|' * len(waves))
tot = {w: [0, 0] for w in waves}
for p in pids:
    line = []
    for w in waves:
        c = cells.get((p, w))
        if not c:
            line.append('-')
            continue
        tot[w][0] += c[0]
        tot[w][1] += c[1]
        line.append('%d/%d%s' % (c[0], c[1], '*' if c[2] else ''))
    print('| %s | %s |' % (p, ' | '.join(line)))
print('| **all** | ' + ' | '.join('**%d/%d**' % tuple(tot[w]) for w in waves) + ' |')
print()
print('Full table (one row per change: what it does, what it needs, verdict): `seeded/INDEX.md`.  Exceptions (`*`):')
print()
for n in notes:
    print('* ' + n)
