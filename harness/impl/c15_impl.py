"""Runs computechi2 / pcomp / HMF / pca_solve of the repository under test (stdin JSON -> stdout JSON).

Calls:
  chi2      : computechi2(bvec, sqivar, amatrix) -> all attributes
  pcomp     : pcomp(x, standardize=, covariance=) -> eigenvalues, coefficients, derived, variance
  hmf_step  : HMF object with a, g set by the harness; astep/gstep/astepnn/gstepnn/normbase/badness
  hmf_solve : HMF(...).solve() twice with the same seed; per-step badness recorded through a subclass that
              only wraps astep/gstep (the iteration loop is the repository's)
  pca       : pca_solve(newflux, newivar, nkeep=, niter=, maxiter=)
"""
import json
import sys
import warnings

import numpy as np

import pydl
from pydl import pcomp
from pydl.pydlutils.math import computechi2
from pydl.pydlspec2d.spec1d import HMF, pca_solve


def err(e):
    return {'err': type(e).__name__, 'msg': str(e)[:200]}


def arr(a, dt=None):
    """the values as float64, or in the storage type asked for (the generator only asks for a type that holds them exactly)"""
    x = np.array(a, dtype='d')
    if dt and dt != 'f8':
        y = x.astype(dt)
        if not np.array_equal(y.astype('d'), x):
            raise ValueError('harness: values not representable in %s' % dt)
        return y
    return x


def tolist(a):
    return np.asarray(a, dtype='d').tolist()


def finite(*arrays):
    return all(np.all(np.isfinite(np.asarray(a, dtype='d'))) for a in arrays)


class RecordingHMF(HMF):
    """HMF whose astep/gstep record badness() before and after the update they return."""

    def __init__(self, *a, **k):
        super().__init__(*a, **k)
        self.trace = []
        self.events = []      # (method, a at the call, g at the call): the state the real loop hands to each step

    def _ev(self, name):
        self.events.append((name, None if self.a is None else np.array(self.a, dtype='d', copy=True),
                            None if self.g is None else np.array(self.g, dtype='d', copy=True)))

    def reorder(self):
        self._ev('reorder')
        return super().reorder()

    def normbase(self):
        self._ev('normbase')
        return super().normbase()

    def astep(self):
        self._ev('astep')
        before = float(self.badness())
        new = super().astep()
        old = self.a
        self.a = new
        after = float(self.badness())
        self.a = old
        self.trace.append(['a', before, after])
        return new

    def gstep(self):
        self._ev('gstep')
        before = float(self.badness())
        new = super().gstep()
        old = self.g
        self.g = new
        after = float(self.badness())
        self.g = old
        self.trace.append(['g', before, after])
        return new

    def astepnn(self):
        self._ev('astepnn')
        new = super().astepnn()
        self.trace.append(['ann', float(np.min(new)), float(np.min(self.a))])
        return new

    def gstepnn(self):
        self._ev('gstepnn')
        new = super().gstepnn()
        self.trace.append(['gnn', float(np.min(new)), float(np.min(self.g))])
        return new


def loop_passes(h, final_a, final_g, nonneg, which):
    """the states the real HMF.iterate loop handed to its steps, grouped by pass of the loop.
    One pass: default mode astep, gstep, reorder, normbase ; non-negative mode astepnn, gstepnn, normbase."""
    ev = h.events
    second = 'gstepnn' if nonneg else 'gstep'
    idx = [k for k, e in enumerate(ev) if e[0] == second]
    width = 3 if nonneg else 4
    out = []
    for m, k in enumerate(idx):
        if m not in which and (m - len(idx)) not in which:
            continue
        grp = ev[k - 1:k - 1 + width]
        names = [e[0] for e in grp]
        nxt = ev[k - 1 + width] if k - 1 + width < len(ev) else ('end', final_a, final_g)
        states = [[tolist(e[1]), tolist(e[2])] for e in grp] + [[tolist(nxt[1]), tolist(nxt[2])]]
        gn = grp[-1][2]
        out.append({'pass': m, 'calls': names, 'next': nxt[0], 'states': states,
                    'norm': tolist(np.sqrt((gn ** 2).mean(1)))})
    return out, len(idx), [e[0] for e in ev]


class Guard(object):
    """bit-exact snapshot of caller-owned arrays"""

    def __init__(self, **arrays):
        self.live = {k: v for k, v in arrays.items() if isinstance(v, np.ndarray)}
        self.snap = {k: (v.dtype, v.shape, v.tobytes()) for k, v in self.live.items()}

    def changed(self):
        return sorted(k for k, v in self.live.items() if (v.dtype, v.shape, v.tobytes()) != self.snap[k])


def read_orders(make, orders):
    """read the (lazy) attributes of fresh objects in several orders; the values must not depend on the order.
    Returns (values of the first order, list of {order, attr, maxdiff}, names of modified arguments)."""
    first = None
    bad = []
    changed = set()
    for order in orders:
        obj, guard = make()
        vals = {}
        for name in order:
            vals[name] = np.array(getattr(obj, name), dtype='d', copy=True)
        # second read of every attribute of the SAME object, in the reverse order: the cached values must not move
        for name in reversed(order):
            again = np.array(getattr(obj, name), dtype='d', copy=True)
            if again.shape != vals[name].shape or not np.array_equal(again, vals[name], equal_nan=True):
                bad.append({'order': list(order) + ['again:' + name], 'attr': name, 'maxdiff': 'second read differs'})
                break
        changed.update(guard.changed())
        if first is None:
            first = vals
            continue
        for name in order:
            a, b = first[name], vals[name]
            if a.shape != b.shape or not np.array_equal(a, b):
                with np.errstate(all='ignore'):
                    md = float(np.nanmax(np.abs(a - b))) if a.shape == b.shape and a.size else float('inf')
                bad.append({'order': order, 'attr': name, 'maxdiff': md if np.isfinite(md) else 'nonfinite'})
                break
    return first, bad, sorted(changed)


def call(c):
    f = c['f']
    try:
        with warnings.catch_warnings():
            warnings.simplefilter('ignore')
            if f == 'chi2':
                dts = c.get('dtypes') or {}
                b, sq, A = arr(c['b'], dts.get('b')), arr(c['sq'], dts.get('sq')), arr(c['A'], dts.get('A'))
                if c.get('one_d'):
                    A = A[:, 0]
                names = ['acoeff', 'chi2', 'yfit', 'dof', 'covar', 'var']

                def make():
                    b1, s1, A1 = b.copy(), sq.copy(), A.copy()
                    return computechi2(b1, s1, A1), Guard(bvec=b1, sqivar=s1, amatrix=A1)
                v, bad, changed = read_orders(make, [names] + [o_ for o_ in c.get('orders', []) if sorted(o_) == sorted(names)])
                o1 = computechi2(b.copy(), sq.copy(), A.copy())
                out = {'acoeff': tolist(v['acoeff']), 'chi2': float(v['chi2']), 'yfit': tolist(v['yfit']), 'dof': int(v['dof']),
                       'covar': tolist(v['covar']), 'var': tolist(v['var']), 'order_dependent': bad, 'args_changed': changed,
                       'result_dtypes': {k: str(np.asarray(getattr(o1, k)).dtype) for k in names}}
                if not finite(*[v[k] for k in names]):
                    return {'err': 'nonfinite'}
                return {'ok': out}
            if f == 'pcomp':
                x = arr(c['x'], c.get('dtype'))
                names = ['eigenvalues', 'coefficients', 'derived', 'variance']

                def make():
                    x1 = x.copy()
                    return pcomp(x1, standardize=bool(c['standardize']), covariance=bool(c['covariance'])), Guard(x=x1)
                v, bad, changed = read_orders(make, [names] + [o_ for o_ in c.get('orders', []) if sorted(o_) == sorted(names)])
                out = {'eigenvalues': tolist(v['eigenvalues']), 'coefficients': tolist(v['coefficients']),
                       'derived': tolist(v['derived']), 'variance': tolist(v['variance']),
                       'input_unchanged': not changed, 'order_dependent': bad, 'args_changed': changed}
                if not finite(*[v[k] for k in names]):
                    return {'err': 'nonfinite', 'eigenvalues': [repr(q) for q in np.asarray(v['eigenvalues']).tolist()]}
                return {'ok': out}
            if f == 'hmf_step':
                s, w, a, g = arr(c['s'], c.get('dtype')), arr(c['w'], c.get('dtype')), arr(c['a']), arr(c['g'])
                h = HMF(s.copy(), w.copy(), K=a.shape[1], epsilon=c.get('eps'), nonnegative=bool(c.get('nonnegative', False)))
                h.a, h.g = a.copy(), g.copy()
                out = {}
                out['badness'] = float(h.badness())
                out['normbase'] = tolist(h.normbase())
                na = h.astep()
                ng = h.gstep()
                out['astep'] = tolist(na)
                out['gstep'] = tolist(ng)
                out['astepnn'] = tolist(h.astepnn())
                out['gstepnn'] = tolist(h.gstepnn())
                out['state_unchanged'] = bool(np.array_equal(h.a, a) and np.array_equal(h.g, g) and
                                              np.array_equal(h.spectra, s) and np.array_equal(h.invvar, w))
                h.a = na
                out['badness_a'] = float(h.badness())
                h.a = a.copy()
                h.g = ng
                out['badness_g'] = float(h.badness())
                if not finite(*[out[k] for k in ('badness', 'normbase', 'astep', 'gstep', 'astepnn', 'gstepnn', 'badness_a', 'badness_g')]):
                    return {'err': 'nonfinite'}
                return {'ok': out}
            if f == 'hmf_solve':
                s, w = arr(c['s'], c.get('dtype')), arr(c['w'], c.get('dtype'))
                runs = []
                for _rep in range(2):
                    # the two runs start from DIFFERENT global RNG states: only the seed argument may make them agree
                    np.random.seed(1234567 + 7919 * _rep)
                    np.random.random(5 + 3 * _rep)
                    s1, w1 = s.copy(), w.copy()
                    h = RecordingHMF(s1, w1, K=c['K'], n_iter=c['n_iter'], seed=c['seed'],
                                     nonnegative=bool(c['nonnegative']), epsilon=c.get('eps'))
                    d = h.solve()
                    passes = None
                    if _rep == 0:
                        passes, npass, names = loop_passes(h, d['acoeff'], d['flux'], bool(c['nonnegative']), c.get('trace_passes', []))
                        passes = {'passes': passes, 'n_passes': npass, 'spectra': tolist(h.spectra), 'invvar': tolist(h.invvar),
                                  'n_init_nn': sum(1 for _n in names[:names.index('gstepnn')] if _n == 'astepnn') - 1 if c['nonnegative'] and 'gstepnn' in names else 0}
                    runs.append({'a': d['acoeff'], 'g': d['flux'], 'trace': h.trace, 'loop': passes,
                                 'inputs_unchanged': bool(np.array_equal(s1, s) and np.array_equal(w1, w)),
                                 'rms': tolist(np.sqrt((d['flux'] ** 2).mean(1)))})
                r0, r1 = runs
                # histories: several objects created BEFORE any is solved, other users of numpy's global generator in
                # between; then the same object solved again after the caller edited the arrays it got back
                def mk():
                    return RecordingHMF(s.copy(), w.copy(), K=c['K'], n_iter=c['n_iter'], seed=c['seed'],
                                        nonnegative=bool(c['nonnegative']), epsilon=c.get('eps'))
                a0, g0 = np.array(r0['a'], copy=True), np.array(r0['g'], copy=True)
                hs = [mk(), mk()]
                np.random.random(4)
                d1 = hs[0].solve()
                hist = []
                if not (np.array_equal(d1['acoeff'], a0) and np.array_equal(d1['flux'], g0)):
                    hist.append('two objects created, random numbers drawn, first object solved')
                np.random.seed(424242)
                np.random.random(2)
                d2 = hs[1].solve()
                if not (np.array_equal(d2['acoeff'], a0) and np.array_equal(d2['flux'], g0)):
                    hist.append('two objects created, first solved, generator reseeded by someone else, second object solved')
                d1['acoeff'] += 1.0
                d1['flux'] += 1.0
                try:
                    d3 = hs[0].solve()
                    if not (np.array_equal(d3['acoeff'], a0) and np.array_equal(d3['flux'], g0)):
                        hist.append('solved, returned arrays edited in place, solved again')
                except Exception as e:  # noqa: BLE001
                    hist.append('solved, returned arrays edited in place, solve() again raised %s' % type(e).__name__)
                out = {'identical': bool(np.array_equal(r0['a'], r1['a']) and np.array_equal(r0['g'], r1['g'])),
                       'history_dependent': hist,
                       'shape_a': list(r0['a'].shape), 'shape_g': list(r0['g'].shape),
                       'inputs_unchanged': r0['inputs_unchanged'] and r1['inputs_unchanged'],
                       'min_a': float(np.min(r0['a'])), 'min_g': float(np.min(r0['g'])),
                       'finite': finite(r0['a'], r0['g']), 'rms': r0['rms'], 'trace': r0['trace'], 'loop': r0['loop']}
                return {'ok': out}
            if f == 'pca':
                flux, ivar = arr(c['flux'], c.get('dtype')), arr(c['ivar'], c.get('dtype'))
                f0, i0 = flux.copy(), ivar.copy()
                # observe what pca_solve hands to pcomp in every inner pass (the class is looked up in the package at call time)
                seen = []
                orig = pydl.pcomp

                class SeenPcomp(orig):
                    def __init__(self, x, *a, **k):
                        self.seen_x = np.array(x, dtype='d', copy=True)
                        self.seen_opts = [list(map(repr, a)), {kk: repr(vv) for kk, vv in k.items()}]
                        seen.append(self)
                        super().__init__(x, *a, **k)
                pydl.pcomp = SeenPcomp
                try:
                    d = pca_solve(flux, ivar, nkeep=c['nkeep'], niter=c.get('niter', 10), maxiter=c.get('maxiter', 0),
                                  nreturn=c.get('nreturn'))
                finally:
                    pydl.pcomp = orig
                passes = [{'x': tolist(o.seen_x.T), 'pres': tolist(o.derived), 'eigenvalues': tolist(o.eigenvalues),
                           'coefficients': tolist(o.coefficients), 'variance': tolist(o.variance), 'opts': o.seen_opts}
                          for o in seen]
                nret = c.get('nreturn') or c['nkeep']
                last = seen[-1] if seen else None
                flux_is_derived = bool(last is not None and np.array_equal(d['flux'], np.asarray(last.derived)[:, 0:nret].T.astype('f'))
                                       and np.array_equal(d['eigenval'], np.asarray(last.eigenvalues)[0:nret]))
                # the same call again on fresh copies, after the caller edited what the first call returned
                keep = {k: np.array(d[k], copy=True) for k in ('flux', 'acoeff', 'eigenval')}
                for k in ('flux', 'acoeff'):
                    d[k] += 1
                d_again = pca_solve(f0.copy(), i0.copy(), nkeep=c['nkeep'], niter=c.get('niter', 10), maxiter=c.get('maxiter', 0),
                                    nreturn=c.get('nreturn'))
                repeatable = all(np.array_equal(keep[k], d_again[k]) for k in keep)
                d = dict(d, **keep)
                out = {'flux': tolist(d['flux']), 'acoeff': tolist(d['acoeff']), 'eigenval': tolist(d['eigenval']),
                       'usemask': [int(v) for v in np.asarray(d['usemask']).tolist()],
                       'flux_dtype': str(d['flux'].dtype), 'repeatable': bool(repeatable),
                       'outmask': np.asarray(d['outmask'], dtype='d').tolist(), 'n_pcomp_calls': len(seen),
                       'flux_is_derived': flux_is_derived,
                       'passes': [dict(passes[k], k=k, x_next=(passes[k + 1]['x'] if k + 1 < len(passes) else None))
                                  for k in sorted(set(kk % len(passes) for kk in c.get('trace_passes', [])))] if passes else [],
                       'inputs_unchanged': bool(np.array_equal(flux, f0) and np.array_equal(ivar, i0))}
                if not finite(d['flux'], d['acoeff'], d['eigenval']):
                    return {'err': 'nonfinite'}
                return {'ok': out}
            return {'err': 'BadCall'}
    except Exception as e:  # noqa: BLE001 - the error class is the observation
        import traceback
        r = err(e)
        r['where'] = traceback.format_exc()[-600:]
        return r


def main():
    calls = json.load(sys.stdin)
    real_stdout = sys.stdout
    sys.stdout = sys.stderr          # astropy's logger prints INFO records to sys.stdout
    try:
        out = {'pydl_file': pydl.__file__, 'results': [call(c) for c in calls]}
    finally:
        sys.stdout = real_stdout
    json.dump(out, sys.stdout)


if __name__ == '__main__':
    main()
