(* C05 -- the separation routine the source calls, goddard.astro.gcirc(units=0), read over the reals (Generated/Groups.v,
   module GcircSrc, regenerated on every run) and applied to the radians of two positions, is acos (cossep): the quantity
   the certified link relation of C05/Sky.v decides.
   sin_half_sq, sqrt_unit, asin_range, two_asin_sqrt are copies of lemmas of C18/SpecProofs.v (copied so that the C05
   build does not depend on another property's directory). *)
From Coq Require Import Reals Lra ZArith.
From PV Require Import C05.Sky C05.SkyProofs Generated.Groups.
Local Open Scope R_scope.

Lemma sin_half_sq : forall x, sin (x / 2) * sin (x / 2) = (1 - cos x) / 2.
Proof. intro x. replace x with (2 * (x / 2)) at 3 by field. rewrite cos_2a_sin. field. Qed.

Lemma sqrt_unit : forall h, 0 <= h <= 1 -> 0 <= sqrt h <= 1.
Proof. intros h [H0 H1]. split; [apply sqrt_pos|]. rewrite <- sqrt_1. apply sqrt_le_1_alt. exact H1. Qed.

Lemma asin_range : forall x, 0 <= x <= 1 -> 0 <= asin x <= PI / 2.
Proof.
  intros x [H0 H1]. split; [| apply asin_bound].
  destruct H1 as [H1| ->]. 2:{ rewrite asin_1. generalize PI_RGT_0. lra. }
  destruct H0 as [H0| <-]. 2:{ rewrite asin_0. lra. }
  rewrite asin_atan by lra. rewrite <- atan_0. left. apply atan_increasing.
  apply Rdiv_lt_0_compat; [lra|]. apply sqrt_lt_R0. unfold Rsqr. nra.
Qed.

Lemma two_asin_sqrt : forall h, 0 <= h <= 1 -> 2 * asin (sqrt h) = acos (1 - 2 * h).
Proof.
  intros h Hh. pose proof (asin_range _ (sqrt_unit _ Hh)) as B.
  rewrite <- (acos_cos (2 * asin (sqrt h))) by lra.
  f_equal. rewrite cos_2a_sin, sin_asin.
  - rewrite Rmult_assoc, sqrt_def by lra. reflexivity.
  - generalize (sqrt_unit _ Hh). lra.
Qed.

(* the square-root argument of gcirc is (1 - cossep) / 2 *)
Lemma sindis2_cossep : forall p q,
  GcircSrc.gcirc_h 0 (radR (ratR (fst p))) (radR (ratR (snd p))) (radR (ratR (fst q))) (radR (ratR (snd q)))
  = (1 - cossep p q) / 2.
Proof.
  intros p q. unfold GcircSrc.gcirc_h, GcircSrc.gcirc_in. cbn [Z.eqb]. unfold GcircSrc.gcirc_sindis2. cbv zeta.
  unfold cossep.
  set (d1 := radR (ratR (snd p))). set (d2 := radR (ratR (snd q))).
  set (a1 := radR (ratR (fst p))). set (a2 := radR (ratR (fst q))).
  rewrite (sin_half_sq (d2 - d1)).
  replace (cos d1 * cos d2 * sin ((a2 - a1) / 2) * sin ((a2 - a1) / 2))
    with (cos d1 * cos d2 * (sin ((a2 - a1) / 2) * sin ((a2 - a1) / 2))) by ring.
  rewrite (sin_half_sq (a2 - a1)), (cos_minus d2 d1).
  replace (a2 - a1) with (- (a1 - a2)) by ring. rewrite cos_neg. field.
Qed.

Theorem gcirc_is_acos_cossep : forall p q,
  GcircSrc.gcirc_gen 0 (radR (ratR (fst p))) (radR (ratR (snd p))) (radR (ratR (fst q))) (radR (ratR (snd q)))
  = acos (cossep p q).
Proof.
  intros p q. pose proof (sindis2_cossep p q) as H. pose proof (cossep_bound p q) as B.
  unfold GcircSrc.gcirc_h in H. unfold GcircSrc.gcirc_gen.
  destruct (GcircSrc.gcirc_in 0 _ _ _ _) as [[[p1 p2] p3] p4].
  unfold GcircSrc.gcirc_out. cbn [Z.eqb]. unfold GcircSrc.gcirc_dis. cbv zeta.
  unfold GcircSrc.gcirc_sindis2 in H. cbv zeta in H. rewrite H.
  assert (Hh : 0 <= (1 - cossep p q) / 2 <= 1) by lra.
  try rewrite Rmin_left by (apply sqrt_unit; exact Hh).
  rewrite (two_asin_sqrt _ Hh). f_equal. field.
Qed.

Theorem link_routine_is_separation : forall p q t,
  GcircSrc.gcirc_gen 0 (radR (ratR (fst p))) (radR (ratR (snd p))) (radR (ratR (fst q))) (radR (ratR (snd q)))
    = acos (cossep p q) /\
  (0 <= t <= PI ->
   (GcircSrc.gcirc_gen 0 (radR (ratR (fst p))) (radR (ratR (snd p))) (radR (ratR (fst q))) (radR (ratR (snd q))) <= t
    <-> cos t <= cossep p q)).
Proof.
  intros p q t. split; [apply gcirc_is_acos_cossep|]. intro Ht. rewrite gcirc_is_acos_cossep.
  apply acos_le_iff; [apply cossep_bound|exact Ht].
Qed.
