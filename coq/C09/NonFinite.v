(* C09 -- the screening of cholesky_band in IEEE arithmetic (C09/Model.v: xq, xle, screen_status_model):
   what fit() must return when the banded normal equations are not finite. *)
From Coq Require Import QArith List Bool Arith ZArith Lia.
Import ListNotations.
From PV Require Import Lib.WLS BSpline.Eval BSpline.Fit C09.Model.
Open Scope Q_scope.

Lemma maskpoints_model_nil : forall nbkpt k, maskpoints_model nbkpt k [] = ((-2)%Z, []).
Proof.
  intros nbkpt k. unfold maskpoints_model.
  destruct (nbkpt <=? 2 * k)%nat; [reflexivity|].
  cbn [existsb flat_map nodup_nat]. reflexivity.
Qed.

(* NaN never compares: a diagonal of NaNs, or any diagonal against a NaN threshold, flags no column *)
Lemma xle_nan_r : forall a, xle a XNaN = false.
Proof. destruct a; reflexivity. Qed.
Lemma xle_nan_l : forall b, xle XNaN b = false.
Proof. reflexivity. Qed.

Lemma filter_false : forall {A} (f : A -> bool) l, (forall a, In a l -> f a = false) -> filter f l = [].
Proof.
  intros A f l. induction l as [|a r IH]; intros H; [reflexivity|].
  cbn [filter]. rewrite (H a (or_introl eq_refl)). apply IH. intros b Hb. apply H. right. exact Hb.
Qed.

(* A non-finite band in which no diagonal entry compares <= mininf (the index array cholesky_band returns is EMPTY): the fit has
   failed -- status -2, breakpoint mask unchanged.  (With enough good breakpoints; with fewer the answer is -2 anyway.) *)
Lemma screen_nonfinite_unflagged :
  forall bmask k diag mininf,
    (forall j, (j < length diag)%nat -> xle (nth j diag XNaN) mininf = false) ->
    screen_status_model bmask k diag mininf false = Some ((-2)%Z, bmask).
Proof.
  intros bmask k diag mininf H. unfold screen_status_model.
  destruct (length (filter (fun b : bool => b) (skipn k bmask)) <? k)%nat; [reflexivity|].
  rewrite (filter_false (fun j => xle (nth j diag XNaN) mininf) (seq 0 (length diag))).
  2:{ intros j Hj. apply in_seq in Hj. apply H. lia. }
  cbn [length Nat.eqb negb orb]. rewrite maskpoints_model_nil. reflexivity.
Qed.

(* in particular: a NaN threshold (NaN somewhere in invvar makes min_influence NaN) *)
Lemma screen_nan_threshold :
  forall bmask k diag, screen_status_model bmask k diag XNaN false = Some ((-2)%Z, bmask).
Proof. intros. apply screen_nonfinite_unflagged. intros j _. apply xle_nan_r. Qed.

(* the screening never reports success on a non-finite band *)
Lemma screen_nonfinite_is_failure :
  forall bmask k diag mininf st nm,
    screen_status_model bmask k diag mininf false = Some (st, nm) -> (st = (-1)%Z \/ st = (-2)%Z).
Proof.
  intros bmask k diag mininf st nm. unfold screen_status_model.
  destruct (length (filter (fun b : bool => b) (skipn k bmask)) <? k)%nat.
  - intros E. inversion E. right. reflexivity.
  - rewrite orb_true_r.
    set (bad := filter _ _). set (good := good_positions bmask 0).
    unfold maskpoints_model.
    destruct (length good <=? 2 * k)%nat; [intros E; inversion E; right; reflexivity|].
    destruct (existsb _ bad); [intros E; inversion E; right; reflexivity|].
    destruct (nodup_nat _); intros E; inversion E; [right|left]; reflexivity.
Qed.

(* and on a finite band it is the diagonal screening of the exact model (Fit.fit_status_model) *)
Lemma screen_finite_is_fit_status :
  forall bmask k (diag : list Q) (mininf : Q) r,
    screen_status_model bmask k (map XFin diag) (XFin mininf) true = Some r ->
    fit_status_model bmask k diag mininf = r.
Proof.
  intros bmask k diag mininf r. unfold screen_status_model, fit_status_model.
  destruct (length (filter (fun b : bool => b) (skipn k bmask)) <? k)%nat; [intros E; inversion E; reflexivity|].
  rewrite map_length.
  assert (F : filter (fun j => xle (nth j (map XFin diag) XNaN) (XFin mininf)) (seq 0 (length diag))
              = filter (fun j => Qle_bool (nthQ diag j) mininf) (seq 0 (length diag))).
  { apply filter_ext_in. intros j Hj. apply in_seq in Hj.
    rewrite (nth_indep (map XFin diag) XNaN (XFin 0)) by (rewrite map_length; lia).
    rewrite map_nth. reflexivity. }
  revert F. generalize (filter (fun j => xle (nth j (map XFin diag) XNaN) (XFin mininf)) (seq 0 (length diag))).
  intros bad F. subst bad.
  destruct (filter (fun j => Qle_bool (nthQ diag j) mininf) (seq 0 (length diag))) as [|b0 bs].
  - cbn. discriminate.
  - cbn [length Nat.eqb negb orb].
    destruct (maskpoints_model (length (good_positions bmask 0)) k (b0 :: bs)) as [st targets].
    intros E. inversion E. reflexivity.
Qed.
