(* C06, strings: byte-level models of the string forms the SDSS ID functions accept and produce.
   A string is a list of character codes (ASCII; non-ASCII text is outside the model).
     parse_pyint   : Python's int(s) for base 10 -- what `int(run2d)` does and what NumPy's str/bytes -> integer
                     astype does element-wise: surrounding whitespace stripped, optional sign, decimal digits with
                     single underscores between digits (PEP 515); None = ValueError
     dec, dec_signed : '{:d}'.format(n) / str(n)
     format_pieces : str.format for a template made of literal text and '{i:d}' fields
     re_match      : re.match / re.fullmatch for patterns made of literal text and (\d+) groups (ASCII digits)
   Definitions only -- proofs are in C06/StringProofs.v. *)
From Coq Require Import ZArith List Bool.
Import ListNotations.
Open Scope Z_scope.

Definition is_ws (c : Z) : bool := (c =? 32) || ((9 <=? c) && (c <=? 13)).
Definition is_digit (c : Z) : bool := (48 <=? c) && (c <=? 57).

Fixpoint lstrip (s : list Z) : list Z :=
  match s with c :: r => if is_ws c then lstrip r else s | [] => [] end.
Definition strip (s : list Z) : list Z := rev (lstrip (rev (lstrip s))).

(* digit ('_'? digit)* ; after_digit = the previous character was a digit *)
Fixpoint scan_digits (acc : Z) (after_digit : bool) (s : list Z) : option Z :=
  match s with
  | [] => if after_digit then Some acc else None
  | c :: r =>
      if is_digit c then scan_digits (acc * 10 + (c - 48)) true r
      else if (c =? 95) && after_digit then scan_digits acc false r
      else None
  end.

Definition parse_pyint (s : list Z) : option Z :=
  match strip s with
  | [] => None
  | c :: r =>
      if c =? 43 then scan_digits 0 false r
      else if c =? 45 then option_map Z.opp (scan_digits 0 false r)
      else scan_digits 0 false (c :: r)
  end.

(* ---- decimal printing ---- *)

(* least significant digit first *)
Fixpoint dec_le (fuel : nat) (n : Z) : list Z :=
  match fuel with
  | O => []
  | S f => (n mod 10) :: (if n <? 10 then [] else dec_le f (n / 10))
  end.
Fixpoint val_le (l : list Z) : Z := match l with [] => 0 | d :: r => d + 10 * val_le r end.

(* digits as numbers 0..9, most significant first *)
Definition digits_of (n : Z) : list Z := rev (dec_le (S (Z.to_nat (Z.log2 n))) n).
Fixpoint undec (acc : Z) (ds : list Z) : Z := match ds with [] => acc | d :: r => undec (acc * 10 + d) r end.

Definition chars (ds : list Z) : list Z := map (fun d => d + 48) ds.
Definition dec (n : Z) : list Z := chars (digits_of n).                       (* n >= 0 *)
Definition dec_signed (n : Z) : list Z := if n <? 0 then 45 :: dec (- n) else dec n.

(* ---- str.format with '{i:d}' fields ---- *)
Inductive fpiece := FLit (s : list Z) | FArg (i : nat).
Definition format_pieces (ps : list fpiece) (args : list Z) : list Z :=
  flat_map (fun p => match p with FLit s => s | FArg i => dec_signed (nth i args 0) end) ps.

(* ---- re.match / re.fullmatch for literal text and (\d+) groups ---- *)
Inductive ppiece := PLit (s : list Z) | PDigits.

(* maximal run of digits (as numbers) and the rest: \d+ is greedy, and giving back a digit can never help when the
   next pattern element is a literal that does not start with a digit or the end of the pattern *)
Fixpoint take_digits (s : list Z) : list Z * list Z :=
  match s with
  | c :: r => if is_digit c then let (d, t) := take_digits r in (c - 48 :: d, t) else ([], s)
  | [] => ([], [])
  end.

Fixpoint strip_prefix (p s : list Z) : option (list Z) :=
  match p with
  | [] => Some s
  | a :: p' => match s with b :: s' => if a =? b then strip_prefix p' s' else None | [] => None end
  end.

(* captured groups as numbers (int(group)) and the unmatched rest of the string *)
Fixpoint match_pieces (ps : list ppiece) (s : list Z) : option (list Z * list Z) :=
  match ps with
  | [] => Some ([], s)
  | PLit l :: ps' => match strip_prefix l s with Some r => match_pieces ps' r | None => None end
  | PDigits :: ps' =>
      let (d, r) := take_digits s in
      match d with
      | [] => None
      | _ => match match_pieces ps' r with Some (g, t) => Some (undec 0 d :: g, t) | None => None end
      end
  end.

Definition re_match (anchored : bool) (ps : list ppiece) (s : list Z) : option (list Z) :=
  match match_pieces ps s with
  | Some (g, rest) => if anchored then (match rest with [] => Some g | _ => None end) else Some g
  | None => None
  end.
