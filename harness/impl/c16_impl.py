"""C16 implementation runner: builds synthetic spPlate/spZbest/spZall/photoPlate/platelist trees with astropy
(no pydl code involved) and calls the real readspec / spec_append of the repository under test.

stdin : {"jobs": [job, ...]}   job = {"kind": "scenario", "root": dir, "trees": [...], "calls": [...]}
                                     | {"kind": "append", "cases": [{"a": rows, "b": rows, "shift": int, "dtype": str}, ...]}
stdout: {"pydl_file": ..., "results": [per job: list of per-call results]}

All environment variables readspec consults (RUN2D, RUN1D, BOSS_SPECTRO_REDUX, SPECTRO_REDUX, SPECTRO_MATCH,
PHOTO_RESOLVE) are set here, per call, and nowhere else.
"""
import json
import os
import sys
import warnings

import numpy as np
from astropy.io import fits
from astropy.config import ConfigItem

_real_stdout = sys.stdout
sys.stdout = sys.stderr   # astropy's logger writes INFO lines to stdout


def global_state(with_filters=True):
    """process-global settings the reading of survey files depends on (and that belong to the user, not to pydl)"""
    st = {}
    for name in sorted(dir(type(fits.conf))):
        if isinstance(getattr(type(fits.conf), name, None), ConfigItem):
            st['astropy.io.fits.conf.' + name] = repr(getattr(fits.conf, name))
    st['np.geterr'] = repr(sorted(np.geterr().items()))
    st['np.get_printoptions'] = repr(sorted(np.get_printoptions().items()))
    st['os.environ'] = repr(sorted(os.environ.items()))
    if with_filters:
        st['len(warnings.filters)'] = repr(len(warnings.filters))
    return st


def state_diff(a, b, stage):
    return [{'stage': stage, 'item': k, 'before': a[k][:300], 'after': b[k][:300]} for k in a if a[k] != b.get(k)]


# this process is a fresh interpreter: import the package the way a user does, step by step, and record what the
# imports do to the global state (third-party imports add warning filters: not compared at import, only per call)
IMPORT_CHANGES = []
_g0 = global_state(False)
import pydl  # noqa: E402
_g1 = global_state(False)
IMPORT_CHANGES += state_diff(_g0, _g1, 'import pydl')
import pydl.pydlspec2d  # noqa: E402
_g2 = global_state(False)
IMPORT_CHANGES += state_diff(_g1, _g2, 'import pydl.pydlspec2d')
from pydl.pydlspec2d.spec1d import readspec, spec_append, spec_path  # noqa: E402
_g3 = global_state(False)
IMPORT_CHANGES += state_diff(_g2, _g3, 'from pydl.pydlspec2d.spec1d import readspec, spec_append, spec_path')

# record every file readspec opens (spec1d calls fits.open through the module attribute)
OPENED = []
_orig_open = fits.open


def _recording_open(name, *a, **k):
    OPENED.append(str(name))
    return _orig_open(name, *a, **k)


fits.open = _recording_open

SCALE = 1 << 20
ENV_KEYS = ('RUN2D', 'RUN1D', 'BOSS_SPECTRO_REDUX', 'SPECTRO_REDUX', 'SPECTRO_MATCH', 'PHOTO_RESOLVE')
IMG_DTYPES = ['>f8', '>f8', '>i4', '>i4', '>f8', None, '>f8']   # HDU 0..6 (5 = plugmap table)


UNSIGNED = {'UK': ('K', 'u8', 2**63), 'UJ': ('J', 'u4', 2**31), 'UI': ('I', 'u2', 2**15)}


def table_hdu(cols):
    """cols: list of {"name", "kind": 'J'|'K'|'D'|'A'|'5D'|'UK'|'UJ'|'UI', "rows": [[ints]]}"""
    out = []
    for c in cols:
        rows = c['rows']
        k = c['kind']
        if k == 'A':
            arr = np.array(['T%d' % r[0] for r in rows])
            out.append(fits.Column(name=c['name'], format='16A', array=arr))
        elif k in ('J', 'K'):
            out.append(fits.Column(name=c['name'], format=k, array=np.array([r[0] for r in rows], dtype='i8')))
        elif k in UNSIGNED:      # unsigned integers the standard FITS way: signed storage + TZEROn = 2^(bits-1)
            fmt, dt, zero = UNSIGNED[k]
            out.append(fits.Column(name=c['name'], format=fmt, bzero=zero, array=np.array([r[0] for r in rows], dtype=dt)))
        elif k == 'D':
            out.append(fits.Column(name=c['name'], format='D', array=np.array([r[0] for r in rows], dtype='f8')))
        else:   # vector column, e.g. 5D
            n = int(k[:-1])
            out.append(fits.Column(name=c['name'], format='%dD' % n, array=np.array(rows, dtype='f8').reshape(len(rows), n)))
    return fits.BinTableHDU.from_columns(out)


def build_tree(tree):
    """tree = {"top": dir, "layout": 'path'|'topdir', "run2d", "run1d", "files": [filespec], "platelist": [...]|None}"""
    top = tree['top']
    run2d, run1d = tree['run2d'], tree['run1d']
    for f in tree['files']:
        d = top if tree['layout'] == 'path' else os.path.join(top, run2d, '%04d' % f['plate'])
        os.makedirs(os.path.join(d, run1d), exist_ok=True)
        pm = '%04d-%05d' % (f['plate'], f['mjd'])
        hd = fits.Header()
        hd['COEFF0'] = f['c0z'] / SCALE
        hd['COEFF1'] = f['c1z'] / SCALE
        hd['PLATEID'] = f['plate']
        hd['MJD'] = f['mjd']
        hdus = []
        imgs = f['imgs']   # 6 images: HDU 0,1,2,3,4,6
        order = [0, 1, 2, 3, 4, None, 5]
        for h, ix in enumerate(order):
            if f.get('truncated') and h >= 5:
                break                         # a partial reduction: no plug-map HDU, no sky
            if ix is None:
                t = table_hdu(f['plug'])
                t.name = 'PLUGMAP'
                hdus.append(t)
            else:
                # unsigned 32-bit pixel masks with the top bit in use (BZERO = 2^31 is written by astropy)
                a = np.array(imgs[ix], dtype='i8').astype('u4' if (f.get('umask') and h in (2, 3)) else IMG_DTYPES[h])
                hdus.append(fits.PrimaryHDU(a, header=hd) if h == 0 else fits.ImageHDU(a))
        fits.HDUList(hdus).writeto(os.path.join(d, 'spPlate-%s.fits' % pm), overwrite=True)
        if f.get('zbest'):
            fits.HDUList([fits.PrimaryHDU(), table_hdu(f['zbest'])]).writeto(
                os.path.join(d, run1d, 'spZbest-%s.fits' % pm), overwrite=True)
        if f.get('zall'):
            p = fits.PrimaryHDU()
            p.header['DIMS0'] = f['nper']
            fits.HDUList([p, table_hdu(f['zall'])]).writeto(os.path.join(d, run1d, 'spZall-%s.fits' % pm), overwrite=True)
        if f.get('photo'):
            fits.HDUList([fits.PrimaryHDU(), table_hdu(f['photo'])]).writeto(
                os.path.join(d, 'photoPlate-%s.fits' % pm), overwrite=True)
    if tree.get('platelist'):
        pl = tree['platelist']
        cols = [fits.Column(name='PLATE', format='J', array=np.array([r['plate'] for r in pl])),
                fits.Column(name='MJD', format='J', array=np.array([r['mjd'] for r in pl])),
                fits.Column(name='RUN2D', format='8A', array=np.array([r['run2d'] for r in pl])),
                fits.Column(name='RUN1D', format='8A', array=np.array([r['run1d'] for r in pl])),
                fits.Column(name='N_TOTAL', format='J', array=np.array([r['n_total'] for r in pl]))]
        os.makedirs(tree['platelist_dir'], exist_ok=True)
        fits.HDUList([fits.PrimaryHDU(), fits.BinTableHDU.from_columns(cols)]).writeto(
            os.path.join(tree['platelist_dir'], 'platelist.fits'), overwrite=True)


def to_int_rows(a, scale=1):
    """ndarray (n,) or (n,w) of numbers/strings -> list of rows of exact ints, or None if not integral"""
    a = np.asarray(a)
    if a.ndim == 1:
        a = a.reshape(len(a), 1)
    if a.dtype.kind in ('U', 'S'):
        rows = []
        for r in a:
            s = r[0].decode() if isinstance(r[0], bytes) else str(r[0])
            s = s.strip()
            if not (s.startswith('T') and s[1:].isdigit()):
                return None
            rows.append([int(s[1:])])
        return rows
    rows = []
    for r in a:
        row = []
        for v in r:
            if a.dtype.kind == 'f':
                x = float(v) * scale
                if x != int(x):
                    return None
                row.append(int(x))
            else:
                row.append(int(v))
        rows.append(row)
    return rows


def conv(x, dtype):
    """{"s": int} | {"a": [...]} | None -> python int | list | ndarray"""
    if x is None:
        return None
    if 's' in x:
        return int(x['s']) if dtype != 'npscalar' else np.int32(x['s'])
    if dtype == 'list':
        return [int(v) for v in x['a']]
    return np.array([int(v) for v in x['a']], dtype=dtype if dtype not in ('npscalar',) else 'i4')


def make_arg(x, store):
    """request argument in a given storage: -> (object passed to pydl, watch list of (label, object, snapshot))
    store: 'int' | 'np:<dt>' (numpy scalar) | '0d:<dt>' | 'list' | 'tuple' | '<dt>' | 'nc:<dt>' (non-contiguous view)
           | 'ro:<dt>' (read-only array); <dt> any numpy integer dtype string incl. big-endian ('>i4')"""
    if x is None:
        return None, []
    if 's' in x:
        v = int(x['s'])
        if store in (None, 'int', 'list', 'tuple') or not isinstance(store, str):
            return v, []
        if store == 'npscalar':
            return np.int32(v), []
        if store.startswith('np:'):
            return np.dtype(store[3:]).type(v), []
        if store.startswith('0d:'):
            a = np.array(v, dtype=store[3:])
            return a, [a]
        return v, []
    vals = [int(v) for v in x['a']]
    if store in (None, 'list', 'int', 'npscalar') or store.startswith('np:') or store.startswith('0d:'):
        lst = list(vals)
        return lst, [lst]
    if store == 'tuple':
        return tuple(vals), []
    if store.startswith('nc:'):
        big = np.full(2 * len(vals) + 1, 7, dtype=store[3:])
        big[1::2] = vals
        return big[1::2], [big]
    if store.startswith('ro:'):
        a = np.array(vals, dtype=store[3:])
        a.flags.writeable = False
        return a, [a]
    if store.startswith('rv:'):      # negative stride: a reversed view of a caller-owned buffer
        big = np.array(vals[::-1], dtype=store[3:])
        return big[::-1], [big]
    a = np.array(vals, dtype=store)
    return a, [a]


def make_img(rows, store):
    """2-d array in a given storage: '<dt>' | 'nc:<dt>' (every other column of a wider array) | 'ncr:<dt>' (every other row)
    | 'F:<dt>' (Fortran order) | 'ro:<dt>' (read-only) -> (array, base to watch)"""
    kind, _, dt = store.rpartition(':')
    if kind == 'nc':
        big = np.full((len(rows), 2 * len(rows[0]) + 1), 7, dtype=dt)
        big[:, 1::2] = rows
        return big[:, 1::2], big
    if kind == 'ncr':
        big = np.full((2 * len(rows) + 1, len(rows[0])), 7, dtype=dt)
        big[1::2, :] = rows
        return big[1::2, :], big
    a = np.array(rows, dtype=dt)
    if kind == 'F':
        a = np.asfortranarray(a)
    if kind == 'ro':
        a.flags.writeable = False
    return a, a


def make_shift(v, store):
    if v is None:
        return None
    if store in (None, 'int'):
        return int(v)
    if store.startswith('np:'):
        return np.dtype(store[3:]).type(v)
    if store.startswith('0d:'):
        return np.array(v, dtype=store[3:])
    return int(v)


def snap(o):
    if isinstance(o, np.ndarray):
        return (o.tobytes(), o.dtype.str, o.shape, o.strides)
    return list(o)


def unchanged(o, s):
    return snap(o) == s


def leaves(r):
    """all ndarrays of a readspec result, by name"""
    out = {}
    for k, v in r.items():
        if isinstance(v, dict):
            for c, w in v.items():
                if isinstance(w, np.ndarray):
                    out['%s.%s' % (k, c)] = w
        elif isinstance(v, np.ndarray):
            out[k] = v
    return out


POOL = {}    # caller-owned argument objects that are passed again, refilled in place, by a later call of this process
PREV = []    # the results of the last two readspec calls of this process: (leaves, copies)


def run_call(c):
    for k in ENV_KEYS:
        os.environ.pop(k, None)
    for k, v in c['env'].items():
        os.environ[k] = v
    kw = dict(c['kwargs'])
    args = {}
    st = c.get('store') or {k: c.get('dtype', 'i4') for k in ('plate', 'mjd', 'fiber')}
    watch = []
    key = c.get('reuse')
    if key is not None and key in POOL:
        # the SAME objects as in an earlier call of this process, refilled in place by their owner (x[:] = new values)
        objs, watch = POOL[key]
        for name in ('mjd', 'fiber', 'plate'):
            if c.get(name) is not None and 'a' in c[name]:
                objs[name][:] = [int(v) for v in c[name]['a']]
            elif c.get(name) is not None:
                objs[name] = make_arg(c[name], st.get(name))[0]
    else:
        objs = {}
        for name in ('mjd', 'fiber', 'plate'):
            if c.get(name) is not None:
                objs[name], w = make_arg(c[name], st.get(name))
                watch += w
        if key is not None:
            POOL[key] = (objs, watch)
    plate = objs['plate']
    args = {k: v for k, v in objs.items() if k != 'plate'}
    snaps = [snap(o) for o in watch]
    del OPENED[:]
    g_before = global_state()
    try:
        r = readspec(plate, **args, **kw)
    except Exception as e:  # noqa: BLE001 - the error class is the observation
        return {'err': type(e).__name__, 'msg': str(e)[:200], 'opened': list(OPENED),
                'globals_changed': state_diff(g_before, global_state(), 'readspec call'),
                'inputs_untouched': all(unchanged(o, s_) for o, s_ in zip(watch, snaps))}
    out = {'keys': sorted(r.keys()), 'arrays': [], 'names': [], 'bad': [], 'dtypes': [], 'opened': list(OPENED),
           'globals_changed': state_diff(g_before, global_state(), 'readspec call')}
    # caller-owned arguments bit-identical; the result shares no memory with them nor with earlier results,
    # and earlier results still hold what they held
    lv = leaves(r)
    out['inputs_untouched'] = all(unchanged(o, s_) for o, s_ in zip(watch, snaps))
    arrs = [o for o in watch if isinstance(o, np.ndarray)]
    out['aliases_input'] = sorted(n for n, a in lv.items() if any(np.may_share_memory(a, o) and np.shares_memory(a, o) for o in arrs))
    out['aliases_earlier'] = sorted(n for n, a in lv.items() for pl, _ in PREV
                                    if any(np.may_share_memory(a, o) and np.shares_memory(a, o) for o in pl.values()))
    out['earlier_changed'] = sorted(n for pl, cp in PREV for n, a in pl.items()
                                    if a.shape != cp[n].shape or a.tobytes() != cp[n].tobytes())
    PREV.append((lv, {n: a.copy() for n, a in lv.items()}))
    del PREV[:-2]

    max_rows = int(c.get('max_rows', 1 << 30))

    def put(name, a, scale=1):
        # a result with more rows than requests is wrong whatever the rows hold: keep the evidence bounded
        out.setdefault('nrows', []).append(int(np.asarray(a).shape[0]))
        rows = to_int_rows(np.asarray(a)[:max_rows], scale)
        if rows is None:
            out['bad'].append(name)
            rows = []
        out['names'].append(name)
        out['arrays'].append(rows)
        dt = np.asarray(a).dtype
        out['dtypes'].append('%s%d' % (dt.kind, dt.itemsize))

    for k in ('flux', 'invvar', 'andmask', 'ormask', 'disp', 'sky'):
        if k in r:
            put(k, r[k])
        else:
            out['bad'].append('missing:' + k)
    if 'loglam' in r:
        put('loglam', r['loglam'], SCALE)
    for grp in ('plugmap', 'tsobj', 'zans'):
        if grp in r:
            for cname in c['columns'].get(grp, list(r[grp].keys())):
                if cname in r[grp]:
                    put(grp + '.' + cname, r[grp][cname])
                else:
                    out['bad'].append('missing:%s.%s' % (grp, cname))
            extra = [cn for cn in r[grp].keys() if cn not in c['columns'].get(grp, [])]
            if extra:
                out['bad'].append('extra:%s:%s' % (grp, ','.join(extra)))
    out['groups'] = [g for g in ('plugmap', 'tsobj', 'zans') if g in r]
    out['flux_dtype'] = str(r['flux'].dtype) if 'flux' in r else None
    return out


def call_append(a, b, shift, kwshift):
    if shift is None:
        return spec_append(a, b)
    if kwshift:
        return spec_append(a, b, pixshift=shift)
    return spec_append(a, b, shift)


def oversized(r, a, b, shift):
    """an answer larger than any right answer is wrong whatever it holds: do not serialise it (keeps the evidence bounded)"""
    return r.shape[0] > a.shape[0] + b.shape[0] + 2 or r.shape[1] > a.shape[1] + b.shape[1] + abs(int(shift or 0)) + 8


def img_rows(r):
    return to_int_rows(r) if r.ndim == 2 and r.shape[1] > 0 else [[] for _ in range(r.shape[0])]


def run_append(c):
    a, abase = make_img(c['a'], c.get('a_store') or c.get('dtype', 'i8'))
    b, bbase = make_img(c['b'], c.get('b_store') or c.get('dtype', 'i8'))
    sa, sb = snap(abase), snap(bbase)
    try:
        with warnings.catch_warnings():
            warnings.simplefilter('ignore')
            r = call_append(a, b, make_shift(c.get('shift'), c.get('shift_store')), c.get('kwshift'))
    except Exception as e:  # noqa: BLE001
        return {'err': type(e).__name__, 'msg': str(e)[:200]}
    if not isinstance(r, np.ndarray) or r.ndim != 2:
        return {'err': 'NotA2dArray', 'msg': repr(type(r))}
    if oversized(r, a, b, c.get('shift')):
        return {'err': 'OversizedOutput', 'msg': 'shape %s' % (r.shape,)}
    rows = img_rows(r)
    if rows is None:
        return {'err': 'NonIntegerOutput', 'msg': str(r.dtype)}
    return {'ok': rows, 'dtype': str(r.dtype), 'same_dtype': bool(r.dtype == a.dtype),
            'inputs_untouched': bool(unchanged(abase, sa) and unchanged(bbase, sb)),
            'aliases_input': bool(np.shares_memory(r, abase) or np.shares_memory(r, bbase))}


def run_append_history(h):
    """a pool of caller-owned arrays; every operation appends two pool members (inputs or earlier results) and stores the
    result in the pool: all other pool members must stay bit-identical and the result must not share memory with them"""
    pool, bases = {}, {}
    for name, spec in h['pool'].items():
        pool[name], bases[name] = make_img(spec['rows'], spec['store'])
    out = []
    for op in h['ops']:
        if op['a'] not in pool or op['b'] not in pool:
            out.append({'err': 'Skipped', 'msg': 'an earlier operation failed'})
            continue
        snaps = {n: snap(x) for n, x in bases.items()}
        try:
            with warnings.catch_warnings():
                warnings.simplefilter('ignore')
                r = call_append(pool[op['a']], pool[op['b']], make_shift(op.get('shift'), op.get('shift_store')), op.get('kwshift'))
        except Exception as e:  # noqa: BLE001
            out.append({'err': type(e).__name__, 'msg': str(e)[:200]})
            continue
        if isinstance(r, np.ndarray) and r.ndim == 2 and oversized(r, pool[op['a']], pool[op['b']], op.get('shift')):
            out.append({'err': 'OversizedOutput', 'msg': 'shape %s' % (r.shape,)})
            continue
        if not isinstance(r, np.ndarray) or r.ndim != 2 or img_rows(r) is None:
            out.append({'err': 'BadOutput', 'msg': repr(type(r))})
            continue
        out.append({'ok': img_rows(r), 'dtype': str(r.dtype), 'same_dtype': bool(r.dtype == pool[op['a']].dtype),
                    'pool_changed': sorted(n for n, x in bases.items() if not unchanged(x, snaps[n])),
                    'aliases_pool': sorted(n for n, x in bases.items() if np.shares_memory(r, x))})
        pool[op['out']] = bases[op['out']] = r
    return out


def run_specpath(c):
    for k in ENV_KEYS:
        os.environ.pop(k, None)
    for k, v in c['env'].items():
        os.environ[k] = v
    plate = conv(c['plate'], c.get('dtype', 'i4'))
    try:
        r = spec_path(plate, **c['kwargs'])
    except Exception as e:  # noqa: BLE001
        return {'err': type(e).__name__, 'msg': str(e)[:200]}
    return {'ok': [str(x) for x in r]}


NP_OF = {'I8': 'i1', 'I16': 'i2', 'I32': 'i4', 'I64': 'i8', 'U8': 'u1', 'U16': 'u2', 'U32': 'u4', 'U64': 'u8'}
ITY_OF = {np.dtype(v).str.lstrip('<>|='): k for k, v in NP_OF.items()}
BINOPS = {'OAdd': lambda a, b: a + b, 'OSub': lambda a, b: a - b, 'OMul': lambda a, b: a * b,
          'OShl': lambda a, b: a << b, 'OShr': lambda a, b: a >> b, 'OAnd': lambda a, b: a & b}


def typed_eval(t, env):
    """a typed expression tree of translate/c16.py evaluated by NumPy on one-element arrays / Python ints"""
    k = t[0]
    if k in ('arr', 'int'):
        dt, v = env[t[1]]
        return int(v) if dt is None else np.array([int(v)], dtype=NP_OF[dt])
    if k == 'lit':
        return int(t[1])
    if k == 'cast':
        return np.array(typed_eval(t[2], env), dtype=NP_OF[t[1]])
    return BINOPS[t[1]](typed_eval(t[2], env), typed_eval(t[3], env))


def run_typed(c):
    try:
        with warnings.catch_warnings():
            warnings.simplefilter('ignore')
            r = typed_eval(c['tree'], c['env'])
    except Exception as e:  # noqa: BLE001
        return {'err': type(e).__name__, 'msg': str(e)[:200]}
    if isinstance(r, np.ndarray):
        name = r.dtype.str.lstrip('<>|=')
        if name not in ITY_OF:
            return {'err': 'Dtype', 'msg': str(r.dtype)}
        return {'ok': [ITY_OF[name], int(r.reshape(-1)[0])]}
    return {'ok': [None, int(r)]}


def main():
    payload = json.load(sys.stdin)
    warnings.simplefilter('ignore')     # once, for the whole process (a per-call catch_warnings would undo, and so hide,
    #                                     filters installed by the code under test)
    results = []
    for job in payload['jobs']:
        if job['kind'] == 'scenario':
            for t in job['trees']:
                build_tree(t)
            rs = []
            for c in job['calls']:
                for t in c.get('build_first') or []:   # a file that appears between two calls
                    build_tree(t)
                rs.append(run_call(c))
            results.append(rs)
        elif job['kind'] == 'append_history':
            results.append([run_append_history(h) for h in job['histories']])
        elif job['kind'] == 'typed':
            results.append([run_typed(c) for c in job['cases']])
        elif job['kind'] == 'specpath':
            results.append([run_specpath(c) for c in job['cases']])
        else:
            results.append([run_append(c) for c in job['cases']])
    json.dump({'pydl_file': pydl.__file__, 'results': results, 'import_changes': IMPORT_CHANGES,
               'global_state': global_state()}, _real_stdout)


if __name__ == '__main__':
    main()
