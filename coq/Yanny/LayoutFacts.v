(* Yanny/LayoutFacts.v -- one lemma per syntactic freedom of the format, at the level it acts on
   (token, line, or the pre-passes over the whole text). *)
From Coq Require Import NArith ZArith List Bool Lia.
Import ListNotations.
From PV Require Import Yanny.Bytes Yanny.BytesFacts Yanny.Types Yanny.Parse Yanny.Render
  Yanny.TokenFacts Yanny.RowFacts Yanny.TypeFacts Yanny.DocFacts.
Open Scope N_scope.

(* ---------------------------------------------------------------- white space between tokens *)
Theorem get_token_ws_indep s w1 w2 rest :
  tok_ok s = true -> w1 <> [] -> all_ws w1 = true -> w2 <> [] -> all_ws w2 = true -> head_not_ws rest ->
  get_token (protect s ++ w1 ++ rest) = get_token (protect s ++ w2 ++ rest).
Proof. intros. rewrite !protect_token_sep; auto. Qed.

(* ---------------------------------------------------------------- bare = quoted = braced *)
Definition bare_adm (s : bytes) : bool := negb (needs_quote s) && tok_ok s.
Definition brace_adm (s : bytes) : bool :=
  negb (mem RBRACE s) && match s with c :: _ => negb (is_ws c) | [] => true end.

Lemma get_token_braced lead s w rest :
  all_ws lead = true -> brace_adm s = true -> all_ws w = true -> head_not_ws rest ->
  get_token (LBRACE :: lead ++ s ++ RBRACE :: w ++ rest) = Some (s, rest).
Proof.
  intros Hl Hs Hw Hr. unfold brace_adm in Hs. apply andb_true_iff in Hs as [Hb Hh]. apply negb_true_iff in Hb.
  cbn [get_token]. change (LBRACE =? QUOTE) with false. change (LBRACE =? LBRACE) with true. cbv iota.
  rewrite lstrip_ws_app_id; auto.
  - rewrite span_app_stop.
    + now rewrite lstrip_ws_app_id.
    + apply mem_false_forallb in Hb. eapply forallb_impl; [|exact Hb]. auto.
    + unfold not_c. now rewrite N.eqb_refl.
  - destruct s as [|c s]; cbn [app head_not_ws]; [reflexivity|]. now apply negb_true_iff.
Qed.

Theorem get_token_quote_forms s lead w rest :
  bare_adm s = true -> brace_adm s = true -> all_ws lead = true -> w <> [] -> all_ws w = true -> head_not_ws rest ->
  get_token (s ++ w ++ rest) = Some (s, rest) /\
  get_token (QUOTE :: s ++ QUOTE :: w ++ rest) = Some (s, rest) /\
  get_token (LBRACE :: lead ++ s ++ RBRACE :: w ++ rest) = Some (s, rest).
Proof.
  intros Hb Hbr Hl Hwn Hw Hr. unfold bare_adm in Hb. apply andb_true_iff in Hb as [Hq Hok]. apply negb_true_iff in Hq.
  split; [|split].
  - pose proof (protect_token_sep s w rest Hok Hwn Hw Hr) as H. rewrite protect_bare in H by auto. exact H.
  - destruct (tok_ok_head s Hok) as [Hnq _]. rewrite get_token_quoted by auto. now rewrite lstrip_ws_app_id.
  - now apply get_token_braced.
Qed.

(* the empty string: two quotes, empty braces, or the empty double brace (rewritten to two quotes first) *)
Theorem empty_string_forms w rest : all_ws w = true -> head_not_ws rest ->
  get_token (QUOTE :: QUOTE :: w ++ rest) = Some ([], rest) /\
  get_token (LBRACE :: RBRACE :: w ++ rest) = Some ([], rest).
Proof.
  intros Hw Hr. split.
  - pose proof (get_token_quoted [] (w ++ rest) eq_refl) as H. cbn [app] in H. rewrite H. now rewrite lstrip_ws_app_id.
  - pose proof (get_token_braced [] [] w rest eq_refl eq_refl Hw Hr) as H. exact H.
Qed.

Lemma match_dbl_empty w1 w2 w3 r : all_ws w1 = true -> all_ws w2 = true -> all_ws w3 = true ->
  match_dbl (LBRACE :: w1 ++ LBRACE :: w2 ++ RBRACE :: w3 ++ RBRACE :: r) = Some r.
Proof.
  intros H1 H2 H3. unfold match_dbl. change (LBRACE =? LBRACE) with true. cbv iota.
  rewrite lstrip_ws_app_id by (auto; reflexivity). change (LBRACE =? LBRACE) with true. cbv iota.
  rewrite lstrip_ws_app_id by (auto; reflexivity). change (RBRACE =? RBRACE) with true. cbv iota.
  rewrite lstrip_ws_app_id by (auto; reflexivity). change (RBRACE =? RBRACE) with true. reflexivity.
Qed.

Lemma dbl_skip a : forall r, dbl_aux 0 (length a) (a ++ r) = dbl_aux 0 0 r.
Proof. induction a as [|c a IH]; intros r; [reflexivity|]. cbn [length app dbl_aux]. apply IH. Qed.

(* where a value can start, the empty double brace is read as the empty string *)
Theorem double_brace_is_empty_string w1 w2 w3 r : all_ws w1 = true -> all_ws w2 = true -> all_ws w3 = true ->
  dbl_aux 0 0 (LBRACE :: w1 ++ LBRACE :: w2 ++ RBRACE :: w3 ++ RBRACE :: r) = QUOTE :: QUOTE :: dbl_aux 0 0 r.
Proof.
  intros H1 H2 H3. cbn [dbl_aux]. change (LBRACE =? QUOTE) with false. change (is_ws LBRACE) with false.
  change (LBRACE =? LBRACE) with true. cbn [andb negb]. cbv iota.
  rewrite match_dbl_empty by auto. f_equal. f_equal.
  set (m := w1 ++ LBRACE :: w2 ++ RBRACE :: w3 ++ [RBRACE]).
  replace (w1 ++ LBRACE :: w2 ++ RBRACE :: w3 ++ RBRACE :: r) with (m ++ r).
  - replace (length (m ++ r) - length r)%nat with (length m) by (rewrite app_length; lia). apply dbl_skip.
  - subst m. rewrite <- !app_assoc. cbn [app]. rewrite <- !app_assoc. cbn [app]. rewrite <- !app_assoc. reflexivity.
Qed.

(* ---------------------------------------------------------------- trailing comments *)
Lemma count_app c a b : count c (a ++ b) = (count c a + count c b)%nat.
Proof. unfold count. now rewrite filter_app, app_length. Qed.

Theorem trailing_comment_strips line w c :
  last_not_ws line -> all_ws w = true -> mem HASH c = false -> Nat.even (count QUOTE c) = true ->
  trailing_comment (line ++ w ++ HASH :: c) = line.
Proof.
  intros Hl Hw Hh Hq. unfold trailing_comment. rewrite app_assoc. rewrite rsplit_at_last by auto.
  assert (E : count QUOTE (HASH :: c) = count QUOTE c) by reflexivity.
  rewrite E, Hq. rewrite rstrip_app_ws by auto. now apply rstrip_id.
Qed.

(* ---------------------------------------------------------------- blank and comment lines *)
Theorem blank_and_comment_lines_skipped sy st l :
  all_ws l = true \/ starts_with [HASH] (lstrip l) = true -> process_line sy st l = Some st.
Proof.
  intros H. unfold process_line. assert (E : skip_line l = true).
  { unfold skip_line. destruct l; auto. destruct H as [-> | ->]; auto. apply orb_true_r. }
  now rewrite E.
Qed.

(* ---------------------------------------------------------------- CRLF *)
Lemma all_ws_app a b : all_ws (a ++ b) = all_ws a && all_ws b.
Proof. apply forallb_app. Qed.

Lemma lstrip_app_not_all_ws l r : all_ws l = false -> lstrip (l ++ r) = lstrip l ++ r.
Proof.
  induction l as [|c l IH]; [discriminate|]. cbn [all_ws forallb app lstrip]. destruct (is_ws c); auto.
Qed.

Lemma lstrip_all_ws l : all_ws l = true -> lstrip l = [].
Proof. intros H. rewrite <- (app_nil_r l). now rewrite lstrip_ws_app. Qed.

(* binary file objects keep the CR of a CRLF line end; it never changes what a line means *)
Theorem crlf_line_indep sy st l : process_line sy st (l ++ [CR]) = process_line sy st l.
Proof.
  unfold process_line.
  assert (Hs : skip_line (l ++ [CR]) = skip_line l).
  { unfold skip_line. destruct l as [|c l]; [reflexivity|]. cbn [app].
    change (c :: l ++ [CR]) with ((c :: l) ++ [CR]). rewrite all_ws_app. change (all_ws [CR]) with true. rewrite andb_true_r.
    destruct (all_ws (c :: l)) eqn:E.
    - now rewrite !orb_true_r.
    - rewrite lstrip_app_not_all_ws by auto. rewrite !orb_false_r.
      destruct (lstrip (c :: l)) eqn:F; [|unfold starts_with; cbn [app prefix]; destruct (HASH =? n); reflexivity].
      exfalso. clear -E F. induction (c :: l) as [|x t IH]; [discriminate|].
      cbn [all_ws forallb lstrip] in *. destruct (is_ws x); [auto|discriminate]. }
  rewrite Hs. unfold clean_line, strip. now rewrite rstrip_app_ws.
Qed.

Lemma univ_nl_crlf l r : mem CR l = false -> univ_nl (l ++ CR :: NL :: r) = l ++ NL :: univ_nl r.
Proof.
  induction l as [|c l IH]; intros H.
  - reflexivity.
  - apply mem_cons_false in H as [Hc Hl]. cbn [app univ_nl]. rewrite Hc. now rewrite IH.
Qed.
Lemma univ_nl_id s : mem CR s = false -> univ_nl s = s.
Proof.
  induction s as [|c s IH]; intros H; [reflexivity|]. apply mem_cons_false in H as [Hc Hs].
  cbn [univ_nl]. rewrite Hc. now rewrite IH.
Qed.

(* ---------------------------------------------------------------- continuation lines *)
Lemma join_cont_skip a : forall r, join_cont_aux (length a) (a ++ r) = join_cont_aux 0 r.
Proof. induction a as [|c a IH]; intros r; [reflexivity|]. cbn [length app join_cont_aux]. apply IH. Qed.

Lemma join_cont_copy a : forall r, mem BSL a = false -> join_cont_aux 0 (a ++ r) = a ++ join_cont_aux 0 r.
Proof.
  induction a as [|c a IH]; intros r H; [reflexivity|]. apply mem_cons_false in H as [Hc Ha].
  cbn [app join_cont_aux]. rewrite Hc. now rewrite IH.
Qed.

Lemma last_nl_app_nl w1 w2 : mem NL w2 = false -> last_nl (w1 ++ NL :: w2) = Some (S (length w1)).
Proof.
  intros H2. assert (E : last_nl w2 = None).
  { induction w2 as [|c w IH]; [reflexivity|]. apply mem_cons_false in H2 as [Hc Hw]. cbn [last_nl]. now rewrite IH, Hc. }
  induction w1 as [|c w1 IH]; cbn [app last_nl length].
  - now rewrite E, N.eqb_refl.
  - now rewrite IH.
Qed.

Lemma ws_no_bsl w : all_ws w = true -> mem BSL w = false.
Proof.
  intros H. apply mem_false_forallb. eapply forallb_impl; [|exact H]. intros x Hx.
  apply negb_true_iff. apply N.eqb_neq. intros ->. discriminate.
Qed.

(* a backslash, optional blanks, the line end and the next line's indentation read as one blank *)
Theorem continuation_join a w1 w2 b :
  mem BSL a = false -> all_ws w1 = true -> all_ws w2 = true -> mem NL w2 = false -> head_not_ws b ->
  join_cont (a ++ BSL :: w1 ++ NL :: w2 ++ b) = a ++ SP :: w2 ++ join_cont b.
Proof.
  intros Ha H1 H2 Hn Hb. unfold join_cont. rewrite join_cont_copy by auto. f_equal.
  cbn [join_cont_aux]. change (BSL =? BSL) with true. cbv iota.
  assert (E : fst (span is_ws (w1 ++ NL :: w2 ++ b)) = w1 ++ NL :: w2).
  { replace (w1 ++ NL :: w2 ++ b) with ((w1 ++ NL :: w2) ++ b) by (rewrite <- app_assoc; reflexivity).
    assert (Hw : forallb is_ws (w1 ++ NL :: w2) = true).
    { rewrite forallb_app. cbn [forallb]. change (is_ws NL) with true. unfold all_ws in *. now rewrite H1, H2. }
    destruct b as [|x b].
    - rewrite app_nil_r. now rewrite span_all.
    - rewrite span_app_stop; auto. }
  rewrite E. rewrite last_nl_app_nl by auto. f_equal.
  replace (w1 ++ NL :: w2 ++ b) with ((w1 ++ [NL]) ++ w2 ++ b) by (rewrite <- app_assoc; reflexivity).
  replace (S (length w1)) with (length (w1 ++ [NL])) by (rewrite app_length; simpl; lia).
  rewrite join_cont_skip. apply join_cont_copy. now apply ws_no_bsl.
Qed.

Lemma join_cont_id s : mem BSL s = false -> join_cont s = s.
Proof. intros H. unfold join_cont. rewrite <- (app_nil_r s) at 1. rewrite join_cont_copy by auto. now rewrite app_nil_r. Qed.

(* ---------------------------------------------------------------- case of the table name on a data row *)
Theorem rowname_case_indep sy st n1 n2 cols r :
  n1 <> [] -> n2 <> [] -> forallb is_word n1 = true -> forallb is_word n2 = true -> upper n1 = upper n2 ->
  assoc (upper n1) sy = Some cols -> row_fits cols r = true ->
  process_line sy st (render_row_line n1 r) = process_line sy st (render_row_line n2 r).
Proof.
  intros H1 H2 W1 W2 E Hsy Hr.
  rewrite (row_line_roundtrip sy st n1 cols r); auto.
  rewrite (row_line_roundtrip sy st n2 cols r); auto; rewrite <- E; auto.
Qed.

(* ---------------------------------------------------------------- rows of different tables commute *)
Lemma assoc_app_comm {A} (a b : bytes) (x y : A) l : beq a b = false ->
  assoc_app a x (assoc_app b y l) = assoc_app b y (assoc_app a x l).
Proof.
  intros Hab. induction l as [|[k v] l IH]; [reflexivity|]. cbn [assoc_app].
  destruct (beq b k) eqn:Eb, (beq a k) eqn:Ea; cbn [assoc_app]; rewrite ?Ea, ?Eb; auto.
  - apply beq_eq in Eb, Ea. subst. rewrite beq_refl in Hab. discriminate.
  - now rewrite IH.
Qed.

Theorem interleaving_indep sy st n1 c1 r1 n2 c2 r2 :
  n1 <> [] -> n2 <> [] -> forallb is_word n1 = true -> forallb is_word n2 = true ->
  beq (upper n1) (upper n2) = false ->
  assoc (upper n1) sy = Some c1 -> row_fits c1 r1 = true -> assoc (upper n2) sy = Some c2 -> row_fits c2 r2 = true ->
  process_lines sy st [render_row_line n1 r1; render_row_line n2 r2]
  = process_lines sy st [render_row_line n2 r2; render_row_line n1 r1].
Proof.
  intros. cbn [process_lines].
  rewrite (row_line_roundtrip sy st n1 c1 r1); auto.
  rewrite (row_line_roundtrip sy st n2 c2 r2); auto.
  rewrite (row_line_roundtrip sy _ n2 c2 r2); auto.
  rewrite (row_line_roundtrip sy _ n1 c1 r1); auto.
  cbn [st_pairs st_rows]. rewrite (assoc_app_comm (upper n1) (upper n2)) by assumption. reflexivity.
Qed.

(* ---------------------------------------------------------------- [n] and legacy <n> *)
Lemma normalise_digits s : forallb is_digit s = true -> normalise_array s = s.
Proof.
  induction s as [|c s IH]; [reflexivity|]. cbn [forallb normalise_array map]. intros H. apply andb_true_iff in H as [Hc Hs].
  fold (normalise_array s). rewrite IH by auto. f_equal.
  assert (c =? LT = false) as -> by (apply N.eqb_neq; intros ->; discriminate).
  assert (c =? GT = false) as -> by (apply N.eqb_neq; intros ->; discriminate). reflexivity.
Qed.

Lemma last_close_semi_cons x y l : last_close_semi (x :: y :: l) =
  match last_close_semi (y :: l) with Some p => Some (x :: p) | None => if is_close x && (y =? SEMI) then Some [x] else None end.
Proof. reflexivity. Qed.

Lemma last_close_semi_simple a c : is_close c = true -> forallb (fun x => negb (is_close x)) a = true ->
  last_close_semi (a ++ [c; SEMI]) = Some (a ++ [c]).
Proof.
  intros Hc. induction a as [|x a IH]; intros Ha.
  - cbn [app last_close_semi]. rewrite Hc. reflexivity.
  - cbn [forallb] in Ha. apply andb_true_iff in Ha as [Hx Ha]. cbn [app].
    destruct (a ++ [c; SEMI]) as [|d t] eqn:E; [destruct a; discriminate|].
    rewrite last_close_semi_cons. rewrite IH by auto. reflexivity.
Qed.

Theorem legacy_array_notation var n rest :
  check_decl var (var ++ LT :: show_N n ++ GT :: SEMI :: NL :: rest) = Some (LT :: show_N n ++ [GT]) /\
  check_decl var (var ++ brack n ++ SEMI :: NL :: rest) = Some (brack n) /\
  normalise_array (LT :: show_N n ++ [GT]) = brack n /\ normalise_array (brack n) = brack n.
Proof.
  assert (Hd : forallb (fun x => negb (is_close x)) (show_N n) = true).
  { eapply forallb_impl; [|apply show_N_digits]. intros x Hx. apply negb_true_iff.
    destruct (is_close x) eqn:E; auto. exfalso. nclass. }
  assert (Hnl : forall o c, forallb (not_c NL) (o :: show_N n ++ [c; SEMI]) = true \/ True) by (intros; now right).
  assert (G : forall o c, is_open o = true -> is_close c = true -> (o =? SEMI) = false -> is_close o = false ->
             (o =? NL) = false -> (c =? NL) = false ->
             check_decl var (var ++ o :: show_N n ++ c :: SEMI :: NL :: rest) = Some (o :: show_N n ++ [c])).
  { intros o c Ho Hc Hs Hoc Hon Hcn. unfold check_decl. rewrite prefix_app. rewrite Hs, Ho.
    replace (o :: show_N n ++ c :: SEMI :: NL :: rest) with ((o :: show_N n ++ [c; SEMI]) ++ NL :: rest)
      by (cbn [app]; rewrite <- app_assoc; reflexivity).
    rewrite span_app_stop.
    - cbn [fst]. change (o :: show_N n ++ [c; SEMI]) with ((o :: show_N n) ++ [c; SEMI]).
      rewrite last_close_semi_simple; auto.
      cbn [forallb]. rewrite Hoc. exact Hd.
    - cbn [forallb]. unfold not_c at 1. rewrite Hon. cbn [negb andb]. rewrite forallb_app. cbn [forallb].
      unfold not_c at 2 3. rewrite Hcn. change (SEMI =? NL) with false. cbn [negb andb]. rewrite andb_true_r.
      eapply forallb_impl; [|apply show_N_digits]. intros x Hx. unfold not_c. apply negb_true_iff.
      apply N.eqb_neq. intros ->. discriminate.
    - unfold not_c. now rewrite N.eqb_refl. }
  split; [apply G; reflexivity|]. split.
  - unfold brack. cbn [app]. rewrite <- app_assoc. cbn [app]. apply G; reflexivity.
  - unfold brack. split.
    + cbn [normalise_array map]. fold (normalise_array (show_N n ++ [GT])). unfold normalise_array. rewrite map_app.
      fold (normalise_array (show_N n)). rewrite normalise_digits by apply show_N_digits. reflexivity.
    + cbn [normalise_array map]. fold (normalise_array (show_N n ++ [RBRACK])). unfold normalise_array. rewrite map_app.
      fold (normalise_array (show_N n)). rewrite normalise_digits by apply show_N_digits. reflexivity.
Qed.

(* the column name is found under either notation *)
Lemma cut_array_brackets name o c mid : forallb is_word name = true -> is_open o = true -> is_close c = true ->
  cut_array (name ++ o :: mid ++ [c]) = name.
Proof.
  intros Hw Ho Hc. unfold cut_array, last_byte.
  replace (name ++ o :: mid ++ [c]) with ((name ++ o :: mid) ++ [c]) by (rewrite <- app_assoc; reflexivity).
  rewrite rev_app_distr. cbn [rev app]. rewrite Hc. rewrite <- app_assoc. cbn [app].
  rewrite span_app_stop.
  - destruct mid; reflexivity.
  - eapply forallb_impl; [|exact Hw]. intros x Hx. apply negb_true_iff. destruct (is_open x) eqn:E; auto. exfalso. nclass.
  - now rewrite Ho.
Qed.

(* ---------------------------------------------------------------- char[] columns *)
Definition T_CHAR_UNSIZED : bytes := Eval compute in (KW_CHAR ++ [LBRACK; RBRACK]).

Theorem char_unsized_width enums v vs :
  col_dtype enums T_CHAR_UNSIZED (v :: vs)
  = Some (NS (N.of_nat (fold_right (fun c m => Nat.max (cell_maxlen c) m) O (v :: vs))), None).
Proof. reflexivity. Qed.

Theorem char_unsized_needs_a_row enums : col_dtype enums T_CHAR_UNSIZED [] = None.
Proof. reflexivity. Qed.

(* ---------------------------------------------------------------- enum columns *)
Theorem enum_reads_as_label enums typ labels values :
  assoc_last (basetype typ) enums = Some labels -> beq (basetype typ) KW_CHAR = false -> isarray typ = false ->
  classify typ = KOther ->
  col_dtype enums typ values = Some (NS (N.of_nat (maxlen labels)), None) /\ (forall t, conv1 (classify typ) t = Some (STok t)).
Proof.
  intros He Hc Ha Hk. split.
  - unfold col_dtype. now rewrite Hc, He, Ha.
  - intros t. now rewrite Hk.
Qed.

(* ---------------------------------------------------------------- typedef chosen by its own name *)
Fixpoint names_distinct (l : list (bytes * bytes * bytes)) : bool :=
  match l with [] => true | e :: l' => negb (existsb (fun e' => beq (fst (fst e')) (fst (fst e))) l') && names_distinct l' end.

Lemma filter_none name (l : list (bytes * bytes * bytes)) :
  existsb (fun e' => beq (fst (fst e')) name) l = false -> filter (fun e => beq (fst (fst e)) name) l = [].
Proof.
  induction l as [|e l IH]; [reflexivity|]. cbn [existsb filter]. intros H. apply orb_false_iff in H as [H1 H2].
  rewrite H1. auto.
Qed.

Theorem struct_name_lookup_exact structs name body text :
  names_distinct structs = true -> In (name, body, text) structs -> lookup_def name structs = Some text.
Proof.
  unfold lookup_def. induction structs as [|e l IH]; [contradiction|]. cbn [names_distinct]. intros Hd Hin.
  apply andb_true_iff in Hd as [Hn Hd]. apply negb_true_iff in Hn. destruct Hin as [->|Hin].
  - cbn [filter fst snd]. rewrite beq_refl. now rewrite filter_none.
  - cbn [filter]. destruct (beq (fst (fst e)) name) eqn:E.
    + exfalso. apply beq_eq in E. subst name.
      assert (X : existsb (fun e' => beq (fst (fst e')) (fst (fst e))) l = true).
      { apply existsb_exists. exists (fst (fst e), body, text). split; auto. apply beq_refl. }
      congruence.
    + now apply IH.
Qed.

(* ---------------------------------------------------------------- raw mode *)
Theorem raw_mode_same_values k v v' : conv_sval k v = Some v' ->
  v' = v \/ exists w t, k = NS w /\ v = STok t /\ v' = STok (firstn (N.to_nat w) t).
Proof.
  destruct k, v as [z|t]; cbn [conv_sval]; try discriminate; intros H;
    try (destruct (in_range _ z); inversion H; now left); try (inversion H; now left).
  inversion H. right. eauto.
Qed.

Theorem raw_mode_is_the_first_stage s : parse_text s = obind (parse_text_raw s) to_records.
Proof. reflexivity. Qed.

(* ---------------------------------------------------------------- decoration of a whole line *)
(* what a line means depends only on skip_line and clean_line *)
Lemma process_line_ext sy st l l' : skip_line l = skip_line l' -> clean_line l = clean_line l' ->
  process_line sy st l = process_line sy st l'.
Proof. intros H1 H2. unfold process_line. now rewrite H1, H2. Qed.

Lemma rstrip_app_nonws x c y : is_ws c = false -> rstrip (x ++ c :: y) = x ++ c :: rstrip y.
Proof.
  intros Hc. induction x as [|a x IH]; cbn [app rstrip].
  - destruct (rstrip y); [now rewrite Hc|reflexivity].
  - rewrite IH. destruct x; reflexivity.
Qed.

Lemma rstrip_decomp s : exists w, all_ws w = true /\ s = rstrip s ++ w.
Proof.
  induction s as [|x s [w [Hw E]]]; [exists []; auto|]. cbn [rstrip]. destruct (rstrip s) as [|y r] eqn:R.
  - destruct (is_ws x) eqn:Hx.
    + exists (x :: w). cbn [all_ws forallb app]. unfold all_ws in Hw. rewrite Hx, Hw. split; auto. now rewrite E at 1.
    + exists w. split; auto. cbn [app]. now rewrite E at 1.
  - exists w. split; auto. cbn [app]. now rewrite E at 1.
Qed.

Lemma rstrip_mem c s : mem c s = false -> mem c (rstrip s) = false.
Proof.
  intros H. destruct (rstrip_decomp s) as [w [_ E]]. rewrite E, mem_app in H. now apply orb_false_iff in H as [H _].
Qed.

Lemma count_quote_ws w : all_ws w = true -> count QUOTE w = O.
Proof.
  induction w as [|x w IH]; [reflexivity|]. cbn [all_ws forallb]. intros H. apply andb_true_iff in H as [Hx Hw].
  unfold count in *. cbn [filter]. assert (QUOTE =? x = false) as -> by (apply N.eqb_neq; intros <-; discriminate).
  now apply IH.
Qed.

Lemma rstrip_count_quote s : count QUOTE (rstrip s) = count QUOTE s.
Proof.
  destruct (rstrip_decomp s) as [w [Hw E]]. pose proof (count_app QUOTE (rstrip s) w) as H. rewrite <- E in H.
  rewrite (count_quote_ws w Hw) in H. lia.
Qed.

Definition comment_text_ok (c : bytes) : bool := negb (mem HASH c) && Nat.even (count QUOTE c).
(* optional trailing comment, optional CR of a CRLF line end (binary reads) *)
Definition tail_of (cmt : option bytes) (cr : bool) : bytes :=
  match cmt with Some c => HASH :: c | None => [] end ++ (if cr then [CR] else []).

(* a core line: what remains after stripping indentation, trailing blanks and a trailing comment *)
Definition core_line (L : bytes) : Prop :=
  L <> [] /\ head_not_ws L /\ match L with c :: _ => (c =? HASH) = false | [] => True end /\
  last_not_ws L /\ trailing_comment L = L.

Theorem line_decoration_indep sy st lead L w cmt cr :
  core_line L -> all_ws lead = true -> all_ws w = true ->
  match cmt with Some c => comment_text_ok c = true | None => True end ->
  process_line sy st (lead ++ L ++ w ++ tail_of cmt cr) = process_line sy st L.
Proof.
  intros [Hn [Hh [Hc [Hl Ht]]]] Hlead Hw Hcmt.
  assert (CR_ : forall X, process_line sy st (X ++ (if cr then [CR] else [])) = process_line sy st X).
  { intros X. destruct cr; [apply crlf_line_indep|now rewrite app_nil_r]. }
  unfold tail_of. rewrite !app_assoc. rewrite CR_. rewrite <- !app_assoc.
  apply process_line_ext.
  - (* neither line is skipped *)
    assert (S1 : skip_line L = false).
    { destruct L as [|x L]; [congruence|]. unfold skip_line. cbn [lstrip all_ws forallb]. cbn [head_not_ws] in Hh. rewrite Hh.
      unfold starts_with. cbn [prefix]. rewrite N.eqb_sym, Hc. reflexivity. }
    rewrite S1. unfold skip_line.
    destruct (lead ++ L ++ w ++ match cmt with Some c => HASH :: c | None => [] end) eqn:E.
    { destruct lead, L; try congruence; discriminate. }
    rewrite <- E. rewrite lstrip_ws_app by auto. rewrite all_ws_app.
    destruct L as [|x L]; [congruence|]. cbn [app lstrip all_ws forallb]. cbn [head_not_ws] in Hh. rewrite Hh.
    cbn [andb]. rewrite andb_false_r. unfold starts_with. cbn [prefix]. rewrite N.eqb_sym, Hc. reflexivity.
  - unfold clean_line. f_equal.
    assert (SL : strip L = L) by (now apply strip_id).
    rewrite SL, Ht. destruct cmt as [c|].
    + unfold strip. replace (lead ++ L ++ w ++ HASH :: c) with ((lead ++ L ++ w) ++ HASH :: c) by (now rewrite <- !app_assoc).
      rewrite rstrip_app_nonws by reflexivity. rewrite <- !app_assoc.
      rewrite lstrip_ws_app_id; [|exact Hlead|destruct L; [congruence|exact Hh]].
      apply andb_true_iff in Hcmt as [H1 H2]. apply negb_true_iff in H1.
      apply trailing_comment_strips; auto.
      * now apply rstrip_mem.
      * now rewrite rstrip_count_quote.
    + rewrite app_nil_r. unfold strip. rewrite app_assoc, rstrip_app_ws by auto. rewrite rstrip_id.
      * rewrite lstrip_ws_app_id; [exact Ht|exact Hlead|exact Hh].
      * apply last_not_ws_app_r; auto.
Qed.

Lemma rstrip_length s : (length (rstrip s) <= length s)%nat.
Proof.
  induction s as [|x s IH]; cbn [rstrip length]; auto.
  destruct (rstrip s); [destruct (is_ws x); cbn [length]; lia|cbn [length] in *; lia].
Qed.
Lemma lstrip_length s : (length (lstrip s) <= length s)%nat.
Proof. induction s as [|x s IH]; cbn [lstrip length]; auto. destruct (is_ws x); cbn [length]; lia. Qed.

(* a rendered data row is a core line *)
Lemma row_is_core_line name r : name <> [] -> forallb is_word name = true -> forallb cell_tok_ok r = true ->
  core_line (render_row_line name r).
Proof.
  intros Hn Hw Hr. pose proof (row_strip_free name r Hn Hw) as Hs.
  assert (Hne : render_row_line name r <> []).
  { rewrite row_line_split. destruct name; [congruence|discriminate]. }
  assert (Hh : head_not_ws (render_row_line name r) /\
               match render_row_line name r with c :: _ => (c =? HASH) = false | [] => True end).
  { rewrite row_line_split. destruct name as [|c name]; [congruence|]. cbn [app head_not_ws].
    cbn [forallb] in Hw. apply andb_true_iff in Hw as [Hc _]. split; [now apply word_not_ws|now apply word_not]. }
  destruct Hh as [Hh1 Hh2]. split; [exact Hne|]. split; [exact Hh1|]. split; [exact Hh2|]. split.
  - (* last_not_ws: from strip being the identity *)
    unfold strip in Hs. unfold last_not_ws. destruct (rev (render_row_line name r)) as [|c t] eqn:E; auto.
    destruct (is_ws c) eqn:Hc; auto. exfalso.
    apply (f_equal (@rev N)) in E. rewrite rev_involutive in E. cbn [rev] in E.
    rewrite E in Hs. rewrite rstrip_app_ws in Hs by (cbn; now rewrite Hc).
    assert (Hlen : (length (lstrip (rstrip (rev t))) <= length (rev t))%nat).
    { pose proof (rstrip_length (rev t)). pose proof (lstrip_length (rstrip (rev t))). lia. }
    rewrite Hs in Hlen. rewrite app_length in Hlen. cbn [length] in Hlen. lia.
  - apply row_comment_free; auto. eapply forallb_impl; [|exact Hr]. apply cell_tok_q.
Qed.

(* comment / blank lines anywhere, every line decorated: the line loop computes the same state *)
Inductive decorates : list bytes -> list bytes -> Prop :=
  | dec_nil : decorates [] []
  | dec_same l Ds Ls : decorates Ds Ls -> decorates (l :: Ds) (l :: Ls)
  | dec_skip l Ds Ls : all_ws l = true \/ starts_with [HASH] (lstrip l) = true -> decorates Ds Ls -> decorates (l :: Ds) Ls
  | dec_line lead L w cmt cr Ds Ls :
      core_line L -> all_ws lead = true -> all_ws w = true ->
      match cmt with Some c => comment_text_ok c = true | None => True end ->
      decorates Ds Ls -> decorates ((lead ++ L ++ w ++ tail_of cmt cr) :: Ds) (L :: Ls).

Theorem decorated_lines_same_state Ds Ls : decorates Ds Ls -> forall sy st, process_lines sy st Ds = process_lines sy st Ls.
Proof.
  induction 1 as [|l Ds Ls _ IH|l Ds Ls Hl _ IH|lead L w cmt cr Ds Ls Hc Hlead Hw Hcmt _ IH]; intros sy st.
  - reflexivity.
  - cbn [process_lines]. destruct (process_line sy st l); auto.
  - cbn [process_lines]. rewrite blank_and_comment_lines_skipped by auto. apply IH.
  - cbn [process_lines]. rewrite line_decoration_indep by auto. destruct (process_line sy st L); auto.
Qed.
